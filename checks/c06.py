"""C06 — concurrent reads/writes are linearizable; batches become visible atomically.

Decided by: theorems of coq/theories/Conc/Props_C06.v (for ALL schedules the small-step machine
Conc/KvsConc.v of KeyValueStore::write / load / range_scan / _memtable_thread refines the atomic
snapshot store Conc/Spec.v), tied to the code by recorded multi-threaded runs of the real store:
every run's totally ordered hook trace must be accepted label by label by the extracted machine
and by the extracted atomic store, and the recorded invocation/response history is checked
directly (independently of the model) for per-key linearizability and batch atomicity."""
import concurrent.futures
import json
import os
import shutil
import subprocess

import vlib

META = {
    "category": "proof",
    "text": "Coq theorems (Conc/Props_C06.v, closed under the global context): for every schedule of any number of client threads, the flush thread (rollover handshake through imm_trigger / mem_seq_no and its own wait-list link, version installation) and admissible compactions, the small-step interleaving model of lsmtk's write/load/range_scan refines an atomic multi-key snapshot store: every write (whole batch) takes effect at one instant between invocation and response, every read takes its view at one instant and returns the latest committed write per key (never stale w.r.t. completed writes, never unwritten, monotone), every view holds all or none of a batch, a scan is one snapshot; plus mutual exclusion / wait-list order = sequence order invariants, exclusive log ownership at seal, no duplicate skiplist insert. The code is tied to the model by real multi-threaded runs (2..8 clients + real memtable thread + real compaction threads, seeded yields and forced gate schedules): the recorded hook trace must be accepted step by step by the extracted model and the extracted atomic store, and the invocation/response history is checked by an independent oracle (a consistent cut in sequence order must exist for every read, respecting real time). F6 (batches torn by readers at the last ASSIGNED sequence number) was confirmed on the real code and repaired (70b43d5); the pre-repair machine is kept and proved to tear (C06_batch_atomic_refuted_before_repair). A second defect found by the gate harness (a failed write, e.g. an empty batch, left the wait list without waking the next writer: every later write hung) was repaired (bb64109) and the error path is part of the model.",
    "note": "Trusted / not covered: sequential consistency (no weak-memory reasoning); skiplist insert and seek are atomic steps (C17); the implementation machine models a scan as snapshot + read steps and the merged/pruned/bounded cursor by its result: the cursor walk itself (next, prev, seek over merge + prune + bounds) is C03/C11's theorem, C06 validates the composition on the real store (every snapshot cursor walked forward and backward and used as a multi-get must show the atomic snapshot's map); WaitList at the level of its specification (refinement proved in C18), link never blocks (< 65536 writers in flight); condition variables as spurious-wake-up-allowed (safety only; liveness is C20); the error path of write is modelled (LWFail / LWLockF / LWUnlinkF / LWRetF: the log refuses the batch before anything is inserted) but the only failing write the sessions produce is the empty batch (`empty-batch` from the log); oversized batches and log I/O errors are not exercised; values are their 8-byte big-endian id followed by a filler that is a function of the id (distinct ids per write), and the harness reports anything that is not exactly those bytes as an impossible id; real runs sample schedules (the theorems cover all); compactions in real runs are not replayed on the model (its tree only gets flushed files; equal reads are what is compared).",
}

PROPS = "theories/Conc/Props_C06.v"
MODULE = "Conc.Props_C06"
CTL_TID, FLUSH_TID = 900, 1000
# The event kinds the conversion REQUIRES (everything else the recorders emit - the log's coalescing queue,
# the LRU cache, gate / pre-notify events of sync42, gate points added to the kvs later - is ignored):
#   harness:     inv ret got skv skb mgv sturn
#   kvs hooks:   w_assign trigger w_logged w_insert w_dropped w_publish snap snap_ts r_mem r_imm r_tree
#                f_rollover f_head f_ingested f_clear f_exit
#   wait list:   link is_head unlink notify_head        (only in the phases where the kvs wait list is used)
CLIENT_USED = {"inv", "ret", "got", "skv", "skb", "mgv", "sturn", "w_assign", "trigger", "w_logged", "w_insert", "w_dropped",
               "w_publish", "snap", "snap_ts", "r_mem", "r_imm", "r_tree", "link", "is_head", "unlink", "notify_head"}
FLUSHER_USED = {"f_rollover", "f_head", "f_ingested", "f_clear", "f_exit", "link", "is_head", "unlink", "notify_head"}
IGNORED = {"snap_ts"}

OPTION_SETS = [
    ("roomy", ["--memtable-size-bytes", "100000000"]),
    ("small-mem", ["--memtable-size-bytes", "600", "--sst-target-file-size", "400", "--sst-minimum-file-size", "200", "--sst-target-block-size", "128"]),
    ("tiny-mem", ["--memtable-size-bytes", "150", "--sst-target-file-size", "300", "--sst-minimum-file-size", "100", "--sst-target-block-size", "96"]),
    ("tiny-mem-few-files", ["--memtable-size-bytes", "250", "--sst-target-file-size", "300", "--sst-minimum-file-size", "100", "--sst-target-block-size", "96", "--max-compaction-files", "4"]),
]
STALL_OFF = ["--l0-write-stall-threshold-files", "100000", "--l0-write-stall-threshold-bytes", "100000000000"]


# ------------------------------------------------------------------ cases
def parse_op(s):
    h, t = s[0], s[1:]
    if h == "p":
        k, v = t.split("=")
        return ("w", [(int(k), int(v))])
    if h == "d":
        return ("w", [(int(t), None)])
    if h == "e":
        return ("w", [])
    if h == "b":
        es = []
        for kv in t.split(","):
            k, v = kv.split("=")
            es.append((int(k), None if v == "~" else int(v)))
        return ("w", es)
    if h == "g":
        return ("g", int(t))
    if h == "s":
        if not t:
            return ("s", None)
        lo, hi = t.split("-")
        return ("s", (int(lo), int(hi)))
    if h == "S":
        if not t:
            return ("S", None)
        lo, hi = t.split("-")
        return ("S", (int(lo), int(hi)))
    if h == "m":
        return ("m", [int(k) for k in t.split(",")])
    if h == "r":
        return ("r", None)
    raise ValueError(s)


def dedupe(es):
    out, seen = [], set()
    for k, v in reversed(es):
        if k not in seen:
            seen.add(k)
            out.append((k, v))
    return list(reversed(out))


def case_line(case):
    if "sessions" in case:
        return "  ;;  ".join(case_line(x) for x in case["sessions"])
    hdr = "opts=%s comp=%d yield=%d seed=%d slots=0 keys=%d" % (",".join(case["opts"]), case["comp"], case["yield"], case["seed"], case["keys"])
    if case.get("ctl"):
        hdr += " ctl=" + ";".join(case["ctl"])
    return hdr + " | " + " | ".join(" ".join(p) for p in case["progs"])


def final_multiget(nkeys):
    """the key list of the multi-get of `final` (mirrors harness c06.rs): every key twice in a row, then one absent key"""
    ks = []
    for k in range(nkeys):
        ks += [k, k]
    return ks + [nkeys]


def ctl_ops(case):
    """the operations the controller thread itself issues, in order (mirrors harness c06.rs)"""
    ops = []
    for cmd in case.get("ctl") or ["startall", "joinall", "final"]:
        head = cmd.split(":")[0]
        if head == "final":
            ops.append("S")
            ops.append("m" + ",".join(str(k) for k in final_multiget(case["keys"])))
            ops.extend("g%d" % k for k in range(case["keys"]))
        elif head in ("arm", "start", "startall", "parked", "release", "join", "joinall", "flush", "reqflush", "sleep"):
            continue
        else:
            ops.append(cmd)
    return ops


def gen_case(rng, idx, tier):
    nthreads = rng.choice([2, 2, 3, 3, 4, 4, 5, 6, 8])
    keys = rng.choice([2, 3, 4, 6, 8, 12, 24])
    optname, opts = OPTION_SETS[rng.below(len(OPTION_SETS))]
    nops = rng.choice([8, 20, 40, 80]) if tier == "quick" else rng.choice([20, 60, 150, 300])
    style = rng.choice(["mixed", "mixed", "batchy", "hotkey", "readers-writers", "growing", "growing"])
    progs = []
    for t in range(nthreads):
        ops = []
        reader_only = style == "readers-writers" and t >= max(1, nthreads // 2)
        for i in range(nops):
            val = (t + 1) * 1000000 + i
            r = rng.below(100)
            key = 0 if (style == "hotkey" and rng.chance(2, 3)) else rng.below(keys)
            if style == "growing":
                # the key universe is opened up progressively: a batch names keys written before AND keys nobody has written yet
                frontier = min(keys, 1 + (i * keys) // max(1, nops - 1))
                key = rng.below(frontier)
                if rng.chance(1, 3) and frontier >= 1:
                    fresh = min(keys - 1, frontier)
                    olds = sorted(set(rng.below(frontier) for _ in range(rng.range(1, 3))) - {fresh})
                    ops.append("b" + ",".join("%d=%d" % (k, val) for k in olds + [fresh]))
                    if rng.chance(2, 3):
                        ops.append(rng.choice(["S", "S", "m" + ",".join(str(k) for k in final_multiget(keys))]))
                    continue
            if reader_only:
                r = 70 + rng.below(30)
            elif style == "batchy":
                r = rng.choice([30, 35, 40, 45, 50, 75, 90, r])
            if r < 22:
                ops.append("p%d=%d" % (key, val))
            elif r < 30:
                ops.append("d%d" % key)
            elif r < 55:
                n = rng.choice([2, 2, 3, 4, 6, keys]) if keys > 1 else 1
                ks = [rng.below(keys) for _ in range(n)] if rng.chance(1, 3) else list(range(min(n, keys)))
                if rng.chance(1, 2):
                    # contiguous run starting anywhere (scans of a range meet such batches)
                    st = rng.below(keys)
                    ks = [(st + j) % keys for j in range(min(n, keys))]
                es = []
                for j, k in enumerate(ks):
                    es.append("%d=%s" % (k, "~" if rng.chance(1, 6) else str(val)))
                ops.append("b" + ",".join(es))
            elif r < 57:
                ops.append("e")
            elif r < 80:
                ops.append("g%d" % key)
            else:
                form = rng.below(10)
                if form < 3:
                    # multi-get through one snapshot cursor: sorted, with repeats and an absent key now and then
                    ks = sorted(rng.below(keys + 1) for _ in range(rng.range(1, 6)))
                    if rng.chance(1, 2):
                        j = rng.below(len(ks))
                        ks.insert(j, ks[j])
                    if rng.chance(1, 5):
                        ks = [rng.below(keys) for _ in ks]          # unsorted now and then
                    ops.append("m" + ",".join(str(k) for k in ks))
                else:
                    head = "S" if form < 7 else "s"
                    if rng.chance(1, 2) or keys < 2:
                        ops.append(head)
                    else:
                        lo = rng.below(keys)
                        hi = rng.range(lo, keys - 1)
                        ops.append("%s%d-%d" % (head, lo, hi))
            if style == "growing" and ops[-1][0] in "bp" and rng.chance(1, 2):
                # look at the store right after a write that may have created keys
                ops.append(rng.choice(["S", "S", "m" + ",".join(str(k) for k in final_multiget(keys))]))
        progs.append(ops)
    return {"tag": "gen%d" % idx, "opts": opts + STALL_OFF, "optname": optname, "comp": rng.choice([0, 0, 1, 2]),
            "yield": rng.choice([0, 50, 200, 500, 800]), "seed": rng.below(1 << 30), "keys": keys, "progs": progs,
            "style": style}


def gen_reopen_case(rng, idx, tier):
    """a store that is exited and opened again (1 or 2 times): the later sessions start with data in the tree
    (flushed files and the recovered log).  The earlier sessions keep an unbounded memtable and no compaction
    thread, flush only at quiescent points, and end quiescent (what KvsConc.reopen covers; overlapping files
    that recovery cannot order are C01's known class K2)"""
    nsess = rng.choice([2, 2, 3])
    keys = rng.choice([3, 4, 6, 8])
    sessions = []
    for j in range(nsess):
        c = gen_case(rng, idx * 10 + j, tier)
        c["keys"] = keys
        # re-aim the operations at the shared key universe and give every session its own value ids
        progs = []
        for t, ops in enumerate(c["progs"][:4]):
            out = []
            for i, o in enumerate(ops[:40 if tier == "quick" else 120]):
                kind, arg = parse_op(o)
                val = (j + 1) * 100000000 + (t + 1) * 1000000 + i
                if kind == "w":
                    es = [(k % keys, None if v is None else val) for k, v in arg]
                    out.append("b" + ",".join("%d=%s" % (k, "~" if v is None else v) for k, v in es) if es else "e")
                elif kind == "g":
                    out.append("g%d" % (arg % keys))
                elif kind == "m":
                    out.append("m" + ",".join(str(k % (keys + 1)) for k in arg))
                elif kind in ("s", "S"):
                    out.append(kind if arg is None else "%s%d-%d" % (kind, min(arg[0] % keys, arg[1] % keys), max(arg[0] % keys, arg[1] % keys)))
            progs.append(out)
        c["progs"] = progs
        if j < nsess - 1:
            c["opts"] = ["--memtable-size-bytes", "100000000"] + STALL_OFF
            c["optname"] = "roomy"
            c["comp"] = 0
            form = rng.below(4)
            ctl = ["startall", "joinall"]
            if form >= 1:
                ctl += ["flush"]
            if form >= 2:
                ctl += ["b0=%d,%d=%d" % (90000000 + j, keys - 1, 90000000 + j), "d%d" % rng.below(keys)]
            if form == 3:
                ctl += ["flush", "p%d=%d" % (rng.below(keys), 91000000 + j)]
            c["ctl"] = ctl + ["final"]
        sessions.append(c)
    last = sessions[-1]
    return {"tag": "reopen%d" % idx, "sessions": sessions, "keys": keys, "progs": last["progs"], "yield": last["yield"],
            "optname": last["optname"], "style": "reopen", "comp": last["comp"]}


def forced_cases():
    """fixed gate-driven schedules (deterministic up to the points they pin)"""
    base = {"opts": ["--memtable-size-bytes", "100000000"] + STALL_OFF, "optname": "roomy", "comp": 0, "yield": 0, "seed": 1, "style": "forced"}
    out = []
    # F6: a two-key batch paused after its first memtable insert, scanned and read in between
    out.append(dict(base, tag="f6_batch_paused_mid_insert", keys=3,
                    ctl=["p1=1", "p2=2", "arm:w_insert:0:0", "start:0", "parked:w_insert:0", "s", "g1", "g2", "release:w_insert:0", "joinall", "final"],
                    progs=[["b1=100,2=200"]]))
    # a later writer finishes its inserts while an earlier one is held after log append: the later write
    # must stay invisible until the earlier one completes (wait-list order)
    out.append(dict(base, tag="later_writer_waits_for_earlier", keys=3,
                    ctl=["p0=5", "arm:w_logged:0:0", "start:0", "parked:w_logged:0", "arm:w_dropped:1:0", "start:1", "parked:w_dropped:1",
                         "g0", "g1", "s", "release:w_dropped:1", "sleep:20", "g1", "release:w_logged:0", "joinall", "final"],
                    progs=[["p0=100"], ["b0=200,1=201"]]))
    # a later writer runs to its head wait while an earlier batch is paused between two of its inserts: the
    # later write must not make anything visible (visible_seq_no moves only at the head)
    out.append(dict(base, tag="later_writer_during_paused_batch", keys=4,
                    ctl=["p2=1", "p3=2", "arm:w_insert:0:0", "start:0", "parked:w_insert:0", "start:1", "sleep:100", "s", "g0", "g2", "g3",
                         "release:w_insert:0", "joinall", "final"],
                    progs=[["b2=100,3=101"], ["p0=5"]]))
    # rollover while a writer of the old memtable is still inserting; reads through the immutable memtable
    out.append(dict(base, tag="rollover_during_insert", keys=4,
                    ctl=["p0=1", "p1=2", "arm:w_insert:0:0", "start:0", "parked:w_insert:0", "reqflush", "sleep:30", "s", "g0", "g1", "g2", "g3",
                         "release:w_insert:0", "joinall", "flush", "final"],
                    progs=[["b0=100,1=101,2=102"]]))
    # a reader pinned after its memtable read across a complete rollover + flush + clear
    out.append(dict(base, tag="reader_held_across_flush", keys=3,
                    ctl=["p0=1", "p1=2", "flush", "p1=3", "arm:r_mem:0:0", "start:0", "parked:r_mem:0", "p0=7", "flush", "d0", "release:r_mem:0", "joinall", "final"],
                    progs=[["g0", "g0", "s"]]))
    # reader snapshot taken between ingest (version installed) and the clearing of imm
    out.append(dict(base, tag="reader_between_install_and_clear", keys=3,
                    ctl=["p0=1", "p1=2", "arm:f_ingested:1000:0", "reqflush", "parked:f_ingested:1000", "g0", "g1", "s", "p2=3", "s", "release:f_ingested:1000", "flush", "final"],
                    progs=[[]]))
    # a write that fails (empty batch) while a later writer already sleeps behind it: the sleeper must be woken
    out.append(dict(base, tag="failed_write_strands_waiter", keys=2,
                    ctl=["arm:w_unlocked:0:0", "start:0", "parked:w_unlocked:0", "start:1", "sleep:200", "release:w_unlocked:0", "joinall", "final"],
                    progs=[["e"], ["p1=7", "g1"]]))
    # systematic family: a three-key batch held at every one of its hook points while a second writer runs to
    # its head wait (on a key of the batch or on another key), with or without a rollover request in between;
    # a scan and point reads are taken while both are in flight and again after everything completed
    points = [("w_unlocked", 0), ("w_logged", 0), ("w_insert", 0), ("w_insert", 1), ("w_insert", 2), ("w_dropped", 0)]
    for (pt, skip) in points:
        for other_key in (1, 3):
            for roll in (False, True):
                ctl = ["p0=1", "p1=2", "p2=3", "arm:%s:0:%d" % (pt, skip), "start:0", "parked:%s:0" % pt, "start:1", "sleep:30"]
                if roll:
                    ctl += ["reqflush", "sleep:30"]
                ctl += ["S", "m0,0,1,2,2,3", "g0", "g1", "g2", "g3", "release:%s:0" % pt, "joinall", "final"]
                out.append(dict(base, tag="sys_%s%d_k%d_%s" % (pt, skip, other_key, "roll" if roll else "noroll"), keys=4, ctl=ctl,
                                style="systematic", progs=[["b0=100,1=101,2=102"], ["p%d=200" % other_key, "g%d" % other_key]]))
    # one thread, no concurrency: a snapshot cursor walked both ways and used as a multi-get right after batches
    # that create keys as well as update existing ones, over memtable, immutable memtable and tree
    out.append(dict(base, tag="snapshot_cursor_walks", keys=6,
                    ctl=["p0=1", "p1=2", "b1=10,2=20", "S", "m0,1,1,2,3,3", "S1-2", "d1", "S", "m1,1,2", "b3=30,0=31", "S", "m3,3,0,0",
                         "flush", "b4=40,1=41", "S", "m0,1,1,4,4,5", "S0-4", "flush", "d4", "b2=50,4=51", "S", "m2,2,4,4,5,5", "final"],
                    progs=[[]]))
    # empty batch, duplicate keys in a batch (last write wins), delete + put of one key in one batch
    out.append(dict(base, tag="degenerate_batches", keys=3,
                    ctl=["e", "b0=1,0=2,1=3,0=~", "s", "g0", "g1", "b2=5,2=~,2=6", "s", "startall", "joinall", "final"],
                    progs=[["e", "b1=~,1=9", "g1"], ["s", "e", "s"]]))
    return out


# ------------------------------------------------------------------ running the implementation
def run_impl(exe, case, root, fresh=True, remove=True):
    if fresh:
        shutil.rmtree(root, ignore_errors=True)
        os.makedirs(root)
    try:
        p = subprocess.run([exe, root], input=(case_line(case) + "\n").encode(), stdout=subprocess.PIPE,
                           stderr=subprocess.DEVNULL, timeout=300)
        out = p.stdout.decode("utf-8", "replace").split("\n")
    except subprocess.TimeoutExpired as ex:
        out = (ex.stdout or b"").decode("utf-8", "replace").split("\n") + ["TIMEOUT"]
    if remove:
        shutil.rmtree(root, ignore_errors=True)
    return out


def parse_output(lines):
    res = {"open": None, "events": [], "final": None, "notes": [], "ended": False}
    for ln in lines:
        f = ln.split()
        if not f:
            continue
        if f[0] == "OPEN":
            res["open"] = f[1:]
        elif f[0] == "EV" and len(f) == 6:
            res["events"].append((int(f[1]), f[2], int(f[3]), int(f[4]), int(f[5])))
        elif f[0] == "FINAL":
            res["final"] = [int(x) for x in f[1:]]
        elif f[0] == "END":
            res["ended"] = True
        else:
            res["notes"].append(ln)
    return res


# ------------------------------------------------------------------ events -> labels + history
class Convert:
    """turns the totally ordered event list into model labels (in the same order) and into the
    invocation/response history of client operations"""

    def __init__(self, case, events):
        self.case, self.events = case, events
        self.labels, self.problems = [], []
        self.hist = []           # operations: dict(tid, idx, kind, inv, ret, status, ...)
        self.cur = {}            # tid -> current op record
        self.phase = {}          # tid -> phase name
        self.opcount = {}
        self.ctl = ctl_ops(case)
        self.by_tid = {}
        for i, e in enumerate(events):
            self.by_tid.setdefault(e[0], []).append(i)
        self.pos_in_tid = {}
        for tid, idxs in self.by_tid.items():
            for j, i in enumerate(idxs):
                self.pos_in_tid[i] = j
        self.fl = "idle"
        # is the publication of a write (state.visible_seq_no = seq_no) observed by its own hook?
        self.publish_hook = any(e[1] == "w_publish" for e in events)

    def opstr(self, tid, idx):
        try:
            return self.ctl[idx] if tid == CTL_TID else self.case["progs"][tid][idx]
        except (IndexError, KeyError):
            return None

    def next_of_thread(self, i, what=None):
        tid = self.events[i][0]
        lst = self.by_tid[tid]
        j = self.pos_in_tid[i] + 1
        while j < len(lst):
            e = self.events[lst[j]]
            if what is None or e[1] == what:
                return e
            j += 1
        return None

    def emit(self, s):
        self.labels.append(s)

    def bad(self, i, msg):
        self.problems.append("event %d %s: %s" % (i, self.events[i], msg))

    def run(self):
        for i, e in enumerate(self.events):
            tid, what, a, b, c = e
            if tid == FLUSH_TID:
                self.flusher(i, what, a, b, c)
            elif tid >= 2000:
                continue
            else:
                self.client(i, tid, what, a, b, c)
        return self

    def client(self, i, tid, what, a, b, c):
        ph = self.phase.get(tid, "idle")
        if what == "inv":
            s = self.opstr(tid, a)
            if s is None:
                self.bad(i, "unknown op")
                return
            kind, arg = parse_op(s)
            op = {"tid": tid, "idx": a, "kind": kind, "arg": arg, "inv": i, "ret": None, "status": None, "str": s}
            self.cur[tid] = op
            self.hist.append(op)
            if kind == "w":
                op["batch"] = dedupe(arg)
                self.emit("invw %d %s" % (tid, ",".join("%d=%s" % (k, "~" if v is None else v) for k, v in arg) if arg else "-"))
                self.phase[tid] = "w_inv"
            elif kind == "g":
                self.emit("invget %d %d" % (tid, arg))
                self.phase[tid] = "r_inv"
            elif kind in ("s", "S"):
                lo, hi = ("-", "-") if arg is None else (str(arg[0]), str(arg[1]))
                self.emit("invscan %d %s %s" % (tid, lo, hi))
                op["pairs"], op["back"] = [], []
                self.phase[tid] = "r_inv"
            elif kind == "m":
                # a multi-get is a snapshot of the whole store on which the model takes no cursor step
                self.emit("invscan %d - -" % tid)
                op["mg"] = []
                self.phase[tid] = "r_inv"
            else:
                self.phase[tid] = "reqflush"
            return
        if what == "ret":
            op = self.cur.get(tid)
            if op is None or op["idx"] != a:
                self.bad(i, "ret without inv")
                return
            op["ret"], op["status"] = i, b
            if op["kind"] in ("s", "S") and b == 0:
                self.emit("scannext %d none" % tid)
                self.emit("retscan %d" % tid)
            if op["kind"] == "m" and b == 0:
                self.emit("retscan %d" % tid)
            if op["kind"] == "w" and ph != "idle" and b == 0:
                self.bad(i, "write returned in phase " + ph)
            self.phase[tid] = "idle"
            return
        if what not in CLIENT_USED:
            return
        if what in IGNORED:
            if what == "snap_ts" and tid in self.cur:
                self.cur[tid]["ts"] = a
            return
        if what == "trigger":
            if ph == "w_assigned":
                self.emit("wpick %d 1 @trig=%d @memseq=%d" % (tid, a, b))
                self.emit("wunlock %d" % tid)
                self.phase[tid] = "w_unlocked"
            elif ph in ("idle", "reqflush"):
                self.emit("trigger @trig=%d @memseq=%d" % (a, b))
            else:
                self.bad(i, "trigger in phase " + ph)
            return
        # ---- writer
        if ph == "w_inv" and what == "link":
            self.emit("wlock %d" % tid)
            self.emit("wlink %d %d" % (tid, a))
            self.phase[tid] = "w_linked"
        elif ph == "w_linked" and what == "w_assign":
            self.cur[tid]["seq"] = a
            self.emit("wassign %d %d @memseq=%d @seq=%d" % (tid, a, b, a))
            nxt = self.next_of_thread(i)
            if nxt is not None and nxt[1] == "trigger":
                self.phase[tid] = "w_assigned"
            else:
                self.emit("wpick %d 0" % tid)
                self.emit("wunlock %d" % tid)
                self.phase[tid] = "w_unlocked"
        elif ph == "w_unlocked":
            if what == "w_logged":
                self.emit("wlog %d" % tid)
                self.phase[tid] = "w_logged"
            elif what == "w_dropped":
                # the log refused the batch: nothing was inserted
                self.emit("wfail %d" % tid)
                self.cur[tid]["failed"] = True
                self.phase[tid] = "w_failed"
            # everything else here belongs to the log's own queue
        elif ph == "w_failed" and what == "unlink":
            self.emit("wlockf %d" % tid)
            self.emit("wunlinkf %d" % tid)
            self.phase[tid] = "w_failed_unlinked"
        elif ph == "w_failed_unlinked" and what == "notify_head":
            self.emit("wretf %d" % tid)
            self.phase[tid] = "idle"
        elif ph == "w_logged" and what == "w_insert":
            self.emit("winsert %d" % tid)
        elif ph == "w_logged" and what == "w_dropped":
            self.emit("wdrop %d" % tid)
            self.phase[tid] = "w_dropped"
        elif ph == "w_dropped" and what == "is_head":
            self.emit("wlock2 %d" % tid)
            self.emit("whead %d %d" % (tid, int(a == b)))
            self.phase[tid] = "w_head" if a == b else "w_parked"
        elif ph == "w_parked" and what == "is_head":
            self.emit("wwake %d" % tid)
            self.emit("whead %d %d" % (tid, int(a == b)))
            self.phase[tid] = "w_head" if a == b else "w_parked"
        elif ph == "w_head" and what == "w_publish":
            # recorded inside the critical section, right after the store: a = seq_no, b = visible_seq_no
            self.emit("wpublish %d %d @vis=%d" % (tid, a, b))
            self.cur[tid]["published"] = True
        elif ph == "w_head" and what == "unlink":
            if not self.cur[tid].get("published"):
                if self.publish_hook:
                    self.bad(i, "write left the wait list without publishing its sequence number")
                # without the hook the publication is placed here, where the code has it (just before the guard
                # is dropped), and is confirmed by the read timestamp (@vis) of every later snapshot
                self.emit("wpublish %d %d" % (tid, self.cur[tid].get("seq", 0)))
            self.emit("wunlink %d" % tid)
            self.phase[tid] = "w_unlinked"
        elif ph == "w_unlinked" and what == "notify_head":
            self.emit("wret %d" % tid)
            self.cur[tid]["done"] = i
            self.phase[tid] = "idle"
        # ---- reader
        elif ph == "r_inv" and what == "snap":
            nxt = self.next_of_thread(i, "snap_ts")
            if nxt is None:
                self.bad(i, "snap without snap_ts")
                return
            self.cur[tid]["ts"] = nxt[2]
            self.cur[tid]["snap"] = i
            self.emit("snap %d %d @memseq=%d @imm=%d @vis=%d" % (tid, nxt[2], a, b, nxt[2]))
            self.phase[tid] = "r_snapped"
        elif ph == "r_snapped" and what in ("r_mem", "r_imm"):
            self.emit("%s %d %d" % ({"r_mem": "rmem", "r_imm": "rimm"}[what], tid, a))
        elif ph == "r_snapped" and what == "r_tree":
            # a miss in the real tree may be a tombstone the garbage collector has dropped (C05)
            self.emit("rtree %d %s" % (tid, "1" if a else "?"))
            self.cur[tid]["tree_miss"] = not a
        elif ph == "r_snapped" and what == "got":
            op = self.cur[tid]
            op["got"] = ("none", "val", "tomb", "err")[b], c
            if b == 3:
                self.bad(i, "load returned an error")
            else:
                self.emit("retget %d %s" % (tid, {0: "absent" if op.get("tree_miss") else "none", 1: str(c), 2: "tomb"}[b]))
        elif ph == "r_snapped" and what == "skv":
            op = self.cur[tid]
            op["pairs"].append((b, c))
            if c == (1 << 64) - 1:
                self.bad(i, "scan returned a tombstone")
            self.emit("scannext %d %d %d" % (tid, b, c))
        elif ph == "r_snapped" and what == "sturn":
            pass
        elif ph == "r_snapped" and what == "skb":
            self.cur[tid]["back"].append((b, c))
            if c == (1 << 64) - 1:
                self.bad(i, "scan returned a tombstone")
        elif ph == "r_snapped" and what == "mgv":
            self.cur[tid]["mg"].append((b, None if c == (1 << 64) - 1 else c))
            if c == (1 << 64) - 2:
                self.bad(i, "multi-get returned a tombstone")
        elif what in ("link", "is_head", "unlink", "notify_head"):
            if ph in ("idle", "r_snapped", "r_inv"):
                return          # other wait lists (none expected here), ignore
            self.bad(i, "wait-list event in phase " + ph)
        else:
            self.bad(i, "unexpected in phase " + ph)

    def flusher(self, i, what, a, b, c):
        if what not in FLUSHER_USED:
            return
        fl = self.fl
        if what == "f_rollover":
            if fl != "idle":
                self.bad(i, "rollover in flusher phase " + fl)
            self.emit("flock")
            self.emit("frollover @memseq=%d @seq=%d @imm=1" % (a, b))
            self.fl = "rolled"
        elif fl == "rolled" and what == "link":
            self.emit("flink %d" % a)
            self.fl = "linked"
        elif fl in ("linked", "parked") and what == "is_head":
            if fl == "parked":
                self.emit("fwake")
            self.emit("fhead %d" % int(a == b))
            self.fl = "head" if a == b else "parked"
        elif fl == "head" and what == "unlink":
            self.emit("funlink")
            self.fl = "unlinked"
        elif fl == "unlinked" and what == "notify_head":
            pass
        elif fl == "unlinked" and what == "f_head":
            self.emit("funlock")
            self.fl = "sealing"
        elif fl == "sealing" and what == "f_ingested":
            self.emit("fseal")
            self.emit("finstall %d 0" % a)
            self.fl = "installed"
        elif fl == "installed" and what == "f_clear":
            self.emit("flock2")
            self.emit("fclear @trig=%d @imm=0" % a)
            self.fl = "idle"
        elif what == "f_exit":
            self.bad(i, "the memtable thread exited")
        elif fl == "sealing" or what in IGNORED:
            pass
        else:
            self.bad(i, "unexpected flusher event in phase " + fl)


# ------------------------------------------------------------------ the direct oracle
NEVER = ("none", 0)


def oracle(case, hist, nevents):
    """independent of the model: the writes in sequence-number order are the serial order; every
    read must be explained by one cut of that order lying between what had completed before the
    read was invoked and what had been assigned before it returned; cuts must not go backwards
    along real time.  Returns (strong_problems, weak_problems, stats)."""
    writes = [op for op in hist if op["kind"] == "w" and "seq" in op and not op.get("failed")]
    writes.sort(key=lambda op: op["seq"])
    seqs = [op["seq"] for op in writes]
    if len(set(seqs)) != len(seqs):
        return (["two writes with one sequence number"], ["two writes with one sequence number"], {})
    perkey = {}                       # key -> list of (seq, value or None) ascending
    for op in writes:
        for k, v in op["batch"]:
            perkey.setdefault(k, []).append((op["seq"], v))
    cuts = [0] + seqs                 # candidate cuts

    def value_at(k, ts):
        r = None
        for s, v in perkey.get(k, []):
            if s <= ts:
                r = v
            else:
                break
        return r

    strong, weak = [], []
    stats = {"reads": 0, "scans": 0, "gets": 0, "scans_both_ways": 0, "multigets": 0, "torn": 0, "ambiguous_cut": 0}

    def observe(op):
        """what one read operation saw through its ONE snapshot: a list of observation maps key -> value or
        None (one map; two for a scan walked forward and backward), the keys it speaks about, shape problems"""
        shape = []
        if op["kind"] == "g":
            kind, val = op.get("got", ("err", 0))
            return [{op["arg"]: (val if kind == "val" else None)}], [op["arg"]], shape
        if op["kind"] == "m":
            obs = {}
            for k, v in op["mg"]:
                if k in obs and obs[k] != v:
                    shape.append("multi-get %s read key %d twice through one snapshot cursor and got %s then %s (all: %s)" % (op["str"], k, obs[k], v, op["mg"]))
                obs.setdefault(k, v)
            if [k for k, _ in op["mg"]] != op["arg"]:
                shape.append("multi-get %s answered for keys %s" % (op["str"], [k for k, _ in op["mg"]]))
            return [obs], sorted(obs), shape
        rng = range(case["keys"]) if op["arg"] is None else range(op["arg"][0], op["arg"][1] + 1)
        keyset = list(rng)
        walks = [("forward", op["pairs"])]
        if op["kind"] == "S":
            walks.append(("backward", list(reversed(op["back"]))))
        out = []
        for name, pairs in walks:
            got = dict(pairs)
            if len(got) != len(pairs) or [k for k, _ in pairs] != sorted(k for k, _ in pairs):
                shape.append("scan %s (%s walk) returned keys out of order or twice: %s" % (op["str"], name, pairs))
            if any(k not in keyset for k in got):
                shape.append("scan %s (%s walk) returned a key outside its bounds: %s" % (op["str"], name, pairs))
            out.append({k: got.get(k) for k in keyset})
        if len(out) == 2 and out[0] != out[1]:
            shape.append("scan %s: ONE snapshot cursor walked forward gave %s and walked backward gave %s" % (op["str"], op["pairs"], list(reversed(op["back"]))))
        return out, keyset, shape

    reads = [op for op in hist if op["kind"] in ("g", "s", "S", "m") and op["ret"] is not None and op["status"] == 0]
    reads.sort(key=lambda op: op["inv"])
    done = []                          # (ret position, chosen cut) of processed reads
    for op in reads:
        stats["reads"] += 1
        stats[{"g": "gets", "s": "scans", "S": "scans_both_ways", "m": "multigets"}[op["kind"]]] += 1
        lo = 0
        for w in writes:
            if w["ret"] is not None and w["ret"] < op["inv"]:
                lo = max(lo, w["seq"])
        hi = 0
        for w in writes:
            if w["inv"] < op["ret"]:
                hi = max(hi, w["seq"])
        obss, keyset, shape = observe(op)
        strong.extend(shape)
        weak.extend(shape)
        feasible = [ts for ts in cuts if lo <= ts <= hi and all(value_at(k, ts) == obs[k] for obs in obss for k in keyset)]
        floor = max([c for (r, c) in done if r < op["inv"]], default=0)
        ok = [ts for ts in feasible if ts >= floor]
        who = "T%d op %d `%s` (events %d..%d)" % (op["tid"], op["idx"], op["str"], op["inv"], op["ret"])
        if not ok:
            strong.append("%s observed %s: no cut of the sequence order in [%d,%d] (floor %d) explains it" % (who, obss, lo, hi, floor))
            # the property text: per key, and per batch, for each walk of the snapshot
            for obs in obss:
                per_key_sets = {}
                for k in keyset:
                    per_key_sets[k] = [ts for ts in cuts if lo <= ts <= hi and value_at(k, ts) == obs[k]]
                    if not per_key_sets[k]:
                        weak.append("%s key %d = %s is not the value of any write that could be current (stale or unwritten), cuts [%d,%d]" % (who, k, obs[k], lo, hi))
                for w in writes:
                    ks = [k for k, _ in w["batch"] if k in per_key_sets and per_key_sets[k]]
                    newer = [k for k in ks if min(per_key_sets[k]) >= w["seq"]]
                    older = [k for k in ks if max(per_key_sets[k]) < w["seq"]]
                    if newer and older:
                        stats["torn"] += 1
                        weak.append("%s sees batch seq %d (%s) applied to keys %s and not to keys %s" % (who, w["seq"], w["str"], newer, older))
            done.append((op["ret"], floor))
        else:
            if "ts" in op and op["ts"] not in ok and op["ts"] in cuts:
                stats["ambiguous_cut"] += 1
            done.append((op["ret"], min(ok)))
    if strong and not weak:
        # a single (atomic) write seen by one read and then NOT seen by a read that began after the first
        # returned: no total order of the writes respecting real time explains that, whatever the order
        seen = []                      # (ret, tid/op text, {seq of writes seen}), per read
        for op in reads:
            obss, keyset, _ = observe(op)
            obs = obss[0]
            sets = {k: [ts for ts in cuts if value_at(k, ts) == v] for k, v in obs.items()}
            sees, misses = set(), set()
            for w in writes:
                for k, _ in w["batch"]:
                    if k in sets and sets[k]:
                        if min(sets[k]) >= w["seq"]:
                            sees.add(w["seq"])
                        elif max(sets[k]) < w["seq"]:
                            misses.add(w["seq"])
            who = "T%d op %d `%s` (events %d..%d)" % (op["tid"], op["idx"], op["str"], op["inv"], op["ret"])
            for (r0, who0, sees0) in seen:
                if r0 < op["inv"]:
                    both = sees0 & misses
                    if both:
                        weak.append("write seq %d was observed by %s and then not by %s, which began later" % (min(both), who0, who))
                        break
            seen.append((op["ret"], who, sees))
            if weak:
                break
    return strong, weak, stats


# ------------------------------------------------------------------ one case end to end (implementation side)
def impl_side_sessions(exe, case, root):
    """several sessions (processes) one after the other on ONE directory: exit + open in between; the labels of
    the sessions are joined by `reopen` lines carrying the counters the next process reported at open"""
    labels, problems, hist, notes, nevents, tail = [], [], [], [], 0, []
    first_open, ended, off = None, True, 0
    n = len(case["sessions"])
    for j, sess in enumerate(case["sessions"]):
        lines = run_impl(exe, sess, root, fresh=(j == 0), remove=(j == n - 1))
        po = parse_output(lines)
        tail = lines[-5:]
        notes += po["notes"]
        ended = ended and po["ended"]
        if (po["open"] or ["x"])[0] != "ok":
            ended = False
            notes.append("session %d: open failed: %s" % (j, po["open"]))
            break
        if j == 0:
            first_open = po["open"]
        else:
            labels.append("reopen %d 0 %s %s %s" % (900000 + j, po["open"][1], po["open"][2], po["open"][3]))
        cv = Convert(sess, po["events"]).run()
        labels += cv.labels
        problems += ["session %d: %s" % (j, x) for x in cv.problems]
        for op in cv.hist:
            for k in ("inv", "ret", "snap", "done"):
                if op.get(k) is not None:
                    op[k] += off
            op["tid"] = op["tid"] + 10000 * j          # threads of different processes are different threads
            hist.append(op)
        off += len(po["events"]) + 1
        nevents += len(po["events"])
    shutil.rmtree(root, ignore_errors=True)
    return {"case": case, "po": {"open": first_open, "final": None, "notes": notes, "ended": ended}, "nevents": nevents,
            "labels": labels, "problems": problems, "hist": hist, "raw_tail": tail}


def impl_side(args):
    exe, case, root = args
    if "sessions" in case:
        return impl_side_sessions(exe, case, root)
    lines = run_impl(exe, case, root)
    po = parse_output(lines)
    cv = Convert(case, po["events"]).run()
    return {"case": case, "po": {k: po[k] for k in ("open", "final", "notes", "ended")}, "nevents": len(po["events"]),
            "labels": cv.labels, "problems": cv.problems, "hist": cv.hist, "raw_tail": lines[-5:]}


def load_corpus():
    d = os.path.join(vlib.VERIF, "corpus", "C06")
    out = []
    if os.path.isdir(d):
        for fn in sorted(os.listdir(d)):
            if fn.endswith(".json"):
                with open(os.path.join(d, fn)) as fh:
                    c = json.load(fh)
                c["tag"] = "corpus:" + fn
                out.append(c)
    return out


def model_side(mx, results, workdir, unrepaired=False):
    """replay every recorded trace on the extracted machines; the cases are dealt to several driver
    processes (longest first) and the verdicts put back in order"""
    nproc = max(1, min(12, vlib.NCPU - 2, len(results)))
    order = sorted(range(len(results)), key=lambda i: -len(results[i]["labels"]))
    buckets = [[] for _ in range(nproc)]
    loads = [0] * nproc
    for i in order:
        j = loads.index(min(loads))
        buckets[j].append(i)
        loads[j] += len(results[i]["labels"]) ** 1.3 + 50
    paths = []
    for j, idxs in enumerate(buckets):
        p = os.path.join(workdir, "model%s_%d.in" % ("_unrepaired" if unrepaired else "", j))
        with open(p, "w") as fh:
            for i in idxs:
                r = results[i]
                o = r["po"]["open"] or ["err"]
                if o[0] != "ok":
                    fh.write("init 2 1 0\nend\n")
                    continue
                fh.write("init %s %s %s%s\n" % (o[1], o[2], o[3], " unrepaired" if unrepaired else ""))
                fh.write("\n".join(r["labels"]) + "\nend\n")
        paths.append(p)

    def one(p):
        rc, out = vlib.sh("%s < %s" % (mx, p), timeout=3000)
        return [l for l in out.split("\n") if l.strip()]

    with concurrent.futures.ThreadPoolExecutor(max_workers=nproc) as ex:
        outs = list(ex.map(one, paths))
    verdicts = [None] * len(results)
    for idxs, lines in zip(buckets, outs):
        if len(lines) != len(idxs):
            raise RuntimeError("model produced %d verdicts for %d cases: %s" % (len(lines), len(idxs), lines[-3:]))
        for i, l in zip(idxs, lines):
            verdicts[i] = l
    return verdicts


def run(chk):
    ok_proof, info = vlib.proof_stage(chk, PROPS, MODULE, const_areas=("Lsm",), pins_rel="pins/C06.v")
    okx, outx = vlib.coq_make(["theories/Conc/Extract.vo"])
    okm, outm, mx = vlib.ocaml_build("conc", "mx_conc")
    okh, outh, (exe,) = vlib.cargo_build(["c06"])
    if not (okx and okm):
        raise RuntimeError("model build failed:\n" + outx[-1500:] + outm[-1500:])
    if not okh:
        raise RuntimeError("harness build failed (does /repo still compile?):\n" + outh[-3000:])

    rng = vlib.Rng(chk.seed * 1000003 + 6)
    n = 200 if chk.tier == "quick" else 1000
    cases = load_corpus()
    ncorpus = len(cases)
    cases += forced_cases()
    nforced = len(cases) - ncorpus
    for i in range(n):
        cases.append(gen_case(rng, i, chk.tier))
    nreopen = 14 if chk.tier == "quick" else 120
    rr = rng.fork()
    for i in range(nreopen):
        cases.append(gen_reopen_case(rr, i, chk.tier))
    base = "/dev/shm" if os.path.isdir("/dev/shm") else chk.work
    top = os.path.join(base, "blue_verif_c06_%d" % os.getpid())
    shutil.rmtree(top, ignore_errors=True)
    os.makedirs(top)
    try:
        jobs = [(exe, c, os.path.join(top, "c%d" % i)) for i, c in enumerate(cases)]
        with concurrent.futures.ThreadPoolExecutor(max_workers=max(2, min(10, vlib.NCPU - 2))) as ex:
            results = list(ex.map(impl_side, jobs))
    finally:
        shutil.rmtree(top, ignore_errors=True)

    verdicts = model_side(mx, results, chk.work)
    if len(verdicts) != len(results):
        raise RuntimeError("model produced %d verdicts for %d cases: %s" % (len(verdicts), len(results), verdicts[-3:]))

    stats = {"ops": 0, "writes": 0, "batches_multi": 0, "gets": 0, "scans": 0, "labels": 0, "events": 0, "rollovers": 0,
             "parked_writers": 0, "triggers": 0, "reads_with_inflight_write": 0, "threads": {}, "styles": {}, "options": {}, "yield": {}}
    prop_bad, corr_bad, mach_bad = [], [], []
    distinct = set()
    for r, v in zip(results, verdicts):
        c = r["case"]
        tag = c["tag"]
        stats["events"] += r["nevents"]
        stats["labels"] += len(r["labels"])
        stats["threads"][len(c["progs"])] = stats["threads"].get(len(c["progs"]), 0) + 1
        stats["styles"][c.get("style", "?")] = stats["styles"].get(c.get("style", "?"), 0) + 1
        stats["options"][c.get("optname", "?")] = stats["options"].get(c.get("optname", "?"), 0) + 1
        stats["yield"][c["yield"]] = stats["yield"].get(c["yield"], 0) + 1
        stats["rollovers"] += sum(1 for l in r["labels"] if l.startswith("frollover"))
        stats["triggers"] += sum(1 for l in r["labels"] if l.startswith("trigger") or l.startswith("wpick") and " 1 @" in l)
        stats["parked_writers"] += sum(1 for l in r["labels"] if l.startswith("whead") and l.endswith(" 0"))
        rec = {"tag": tag, "case_line": case_line(c), "replay_cmd": "echo '<case_line>' | work/target/release/c06 /dev/shm/c06_replay"}
        if not r["po"]["ended"] or (r["po"]["open"] or ["x"])[0] != "ok" or any("timeout" in x or "TIMEOUT" in x or "badcmd" in x for x in r["po"]["notes"] + r["raw_tail"]):
            mach_bad.append(dict(rec, what="harness did not finish", notes=r["po"]["notes"], tail=r["raw_tail"]))
            continue
        strong, weak, ost = oracle(c, r["hist"], r["nevents"])
        stats["gets"] += ost.get("gets", 0)
        stats["scans"] += ost.get("scans", 0)
        stats["scans_both_ways"] = stats.get("scans_both_ways", 0) + ost.get("scans_both_ways", 0)
        stats["multigets"] = stats.get("multigets", 0) + ost.get("multigets", 0)
        for op in r["hist"]:
            stats["ops"] += 1
            if op["kind"] == "w":
                stats["writes"] += 1
                stats["batches_multi"] += len(op.get("batch", [])) > 1
        # a read whose snapshot lies between some write's sequence assignment and its completion
        inflight = 0
        for op in r["hist"]:
            if op["kind"] in ("g", "s", "S", "m") and "snap" in op:
                for w in r["hist"]:
                    if w["kind"] == "w" and w.get("seq") and w["inv"] < op["snap"] and (w.get("done") or 10**12) > op["snap"] and w.get("seq", 0) > op.get("ts", 0):
                        inflight += 1
                        break
        stats["reads_with_inflight_write"] += inflight
        if len(r["labels"]) >= 40 and inflight:
            distinct.add(tuple(r["labels"]))
        # errors of client operations are not expected at all
        errs = [op for op in r["hist"] if op["status"] not in (0, None) and not (op["kind"] == "w" and not op["batch"] and op["status"] == 1)]
        stats["failed_writes"] = stats.get("failed_writes", 0) + sum(1 for op in r["hist"] if op.get("failed"))
        unfinished = [op for op in r["hist"] if op["ret"] is None]
        if weak or errs or unfinished:
            prop_bad.append(dict(rec, what="history violates the property", weak=weak[:6], strong=strong[:6],
                                 errors=[(op["tid"], op["idx"], op["str"], op["status"]) for op in errs[:6]],
                                 unfinished=[(op["tid"], op["idx"], op["str"]) for op in unfinished[:6]]))
            continue
        if strong:
            corr_bad.append(dict(rec, what="history is per-key linearizable and batch-atomic but not a consistent cut (model says it must be)", strong=strong[:6]))
            continue
        if r["problems"]:
            corr_bad.append(dict(rec, what="trace does not have the shape the model expects", problems=r["problems"][:6]))
            continue
        if not v.startswith("ACCEPT"):
            corr_bad.append(dict(rec, what="extracted model rejects the recorded trace", verdict=v,
                                 around=r["labels"][max(0, int(v.split()[1]) - 6): int(v.split()[1]) + 2]))
            continue
        # (the store's scalars seq_no / mem_seq_no / imm_trigger / has_imm / visible are compared with the model's
        # at every hook that reports them, through the @assertions of the labels; the FINAL line of the harness is
        # not used: it is read after the recorder has stopped, so a rollover can slip in between)

    # sensitivity of the acceptor itself: the pre-repair machine must reject what the repaired code produces
    # whenever a snapshot was taken with a write in flight (its timestamp would have been the assigned number)
    sample = results[:300]
    unrep = model_side(mx, sample, chk.work, unrepaired=True)
    unrep_rejects = sum(1 for x in unrep if x.startswith("REJECT"))

    chk.coverage.update({
        "evaluations": len(cases), "distinct_nontrivial": len(distinct),
        "rule": "one evaluation = one multi-threaded session of the real store (2..8 client threads + the real memtable thread + 0..2 real compaction threads; put / del / multi-key batches incl. duplicates, deletes, empty batches and batches that create new keys while updating existing ones / get / full and ranged scans walked forward, or forward and then backward (seek_to_last + prev) on the same snapshot cursor / multi-gets = several seeks on ONE snapshot cursor (sorted or not, repeats, absent keys); memtable sizes from 150 B (constant rollover) to unbounded; seeded yield probability 0..0.8 at the hook points; forced gate schedules; session families that exit and re-open the same directory 1-2 times so that later sessions start with data in the tree) whose recorded event trace (one SplitMix64 seed for the programs, option set and yield seed) is replayed on the extracted model and atomic store and whose invocation/response history is checked by the direct oracle; non-trivial = at least 40 model labels and at least one read whose snapshot was taken while a write with a larger sequence number was assigned and not yet complete; distinct = distinct label sequences",
        "samples": [case_line(cases[ncorpus])[:400], case_line(cases[-1])[:400]],
        "input_distribution": stats, "corpus_cases": ncorpus, "forced_schedules": nforced,
        "correspondence": "real store (hooks ea9fafc: sync42::verif recorder + lsmtk kvs verif_events) vs extracted Conc.KvsConc.step and Conc.Spec.sstep, label by label, with the store's scalars (seq_no, mem_seq_no, imm_trigger, has_imm, read timestamp) asserted equal to the model's at every hook that reports them",
        "composition_note": "Conc.KvsConc models range_scan as the snapshot step plus read steps whose result is the next live pair of the snapshot; that the real cursor stack (MergingCursor + PruningCursor + BoundsCursor: next, prev, seek) returns exactly that is the theorem of C03/C11. C06 checks the composition on the real store: forward walk = reverse(backward walk) = multi-get answers = the map of the atomic snapshot store at one cut, all-or-nothing per batch; only the forward walk is replayed on the model (LScanNext), the backward walk and the multi-get are judged by the direct oracle",
        "direct_oracle": "writes ordered by their assigned sequence numbers; every get / scan (both walks) / multi-get must equal the store contents at one cut of that order between (max seq completed before its invocation) and (max seq assigned before its response), cuts non-decreasing along real time; on failure the property text itself is evaluated: per-key feasibility and batch tearing",
        "disagreements_impl_vs_model": len(corr_bad), "disagreements_impl_vs_spec": len(prop_bad), "machinery_failures": len(mach_bad),
        "acceptor_sensitivity": "%d of the first %d recorded traces are rejected by the extracted PRE-repair machine (step_unrepaired: snapshot at the last assigned sequence number)" % (unrep_rejects, len(sample)),
        "trusted_base": [
            "Coq 8.16.1 kernel (coqc, full .vo build); vm_compute for the two concrete witness traces",
            "Lsm area (tree model, C01 theorems load_newest / flush_inv / compact_inv) as imported lemmas",
            "extraction via ExtrOcamlBasic (no Extract Constant of ours) + ocaml/conc/mx_conc.ml driver",
            "harness/src/bin/c06.rs, the hooks (lsmtk/src/kvs/verif_events.rs, sync42/src/verif.rs) and checks/c06.py (event -> label conversion, oracle)",
            "sequential consistency; skiplist insert/seek atomic; wait list at specification level (C18); scan cursor modelled by its result",
        ],
    })
    chk.assumptions = ["memory model: sequential consistency (interleaving of atomic steps)",
                       "MemTable skiplist insert / seek are atomic steps (their concurrency is C17's)",
                       "WaitList::link never blocks (fewer than MAX_CONCURRENCY = 65536 writers in flight)",
                       "the error path of KeyValueStore::write is in the model as 'the log refuses the batch before anything is inserted'; only the empty batch exercises it on the real store (no oversized batch, no injected log I/O error)",
                       "exit + open is covered for quiescent exits (KvsConc.reopen: no operation in flight, memtable thread idle); recovery after overlapping files is C01's known class K2 and is avoided by the reopen sessions",
                       "compactions are admissible (Lsm.History.acceptedb): C01/C05"]
    if mach_bad:
        chk.notes.append("harness sessions that did not finish: %d (first: %s)" % (len(mach_bad), json.dumps(mach_bad[0])[:600]))
    if prop_bad:
        b = prop_bad[0]
        chk.violation("c06_%s.json" % b["tag"].replace(":", "_"), {"kind": "property", "what": "a recorded history of the real store is not linearizable / tears a batch", "case": b})
    elif corr_bad or mach_bad or not ok_proof:
        chk.violation("c06_unproved.json", {"kind": "no-failing-input-found", "broken": info["broken"],
                                            "correspondence_disagreements": corr_bad[:5], "machinery": mach_bad[:3]}, no_input=True)


def replay(path):
    with open(path) as fh:
        obj = json.load(fh)
    print(json.dumps(obj, indent=1)[:6000])
    case = obj.get("case")
    if not case or "case_line" not in case:
        return 1
    okh, outh, (exe,) = vlib.cargo_build(["c06"])
    root = "/dev/shm/c06_replay_%d" % os.getpid()
    bad = 0
    for _ in range(20):
        shutil.rmtree(root, ignore_errors=True)
        os.makedirs(root)
        p = subprocess.run([exe, root], input=(case["case_line"] + "\n").encode(), stdout=subprocess.PIPE, timeout=300)
        lines = p.stdout.decode().split("\n")
        po = parse_output(lines)
        hdr, *progs = case["case_line"].split("|")
        c = {"progs": [x.split() for x in progs], "keys": 0, "ctl": None}
        for item in hdr.split():
            k, v = item.split("=", 1)
            if k == "keys":
                c["keys"] = int(v)
            if k == "ctl":
                c["ctl"] = v.split(";")
        cv = Convert(c, po["events"]).run()
        strong, weak, _ = oracle(c, cv.hist, len(po["events"]))
        if weak or strong:
            bad += 1
            print("still failing:", (weak or strong)[0])
    shutil.rmtree(root, ignore_errors=True)
    print("failing runs: %d of 20" % bad)
    return 1 if bad else 0
