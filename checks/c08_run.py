"""C08 lock-step runner: one history executed on the real lsmtk store (harness `c08`, sessions are
processes) and on the extracted Refs model (`mx_refs`), compared after every step; plus the direct
oracle of the property itself (what is needed is present), verifier passes killed before any of
their unlink system calls (strace), and store processes killed inside their trash moves."""
import json
import os
import shutil
import signal
import subprocess
import time

import lsmlib
import vlib

def _num_levels():
    rc, out = vlib.sh(["python3", os.path.join(vlib.VERIF, "tools", "constants.py"), "Refs", "--json"])
    try:
        return json.loads(out.strip().splitlines()[-1])["Refs"]["REFS_NUM_LEVELS"]
    except Exception:
        return 16


NUM_LEVELS = _num_levels()


def strip_sst(n):
    return n[:-4] if n.endswith(".sst") else n


def parse_ls(line):
    """LS sst=.. trash=.. root=.. mani=.. verify=.. tmp=.. compaction=.."""
    d = {}
    for part in line.split(" ")[1:]:
        k, _, v = part.partition("=")
        d[k] = [x for x in v.split(",") if x]
    out = {
        "sst": sorted(strip_sst(x) for x in d.get("sst", [])),
        "trash": sorted(strip_sst(x) for x in d.get("trash", []) if x.endswith(".sst")),
        "tlogs": sorted((x[4:] for x in d.get("trash", []) if x.startswith("log.")), key=int),
        "logs": sorted((x[4:] for x in d.get("root", [])), key=int),
        "frags": sorted((x[9:] for x in d.get("mani", []) if x.startswith("MANIFEST.") and x[9:].isdigit()), key=int),
        "other": [x for x in d.get("trash", []) if not (x.endswith(".sst") or x.startswith("log."))],
    }
    return out


def parse_state_line(body):
    """strs=a,b info=K:v,K:v"""
    strs, info = [], {}
    for part in body.split(" "):
        k, _, v = part.partition("=")
        if k == "strs":
            strs = [x for x in v.split(",") if x]
        elif k == "info":
            for kv in v.split(","):
                if kv:
                    info[kv[0]] = kv[2:]
    return strs, info


def parse_mani(line):
    """MANI F name E -x +y @Kv ... -> list of (fragname, [edit dicts])"""
    frags = []
    for t in line.split(" ")[1:]:
        if not t:
            continue
        if t == "F":
            frags.append([None, []])
        elif frags and frags[-1][0] is None:
            frags[-1][0] = t
        elif t == "E":
            frags[-1][1].append({"rm": [], "add": [], "L": None})
        elif t in ("ERR", "OPENERR"):
            frags[-1][1].append({"rm": [], "add": [], "L": None, "bad": t})
        elif t[0] == "-":
            frags[-1][1][-1]["rm"].append(t[1:])
        elif t[0] == "+":
            frags[-1][1][-1]["add"].append(t[1:])
        elif t[0] == "@" and t[1] == "L":
            frags[-1][1][-1]["L"] = t[2:]
    return frags


def parse_obs(line):
    """OBS k=v ... | up k=v ... / down"""
    left, _, right = line.partition(" | ")
    d = {}
    for part in left.split(" ")[1:]:
        k, _, v = part.partition("=")
        d[k] = v
    o = {
        "sst": [x for x in d["sst"].split(",") if x], "trash": [x for x in d["trash"].split(",") if x],
        "logs": [x for x in d["logs"].split(",") if x], "tlogs": sorted([x for x in d["tlogs"].split(",") if x], key=int),
        "frags": [x for x in d["frags"].split(",") if x], "mstrs": [x for x in d["mstrs"].split(",") if x],
        "mlog": d["mlog"], "vstrs": [x for x in d["vstrs"].split(",") if x], "vm": d["vm"], "v": d["v"],
        "live": int(d["live"]),
    }
    r = right.split(" ")
    o["up"] = r[0] == "up"
    if o["up"]:
        for part in r[1:]:
            k, _, v = part.partition("=")
            o["p_" + k] = v
        o["refs"] = [x for x in o["p_refs"].split(",") if x]
        o["cur"] = [x for x in o["p_cur"].split(",") if x]
    return o


class Run8:
    """One history on implementation and model in lock step."""

    def __init__(self, c08_exe, mx_exe, opts, tag, universe=None, strace=True):
        self.exe, self.opts = c08_exe, opts
        self.root = lsmlib.fresh_root(tag)
        self.model = lsmlib.Model(mx_exe)
        self.universe = universe or lsmlib.UNIVERSE[:6]
        self.spec = {}
        self.events = []          # (impl command, impl output) log for replays
        self.problems = []        # dicts: kind in {needed, read, corr, error}
        self.known_events = []
        self.held = {}            # reader id -> "snap" | "cur"
        self.dirty = False
        self.dead = False
        self.sess = None
        self.counts = {k: 0 for k in ["write", "flush", "merge", "gc", "move", "none", "reopen", "take", "drop", "verify_ok",
                                      "verify_backoff", "verify_err", "vkill", "vkill_reached", "skill", "skill_reached",
                                      "roll", "trash_moves", "unlinks", "readd_same_edit", "readd_later", "compare", "selector_panic", "selector_panic_after_reopen", "stale_read_c01", "entries_compared", "unlinks_checked", "readd_in_live_at_verify", "interleaved_compactions"]}
        self.seen_removed = set()
        self.last_view = None
        self.file_entries = {}
        self.readded = set()
        self.k2_seen = False      # a reopen recovered a tree with files overlapping in key and timestamp range (C01 K2)
        self.k_names = set()      # setsums re-created while the verifier's recorded intent named them (known class)
        self.entries_before_close = None
        self.model.cmd("reset")
        self.open_session(first=True)

    # ---------------------------------------------------------------- helpers
    def problem(self, kind, **kw):
        d = {"kind": kind, "at_event": len(self.events)}
        d.update(kw)
        self.problems.append(d)

    def icmd(self, line):
        out = self.sess.cmd(line)
        self.events.append((line, out[-1][:300]))
        if out[-1] in ("HANG", "EOF"):
            self.problem("error", what="store stopped answering: " + out[-1], op=line, threads=self.sess.threads)
            self.dead = True
        return out

    def impl_view(self):
        ls = parse_ls(self.icmd("ls")[0])
        strs, info = parse_state_line(self.icmd("mstate")[0][7:])
        vline = self.icmd("vmani")[0][6:]
        vstrs, vinfo = parse_state_line(vline.split(" |")[0])
        refs = [x for x in self.icmd("refs")[0][5:].split(",") if x]
        return {"ls": ls, "mstrs": sorted(strs), "mlog": info.get("L", "-"), "vstrs": vstrs, "vm": vinfo.get("M", "-"), "refs": refs}

    def compare(self, where, obs_line, view=None, refs=True):
        """model observation vs implementation; returns the impl view"""
        if self.dead:
            return None
        v = view or self.impl_view()
        if self.dead:
            return None
        o = parse_obs(obs_line)
        self.counts["compare"] += 1
        pairs = [("sst", o["sst"], v["ls"]["sst"]), ("trash", o["trash"], v["ls"]["trash"]), ("logs", o["logs"], v["ls"]["logs"]),
                 ("tlogs", o["tlogs"], v["ls"]["tlogs"]), ("frags", o["frags"], v["ls"]["frags"]), ("mstrs", o["mstrs"], v["mstrs"]),
                 ("mlog", o["mlog"], v["mlog"]), ("vstrs", o["vstrs"], v["vstrs"]),
                 ("vm", ("MANIFEST." + o["vm"]) if o["vm"] != "-" else "-", v["vm"])]
        if refs and o["up"]:
            pairs.append(("refs", o["refs"], v["refs"]))
        for name, m, i in pairs:
            if m != i:
                self.problem("corr", what="%s differs from the model after %s" % (name, where), model=str(m)[:600], impl=str(i)[:600])
        if self.last_view:
            moved = (set(self.last_view["ls"]["sst"]) - set(v["ls"]["sst"])) & set(v["ls"]["trash"])
            self.counts["trash_moves"] += len(moved)
        self.check_needed(v, where)
        return v

    def check_needed(self, v, where):
        """the direct oracle: everything the committed manifest names is in sst/; everything a held
        snapshot names is in sst/; the verifier's directory holds nothing unexpected in trash"""
        sst = set(v["ls"]["sst"])
        missing = [x for x in v["mstrs"] if x not in sst]
        if missing:
            self.problem("needed", what="manifest lists ssts that are not in sst/ after " + where, missing=missing[:4])
        for r, kind in self.held.items():
            if kind == "snap":
                out = self.icmd("snap show r%d" % r)[0]
                names = [x for x in out.split(" ")[2].split(",") if x] if out.startswith("SNAP show") else []
                gone = [x for x in names if x not in sst]
                if gone:
                    self.problem("needed", what="a held snapshot names ssts that are not in sst/ after " + where, reader=r, missing=gone[:4])

    def all_edits(self):
        return parse_mani(self.icmd("mani")[0])

    def reads(self):
        """point reads of the key universe.  A read that FAILS (a file is missing) is this
        property's business.  A read that returns a stale value is attributed to C01's known class
        K2 only when a reopen of this history recovered a tree holding two files that overlap in key
        range and in timestamp range (the classifier of checks/lsmlib.py); otherwise it is a problem."""
        if self.dead:
            return
        keys = self.universe
        out = self.icmd("get " + ",".join(lsmlib.hx(k) for k in keys))[0].split(" ")
        if out[0] != "GET":
            return
        for k, io in zip(keys, out[1:]):
            want = self.spec.get(k)
            ws = "." if want is None else lsmlib.hx(want)
            ic = "." if io == "~" else io
            if io.startswith("err:"):
                self.problem("needed", what="a point read failed", key=lsmlib.hx(k), impl=io)
            elif ic != ws:
                if self.k2_seen:
                    self.counts["stale_read_c01"] += 1
                else:
                    self.problem("read", what="a point read returns a stale value and no reopen of this history recovered a tree of C01's class K2",
                                 key=lsmlib.hx(k), impl=io, spec=ws)

    def entries(self):
        """every (key, timestamp, value) of every sst the tree lists: the physical contents of the
        store, independent of how the levels are arranged"""
        out = self.icmd("dump")
        names = []
        for ln in out:
            if ln.startswith("FILE "):
                t = ln.split(" ")
                if "ERR" in t or any(x.startswith("OPENERR") for x in t[2:]):
                    self.problem("needed", what="an sst listed by the tree cannot be read", file=t[1], line=ln[:200])
                self.file_entries[t[1]] = frozenset(t[2:])
            elif ln.startswith("DUMP"):
                names = [it.split(":")[1] for it in ln.split(" ")[1:]]
        ents = set()
        for n in names:
            ents |= self.file_entries.get(n, frozenset())
        return ents

    # ---------------------------------------------------------------- sessions
    def recovered_tree(self, first=False):
        """the tree an open has just built: its highest timestamp; notes whether two of its files
        overlap in key range and in timestamp range (C01's known class K2: recover.rs mis-levels)"""
        dump = self.icmd("dump")
        tree_max = 0
        metas = []
        for ln in dump:
            if ln.startswith("DUMP"):
                for it in ln.split(" ")[1:]:
                    f = it.split(":")
                    tree_max = max(tree_max, int(f[5]))
                    metas.append((lsmlib.unhx(f[2]), lsmlib.unhx(f[3]), int(f[4]), int(f[5])))
        if not first:
            for i in range(len(metas)):
                for j in range(i + 1, len(metas)):
                    a, b = metas[i], metas[j]
                    if a[0] <= b[1] and b[0] <= a[1] and not (a[3] < b[2] or b[3] < a[2]):
                        self.k2_seen = True
        return tree_max

    def open_session(self, first=False, expect_logs=None):
        before = None if first else self.last_view
        self.sess = lsmlib.Session(self.exe, self.root, self.opts)
        self.events.append(("open", self.sess.open_line))
        if self.sess.open_line != "OPEN ok":
            self.problem("needed" if not first else "error", what="open failed", line=self.sess.open_line)
            self.dead = True
            return
        self.dead = False
        view = self.impl_view()
        tree_max = self.recovered_tree(first)
        sums, rolls = [], []
        if not first:
            new = [x for x in view["mstrs"] if x not in before["mstrs"]]
            nonempty = [before["ls"]["logs"][-1]] if (self.dirty and before["ls"]["logs"]) else []
            if len(new) > len(nonempty):
                self.problem("corr", what="reopen: more new ssts than logs holding data", new=new, logs=nonempty)
            # logs are replayed in ascending order; with one non-empty log (the usual case) the match is exact
            for n, x in zip(nonempty, new):
                sums.append("%s=%s" % (n, x))
            nf_before, nf_after = len(before["ls"]["frags"]), len(view["ls"]["frags"])
            # Manifest::open rolls over once; any further fragment is the replay's apply rolling over
            extra = nf_after - nf_before - 1
            for n, x in list(zip(nonempty, new))[:max(0, extra)]:
                rolls.append("%s=1" % n)
            self.counts["reopen"] += 1
        # the first log's number is bounded below by the tree's highest timestamp and (fix 58d2330) by
        # the number after the last flushed log ('L'); the model takes that bound as an input
        if view["mlog"] != "-":
            tree_max = max(tree_max, int(view["mlog"]) + 1)
        obs = self.model.cmd("open %s | %s | %d" % (",".join(sums), ",".join(rolls), tree_max))
        self.dirty = False
        self.held = {}
        self.last_view = self.compare("open", obs, view)

    def reopen(self):
        before = None
        if self.sess and not self.dead:
            before = self.entries()
        if self.sess:
            self.sess.close()
        self.model.cmd("crash")
        self.open_session()
        if before is not None and not self.dead:
            after = self.entries()
            self.counts["entries_compared"] += len(before)
            lost = sorted(before - after)
            if lost:
                self.problem("needed", what="entries of the store are gone after reopen", lost=lost[:5], n_lost=len(lost))

    # ---------------------------------------------------------------- ops
    def write(self, k, v):
        if self.dead:
            return
        line = ("put %s %s" % (lsmlib.hx(k), lsmlib.hx(v))) if v is not None else ("del %s" % lsmlib.hx(k))
        out = self.icmd(line)[0]
        if not out.endswith(" ok"):
            self.problem("error", what="write failed", op=line, out=out)
            return
        self.model.cmd("write")
        self.spec[k] = v
        self.dirty = True
        self.counts["write"] += 1

    def note_edit(self, e):
        for a in e["add"]:
            if a in e["rm"]:
                self.counts["readd_same_edit"] += 1
                self.readded.add(a)
            elif a in self.seen_removed:
                self.counts["readd_later"] += 1
                self.readded.add(a)
            if self.last_view and (a + ".sst") in self.last_view["vstrs"]:
                # the store re-creates a setsum that the verifier has recorded for unlinking
                self.known_events.append(("K-verifier-by-name", "a compaction re-creates %s while the verifier's recorded intent names trash/%s.sst" % (a[:8], a[:8]), len(self.events), a))
                self.k_names.add(a)
        self.seen_removed |= set(e["rm"])

    def last_edit(self, frags):
        """the edit an operation just applied: the last edit of MANIFEST, or, when the apply rolled
        the manifest over, the last edit of the newest numbered fragment"""
        live = frags[-1][1]
        if len(live) > 1:
            return live[-1]
        return frags[-2][1][-1] if len(frags) >= 2 and frags[-2][1] else None

    def flush(self):
        if self.dead or not self.dirty:
            return
        before = self.last_view
        out = self.icmd("flush")[0]
        if not out.startswith("FLUSH"):
            self.problem("error", what="flush did not complete", out=out, threads=self.sess.threads)
            self.dead = True
            return
        view = self.impl_view()
        new = [x for x in view["mstrs"] if x not in before["mstrs"]]
        if len(new) != 1:
            self.problem("corr", what="flush: expected exactly one new sst in the manifest", new=new)
            self.last_view = view
            return
        roll = len(view["ls"]["frags"]) > len(before["ls"]["frags"])
        self.counts["roll"] += roll
        obs = self.model.cmd("flush %s %d" % (new[0], roll))
        self.dirty = False
        self.counts["flush"] += 1
        self.last_view = self.compare("flush", obs, view)

    def compact(self, hookdrop=None):
        """one compaction step; returns False when the selector found nothing.  hookdrop = reader id
        whose snapshot is released between the linking of the outputs and the manifest edit"""
        if self.dead:
            return False
        before = self.last_view
        if hookdrop is not None:
            self.icmd("hookdrop r%d" % hookdrop)
        out = self.icmd("compact")[0]
        t = out.split(" ")
        if out == "PANIC compact":
            # a panic of the selector (next_compaction asserts) is not a statement about files:
            # counted, reported in the evidence, and the history ends here without a C08 verdict
            self.counts["selector_panic"] += 1
            if self.k2_seen:
                # C01's known class K2 (recover.rs rebuilt levels that overlap): the selector's
                # assertions trip on such a tree
                self.counts["selector_panic_after_reopen"] += 1
            else:
                self.problem("error", what="a compaction step panicked and no reopen of this history recovered a tree of C01's class K2", out=out)
            self.dead = True
            return False
        if t[0] != "COMPACT":
            self.problem("error", what="compaction step did not complete", out=out)
            self.dead = True
            return False
        if t[1] == "none":
            self.counts["none"] += 1
            if hookdrop is not None:
                self.icmd("hookdrop -")      # disarm
            return False
        if t[1] == "err":
            self.problem("error", what="compaction returned an error", out=out)
            return False
        up, inputs = int(t[2]), t[6].split(",")
        view = self.impl_view()
        if len(inputs) == 1:
            if hookdrop is not None:
                self.icmd("hookdrop -")
            obs = self.model.cmd("move")
            self.counts["move"] += 1
            self.last_view = self.compare("trivial move", obs, view)
            return True
        e = self.last_edit(self.all_edits())
        if e is None or sorted(e["rm"]) != sorted(inputs):
            self.problem("corr", what="compaction: the manifest's last edit does not remove the selected inputs", edit=str(e)[:400], inputs=inputs)
            self.last_view = view
            return True
        self.note_edit(e)
        roll = len(view["ls"]["frags"]) > len(before["ls"]["frags"])
        self.counts["roll"] += roll
        is_gc = (up == NUM_LEVELS - 1)
        self.counts["gc" if is_gc else "merge"] += 1
        args = "%s | %s | %d %d" % (",".join(inputs), ",".join(e["add"]), roll, 0 if is_gc else 1)
        if hookdrop is None:
            obs = self.model.cmd("compact " + args)
        else:
            # the reader's release is placed where the hook placed it: after the outputs are
            # linked, before the critical section
            self.model.cmd("compactbegin " + args)
            pc = self.model.cmd("pc 2").split(" ")[1:]
            k = next(i for i, x in enumerate(pc) if x.startswith("commit"))
            self.model.cmd("step 2 %d" % k)
            self.model.cmd("drop %d" % hookdrop)
            obs = self.model.cmd("step 2")
            self.held.pop(hookdrop, None)
        self.last_view = self.compare("compaction" + (" with a reader releasing inside" if hookdrop is not None else ""), obs, view)
        return True

    def recent_edits(self, frags, k):
        """the last k edits the store applied (roll-ups, the first edit of every fragment but the
        oldest, are not edits), oldest first, each with whether its apply rolled the manifest over
        (it is then the last edit of a numbered fragment)"""
        out = []
        for fi, (name, edits) in enumerate(frags):
            body = edits if fi == 0 else edits[1:]
            for ei, e in enumerate(body):
                rolled = name != "MANIFEST" and ei == len(body) - 1
                out.append((e, rolled))
        return out[-k:]

    def compact2(self, hookdrop=None):
        """two compaction threads: both select, then the second one's whole perform phase runs after
        the first has pinned and linked its outputs and before it takes the compaction mutex for
        its manifest edit (optionally a reader lets go of its snapshot at that point, too)"""
        if self.dead:
            return False
        a = self.icmd("select")[0].split(" ")
        if a[0] == "PANIC" or a[:2] == ["SELECT", "none"] or a[0] != "SELECT":
            if a[0] == "PANIC":
                self.events.append(("select", "PANIC"))
                self.counts["selector_panic"] += 1
                if self.k2_seen:
                    self.counts["selector_panic_after_reopen"] += 1
                else:
                    self.problem("error", what="the selector panicked and no reopen of this history recovered a tree of C01's class K2", out=" ".join(a))
                self.dead = True
            else:
                self.counts["none"] += 1
            return False
        sel = [(a[1], a[7].split(","), int(a[3]))]
        for _ in range(2):
            b = self.icmd("select")[0].split(" ")
            if b[0] == "PANIC":
                # the selector's assertions tripped (the compaction mutex is poisoned from here on)
                self.counts["selector_panic"] += 1
                if self.k2_seen:
                    self.counts["selector_panic_after_reopen"] += 1
                else:
                    self.problem("error", what="the selector panicked and no reopen of this history recovered a tree of C01's class K2", out=" ".join(b))
                self.dead = True
                return False
            if b[0] != "SELECT" or b[1] == "none":
                break
            sel.append((b[1], b[7].split(","), int(b[3])))
        self.counts["selected_together_%d" % len(sel)] = self.counts.get("selected_together_%d" % len(sel), 0) + 1
        # the outer compaction must link outputs (a trivial move links nothing): the first merging one
        steps = []
        outer = next((c for c in sel if len(c[1]) > 1), None)
        if outer is not None and len(sel) > 1:
            rest = [c for c in sel if c is not outer]
            steps.append((outer[0], outer[1], outer[2], rest[0]))
            for c in rest[1:]:
                steps.append((c[0], c[1], c[2], None))
        else:
            for c in sel:
                steps.append((c[0], c[1], c[2], None))
        for idx, ins, up, inner in steps:
            before = self.last_view
            frags_before = set(before["ls"]["frags"])
            if inner is not None:
                self.icmd("hookperform %s" % inner[0])
                if hookdrop is not None and self.held.get(hookdrop) == "snap":
                    self.icmd("hookdrop r%d" % hookdrop)
                else:
                    hookdrop = None
            out = self.icmd("perform %s" % idx)[0]
            if not out.startswith("PERFORM ok") or (inner is not None and "inner=ok" not in out):
                self.problem("error", what="a deferred compaction did not complete", out=out)
                self.dead = True
                return False
            view = self.impl_view()
            n_merge = (len(ins) > 1) + (inner is not None and len(inner[1]) > 1)
            eds = self.recent_edits(self.all_edits(), n_merge) if n_merge else []
            # the inner compaction commits first

            def args(e, rolled, up):
                return "%s | %s | %d %d" % (",".join(e["rm"]), ",".join(e["add"]), rolled, 0 if up == NUM_LEVELS - 1 else 1)
            ok = True
            if inner is None:
                if len(ins) == 1:
                    obs = self.model.cmd("move")
                    self.counts["move"] += 1
                else:
                    e, rolled = eds[-1]
                    ok = sorted(e["rm"]) == sorted(ins)
                    self.note_edit(e)
                    self.counts["roll"] += rolled
                    self.counts["gc" if up == NUM_LEVELS - 1 else "merge"] += 1
                    obs = self.model.cmd("compact " + args(e, rolled, up))
            else:
                e_out, r_out = eds[-1]
                ok = sorted(e_out["rm"]) == sorted(ins)
                self.model.cmd("compactbegin @0 " + args(e_out, r_out, up))
                pc = self.model.cmd("pc 2").split(" ")[1:]
                k = next(i for i, x in enumerate(pc) if x.startswith("commit"))
                self.model.cmd("step 2 %d" % k)
                if hookdrop is not None:
                    self.model.cmd("drop %d" % hookdrop)
                    self.held.pop(hookdrop, None)
                if len(inner[1]) == 1:
                    self.model.cmd("move @1")
                    self.counts["move"] += 1
                else:
                    e_in, r_in = eds[-2]
                    ok = ok and sorted(e_in["rm"]) == sorted(inner[1])
                    self.note_edit(e_in)
                    self.counts["roll"] += r_in
                    self.model.cmd("compact @1 " + args(e_in, r_in, inner[2]))
                    self.counts["interleaved_two_merges"] = self.counts.get("interleaved_two_merges", 0) + 1
                self.note_edit(e_out)
                self.counts["roll"] += r_out
                obs = self.model.cmd("step 2")
                self.counts["interleaved_compactions"] += 1
                self.counts["gc" if up == NUM_LEVELS - 1 else "merge"] += 1
            if not ok:
                self.problem("corr", what="deferred compactions: the manifest's last edits do not remove the selected inputs", edits=str(eds)[:400])
                self.last_view = view
                return True
            self.last_view = self.compare("two compactions in flight" if inner is not None else "deferred compaction", obs, view)
            if self.dead:
                return False
        return True

    def racedrop(self, r):
        """reader r lets go of its snapshot while a compaction thread performs a selected compaction,
        placed (harness op racedrop) so that the compaction is about to pin an output X that only
        the snapshot still references when the reader is inside dec_and's callback for X (count
        gone, rename to trash not yet done).  The table lock held across the callback makes the pin
        wait; the fine-grained model (Refs/ModelLock.v) blocks it the same way, so the outcome is
        that of: the whole release, then the pin.  When the compaction pins no such output it just
        runs and the snapshot stays.  Returns False when nothing was selected, None once raced."""
        if self.dead:
            return False
        if self.held.get(r) != "snap":
            self.compact()
            return False
        a = self.icmd("select")[0].split(" ")
        if a[0] == "PANIC":
            self.events.append(("select", "PANIC"))
            self.counts["selector_panic"] += 1
            if self.k2_seen:
                self.counts["selector_panic_after_reopen"] += 1
            else:
                self.problem("error", what="the selector panicked and no reopen of this history recovered a tree of C01's class K2", out=" ".join(a))
            self.dead = True
            return False
        if a[0] != "SELECT" or a[1] == "none":
            self.counts["none"] += 1
            return False
        idx, ins, up = a[1], a[7].split(","), int(a[3])
        before = self.last_view
        out = self.icmd("racedrop r%d %s" % (r, idx))[0]
        kv = dict(x.split("=", 1) for x in out.split(" ")[1:] if "=" in x)
        if not out.startswith("RACEDROP") or kv.get("perform") != "ok":
            self.problem("error", what="a compaction racing with a reader's release did not complete", out=out)
            self.dead = True
            return False
        self.counts["racedrop"] = self.counts.get("racedrop", 0) + 1
        self.counts["racedrop_candidates"] = self.counts.get("racedrop_candidates", 0) + (kv.get("candidates", "0") != "0")
        held, window = kv.get("held", "-"), kv.get("window", "none")
        self.counts["racedrop_window_" + window] = self.counts.get("racedrop_window_" + window, 0) + 1
        view = self.impl_view()
        if held != "-":
            self.held.pop(r, None)
        if len(ins) == 1:
            # a trivial move pins nothing: the snapshot is still held
            obs = self.model.cmd("move")
            self.counts["move"] += 1
        else:
            e, rolled = self.recent_edits(self.all_edits(), 1)[-1]
            if sorted(e["rm"]) != sorted(ins):
                self.problem("corr", what="racing compaction: the manifest's last edit does not remove the selected inputs", edit=str(e)[:400], inputs=ins)
                self.last_view = view
                return True
            self.note_edit(e)
            self.counts["roll"] += rolled
            is_gc = (up == NUM_LEVELS - 1)
            self.counts["gc" if is_gc else "merge"] += 1
            args = "%s | %s | %d %d" % (",".join(ins), ",".join(e["add"]), rolled, 0 if is_gc else 1)
            if held == "-":
                # the compaction never waited (none of its outputs is held by the snapshot alone):
                # the snapshot is still held
                obs = self.model.cmd("compact " + args)
            else:
                # the compaction stopped before pinning `held`; the reader's whole release comes
                # first (its callback for `held` is where the compaction was let go, and the table
                # lock keeps the pin out until the rename is done)
                self.model.cmd("compactbegin @0 " + args)
                pc = self.model.cmd("pc 2").split(" ")[1:]
                k = next((i for i, x in enumerate(pc) if x.startswith("pinlink:") and int(x.split(":")[1], 16) == int(held, 16)), None)
                if k is None:
                    self.problem("corr", what="racing compaction: the sst it waited at is not one of its outputs", held=held, edit=str(e)[:400])
                    self.last_view = view
                    return True
                if k:
                    self.model.cmd("step 2 %d" % k)
                # the release at the fine grain: inside the callback for `held` the compaction
                # thread is offered its pin; the model says whether it may run
                fine = self.model.cmd("dropfine %d %s 0" % (r, held)).split(" ", 2)
                mwin = fine[1] if fine[0] == "DROPFINE" else "?"
                if window != "none" and mwin != window:
                    self.counts["racedrop_window_differs"] = self.counts.get("racedrop_window_differs", 0) + 1
                    self.problem("corr", what="inside the release callback of sst %s the compaction's pin was %s in the implementation and %s in the model (ModelLock.fstep with the table lock)" % (held[:16], window, mwin), name=held, out=out)
                    window = "reported"
                obs = self.model.cmd("step 2")
        if window == "entered":
            self.problem("corr", what="a compaction pinned and linked sst %s while a reader was inside the release callback of the same sst (count already gone, rename pending): the table of counts is not locked across dec_and's callback" % held[:16], name=held, out=out)
        self.last_view = self.compare("compaction racing with a reader's release", obs, view)
        return None if held != "-" else True

    def take(self, r, kind):
        if self.dead or r in self.held:
            return
        if kind == "snap":
            out = self.icmd("snap take r%d" % r)[0]
            ok = out.startswith("SNAP take")
        else:
            out = self.icmd("cur open r%d U U" % r)[0]
            ok = out == "CUR open"
        if not ok:
            self.problem("error", what="could not take a snapshot", out=out)
            return
        if kind == "cur" and self.counts["take"] % 2 == 0:
            # every other held cursor is walked to its end at once: an exhausted cursor is still a live reader
            # (it can be rewound), so it must keep its version's files exactly like a fresh one (seeded/C08-r3-1)
            out = self.icmd("cur step r%d F%s" % (r, ",N" * 40))[0]
            self.counts["cursor_exhausted_while_held"] = self.counts.get("cursor_exhausted_while_held", 0) + 1
            if "err:" in out:
                self.problem("needed", what="a scan cursor failed while being walked to its end", out=out)
        self.held[r] = kind
        obs = self.model.cmd("take %d" % r)
        self.counts["take"] += 1
        self.last_view = self.compare("take", obs)

    def drop(self, r):
        if self.dead or r not in self.held:
            return
        kind = self.held.pop(r)
        if kind == "snap":
            self.icmd("snap drop r%d" % r)
        else:
            # a held cursor reads its snapshot: every row must be readable although the tree moved on
            out = self.icmd("cur step r%d F,N,N,N,N,N,N,N,N" % r)[0]
            if "err:" in out:
                self.problem("needed", what="a held scan cursor failed to read its snapshot", out=out)
            self.icmd("cur close r%d" % r)
        obs = self.model.cmd("drop %d" % r)
        self.counts["drop"] += 1
        self.last_view = self.compare("drop", obs)

    def incarnation_oracle(self, before, where):
        """the property itself, on the implementation alone: an sst the verifier has just unlinked
        from trash/ must not be added again by any edit the verifier has not verified yet (a
        fragment numbered above its 'M' that is still on disk, or the live MANIFEST): otherwise
        the file it removed is, or will be taken for, the trash entry of a removal in an
        unverified fragment.  Inside the known class K-verifier-by-name (the re-adding edit was
        applied while the recorded intent already named the setsum) this is a KNOWN-FINDING."""
        if self.dead or not before or not self.last_view:
            return
        gone = [x for x in before["ls"]["trash"] if x not in self.last_view["ls"]["trash"]]
        if not gone:
            return
        vm = self.last_view["vm"]
        m = int(vm[9:]) if vm.startswith("MANIFEST.") else -1
        later_adds = set()
        for name, edits in self.all_edits():
            if name != "MANIFEST" and int(name[9:]) <= m:
                continue
            for e in edits:
                later_adds |= set(e["add"])
        self.counts["unlinks_checked"] += len(gone)
        for x in gone:
            if x in later_adds:
                if x in self.k_names:
                    self.known_events.append(("K-verifier-by-name", "the verifier unlinked trash/%s.sst, re-created while its recorded intent named it" % x[:8], len(self.events), x))
                else:
                    self.problem("incarnation", what="the verifier unlinked trash/%s.sst although an edit it has not verified (fragment above %s or the live MANIFEST) adds that setsum again, %s" % (x, vm, where), name=x)

    def verify(self):
        """a complete verifier pass, in the store's process"""
        if self.dead:
            return
        out = self.icmd("verify")[0]
        obs = self.model.cmd("vpass 1")
        cls = out.split(" ")[1] if out.startswith("VERIFY") else "err"
        self.counts["verify_" + (cls if cls in ("ok", "backoff") else "err")] += 1
        if cls not in ("ok", "backoff"):
            self.problem("verifier", what="verifier pass failed", out=out[:500])
        before = self.last_view
        self.last_view = self.compare("verifier pass (%s)" % cls, obs)
        self.incarnation_oracle(before, "in a complete pass")
        if cls == "backoff" and self.last_view:
            # a pass waits for a trash entry.  Normally the file is still in sst/ (a reader holds it).
            # If it is in neither directory the pass can never go on: for an sst that is the known
            # class K-verifier-by-name (an earlier unlink took a later incarnation of that name)
            path = out.split(" ")[2]
            ls = self.last_view["ls"]
            if path.endswith(".sst"):
                name = path[:-4]
                if name not in ls["sst"] and name not in ls["trash"]:
                    if name in self.readded:
                        self.known_events.append(("K-verifier-by-name", "the verifier waits for trash/%s.sst, which it unlinked itself when it processed an earlier removal of that setsum" % name[:8], len(self.events), name))
                    else:
                        self.problem("verifier", what="the verifier waits for an sst that is in neither sst/ nor trash/ and was never re-created", path=path)
            elif path.startswith("log."):
                if path[4:] not in ls["tlogs"] and path[4:] not in ls["logs"]:
                    self.problem("verifier", what="the verifier waits for a log that is in neither the root nor trash/", path=path)
        if self.last_view:
            self.counts["unlinks"] += len(before["ls"]["trash"]) + len(before["ls"]["tlogs"]) - len(self.last_view["ls"]["trash"]) - len(self.last_view["ls"]["tlogs"])

    def verify_killed(self, j):
        """a verifier pass in a process of its own, killed before its j-th unlink system call"""
        if self.dead:
            return
        cmd = ["strace", "-f", "-o", "/dev/null", "-e", "trace=unlink,unlinkat",
               "-e", "inject=unlink,unlinkat:signal=SIGKILL:when=%d" % j, self.exe, "--verify", self.root] + self.opts
        try:
            p = subprocess.run(cmd, stdout=subprocess.PIPE, stderr=subprocess.DEVNULL, timeout=120)
            out = p.stdout.decode().strip()
        except subprocess.TimeoutExpired:
            self.problem("error", what="verifier process hung")
            return
        self.events.append(("verify-killed %d" % j, out[:200]))
        m = self.model.cmd("vkill %d" % j)
        reached_model = m.startswith("KILLED")
        reached_impl = not out.startswith("VERIFY")
        self.counts["vkill"] += 1
        self.counts["vkill_reached"] += reached_impl
        if reached_model != reached_impl:
            self.problem("corr", what="verifier pass: the model and the implementation disagree on whether a %d-th unlink happens" % j,
                         impl=out[:200], model=m[:80])
        before = self.last_view
        self.last_view = self.compare("verifier pass killed before unlink %d" % j, m.split(" ", 1)[1])
        self.incarnation_oracle(before, "in a pass killed before unlink %d" % j)

    def store_killed(self, what, j):
        """the store process is killed (SIGKILL) before the j-th rename it issues during a flush or a
        compaction step; then the direct oracle: the store reopens, everything the manifest lists
        is in sst/, and every key reads back what was written.  The history ends here (the model is
        not told where inside the operation the process died)."""
        if self.dead:
            return
        if what == "flush" and not self.dirty:
            return
        pid = self.sess.p.pid
        tr = subprocess.Popen(["strace", "-f", "-p", str(pid), "-o", "/dev/null", "-e", "trace=rename,renameat,renameat2",
                               "-e", "inject=rename,renameat,renameat2:signal=SIGKILL:when=%d" % j],
                              stdout=subprocess.DEVNULL, stderr=subprocess.PIPE)
        # strace announces the attach on stderr
        line = tr.stderr.readline().decode(errors="replace")
        if "ttached" not in line:
            time.sleep(0.3)
        before = self.last_view
        killed = False
        for _ in range(60 if what == "compact" else 1):
            out = self.sess.cmd(what)
            self.events.append((what + " (kill at rename %d armed)" % j, out[-1][:120]))
            if out[-1] in ("EOF", "HANG"):
                killed = True
                break
            if out[-1].startswith("COMPACT none"):
                break
        try:
            tr.terminate()
            tr.wait(timeout=10)
        except Exception:
            tr.kill()
        self.counts["skill"] += 1
        self.counts["skill_reached"] += killed
        if killed:
            key = "skill_hit_%s_rename%d" % (what, j)
            self.counts[key] = self.counts.get(key, 0) + 1
        try:
            self.sess.p.kill()
        except Exception:
            pass
        self.sess.close()
        # reopen: the direct oracle
        self.sess = lsmlib.Session(self.exe, self.root, self.opts)
        self.events.append(("open after kill", self.sess.open_line))
        if self.sess.open_line != "OPEN ok":
            self.problem("needed", what="the store does not reopen after being killed inside a %s" % what, line=self.sess.open_line)
            self.dead = True
            return
        self.dead = False
        self.held = {}
        view = self.impl_view()
        self.recovered_tree()
        self.counts["reopen"] += 1
        self.check_needed(view, "reopen after kill inside " + what)
        self.reads()
        self.dead = True          # nothing more is compared against the model in this history

    def finish(self):
        try:
            if self.sess:
                self.sess.close()
        except Exception:
            pass
        self.model.close()
        shutil.rmtree(self.root, ignore_errors=True)
