"""Helpers of the C04 check: the real store as a co-process (`c04 session`, one process per session),
the stateless tool co-process (`c04 tool`: inspect / verify / build), parsing of what they print,
an independent Python rendering of the setsum definition (direct oracle) and of crc32c (to re-frame
tampered manifest lines).  Session is copied from checks/lsmlib.py (not imported: that file belongs
to the coordinator)."""
import hashlib
import os
import select
import shutil
import subprocess

PRIMES = None   # filled by c04.py from tools/constants.py (re-extracted from /repo on every run)


def hx(b):
    return b.hex() if b else "-"


def unhx(s):
    return b"" if s == "-" else bytes.fromhex(s)


# ---------------------------------------------------------------- independent setsum (direct oracle)
def item_of(ent):
    k, ts, v = ent
    if v is None:
        return b"\x09" + k + ts.to_bytes(8, "little")
    return b"\x08" + k + ts.to_bytes(8, "little") + v


def item_hash(ent):
    return hashlib.sha3_256(item_of(ent)).digest()


def cols_of_digest(d):
    return [int.from_bytes(d[4 * i:4 * i + 4], "little") % p for i, p in enumerate(PRIMES)]


def ss_zero():
    return [0] * 8


def ss_add(a, b):
    return [(x + y) % p for x, y, p in zip(a, b, PRIMES)]


def ss_sub(a, b):
    return [(x - y) % p for x, y, p in zip(a, b, PRIMES)]


def ss_hex(s):
    return b"".join(c.to_bytes(4, "little") for c in s).hex()


def ss_from_hex(h):
    return cols_of_digest(bytes.fromhex(h))


def ss_of_entries(ents):
    s = ss_zero()
    for e in ents:
        s = ss_add(s, cols_of_digest(item_hash(e)))
    return s


ZERO_HEX = "00" * 32


# ---------------------------------------------------------------- crc32c (Castagnoli), table driven
def _mk_table():
    tab = []
    for i in range(256):
        c = i
        for _ in range(8):
            c = (c >> 1) ^ 0x82F63B78 if c & 1 else c >> 1
        tab.append(c)
    return tab


_CRC_TAB = _mk_table()


def crc32c(data):
    c = 0xFFFFFFFF
    for b in data:
        c = _CRC_TAB[(c ^ b) & 0xFF] ^ (c >> 8)
    return c ^ 0xFFFFFFFF


def mani_line(body):
    """one manifest line as mani::_apply frames it: 8 hex digits crc32c of the rest, the rest, newline"""
    return ("%08x%s\n" % (crc32c(body.encode()), body)).encode()


# ---------------------------------------------------------------- co-processes
class Session:
    def __init__(self, exe, root, opts):
        self.p = subprocess.Popen([exe, "session", root] + opts, stdin=subprocess.PIPE, stdout=subprocess.PIPE,
                                  stderr=(open(os.environ["C04_LOUD"], "ab") if os.environ.get("C04_LOUD") else subprocess.DEVNULL), bufsize=0)
        self.buf = b""
        self.threads = []
        ln = self.readline(120)
        self.open_line = (ln or "HANG").strip()

    def readline(self, timeout):
        fd = self.p.stdout.fileno()
        while b"\n" not in self.buf:
            ready, _, _ = select.select([fd], [], [], timeout)
            if not ready:
                return None
            chunk = os.read(fd, 1 << 16)
            if not chunk:
                rest, self.buf = self.buf, b""
                return rest.decode() if rest else ""
            self.buf += chunk
        line, self.buf = self.buf.split(b"\n", 1)
        return line.decode() + "\n"

    def cmd(self, line):
        self.p.stdin.write((line + "\n").encode())
        self.p.stdin.flush()
        outs = []
        while True:
            ln = self.readline(120)
            if ln is None:
                self.p.kill()
                outs.append("HANG")
                return outs
            if not ln:
                outs.append("EOF")
                return outs
            ln = ln.rstrip("\n")
            if ln.startswith("THREAD"):
                self.threads.append(ln)
                continue
            outs.append(ln)
            if ln.startswith("FILE "):
                continue
            return outs

    def close(self):
        try:
            self.p.stdin.close()
        except Exception:
            pass
        try:
            self.p.wait(timeout=20)
        except subprocess.TimeoutExpired:
            self.p.kill()
            self.p.wait()


class Tool:
    """`c04 tool` co-process; answers are the lines prefixed @@ (stray prints of library code are dropped)"""

    def __init__(self, exe):
        self.p = subprocess.Popen([exe, "tool"], stdin=subprocess.PIPE, stdout=subprocess.PIPE, stderr=subprocess.DEVNULL)

    def cmd(self, line, multi=False):
        self.p.stdin.write((line + "\n").encode())
        self.p.stdin.flush()
        outs = []
        while True:
            ln = self.p.stdout.readline().decode()
            if not ln:
                outs.append("EOF")
                return outs
            if not ln.startswith("@@"):
                continue
            ln = ln[2:].rstrip("\n")
            if not multi:
                return [ln]
            if ln == "END":
                return outs
            outs.append(ln)

    def close(self):
        try:
            self.p.stdin.close()
            self.p.wait(timeout=10)
        except Exception:
            self.p.kill()


class Model:
    """the extracted Coq model (ocaml/books/mx_books) as a co-process: one line in, one line out"""

    def __init__(self, exe):
        self.p = subprocess.Popen([exe], stdin=subprocess.PIPE, stdout=subprocess.PIPE, stderr=subprocess.PIPE)

    def cmd(self, line):
        self.p.stdin.write((line + "\n").encode())
        self.p.stdin.flush()
        out = self.p.stdout.readline().decode()
        if not out:
            err = self.p.stderr.read().decode()
            raise RuntimeError("model driver died on %r: %s" % (line[:300], err[-800:]))
        return out.rstrip("\n")

    def close(self):
        try:
            self.p.stdin.close()
            self.p.wait(timeout=10)
        except Exception:
            self.p.kill()


# ---------------------------------------------------------------- parsing
def parse_ent(tok):
    k, ts, v = tok.split(":")
    return (unhx(k), int(ts), None if v == "~" else unhx(v))


def ent_tok(e):
    return "%s:%d:%s" % (hx(e[0]), e[1], "~" if e[2] is None else hx(e[2]))


class Edit:
    def __init__(self, line):
        t = line.split(" ")
        self.info = {}
        self.adds, self.rms = [], []
        for x in t[1:]:
            if x.startswith("+"):
                self.adds = [y for y in x[1:].split(",") if y]
            elif x.startswith("-") and not x.startswith("-="):
                self.rms = [y for y in x[1:].split(",") if y]
            elif "=" in x:
                k, v = x.split("=", 1)
                if v != "-":
                    self.info[k] = v

    def key(self):
        return (self.info.get("I"), self.info.get("O"), self.info.get("D"), self.info.get("L"), tuple(sorted(self.adds)), tuple(sorted(self.rms)))


class Inspection:
    def __init__(self, lines):
        self.frags = {"mani": [], "verify": []}      # lists of (id, [Edit], err)
        self.inos = {}                               # (tag, id) -> inode
        self.mv = {}                                 # fragment id -> "ok n" / "err ..."
        self.state = {}
        self.files = {"sst": {}, "trash": {}}        # name -> (meta, recomputed, ents) or ("ERR", cls)
        self.other = {"sst": [], "trash": []}
        self.logs = []
        self.dirs = {}
        self.names = {"sst": [], "trash": []}        # brief mode: names only
        self.older = {"mani": [], "verify": []}      # brief mode: ids of fragments not re-read
        cur = None
        for ln in lines:
            t = ln.split(" ")
            if t[0] == "FRAGID":
                self.older[t[1]].append(t[2])
            elif t[0] == "SSTNAME":
                self.names[t[1]].append(t[2])
            elif t[0] == "FRAG":
                cur = [t[2], [], None]
                self.frags[t[1]].append(cur)
                self.inos[(t[1], t[2])] = t[3] if len(t) > 3 else "?"
            elif t[0] == "EDIT":
                cur[1].append(Edit(ln))
            elif t[0] in ("EDITERR", "FRAGERR"):
                cur[2] = t[1]
            elif t[0] == "MV":
                self.mv[t[1]] = " ".join(t[2:])
            elif t[0] == "STATE":
                d = {}
                for x in t[2:]:
                    k, v = x.split("=", 1)
                    d[k] = v
                d["strs"] = [s for s in d.get("strs", "").split(",") if s]
                self.state[t[1]] = d
            elif t[0] == "SST":
                self.names[t[1]].append(t[2])
                if t[3] == "ERR":
                    self.files[t[1]][t[2]] = ("ERR", t[4] if len(t) > 4 else "?", [])
                else:
                    self.files[t[1]][t[2]] = (t[3], t[4], [parse_ent(x) for x in t[5:]])
            elif t[0] == "OTHER":
                self.other[t[1]].append(t[2])
            elif t[0] == "LOGS":
                self.logs = [x for x in (t[1].split(",") if len(t) > 1 else []) if x]
            elif t[0] == "DIR":
                self.dirs[t[1]] = [x for x in (t[2].split(",") if len(t) > 2 else []) if x]


def parse_sst1(line):
    """answer of the tool's `sst <path>`"""
    t = line.split(" ")
    if t[1] == "ERR":
        return ("ERR", t[2] if len(t) > 2 else "?", [])
    return (t[1], t[2], [parse_ent(x) for x in t[3:]])


def fresh_root(tag):
    base = "/dev/shm" if os.path.isdir("/dev/shm") else "/verif/work/C04/stores"
    root = os.path.join(base, "blue_verif_c04_%s_%d" % (tag, os.getpid()))
    shutil.rmtree(root, ignore_errors=True)
    return root
