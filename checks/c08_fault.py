"""checks/c08_fault.py - stage `ingest-fault` of C08: LsmTree::ingest on a bare tree (no KeyValueStore, so no log
replay that could put a removed file back) with an I/O error injected at EVERY system call of the ingest in turn.

Model: coq/theories/Refs/IngestFault.v (`prog` = the calls an ingest issues, `ingest` = the directory, the manifest a
reader reconstructs, the numbered fragments, MANIFEST.tmp and the poison flag after a fault at call k).  Theorems
C08_ingest_fault_* in Props_C08.v: for any sequence of ingests with any faults every listed sst is in sst/ and nothing
is ever removed; the clean-up variant is refuted.

Tie: for each generated case a real session is recorded with strace (dry run), the calls between the two markers
the harness places around LsmTree::ingest are mapped to the model's calls and compared with `prog`; then, for every
call k of that list, a fresh copy of the directory is run with `strace -e inject=<syscall>:error=EIO:when=<ordinal>`
and what the process left behind (ls of sst/ and mani/, the fold of MANIFEST's edits, the result, the result of a
follow-up ingest in the same process) is compared with `Eval vm_compute` of the model.  Independently of the model,
the property itself is judged on every image: every name the manifest lists is in sst/, nothing that was in sst/
before the ingest is gone, a fresh process opens the directory, still has every listed file and reads every key of
the ssts the manifest lists."""
import json
import os
import re
import shutil
import subprocess

import vlib

TRACE = "link,linkat,openat,write,fdatasync,fsync,rename,renameat,renameat2,unlink,unlinkat,statx,newfstatat,stat"
CALLS = ["CStat", "CLink", "CMOpen", "CMWrite", "CMSync", "CMStat", "CRLink", "CTRm", "CTOpen", "CTWrite", "CTSync", "CRename"]


def hx(b):
    return b.hex() if b else "-"


def session(exe, db, script, trace=None, inject=None, timeout=60):
    cmd = [exe, db]
    if trace or inject:
        st = ["strace", "-f", "-y", "-s", "64", "-o", trace or "/dev/null", "-e", "trace=" + TRACE]
        if inject:
            st += ["-e", "inject=%s:error=EIO:when=%d" % inject]
        cmd = st + cmd
    try:
        p = subprocess.run(cmd, input=("\n".join(script) + "\n").encode(), stdout=subprocess.PIPE, stderr=subprocess.DEVNULL, timeout=timeout)
        return p.stdout.decode("utf-8", "replace").split("\n")
    except subprocess.TimeoutExpired:
        return ["HANG"]


def parse_ls(line):
    d = {"sst": [], "mani": [], "trash": []}
    if line.startswith("LS"):
        for it in line.split(" ")[1:]:
            k, _, v = it.partition("=")
            d[k] = [x for x in v.split(",") if x]
    return d


def parse_mani(line):
    if not line.startswith("MANI") or "OPENERR" in line or " ERR" in line:
        return None
    v = line.split("strs=", 1)[1] if "strs=" in line else ""
    return [x for x in v.split(",") if x]


def classify(line):
    """one strace line -> (syscall, model call | None | 'X:<what>')"""
    m = re.match(r"\d+\s+(\w+)\((.*)$", line)
    if not m:
        return None, None
    sysc, rest = m.group(1), m.group(2)
    paths = re.findall(r'"([^"]*)"', rest)
    fdp = re.match(r"\d+<([^>]*)>", rest)
    if sysc == "openat":
        p = paths[0] if paths else ""
        if "/ingest/" in p:
            return sysc, "CStat"
        if p.endswith("/mani/MANIFEST"):
            return sysc, "CMOpen"
        if p.endswith("/mani/MANIFEST.tmp"):
            return sysc, "CTOpen"
        return sysc, "X:openat " + p
    if sysc in ("statx", "newfstatat", "stat"):
        p = paths[0] if paths else ""
        return sysc, ("CMStat" if p.endswith("/mani/MANIFEST") else None)
    if sysc in ("link", "linkat"):
        dst = paths[1] if len(paths) > 1 else ""
        if "/sst/" in dst:
            return sysc, "CLink"
        if "/mani/MANIFEST." in dst:
            return sysc, "CRLink"
        return sysc, "X:link " + dst
    if sysc in ("write", "fdatasync", "fsync"):
        p = fdp.group(1) if fdp else ""
        if p.endswith("/mani/MANIFEST"):
            return sysc, ("CMWrite" if sysc == "write" else "CMSync")
        if p.endswith("/mani/MANIFEST.tmp"):
            return sysc, ("CTWrite" if sysc == "write" else "CTSync")
        if sysc == "write":
            return sysc, None        # the harness's own stdout
        return sysc, "X:%s %s" % (sysc, p)
    if sysc in ("rename", "renameat", "renameat2"):
        if len(paths) > 1 and paths[0].endswith("/mani/MANIFEST.tmp") and paths[1].endswith("/mani/MANIFEST"):
            return sysc, "CRename"
        return sysc, "X:rename " + " ".join(paths)
    if sysc in ("unlink", "unlinkat"):
        p = paths[0] if paths else ""
        if p.endswith("/mani/MANIFEST.tmp"):
            return sysc, "CTRm"
        if "/ingest/" in p:
            return sysc, None        # the harness removes its source file after the call
        return sysc, "X:unlink " + p
    return sysc, None


def window(trace_path, which):
    """calls of the which-th (0-based) marked ingest: list of (model call, syscall, ordinal of that syscall in the process)"""
    counts, out, inside, seen = {}, [], False, -1
    for line in open(trace_path, errors="replace"):
        if "+++ exited" in line or "--- SIG" in line:
            continue
        sysc, c = classify(line)
        if sysc is None:
            continue
        counts[sysc] = counts.get(sysc, 0) + 1
        if "blue-verif-mark-ingest-begin" in line:
            seen += 1
            inside = seen == which
            continue
        if "blue-verif-mark-ingest-end" in line:
            inside = False
            continue
        if inside and c is not None:
            out.append((c, sysc, counts[sysc], "= -1 EIO" in line and "(INJECTED)" in line))
    return out


def ents_arg(ents):
    return ",".join("%s.%d.%s" % (hx(k), ts, "~" if v is None else hx(v)) for k, ts, v in ents)


def gen_case(rng, i):
    keys = [bytes([0x61 + j]) for j in range(8)]
    ts = [0]

    def sst():
        n = rng.range(1, 3)
        ks = sorted(set(rng.choice(keys) for _ in range(n)))
        out = []
        for k in ks:
            ts[0] += 1
            out.append((k, ts[0], None if rng.chance(15, 100) else bytes([rng.range(0x30, 0x39)]) * rng.range(1, 4)))
        return out
    n_setup = [0, 1, 2, 3, 5, 8][i % 6] if i < 12 else rng.range(0, 9)
    setup = [sst() for _ in range(n_setup)]
    pre = [sst() for _ in range([0, 1, 2, 1, 3][i % 5])]
    target = sst()
    follow = sst()
    return {"name": "f%d" % i, "setup": setup, "pre": pre, "target": target, "follow": follow,
            "stray_tmp": i % 3 == 1, "dup": i % 7 == 6 and n_setup > 0, "compact": rng.range(0, 2) if n_setup >= 2 else 0}


def latest(ssts_in_manifest_order):
    best = {}
    for ents in ssts_in_manifest_order:
        for k, ts, v in ents:
            if k not in best or best[k][0] < ts:
                best[k] = (ts, v)
    return best


def run_case(args):
    exe, workroot, case = args
    name = case["name"]
    base = os.path.join(workroot, name)
    shutil.rmtree(base, ignore_errors=True)
    os.makedirs(base)
    res = {"name": name, "problems": [], "corr": [], "runs": 0, "faults": {}, "model_cases": [], "calls": []}
    d0 = os.path.join(base, "d0")
    # ---- session A: the setup
    script = ["ingest " + ents_arg(e) for e in case["setup"]] + ["compact"] * case["compact"] + ["ls", "mani"]
    out = session(exe, d0, script)
    if not out or out[0] != "OPEN ok":
        res["problems"].append({"kind": "machinery", "what": "setup session did not open: %s" % out[:2]})
        return res
    if case["dup"]:
        case = dict(case, target=case["setup"][0])
    npre = len(case["pre"]) + (1 if case["stray_tmp"] else 0)
    tscript = ["ingest " + ents_arg(e) for e in case["pre"]] + (["plant MANIFEST.tmp"] if case["stray_tmp"] else []) + ["ls", "mani", "ingest " + ents_arg(case["target"]), "ls", "mani", "ingest " + ents_arg(case["follow"]), "ls", "mani"]

    def one(tag, inject):
        d = os.path.join(base, tag)
        shutil.rmtree(d, ignore_errors=True)
        shutil.copytree(d0, d, symlinks=True)
        tr = os.path.join(base, tag + ".trace")
        out = session(exe, d, tscript, trace=tr, inject=inject)
        res["runs"] += 1
        r = {"tag": tag, "open": out[0] if out else "NOOUT", "raw": out[:12]}
        if r["open"] != "OPEN ok" or len(out) < 9 + npre:
            return r, d, tr
        out = out[:1] + out[1 + npre:]
        r["ls0"], r["m0"] = parse_ls(out[1]), parse_mani(out[2])
        r["res1"], r["ls1"], r["m1"] = out[3], parse_ls(out[4]), parse_mani(out[5])
        r["res2"], r["ls2"], r["m2"] = out[6], parse_ls(out[7]), parse_mani(out[8])
        return r, d, tr

    dry, ddir, dtr = one("dry", None)
    if dry["open"] != "OPEN ok" or "ls0" not in dry:
        res["problems"].append({"kind": "machinery", "what": "dry run failed: %s" % dry["raw"][:3]})
        return res
    win = window(dtr, len(case["pre"]))
    res["calls"] = [w[0] for w in win]
    # names -> small numbers for the model
    names = {}

    def num(n):
        n = n[:-4] if n.endswith(".sst") else n
        if n not in names:
            names[n] = len(names) + 1
        return names[n]
    for n in dry["ls0"]["sst"]:
        num(n)
    for n in dry["m0"] or []:
        num(n)
    new1 = [n for n in dry["ls1"]["sst"] if n not in dry["ls0"]["sst"]]
    new2 = [n for n in dry["ls2"]["sst"] if n not in dry["ls1"]["sst"]]
    if case["dup"]:
        # the target is the first setup sst, whose name is whatever session A called it: the one the dry run refused
        x_name = None
    else:
        if len(new1) != 1 or not dry["res1"].startswith("INGEST ok"):
            res["problems"].append({"kind": "machinery", "what": "dry run: target ingest did not add exactly one file: %s %s" % (dry["res1"], new1)})
            return res
        x_name = new1[0][:-4]
    y_name = new2[0][:-4] if len(new2) == 1 else None
    backups0 = sorted(int(n.split(".")[1]) for n in dry["ls0"]["mani"] if re.match(r"MANIFEST\.\d+$", n))
    backups1 = sorted(int(n.split(".")[1]) for n in dry["ls1"]["mani"] if re.match(r"MANIFEST\.\d+$", n))
    backups2 = sorted(int(n.split(".")[1]) for n in dry["ls2"]["mani"] if re.match(r"MANIFEST\.\d+$", n))
    roll1 = len(backups1) > len(backups0)
    roll2_dry = len(backups2) > len(backups1)
    tmp0 = "MANIFEST.tmp" in dry["ls0"]["mani"]
    s0 = {"sst": [num(n) for n in dry["ls0"]["sst"]], "live": [num(n) for n in dry["m0"] or []], "backups": backups0,
          "next": (max(backups0) if backups0 else 0) + 1, "tmp": tmp0}
    if case["dup"]:
        # duplicate: the model wants the name; it is the file the follow-up did not create and that the
        # first setup ingest created - read it off the refused result's position: any listed name works for
        # `mem x sst = true`, and the model's answer does not depend on which
        xnum = s0["sst"][0] if s0["sst"] else 1
    else:
        xnum = num(x_name)
    ynum = num(y_name) if y_name else 999
    res["model_cases"].append({"id": name + ":dry", "s0": s0, "x": xnum, "roll": roll1, "fault": None, "y": ynum, "roll2": roll2_dry})
    res["faults"]["dry"] = {"run": dry, "names": dict(names), "x": xnum, "y": ynum, "roll2": roll2_dry}
    best_before = None
    # ---- one faulted run per call of the window
    for k, (c, sysc, ordinal, _) in enumerate(win):
        if c.startswith("X:"):
            continue
        r, d, tr = one("k%d" % k, (sysc, ordinal))
        tag = "k%d" % k
        if r["open"] != "OPEN ok" or "ls1" not in r:
            res["problems"].append({"kind": "error", "what": "session with EIO at call %d (%s) of the ingest did not complete: %s" % (k, c, r["raw"][:4]), "fault": k})
            continue
        w = window(tr, len(case["pre"]))
        hit = [j for j, x in enumerate(w) if x[3]]
        if hit != [k]:
            # the injection did not land on the intended call (not deterministic): nothing to judge
            res["corr"].append({"what": "injection landed on %s instead of call %d" % (hit, k), "fault": k, "soft": True})
            continue
        after_fault = [x[0] for x in w[k + 1:]]
        if after_fault:
            res["corr"].append({"what": "calls after the failed call %d (%s) inside the ingest: %s (model: none)" % (k, c, after_fault), "fault": k})
        b2 = sorted(int(n.split(".")[1]) for n in r["ls2"]["mani"] if re.match(r"MANIFEST\.\d+$", n))
        b1 = sorted(int(n.split(".")[1]) for n in r["ls1"]["mani"] if re.match(r"MANIFEST\.\d+$", n))
        new2 = [n[:-4] for n in r["ls2"]["sst"] if n not in r["ls1"]["sst"]]
        yk = num(new2[0]) if len(new2) == 1 else ynum
        res["model_cases"].append({"id": name + ":" + tag, "s0": s0, "x": xnum, "roll": roll1, "fault": k, "y": yk, "roll2": len(b2) > len(b1)})
        res["faults"][tag] = {"run": r, "names": dict(names), "x": xnum, "y": yk, "call": c, "roll2": len(b2) > len(b1)}
        # ---- the property, directly, on the image the failed ingest left (and after the follow-up)
        for stage, ls, m in (("after the failed ingest", r["ls1"], r["m1"]), ("after the follow-up ingest", r["ls2"], r["m2"])):
            if m is None:
                res["problems"].append({"kind": "needed", "what": "%s (EIO at call %d = %s) the MANIFEST cannot be read" % (stage, k, c), "fault": k})
                continue
            lost = [n for n in m if n + ".sst" not in ls["sst"]]
            if lost:
                res["problems"].append({"kind": "needed", "what": "%s (EIO at call %d = %s) the manifest lists %s but sst/ does not hold it" % (stage, k, c, lost), "fault": k})
            gone = [n for n in r["ls0"]["sst"] if n not in ls["sst"]]
            if gone:
                res["problems"].append({"kind": "needed", "what": "%s (EIO at call %d = %s) %s was removed from sst/" % (stage, k, c, gone), "fault": k})
        # ---- a fresh process
        keys = sorted(set(k_ for e in case["setup"] + case["pre"] + [case["target"], case["follow"]] for k_, _, _ in e))
        out = session(exe, d, ["ls", "mani", "get " + ",".join(hx(x) for x in keys)])
        res["runs"] += 1
        if not out or out[0] != "OPEN ok":
            res["problems"].append({"kind": "error", "what": "after EIO at call %d (%s) of an ingest a fresh process cannot open the tree: %s" % (k, c, out[:1]), "fault": k})
        else:
            ls, m = parse_ls(out[1]), parse_mani(out[2])
            lost = [n for n in (m or []) if n + ".sst" not in ls["sst"]]
            if m is None or lost:
                res["problems"].append({"kind": "needed", "what": "after EIO at call %d (%s) and a reopen the manifest lists %s but sst/ does not hold it" % (k, c, lost), "fault": k})
            was = r["m2"] or []
            if m is not None and sorted(m) != sorted(was):
                res["problems"].append({"kind": "needed", "what": "a reopen changed the listed set: %s -> %s" % (was, m), "fault": k})
            if "err:" in (out[3] if len(out) > 3 else "err:"):
                res["problems"].append({"kind": "read", "what": "after EIO at call %d (%s) and a reopen a read fails: %s" % (k, c, out[3] if len(out) > 3 else out), "fault": k})
        shutil.rmtree(d, ignore_errors=True)
        try:
            os.unlink(tr)
        except OSError:
            pass
    shutil.rmtree(base, ignore_errors=True)
    return res


def nlist(l):
    return "[" + "; ".join(str(x) for x in l) + "]"


def model_eval(chk, cases):
    """-> {id: (obs1, obs2, prog)} by one coqc run"""
    lines = ["From Coq Require Import NArith List Bool.", "From Blue Require Import Refs.Model Refs.IngestFault.", "Import ListNotations.", "Open Scope N_scope."]
    for i, c in enumerate(cases):
        s0 = c["s0"]
        lines.append("Definition s%d := mkI %s %s %s %d %s false %s." % (
            i, nlist(s0["sst"]), nlist(s0["live"]), nlist(s0["backups"]), s0["next"], "(Some [])" if s0["tmp"] else "None", nlist(s0["live"])))
        f = "None" if c["fault"] is None else "(Some %d%%nat)" % c["fault"]
        lines.append("Definition r%d := ingest false %d %s %s s%d." % (i, c["x"], "true" if c["roll"] else "false", f, i))
        lines.append('Goal True. idtac "@@CASE %d". Abort.' % i)
        lines.append("Eval vm_compute in (obs %d r%d, obs %d (ingest false %d %s None (fst r%d)), prog %d %s s%d)." % (
            c["x"], i, c["y"], c["y"], "true" if c["roll2"] else "false", i, c["x"], "true" if c["roll"] else "false", i))
    os.makedirs(chk.work, exist_ok=True)
    path = os.path.join(chk.work, "IngestFaultCases.v")
    open(path, "w").write("\n".join(lines) + "\n")
    rc, out = vlib.sh(["coqc", "-noglob", "-Q", os.path.join(vlib.COQ, "theories"), "Blue", path], cwd=chk.work, timeout=600)
    if rc != 0:
        return None, out
    res = {}
    for m in re.finditer(r"@@CASE (\d+)\s*=\s*(.*?)\s*:\s*\(?bool", out, flags=re.S):
        txt = " ".join(m.group(2).split())
        mm = re.match(r"\((.*?), (\[.*?\]), (true|false), (true|false), \((.*?), (\[.*?\]), (true|false), (true|false)\), (\[.*\])\)$", txt)
        if not mm:
            res[cases[int(m.group(1))]["id"]] = ("UNPARSED " + txt,)
            continue

        def ob(a, bk, tmp, poi):
            t = [x.strip() == "true" for x in a.replace("(", "").replace(")", "").split(",")]
            return {"present": t[0], "listed": t[1], "ok": t[2], "backups": [int(x) for x in bk.strip("[]").split(";") if x.strip()], "tmp": tmp == "true", "poison": poi == "true"}
        res[cases[int(m.group(1))]["id"]] = (ob(mm.group(1), mm.group(2), mm.group(3), mm.group(4)), ob(mm.group(5), mm.group(6), mm.group(7), mm.group(8)),
                                             [x.strip() for x in mm.group(9).strip("[]").split(";") if x.strip()])
    return res, out


def compare(res, model):
    """implementation images vs the model's answers"""
    corr = []
    for tag, f in res["faults"].items():
        mid = res["name"] + ":" + tag
        m = model.get(mid)
        if m is None or len(m) != 3:
            corr.append({"what": "no model answer for %s: %s" % (mid, m), "fault": tag})
            continue
        r, names = f["run"], f["names"]
        inv = {v: k for k, v in names.items()}
        if tag == "dry":
            if res["calls"] != m[2]:
                corr.append({"what": "the calls of the real ingest %s are not the model's %s" % (res["calls"], m[2]), "fault": tag})
        for which, (ls, mm_, rs, who, mo) in enumerate(((r["ls1"], r["m1"], r["res1"], f["x"], m[0]), (r["ls2"], r["m2"], r["res2"], f["y"], m[1]))):
            nm = inv.get(who)
            impl = {"present": (nm + ".sst") in ls["sst"] if nm else False, "listed": nm in (mm_ or []) if nm else False, "ok": rs.startswith("INGEST ok"),
                    "backups": sorted(int(n.split(".")[1]) for n in ls["mani"] if re.match(r"MANIFEST\.\d+$", n)), "tmp": "MANIFEST.tmp" in ls["mani"]}
            mod = {k: mo[k] for k in impl}
            mod["backups"] = sorted(mod["backups"])
            if which == 1 and nm is None:
                # the follow-up created no new file (duplicate of something present): only success is compared
                impl = {"ok": impl["ok"]}
                mod = {"ok": mod["ok"]} if who != 999 else impl
            if impl != mod:
                corr.append({"what": "%s ingest (%s): implementation %s, model %s" % (["target", "follow-up"][which], tag + ((" = " + f["call"]) if "call" in f else ""), impl, mod), "fault": tag})
    return corr


def run_stage(chk, rng, exe, pool_map):
    n = 40 if chk.tier == "quick" else 400
    cases = [gen_case(rng.fork(), i) for i in range(n)]
    workroot = os.path.join(chk.work, "ingest_fault")
    os.makedirs(workroot, exist_ok=True)
    results = pool_map(run_case, [(exe, workroot, c) for c in cases])
    allm = [mc for r in results for mc in r["model_cases"]]
    model, mout = model_eval(chk, allm) if allm else ({}, "")
    cov = {"cases": n, "processes_run": sum(r["runs"] for r in results), "faulted_ingests": sum(len(r["faults"]) - (1 if "dry" in r["faults"] else 0) for r in results),
           "calls_seen": {}, "with_rollover": 0, "with_stray_tmp": 0, "duplicates": 0}
    for r, c in zip(results, cases):
        for x in r["calls"]:
            cov["calls_seen"][x] = cov["calls_seen"].get(x, 0) + 1
        cov["with_rollover"] += 1 if "CRLink" in r["calls"] else 0
        cov["with_stray_tmp"] += 1 if "CTRm" in r["calls"] else 0
        cov["duplicates"] += 1 if c["dup"] else 0
    prop_bad, corr_bad, mach_bad = [], [], []
    for r, c in zip(results, cases):
        probs = r["problems"]
        corr = [x for x in r["corr"] if not x.get("soft")]
        if model is None:
            mach_bad.append({"name": r["name"], "what": "model evaluation failed: " + mout[-800:]})
        else:
            corr += compare(r, model)
        rp = {"stage": "ingest-fault", "name": r["name"], "case": json.loads(json.dumps(c, default=lambda b: b.hex())), "calls": r["calls"]}
        if any(p["kind"] == "machinery" for p in probs):
            mach_bad.append(dict(rp, problems=probs[:4]))
        elif probs:
            prop_bad.append(dict(rp, problems=probs[:6], correspondence=corr[:4]))
        elif corr:
            corr_bad.append(dict(rp, correspondence=corr[:6]))
    cov["soft_misses"] = sum(1 for r in results for x in r["corr"] if x.get("soft"))
    return cov, prop_bad, corr_bad, mach_bad
