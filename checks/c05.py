"""C05 — compaction conserves every version; GC discards only what policy permits (the
garbage-collection half: sst/src/gc.rs and the walk of lsmtk perform_garbage_collection).

Decided by: theorems of coq/theories/Gc/Props_C05.v over the executable model Gc/Model.v, tied to
the code by running the real collector (through the real nom parser), the extracted model, the
extracted specification and an independent Python statement of the policy semantics on the same
generated inputs; by running a transcription of the lsmtk walk over real SSTs / MergingCursor /
collector / Setsum; and by single-stepping real lsmtk stores through real garbage collections and
comparing full multi-version dumps before and after every compaction as multisets."""
import collections
import hashlib
import json
import os
import shutil

import vlib

META = {
    "category": "proof",
    "text": "Coq theorems (Gc/Props_C05.v, closed under the global context). FIRST HALF, over area Lsm's tree model: for every admissible compaction and every cut of the sorted merge of its inputs into non-empty files, Permutation (file_entries (apply_compaction v c outs)) (file_entries v); perform_compaction's loop through a model of SstMultiBuilder (arbitrary size thresholds, arbitrary split hints) writes every entry exactly once, in order, no empty file, and its outputs are such a cut. SECOND HALF, over an executable model of sst/src/gc.rs (policy AST, the stateful boxed determiners, GarbageCollector::next with key tracking, tombstone buffer, two-step return; a literal loop-by-loop transcription proved equal) and of the loop of lsmtk perform_garbage_collection: for every policy (versions/ttl/any/all nesting), every clock value, every input with adjacent equal keys the collector returns exactly what a cursor-free specification retains; on strictly sorted merged inputs the walk never goes out of sync, writes exactly the specified entries, discard is the setsum of exactly the dropped ones, input = output + discard; with versions = N (and every policy that retains a sole newest version, as lsmtk evaluates it) every key reads after a GC as before; GC only at the last level. JOINED to Lsm: the merged inputs of an admissible top-level compaction of an Ordered store are strictly sorted, what the collector retains is accepted by Lsm's gc_outputs_okb (so Lsm's gc_preserves_reads applies), the closure precondition of the tree-level read theorem follows from Ordered + valid_compactionb, and tree entries after + dropped = tree entries before. Tied to the code by 4-way differential runs (real Rust vs extracted model vs extracted spec vs independent Python semantics), walks over real SST files (also with duplicate key/timestamp pairs across files), the real SstMultiBuilder, and real lsmtk stores single-stepped through moves, non-GC merges (also above last-level data and with more than ten outputs) and garbage collections, comparing complete multi-version dumps as multisets, the key order of every level, and the store's own gets after every step. Store sessions also read every stored version back AT its own timestamp through the tree (hook verif_load_at): an entry in a file of the tree is what a reader at that timestamp sees.",
    "note": "Coverage of the store sessions is gated: a run without a non-GC merge, without a tombstone that has nothing beneath it in such a merge, or without a merge of more than ten outputs is a machinery error, not a pass.  Trusted: Coq kernel; extraction + ocaml/gc driver; harness c05/lsm; the nom parser is compared with a reference parser on generated strings, not proved; cursors are modelled as lists (I/O errors of next() outside the model); builder sizes are arbitrary predicates in the multi-builder model; the selector is area Lsm's subject (its admissibility predicate is a hypothesis here); SHA3-256 is an arbitrary function to 32 bytes.  Known class: K-retain-nothing — a policy that does not retain even a sole newest version (e.g. `any()`) makes a GC drop current values, by the letter of the policy; Inputs with two entries of equal key AND timestamp are outside the property: the store's invariant excludes them (C05_merged_inputs_sorted; only a foreign ingest that C01's histories do not accept produces them); the walkm stage still compares implementation and extracted walk on them (a disagreement is a correspondence problem) and counts where the walk's entries differ from gc_spec as `duplicate_keyref_observations`.  The former class K1 (top-level GC over inputs not closed under overlap) was repaired by /repo 764f777; its reproduction stays in the corpus and a reappearance is a violation.",
}

PROPS = "theories/Gc/Props_C05.v"
MODULE = "Gc.Props_C05"
U64 = 2 ** 64 - 1
KNOWN_CLASS = "K-retain-nothing"

# ---------------------------------------------------------------- policies (Python side)
# AST: ("v", n) | ("t", n) | ("a", [..]) | ("l", [..])


def pol_ast(p):
    """syntax of the OCaml driver"""
    if p[0] in "vt":
        return "%s%d" % (p[0], p[1])
    return "%s(%s)" % (p[0], ",".join(pol_ast(q) for q in p[1]))


def pol_display(p):
    """impl Display for GarbageCollectionPolicy"""
    if p[0] == "v":
        return "versions = %d" % p[1]
    if p[0] == "t":
        return "ttl_micros = %d" % p[1]
    return "%s(%s)" % ("any" if p[0] == "a" else "all", ", ".join(pol_display(q) for q in p[1]))


def ws(rng):
    k = rng.below(10)
    if k < 5:
        return ""
    if k < 8:
        return " "
    return "".join(rng.choice(" \t\r\n") for _ in range(rng.range(1, 3)))


def pol_render(p, rng):
    """a string the grammar accepts for p: random whitespace, optional trailing comma, leading zeros"""
    if p[0] in "vt":
        num = ("0" * rng.below(3) if rng.chance(1, 8) else "") + str(p[1])
        return ws(rng) + ("versions" if p[0] == "v" else "ttl_micros") + ws(rng) + "=" + ws(rng) + num + ws(rng)
    body = ",".join(pol_render(q, rng) for q in p[1])
    if rng.chance(1, 4):
        body += ","
    return ws(rng) + ("any" if p[0] == "a" else "all") + ws(rng) + "(" + ws(rng) + body + ws(rng) + ")" + ws(rng)


def sat(p, now, w, ts):
    """what the doc comments of GarbageCollectionPolicy say: does p retain a version group whose
    cumulative weight is w and whose value has timestamp ts"""
    if p[0] == "v":
        return w <= p[1]
    if p[0] == "t":
        return ts >= max(0, now - p[1])
    if p[0] == "a":
        return any(sat(q, now, w, ts) for q in p[1])
    return all(sat(q, now, w, ts) for q in p[1])


def keeps_newest(p):
    return sat(p, 0, 1, 0)


def spec_retained(p, now, es):
    """independent reading of the policy over a whole input (equal keys adjacent): indices kept.
    Index-based on purpose (the Coq spec is a nested recursion, the code a stateful loop)."""
    groups = collections.OrderedDict()
    for i, e in enumerate(es):
        groups.setdefault(e[0], []).append(i)
    keep = set()
    for k, idx in groups.items():
        w = 0
        for j, i in enumerate(idx):
            if es[i][2] is None:
                continue
            under = j > 0 and es[idx[j - 1]][2] is None
            w += 2 if under else 1
            if sat(p, now, w, es[i][1]):
                keep.add(i)
                if under:
                    keep.add(idx[j - 1])
    out = []
    for k, idx in groups.items():
        out += [i for i in idx if i in keep]
    return out


# ---------------------------------------------------------------- reference parser (nom grammar)
class Hard(Exception):
    pass


WS = " \t\r\n"


def _skip(s, i):
    while i < len(s) and s[i] in WS:
        i += 1
    return i


def _p_policy(s, i, depth=0):
    j = _skip(s, i)
    for tag, kind in (("versions", "v"), ("ttl_micros", "t")):
        if s.startswith(tag, j):
            j = _skip(s, j + len(tag))
            if not s.startswith("=", j):
                raise Hard()
            j = _skip(s, j + 1)
            k = j + 1 if s.startswith("-", j) else j
            d = k
            while d < len(s) and s[d] in "0123456789":
                d += 1
            if d == k or k != j:
                raise Hard()
            n = int(s[j:d])
            if n == 0 or n > U64:
                raise Hard()
            return (kind, n), _skip(s, d)
    for tag, kind in (("any", "a"), ("all", "l")):
        if s.startswith(tag, j):
            j = _skip(s, j + len(tag))
            if not s.startswith("(", j):
                raise Hard()
            j = _skip(s, j + 1)
            kids = []
            r = _p_policy(s, j, depth + 1)
            if r is not None:
                kids.append(r[0])
                j = r[1]
                while s.startswith(",", j):
                    r = _p_policy(s, j + 1, depth + 1)
                    if r is None:
                        break
                    kids.append(r[0])
                    j = r[1]
            if s.startswith(",", j):
                j += 1
            j = _skip(s, j)
            if not s.startswith(")", j):
                raise Hard()
            return (kind, kids), _skip(s, j + 1)
    return None


def ref_parse(s):
    try:
        r = _p_policy(s, 0)
    except Hard:
        return None
    if r is None or r[1] != len(s):
        return None
    return r[0]


# ---------------------------------------------------------------- generators
KEYS = [b"", b"\x00", b"a", b"a\x00", b"ab", b"b", b"k" * 9, b"\xfe", b"\xff", b"\xff\xff"]


def gen_policy(rng, now, depth=0):
    k = rng.below(10)
    if depth >= 3 or k < 4:
        if rng.chance(3, 5):
            return ("v", rng.choice([1, 1, 2, 2, 3, 4, 5, 7, U64]))
        cands = [1, 2, 5, U64, max(1, now - 1), max(1, now), min(U64, now + 1), max(1, now // 2), max(1, now - 7)]
        return ("t", rng.choice(cands))
    n = rng.choice([0, 1, 1, 2, 2, 3])
    return ("a" if rng.chance(1, 2) else "l", [gen_policy(rng, now, depth + 1) for _ in range(n)])


def gen_now(rng):
    return rng.choice([0, 0, 1, 5, 10, 10, 20, 100, 2 ** 32, U64, rng.below(40)])


def thresholds(p, now, acc):
    if p[0] == "t":
        acc.add(max(0, now - p[1]))
    elif p[0] in "al":
        for q in p[1]:
            thresholds(q, now, acc)
    return acc


def gen_versions(rng, now, p, maxlen):
    """one key's (ts, value) list, newest first: tombstone runs, timestamps around the thresholds"""
    n = rng.choice([1, 1, 2, 2, 3, 3, 4, 5, 6, 8, 13][: 4 + maxlen])
    n = min(n, maxlen)
    cands = set(range(0, 24)) | {U64 - i for i in range(4)} | {max(0, now - i) for i in range(4)} | {min(U64, now + i) for i in range(3)}
    for th in thresholds(p, now, set()):
        cands |= {max(0, th - 2), max(0, th - 1), th, min(U64, th + 1), min(U64, th + 2)}
    cands = sorted(cands)
    ts = set()
    while len(ts) < n:
        ts.add(rng.choice(cands) if rng.chance(5, 6) else rng.below(2 ** 64))
    ts = sorted(ts, reverse=True)
    q = rng.choice([0, 2, 5, 8])  # tombstone density /10
    out = []
    for t in ts:
        if rng.below(10) < q:
            out.append((t, None))
        else:
            out.append((t, rng.bytes(rng.choice([0, 1, 1, 2, 3]))))
    return out


def gen_entries(rng, now, p, kind):
    nkeys = rng.choice([0, 1, 1, 2, 2, 3, 4, 5])
    keys = sorted(set(rng.choice(KEYS) for _ in range(nkeys)))
    if kind != "sorted":
        keys = list(keys)
        for i in range(len(keys) - 1, 0, -1):
            j = rng.below(i + 1)
            keys[i], keys[j] = keys[j], keys[i]
    es = []
    for k in keys:
        vs = gen_versions(rng, now, p, 9)
        if kind != "sorted":
            for i in range(len(vs) - 1, 0, -1):
                j = rng.below(i + 1)
                vs[i], vs[j] = vs[j], vs[i]
        es += [(k, t, v) for t, v in vs]
    if kind == "wild" and es:
        # break adjacency / add duplicates: no specification claim, model must still agree
        for _ in range(rng.range(1, 3)):
            i, j = rng.below(len(es)), rng.below(len(es))
            if rng.chance(1, 2):
                es[i], es[j] = es[j], es[i]
            else:
                es.insert(i, es[j])
    return es


def ent_tok(e):
    k, t, v = e
    return "%s@%d%s" % (k.hex(), t, "~" if v is None else "=" + v.hex())


def parse_ent(tok):
    at = tok.index("@")
    k = bytes.fromhex(tok[:at])
    rest = tok[at + 1:]
    if rest.endswith("~"):
        return (k, int(rest[:-1]), None)
    eq = rest.index("=")
    return (k, int(rest[:eq]), bytes.fromhex(rest[eq + 1:]))


def kr_tok(e):
    return "%s@%d" % (e[0].hex(), e[1])


def exhaustive_cases(maxlen, policies, nows):
    """every value/tombstone pattern of one key up to maxlen, and a two-key input made of it"""
    for n in range(1, maxlen + 1):
        for bits in range(2 ** n):
            vs = [(b"k", 2 * (n - i) + 1, None if (bits >> i) & 1 else b"v") for i in range(n)]
            for p in policies:
                for now in nows:
                    yield p, now, vs
                    if n <= 4:
                        yield p, now, [(b"a", 9, b"x")] + vs + [(b"z", 4, None), (b"z", 3, b"")]


EXH_POLICIES = [("v", 1), ("v", 2), ("v", 3), ("v", 4), ("t", 3), ("t", 6), ("a", []), ("l", []),
                ("a", [("v", 1), ("t", 4)]), ("l", [("v", 3), ("t", 4)]), ("l", [("v", 2), ("a", [])]),
                ("a", [("l", [("v", 4), ("t", 2)]), ("v", 1)])]


# ---------------------------------------------------------------- setsum reference (as in C14)
def sha3(b):
    return hashlib.sha3_256(b).digest()


class Ref:
    def __init__(self, primes):
        self.p = primes

    def item(self, b):
        d = sha3(b)
        return [int.from_bytes(d[4 * i:4 * i + 4], "little") % p for i, p in enumerate(self.p)]

    def add(self, a, b):
        return [(x + y) % p for x, y, p in zip(a, b, self.p)]

    def of(self, es):
        s = [0] * 8
        for k, t, v in es:
            fr = (b"\x08" + k + t.to_bytes(8, "little") + v) if v is not None else (b"\x09" + k + t.to_bytes(8, "little"))
            s = self.add(s, self.item(fr))
        return b"".join(c.to_bytes(4, "little") for c in s).hex()


# ---------------------------------------------------------------- running
def run_lines(exe, lines, workdir, tag, timeout=1800):
    p = os.path.join(workdir, tag + ".in")
    with open(p, "w") as fh:
        fh.write("\n".join(lines) + "\n")
    rc, out = vlib.sh("%s < %s" % (exe, p), timeout=timeout)
    res = out.split("\n")
    if res and res[-1] == "":
        res.pop()
    return rc, res


def load_corpus():
    d = os.path.join(vlib.VERIF, "corpus", "C05")
    out = []
    if os.path.isdir(d):
        for fn in sorted(os.listdir(d)):
            if fn.endswith(".json"):
                with open(os.path.join(d, fn)) as fh:
                    out.append((fn, json.load(fh)))
    return out


def ast_of_json(j):
    if isinstance(j, list) and j and j[0] in ("a", "l"):
        return (j[0], [ast_of_json(q) for q in j[1]])
    return (j[0], int(j[1]))


def visible(es):
    """newest entry per key -> value (None for tombstone); absent keys read None too"""
    best = {}
    for k, t, v in es:
        if k not in best or t > best[k][0]:
            best[k] = (t, v)
    return {k: tv[1] for k, tv in best.items()}


def visible_same(before, after):
    vb, va = visible(before), visible(after)
    return all(vb.get(k) == va.get(k) for k in set(vb) | set(va))


# ---------------------------------------------------------------- lsmtk sessions
LSM_POLICIES = [("v", 1), ("v", 1), ("v", 2), ("v", 3), ("t", 5), ("a", []),
                ("l", [("v", 2), ("t", 1)]), ("a", [("v", 1), ("v", 3)]), ("l", [("v", 1), ("a", [])])]


def _drain(ops, keys, n):
    for _ in range(n):
        ops.append("compact")
        ops.append("dump")
        ops.append("getall " + ",".join(keys))
        if n <= 16 or _ % 4 == 3:
            # every stored version must be what a read AT its timestamp returns (the property's "a read at any
            # earlier timestamp still sees what it saw before"; the harness asks through lsmtk's verif_load_at)
            ops.append("versions")


def lsm_script(rng):
    """random bursts of small overlapping memtables, compaction steps in between"""
    nkeys = rng.choice([2, 3, 4, 6, 12, 20])
    keys = ["%02x" % (0x61 + i) for i in range(nkeys)]
    ops = []
    l0 = 0  # conservative count of files that may sit in L0 (12 of them stall the memtable thread)
    for _ in range(rng.range(3, 9)):
        burst = rng.choice([1, 1, 1, 2, 3, 5])
        if l0 + burst > 8:
            _drain(ops, keys, 80)
            l0 = 0
        for _ in range(burst):
            lo = rng.below(nkeys)
            hi = min(nkeys, lo + rng.range(1, 8))
            for _ in range(rng.range(2, 12)):
                k = keys[rng.range(lo, hi - 1)]
                if rng.chance(1, 3):
                    ops.append("del %s" % k)
                else:
                    ops.append("put %s %02x" % (k, rng.below(256)))
            ops.append("flush")
            l0 += 1
        ops.append("dump")
        c = rng.choice([0, 0, 1, 2, 16, 34, 80])
        _drain(ops, keys, c)
        if c >= 16:
            l0 = 0
    _drain(ops, keys, 80)
    opts = ["--memtable-size-bytes", "4096", "--sst-target-file-size", str(rng.choice([300, 500, 4096])),
            "--sst-minimum-file-size", "200", "--sst-target-block-size", "100"]
    return "bursts", opts, ops


def lsm_script_deep(rng):
    """a merge ABOVE the last level over data of the last level: a large base file sinks to the
    last level, a small file of tombstones/overwrites parks one level above it (merging into the
    large file scores below zero), further layers park above that and are then merged with it
    into the level above the last one: a compaction that is not a GC although tombstones in its
    inputs have nothing beneath them in the inputs"""
    small = rng.chance(1, 2)
    nv = rng.range(1, 3)
    victims = ["6b%02x" % (0x30 + 7 * i) for i in range(nv)]
    fillers_lo = ["61%02x" % i for i in range(40)]
    fillers_hi = ["7a%02x" % i for i in range(40)]
    keys = list(victims)
    ops = []
    for v in victims:
        ops.append("put %s %s" % (v, "6f6c64%02x" % rng.below(256)))
    ops.append("put 6b7070 %s" % ("70" * rng.choice([12000, 16000, 24000, 30000])))
    ops.append("flush")
    ops.append("dump")
    _drain(ops, keys, 20)
    # the layer that must survive: tombstones (and some overwrites) of the victims
    for i, v in enumerate(victims):
        if i == 0 or rng.chance(2, 3):
            ops.append("del %s" % v)
        else:
            ops.append("put %s %02x" % (v, rng.below(256)))
    ops.append("flush")
    ops.append("dump")
    _drain(ops, keys, 20)
    for layer in range(rng.range(2, 4)):
        n = rng.range(1, 3) if not small else rng.range(6, 25)
        width = rng.choice([60, 100, 512, 800]) if not small else rng.choice([40, 60, 90])
        for side in (fillers_lo, fillers_hi):
            for k in sorted(set(rng.choice(side) for _ in range(n))):
                keys.append(k) if k not in keys else None
                if rng.chance(1, 6):
                    ops.append("del %s" % k)
                else:
                    ops.append("put %s %s" % (k, ("%02x" % rng.below(256)) * width))
        if rng.chance(1, 4):
            ops.append("del %s" % rng.choice(victims))
        ops.append("flush")
        ops.append("dump")
        _drain(ops, keys, 24)
    _drain(ops, keys, 30)
    opts = ["--memtable-size-bytes", "100000000"]
    if small:
        opts += ["--sst-target-file-size", str(rng.choice([150, 300])), "--sst-minimum-file-size", "60", "--sst-target-block-size", "64"]
    return "deep-merge", opts, ops


def lsm_script_wide(rng):
    """two or three overlapping memtables of a few dozen keys each, then compaction to quiescence
    with a target file size small enough that one merge writes more than ten output files"""
    keys = ["6b%02x" % i for i in range(64)]
    ops = []
    for rnd in range(rng.range(1, 3)):
        for f in range(rng.choice([2, 2, 3])):
            n = rng.range(22, 44)
            chosen = sorted(set(rng.choice(keys) for _ in range(n)))
            for k in chosen:
                if rng.chance(1, 5):
                    ops.append("del %s" % k)
                else:
                    ops.append("put %s %s" % (k, ("%02x" % rng.below(256)) * rng.range(30, 100)))
            ops.append("flush")
        ops.append("dump")
        _drain(ops, keys, 70)
    opts = ["--memtable-size-bytes", "100000000", "--sst-target-file-size", str(rng.choice([150, 300])),
            "--sst-minimum-file-size", str(rng.choice([60, 100])), "--sst-target-block-size", str(rng.choice([64, 100]))]
    return "wide", opts, ops


LSM_SCRIPTS = [lsm_script, lsm_script, lsm_script_deep, lsm_script_deep, lsm_script_wide]


def lsm_session(chk, lsmbin, mx, idx, rng, stats, model_cases, top):
    gen = LSM_SCRIPTS[idx % len(LSM_SCRIPTS)] if isinstance(idx, int) else lsm_script
    pol = rng.choice(LSM_POLICIES)
    if gen is lsm_script_deep and rng.chance(2, 3):
        pol = ("v", 1)      # the default policy: the one under which a mis-dispatched merge loses the tombstone
    name, opts, ops = gen(rng)
    stats["lsm_sessions_" + name] += 1
    return lsm_eval(chk, lsmbin, idx, pol, opts + ["--gc-policy", pol_display(pol)], ops, stats, model_cases, top)


def _show(v):
    return "." if v is None else ("-" if v == b"" else v.hex())


def lsm_eval(chk, lsmbin, idx, pol, opts, ops, stats, model_cases, top):
    """one real store, single-stepped; returns list of problems (dicts).  `top` = NUM_LEVELS - 1"""
    d = "/dev/shm/c05lsm.%d.%s" % (os.getpid(), idx)
    shutil.rmtree(d, ignore_errors=True)
    inp = os.path.join(chk.work, "lsm%s.in" % idx)
    with open(inp, "w") as fh:
        fh.write("\n".join(ops) + "\n")
    cmd = [lsmbin, d] + list(opts)
    rc, out = vlib.sh(" ".join("'%s'" % c for c in cmd) + " < " + inp, timeout=600)
    shutil.rmtree(d, ignore_errors=True)
    lines = [ln for ln in out.split("\n") if ln]
    files = {}
    problems = []
    tree = None
    pending = None  # (tree_before, compact_line)
    getalls = [o.split()[1].split(",") for o in ops if o.startswith("getall ")]
    nget = 0
    replay = {"policy": pol_display(pol), "ops": ops, "cmd": cmd[2:]}
    if not lines or lines[0] != "OPEN ok":
        return [{"kind": "machinery", "what": "lsm did not open: %s" % out[:300]}]
    for ln in lines[1:]:
        t = ln.split()
        if t[0] == "FILE":
            if "ERR" in t or any(x.startswith("OPENERR") for x in t):
                problems.append({"kind": "property", "what": "an SST of the tree is unreadable: " + ln[:200], "replay": replay})
                continue
            ents = []
            for x in t[2:]:
                k, ts, v = x.split(":")
                ents.append((b"" if k == "-" else bytes.fromhex(k), int(ts), None if v == "~" else (b"" if v == "-" else bytes.fromhex(v))))
            files[t[1]] = ents
        elif t[0] == "DUMP":
            new_tree = [x.split(":")[:2] for x in t[1:]]
            # reachability is structural too: every level below L0 must list its files in key
            # order without overlap (point reads bisect it, scans concatenate it)
            try:
                per_level = collections.OrderedDict()
                for lvl, n in new_tree:
                    per_level.setdefault(int(lvl), []).append(files[n])
                for lvl, fs in per_level.items():
                    if lvl >= 1 and any(not (f[-1][0] <= g[0][0]) for f, g in zip(fs, fs[1:])):
                        problems.append({"kind": "property", "what": "level %d lists its files out of key order or overlapping: entries in them are not reachable through the tree" % lvl,
                                         "after": pending[1] if pending else "flush", "level": [[f[0][0].hex(), f[-1][0].hex()] for f in fs][:40], "replay": replay})
                        stats["lsm_level_order_bad"] += 1
            except (KeyError, IndexError) as ex:
                problems.append({"kind": "machinery", "what": "file contents unknown or empty: %s" % ex})
            if pending is not None:
                before, cl = pending
                pending = None
                c = cl.split()
                if c[1] in ("none",):
                    if sorted(n for _, n in before) != sorted(n for _, n in new_tree):
                        problems.append({"kind": "property", "what": "tree changed without a compaction", "replay": replay})
                elif c[1] == "err":
                    problems.append({"kind": "property", "what": "compaction returned an error: " + cl, "replay": replay})
                else:
                    lo, up, inputs = int(c[1]), int(c[2]), c[6].split(",")
                    stats["lsm_compactions"] += 1
                    is_gc = len(inputs) > 1 and up == top
                    model_cases.append(("dispatch %d %d" % (len(inputs), up), "D move" if len(inputs) == 1 else ("D gc" if is_gc else "D rewrite"), "lsm%s" % idx))
                    try:
                        ents_before = collections.Counter(e for _, n in before for e in files[n])
                        ents_after = collections.Counter(e for _, n in new_tree for e in files[n])
                        merged = sorted((e for n in inputs for e in files[n]), key=lambda e: (e[0], -e[1]))
                    except KeyError as ex:
                        problems.append({"kind": "machinery", "what": "file contents unknown: %s" % ex})
                        tree = new_tree
                        continue
                    if len(inputs) == 1:
                        stats["lsm_moves"] += 1
                        dropped, written = [], merged
                    elif is_gc:
                        stats["lsm_gcs"] += 1
                        keep = spec_retained(pol, 0, merged)
                        written = [merged[i] for i in keep]
                        ks = set(keep)
                        dropped = [e for i, e in enumerate(merged) if i not in ks]
                        stats["lsm_gc_dropped"] += len(dropped)
                        stats["lsm_gc_written"] += len(written)
                        model_cases.append(("walk %s %s" % (pol_ast(pol), " ".join(ent_tok(e) for e in merged)),
                                            "W OK w=%s d=%s" % (",".join(ent_tok(e) for e in written) or ".", ",".join(ent_tok(e) for e in dropped) or "."),
                                            "lsm%s" % idx))
                    else:
                        # NOT a garbage collection (upper level is not the last): nothing may go,
                        # not even a tombstone with nothing beneath it in the inputs
                        stats["lsm_rewrites"] += 1
                        stats["lsm_rewrite_entries"] += len(merged)
                        stats["lsm_rewrite_tombstones"] += sum(1 for e in merged if e[2] is None)
                        heads = {}
                        for e in merged:
                            heads.setdefault(e[0], e)
                        stats["lsm_rewrite_bare_tombstone_keys"] += sum(1 for k, e in heads.items() if e[2] is None and not any(x[0] == k and x[2] is not None for x in merged))
                        dropped, written = [], merged
                    expect = ents_before - collections.Counter(dropped)
                    bn = collections.Counter(n for _, n in before)
                    an = collections.Counter(n for _, n in new_tree)
                    fresh = an - (bn - collections.Counter(inputs))
                    newfiles = []           # the outputs, in the order the upper level lists them
                    for _, n in new_tree:
                        if fresh[n] > 0:
                            fresh[n] -= 1
                            newfiles.append(n)
                    if len(inputs) > 1:
                        stats["lsm_outputs_max"] = max(stats["lsm_outputs_max"], len(newfiles))
                        if len(newfiles) > 10:
                            stats["lsm_merges_over_10_outputs"] += 1
                        if not is_gc:
                            stats["lsm_rewrite_outputs_max"] = max(stats["lsm_rewrite_outputs_max"], len(newfiles))
                            keys_split = sum(1 for f, g in zip(newfiles, newfiles[1:]) if files[f][-1][0] == files[g][0][0])
                            stats["lsm_rewrite_keys_straddling_outputs"] += keys_split
                    if ents_after != expect or sum((collections.Counter(dropped) - ents_before).values()):
                        lost = expect - ents_after
                        extra = ents_after - expect
                        problems.append({"kind": "property", "what": ("entries reachable through the tree after the GC differ from (before - what the policy allows to drop)" if is_gc else
                                                                      "a compaction that is not a garbage collection (upper level %d is not the last level %d) changed the multiset of entries" % (up, top)),
                                         "compaction": cl, "lost": [ent_tok(e) for e in lost.elements()][:20], "extra": [ent_tok(e) for e in extra.elements()][:20], "replay": replay})
                    else:
                        # outputs (files that are new in the tree) hold exactly `written`, each sorted
                        outs = [e for n in newfiles for e in files[n]]
                        if len(inputs) > 1 and collections.Counter(outs) != collections.Counter(written):
                            problems.append({"kind": "property", "what": "output files do not hold exactly the retained entries", "compaction": cl, "replay": replay})
                        for n in newfiles:
                            f = files[n]
                            if any(not ((a[0], -a[1]) < (b[0], -b[1])) for a, b in zip(f, f[1:])):
                                problems.append({"kind": "property", "what": "output file not strictly sorted", "compaction": cl, "replay": replay})
                        # the present reading of every key (from the entries themselves)
                        eb, ea = list(ents_before.elements()), list(ents_after.elements())
                        if not visible_same(eb, ea):
                            vb, va = visible(eb), visible(ea)
                            changed = [k for k in set(vb) | set(va) if vb.get(k) != va.get(k)]
                            if not keeps_newest(pol):
                                chk.known(KNOWN_CLASS, "policy `%s` does not retain a key's sole newest version: a real lsmtk GC dropped current values" % pol_display(pol))
                                stats["lsm_known_hits"] += 1
                            else:
                                problems.append({"kind": "property", "what": "a key reads differently after the compaction", "compaction": cl, "keys": [k.hex() for k in changed], "replay": replay})
            tree = new_tree
        elif t[0] == "COMPACT":
            pending = (tree, ln)
        elif t[0] == "GET" and nget < len(getalls):
            # what the store itself answers (memtable is empty here: every write is followed by a
            # flush before the next compaction step) against the newest entry per key in the tree
            ks = getalls[nget]
            nget += 1
            if tree is not None and len(t) - 1 == len(ks):
                try:
                    vis = visible([e for _, n in tree for e in files[n]])
                except KeyError:
                    vis = None
                if vis is not None:
                    stats["lsm_gets_compared"] += len(ks)
                    bad = [(k, g) for k, g in zip(ks, t[1:]) if ("." if g == "~" else g) != _show(vis.get(bytes.fromhex(k)))]
                    if bad:
                        problems.append({"kind": "property", "what": "get does not return the newest entry the tree holds for the key: the entry is in a file of the tree but not reachable through it",
                                         "keys": [(k, g, _show(vis.get(bytes.fromhex(k)))) for k, g in bad][:10], "replay": replay})
        elif t[0] == "VERSIONS":
            if t[1] == "ok":
                stats["lsm_versions_read_at_their_timestamp"] = stats.get("lsm_versions_read_at_their_timestamp", 0) + int(t[2])
            else:
                problems.append({"kind": "property", "what": "an entry stored in an sst of the tree is not what a point read of its key at its timestamp returns (key@ts:got:want): " + " ".join(t[2:])[:300],
                                 "replay": replay})
        elif t[0] == "PANIC" and len(t) > 1 and t[1] == "compact":
            pending = None
            problems.append({"kind": "property", "what": "a compaction panicked: " + ln, "replay": replay})
        elif t[0] in ("PANIC", "THREAD"):
            # panics of put/del/flush and exits of the memtable thread are other properties' business
            stats["lsm_other_anomalies"] += 1
            chk.notes.append("lsm session %s: %s (not a C05 matter)" % (idx, ln[:120]))
    stats["lsm_sessions"] += 1
    return problems


# ---------------------------------------------------------------- main
def run(chk):
    ok_proof, info = vlib.proof_stage(chk, PROPS, MODULE, const_areas=("Gc", "Setsum"), pins_rel="pins/C05.v")
    rc, out = vlib.sh(["python3", os.path.join(vlib.VERIF, "tools", "constants.py"), "Setsum", "Gc", "--json"])
    consts = json.loads(out.strip().splitlines()[-1])
    primes = consts["Setsum"]["SETSUM_PRIMES"]
    num_levels = consts["Gc"]["GC_NUM_LEVELS"]
    ref = Ref(primes)

    okx, outx = vlib.coq_make(["theories/Gc/Extract.vo"])
    okm, outm, mx = vlib.ocaml_build("gc", "mx_gc")
    okh, outh, (hxbin, lsmbin) = vlib.cargo_build(["c05", "lsm"])
    if not (okx and okm):
        raise RuntimeError("model build failed:\n" + outx[-1500:] + outm[-1500:])
    if not okh:
        raise RuntimeError("harness build failed (does /repo still compile?):\n" + outh[-3000:])

    quick = chk.tier == "quick"
    rng = vlib.Rng(chk.seed * 1000003 + 5)
    stats = collections.Counter()
    impl_lines, model_lines, spec_lines, meta = [], [], [], []
    # meta: dict(kind, tag, expect (string or None), extra)

    def add_gc(p, now, es, tag, claim, polstr=None):
        s = polstr if polstr is not None else pol_render(p, rng)
        toks = " ".join(ent_tok(e) for e in es)
        impl_lines.append(("gc %s %d %s" % (s.encode().hex(), now, toks)).rstrip())
        model_lines.append(("gc %s %d %s" % (pol_ast(p), now, toks)).rstrip())
        spec_lines.append(("spec %s %d %s" % (pol_ast(p), now, toks)).rstrip())
        exp = None
        if claim:
            keep = spec_retained(p, now, es)
            exp = " ".join(["G"] + [kr_tok(es[i]) for i in keep])
            stats["gc_retained"] += len(keep)
            stats["gc_dropped"] += len(es) - len(keep)
        meta.append({"kind": "gc", "tag": tag, "expect": exp, "policy": pol_display(p), "now": now, "n": len(es), "es": es, "p": p})
        stats["gc_" + tag.split(":")[0]] += 1
        stats["entries"] += len(es)
        stats["tombstones"] += sum(1 for e in es if e[2] is None)

    def add_walk(p, es, tag):
        # SstBuilder's initial (last_key, last_timestamp) sentinel is ("", u64::MAX): that one entry
        # cannot be the first of a file (a builder matter, C10), so it is kept out of real files
        es = [e for e in es if not (e[0] == b"" and e[1] == U64)]
        if not es:
            return
        nf = rng.range(1, 4)
        assign = [rng.below(nf) for _ in es]
        used = sorted(set(assign))
        remap = {f: i for i, f in enumerate(used)}
        s = pol_render(p, rng)
        impl_lines.append("walk %s %d %s" % (s.encode().hex(), len(used), " ".join("%d:%s" % (remap[a], ent_tok(e)) for a, e in zip(assign, es))))
        toks = " ".join(ent_tok(e) for e in es)
        model_lines.append("walk %s %s" % (pol_ast(p), toks))
        spec_lines.append("")
        keep = spec_retained(p, 0, es)
        ks = set(keep)
        written = [es[i] for i in keep]
        dropped = [e for i, e in enumerate(es) if i not in ks]
        exp = "W OK w=%s d=%s" % (",".join(ent_tok(e) for e in written) or ".", ",".join(ent_tok(e) for e in dropped) or ".")
        sums = " in=%s out=%s disc=%s" % (ref.of(es), ref.of(written), ref.of(dropped))
        meta.append({"kind": "walk", "tag": tag, "expect": exp, "sums": sums, "policy": pol_display(p), "n": len(es), "es": es, "p": p,
                     "written": written, "files": len(used)})
        stats["walk"] += 1
        stats["walk_files_%d" % len(used)] += 1
        stats["walk_dropped"] += len(dropped)
        stats["walk_written"] += len(written)

    def add_parse(s, tag):
        impl_lines.append(("parse %s" % s.encode().hex()).rstrip())
        model_lines.append("")
        spec_lines.append("")
        a = ref_parse(s)
        meta.append({"kind": "parse", "tag": tag, "expect": "P ERR" if a is None else "P OK " + pol_display(a), "s": s})
        stats["parse_" + tag] += 1
        stats["parse_accept" if a is not None else "parse_reject"] += 1

    # ---- corpus first
    ncorpus = 0
    corpus_lsm = []
    for fn, c in load_corpus():
        es = [parse_ent(t) for t in c.get("entries", [])]
        if c["kind"] == "gc":
            add_gc(ast_of_json(c["policy"]), int(c["now"]), es, "corpus:" + fn, c.get("claim", True))
        elif c["kind"] == "walk":
            add_walk(ast_of_json(c["policy"]), es, "corpus:" + fn)
        elif c["kind"] == "parse":
            add_parse(c["string"], "corpus")
        elif c["kind"] == "lsm":
            corpus_lsm.append((fn, c))
        ncorpus += 1

    # ---- exhaustive small scope: every value/tombstone pattern of a key
    for p, now, vs in exhaustive_cases(7 if quick else 10, EXH_POLICIES, [0, 10]):
        add_gc(p, now, vs, "exh", True)
    # ---- random collector cases
    n_gc = 30000 if quick else 800000
    for i in range(n_gc):
        now = gen_now(rng)
        p = gen_policy(rng, now)
        kind = rng.choice(["sorted", "sorted", "sorted", "contig", "wild"])
        es = gen_entries(rng, now, p, kind)
        add_gc(p, now, es, kind, kind != "wild")
    # ---- walk over real SSTs
    n_walk = 3000 if quick else 50000
    for i in range(n_walk):
        p = gen_policy(rng, 0)
        add_walk(p, gen_entries(rng, 0, p, "sorted"), "walk")
    # ---- parser: well-formed stream and a separate malformed stream
    n_parse = 12000 if quick else 300000
    for i in range(n_parse):
        now = gen_now(rng)
        s = pol_render(gen_policy(rng, now), rng)
        if i % 2 == 0:
            add_parse(s, "wellformed")
        else:
            for _ in range(rng.range(1, 3)):
                k = rng.below(8)
                pos = rng.below(len(s) + 1)
                if k == 0 and s:
                    s = s[:pos] + s[pos + 1:]
                elif k == 1:
                    s = s[:pos] + rng.choice(list("(),=-+ \t0129aversionsttl_micros") + [" ", "é", "any", "all(", "versions", "ttl_micros=0"]) + s[pos:]
                elif k == 2:
                    s = s[:pos]
                elif k == 3:
                    s = s.replace("=", rng.choice(["==", " ", "=-", "= 0", "=+"]), 1)
                elif k == 4:
                    s = s.replace(",", rng.choice([",,", ";", ", ,"]), 1)
                elif k == 5:
                    s = s + rng.choice([")", ",", " x", "any()", "\n"])
                elif k == 6:
                    s = s.replace("1", rng.choice(["18446744073709551615", "18446744073709551616", "0", "00", "99999999999999999999999"]), 1)
                else:
                    s = s.upper() if rng.chance(1, 3) else s.replace("(", " ( ", 1)
            add_parse(s, "malformed")

    rc1, impl_out = run_lines(hxbin, impl_lines, chk.work, "impl")
    rc2, model_out = run_lines(mx, model_lines, chk.work, "model")
    rc3, spec_out = run_lines(mx, spec_lines, chk.work, "spec")
    n = len(meta)
    if len(impl_out) != n or len(model_out) != n or len(spec_out) != n:
        raise RuntimeError("output line count mismatch impl=%d model=%d spec=%d cases=%d" % (len(impl_out), len(model_out), len(spec_out), n))

    prop_bad, corr_bad = [], []
    distinct = set()
    for m, il, io, mo, so in zip(meta, impl_lines, impl_out, model_out, spec_out):
        case = {"tag": m["tag"], "kind": m["kind"], "impl_line": il, "impl_out": io, "model_out": mo}
        if m["kind"] == "parse":
            if io != m["expect"]:
                corr_bad.append(dict(case, what="real nom parser differs from the reference parser", string=m["s"], expect=m["expect"]))
            continue
        case["policy"] = m["policy"]
        if m["kind"] == "gc":
            if m["expect"] is not None and io != m["expect"]:
                prop_bad.append(dict(case, what="the real collector retains something else than the policy allows", expect=m["expect"]))
            elif io != mo:
                corr_bad.append(dict(case, what="real collector differs from the extracted model"))
            elif m["expect"] is not None and so != m["expect"]:
                corr_bad.append(dict(case, what="extracted gc_spec differs from the Python reading of the policy", spec_out=so, expect=m["expect"]))
            if m["n"] >= 3 and m["expect"] is not None and 1 < len(m["expect"].split()) <= m["n"]:
                distinct.add(il)
        else:
            head = io.split(" in=")[0]
            if head != m["expect"] or (io.startswith("W OK") and io[len(head):] != m["sums"]):
                prop_bad.append(dict(case, what="walk over real SSTs: written/dropped/in/out/discard differ from the specification", expect=m["expect"] + m["sums"]))
            elif head != mo:
                corr_bad.append(dict(case, what="walk differs from the extracted model"))
            else:
                if m["n"] >= 3 and 0 < len(m["written"]) < m["n"]:
                    distinct.add(il)
                if not visible_same(m["es"], m["written"]):
                    if not keeps_newest(m["p"]):
                        chk.known(KNOWN_CLASS, "a policy that does not retain a key's sole newest version (e.g. `any()`) drops current values")
                        stats["known_hits"] += 1
                    else:
                        prop_bad.append(dict(case, what="a key reads differently after the GC although the policy retains a newest version"))

    # ---- walk over real SSTs in which several files hold an entry with the same key AND
    # timestamp (reachable only through foreign ingests): the tie order is the real cursor's, the
    # model runs on that order; guaranteed (C05_walk_weakly_sorted_guarantee): no out-of-sync, the
    # KeyRefs written are the KeyRefs the policy retains, written + dropped = input.  Where the
    # Such inputs are OUTSIDE the property (C05_merged_inputs_sorted: the store's invariant excludes
    # duplicate pairs): this stage only extends model coverage; where the ENTRIES written differ
    # from gc_spec it is counted (duplicate_keyref_observations), not reported.
    n_dup = 400 if quick else 8000
    dup_lines, dup_meta = [], []
    for i in range(n_dup):
        p = gen_policy(rng, 0)
        es = [e for e in gen_entries(rng, 0, p, "sorted") if not (e[0] == b"" and e[1] == U64)]
        if not es:
            continue
        nf = rng.range(2, 4)
        placed = [[] for _ in range(nf)]
        for e in es:
            placed[rng.below(nf)].append(e)
        # duplicates: the same (key, ts) again in another file, as tombstone or value
        for _ in range(rng.range(1, 4)):
            k, t, v = rng.choice(es)
            f = rng.below(nf)
            if any(x[0] == k and x[1] == t for x in placed[f]):
                continue
            placed[f].append((k, t, None if rng.chance(1, 2) else rng.bytes(rng.choice([0, 1, 2]))))
        if rng.chance(1, 3):
            # directed: a value and tombstones with its key and timestamp in the other files
            vals = [e for e in es if e[2] is not None]
            if vals:
                k, t, v = rng.choice(vals)
                for f in range(nf):
                    if not any(x[0] == k and x[1] == t for x in placed[f]):
                        placed[f].append((k, t, None))
        placed = [sorted(f, key=lambda e: (e[0], -e[1])) for f in placed if f]
        toks = " ".join("%d:%s" % (fi, ent_tok(e)) for fi, f in enumerate(placed) for e in f)
        dup_lines.append("walkm %s %d %s" % (pol_render(p, rng).encode().hex(), len(placed), toks))
        dup_meta.append((p, [e for f in placed for e in f]))
    if dup_lines:
        rcd, dup_out = run_lines(hxbin, dup_lines, chk.work, "dup_impl")
        dup_model = []
        for (p, allents), io in zip(dup_meta, dup_out):
            mm = io.split(" ")
            merged = [] if len(mm) < 3 or not mm[2].startswith("m=") or mm[2] == "m=." else [parse_ent(x) for x in mm[2][2:].split(",")]
            dup_model.append("walk %s %s" % (pol_ast(p), " ".join(ent_tok(e) for e in merged)))
        rcd2, dup_mout = run_lines(mx, dup_model, chk.work, "dup_model")
        for (p, allents), il, io, ml, mo in zip(dup_meta, dup_lines, dup_out, dup_model, dup_mout):
            case = {"tag": "dupwalk", "kind": "walkm", "impl_line": il, "impl_out": io[:3000], "model_out": mo[:3000], "policy": pol_display(p)}
            stats["dupwalk"] += 1
            if not io.startswith("W OK m="):
                corr_bad.append(dict(case, what="walk over SSTs sharing (key, timestamp) pairs did not complete (out of sync / build error / panic): the model proves it completes (C05_gc_sync_never_errors_weakly_sorted)", expect="W OK ..."))
                continue
            f = io.split(" ")
            merged = [] if f[2] == "m=." else [parse_ent(x) for x in f[2][2:].split(",")]
            written = [] if f[3] == "w=." else [parse_ent(x) for x in f[3][2:].split(",")]
            dropped = [] if f[4] == "d=." else [parse_ent(x) for x in f[4][2:].split(",")]
            keep = spec_retained(p, 0, merged)
            spec_w = [merged[i] for i in keep]
            if collections.Counter(merged) != collections.Counter(allents):
                corr_bad.append(dict(case, what="the real MergingCursor did not yield exactly the entries of the files"))
            elif [e[:2] for e in written] != [e[:2] for e in spec_w] or collections.Counter(written) + collections.Counter(dropped) != collections.Counter(merged):
                corr_bad.append(dict(case, what="weakly sorted input: the KeyRefs written are not the KeyRefs the policy retains, or written + dropped is not the input (C05_walk_weakly_sorted_guarantee holds of the model)",
                                     expect="KeyRefs " + " ".join(kr_tok(e) for e in spec_w)))
            elif "W OK w=%s d=%s" % (f[3][2:], f[4][2:]) != mo:
                corr_bad.append(dict(case, what="walk with duplicate pairs differs from the extracted model run on the real merge order", model_line=ml[:3000]))
            elif written != spec_w:
                stats["duplicate_keyref_observations"] += 1
            else:
                stats["dupwalk_same_as_spec"] += 1

    # ---- the real SstMultiBuilder driven as perform_compaction's loop drives it: whatever the
    # thresholds and hints, the files in the order seal() returns them hold the input, in order,
    # and none is empty (C05_rewrite_writes_everything_once)
    n_mb = 300 if quick else 6000
    mb_lines, mb_meta = [], []
    for i in range(n_mb):
        es = [e for e in gen_entries(rng, 0, ("v", 1), "sorted") if not (e[0] == b"" and e[1] == U64)]
        if rng.chance(1, 3):
            es = sorted(set((rng.choice(KEYS) + bytes([rng.below(4)]), rng.below(50), None if rng.chance(1, 4) else rng.bytes(rng.choice([0, 5, 40, 90]))) for _ in range(rng.range(5, 60))), key=lambda e: (e[0], -e[1]))
            seen = set()
            es = [e for e in es if not (e[:2] in seen or seen.add(e[:2]))]
        if not es:
            continue
        target, minimum = rng.choice([(150, 60), (300, 100), (64, 1), (1, 1), (100000, 1), (4096, 200), (200, 200)])
        hq = rng.choice([0, 1, 3, 10])
        mb_lines.append("mb %d %d %s" % (target, minimum, " ".join("%d:%s" % (1 if rng.below(10) < hq else 0, ent_tok(e)) for e in es)))
        mb_meta.append(es)
    if mb_lines:
        rcm0, mb_out = run_lines(hxbin, mb_lines, chk.work, "mb_impl")
        for es, il, io in zip(mb_meta, mb_lines, mb_out):
            stats["mb"] += 1
            case = {"tag": "mb", "kind": "mb", "impl_line": il[:3000], "impl_out": io[:3000]}
            if not io.startswith("M "):
                prop_bad.append(dict(case, what="SstMultiBuilder failed on a strictly sorted stream", expect="M ..."))
                continue
            fl = [[parse_ent(x) for x in part.split(",")] if part else [] for part in io[2:].split("|")]
            stats["mb_files"] += len(fl)
            stats["mb_over_10_files"] += len(fl) > 10
            if [e for f in fl for e in f] != es or any(not f for f in fl):
                prop_bad.append(dict(case, what="the outputs of the multi-builder, in the order seal() returns them, are not the input stream (or a file is empty)",
                                     expect="M " + ",".join(ent_tok(e) for e in es)[:2000]))

    # ---- real lsmtk stores, single-stepped
    n_lsm = 40 if quick else 1200
    lsm_problems = []
    lsm_model = []
    for fn, c in corpus_lsm:
        lsm_problems += lsm_eval(chk, lsmbin, "c" + fn.split("_")[0], ref_parse(c["policy"]), c["cmd"], c["ops"], stats, lsm_model, num_levels - 1)
    for i in range(n_lsm):
        lsm_problems += lsm_session(chk, lsmbin, mx, i, rng.fork(), stats, lsm_model, num_levels - 1)
    if lsm_model:
        rcm, lm_out = run_lines(mx, [c[0] for c in lsm_model], chk.work, "lsm_model")
        for (line, exp, tag), got in zip(lsm_model, lm_out):
            if got != exp:
                corr_bad.append({"tag": tag, "kind": "lsm-model", "what": "extracted model differs from what the real store did / the Python reading", "model_line": line[:2000], "model_out": got[:2000], "expect": exp[:2000]})
    for pr in lsm_problems:
        if pr["kind"] == "property":
            prop_bad.append(pr)
        else:
            raise RuntimeError("lsm session machinery: " + pr["what"])
    # coverage gate: the half "a compaction that is not a garbage collection conserves every
    # version" is only observed if such compactions happened (and with tombstones that have
    # nothing beneath them in the inputs, and with merges cut into more than ten files)
    if not lsm_problems and (stats["lsm_rewrites"] == 0 or stats["lsm_rewrite_bare_tombstone_keys"] == 0 or stats["lsm_merges_over_10_outputs"] == 0):
        raise RuntimeError("coverage gate: the store sessions produced %d non-GC merges (%d keys whose newest input entry is a tombstone with no value beneath it), %d merges with more than ten outputs: the scenarios no longer reach what they are meant to reach" % (
            stats["lsm_rewrites"], stats["lsm_rewrite_bare_tombstone_keys"], stats["lsm_merges_over_10_outputs"]))

    chk.coverage.update({
        "evaluations": n + stats["lsm_compactions"] + stats["dupwalk"] + stats["mb"],
        "distinct_nontrivial": len(distinct) + stats["lsm_gcs"] + stats["lsm_rewrites"],
        "rule": "collector cases: policy tree (versions/ttl/any/all, depth<=3, numbers 1..5 and 2^64-1, ttl around now) rendered with random whitespace/trailing commas and parsed by the real parser; per-key version lists with tombstone runs, timestamps around every ttl threshold, 0 and 2^64-1; sorted / adjacent-but-shuffled / wild (impl vs model only) inputs; exhaustive value/tombstone patterns of one key up to length %d under 12 policies; walk cases over 1-4 real SST files; parser strings well-formed and a separate mutated stream; walks over SSTs sharing (key,timestamp) pairs run on the real merge order; the real SstMultiBuilder with tiny thresholds and random split hints; real lsmtk sessions of three kinds (bursts of small overlapping memtables; deep-merge: a large base sunk to the last level, tombstones parked above it, further layers merged with them ABOVE the last level; wide: merges of dozens of keys cut into more than ten files), every compaction single-stepped with full dumps, level order and gets.  non-trivial = >=3 entries with at least one retained and one dropped; distinct = distinct case lines; plus real GCs and non-GC merges observed" % (7 if quick else 10),
        "samples": [impl_lines[ncorpus + 300][:300], next((l for l in impl_lines if l.startswith("walk")), "")[:300]],
        "input_distribution": dict(stats), "corpus_cases": ncorpus,
        "correspondence": "impl (Rust, release + overflow-checks) vs extracted Coq model vs extracted Coq spec vs independent Python reading of the policy; real parser vs reference parser; real lsmtk GC vs model walk vs Python; real moves/merges vs multiset conservation, level order and gets",
        "disagreements_impl_vs_model": len(corr_bad), "disagreements_impl_vs_spec": len(prop_bad),
        "trusted_base": [
            "Coq 8.16.1 kernel (coqc, full .vo build); vm_compute only for the concrete Examples and the refutation witness",
            "tools/constants.py (NUM_LEVELS re-extracted from lsmtk/src/tree/mod.rs, primes from setsum)",
            "extraction via ExtrOcamlBasic (no Extract Constant of ours) + ocaml/gc/mx_gc.ml driver",
            "harness/src/bin/c05.rs (its `walk` op is a transcription of the private loop of perform_garbage_collection over real sst components) and harness/src/bin/lsm.rs (real store, hooks of commit f4d8b48)",
            "cursors are lists in the model: MergingCursor/SstCursor behaviour is C11's subject and is sampled here by the walk cases",
            "the weights 1 and 2 of VersionsDeterminer are literals in the Rust and retyped in Model.v",
            "SHA3-256 is a section variable H (any function to 32 bytes); Python hashlib is the independent hash",
        ],
    })
    chk.assumptions = [
        "'the walk writes exactly gc_spec': the merged input is strictly sorted in the KeyRef order, i.e. (key, timestamp) pairs of a compaction's inputs are distinct (proved of every admissible top-level compaction of an Ordered store: C05_merged_inputs_sorted); on weakly sorted input the weaker C05_walk_weakly_sorted_guarantee holds",
        "tree-level theorems take area Lsm's wf_version, Ordered and valid_compactionb as hypotheses (C01 proves them invariant along accepted histories and checks the real selector against valid_compactionb step by step)",
        "multi-builder model: the size thresholds are arbitrary predicates; file naming and the order of `paths` are modelled as creation order",
        "collector theorem: equal keys are adjacent in the cursor (implied by sortedness)",
        "I/O errors of Cursor::next are outside the model",
        "current-value theorems for arbitrary policies are for now_micros = 0 (what lsmtk passes); with a real clock ttl_micros drops current values by design",
        "the nom parser is compared, not proved",
    ]

    if prop_bad:
        b = prop_bad[0]
        chk.violation("c05_%s.json" % str(b.get("tag", "lsm")).replace(".json", "").replace(":", "_").replace("/", "_"),
                      {"kind": "property", "what": b.get("what"), "case": b, "count": len(prop_bad),
                       "replay_cmd": "echo '<impl_line>' | work/target/release/c05   (or ./bin/check C05 --replay <this file>)"})
    elif corr_bad or not ok_proof:
        chk.violation("c05_unproved.json", {"kind": "no-failing-input-found", "broken": info["broken"],
                                            "correspondence_disagreements": corr_bad[:5]}, no_input=True)


def replay(path):
    with open(path) as fh:
        obj = json.load(fh)
    print(json.dumps(obj, indent=1)[:6000])
    case = obj.get("case") or {}
    if "impl_line" in case:
        okh, outh, (hxbin,) = vlib.cargo_build(["c05"])
        rc, out = vlib.sh("echo '%s' | %s" % (case["impl_line"], hxbin))
        print("impl now :", out.strip()[:3000])
        print("expected :", case.get("expect"))
        exp = case.get("expect")
        return 0 if exp is not None and out.strip() == exp else 1
    if "replay" in case:
        okh, outh, (lsmbin,) = vlib.cargo_build(["lsm"])
        r = case["replay"]
        d = "/dev/shm/c05replay.%d" % os.getpid()
        shutil.rmtree(d, ignore_errors=True)
        rc, out = vlib.sh(" ".join("'%s'" % c for c in [lsmbin, d] + r["cmd"]), stdin=("\n".join(r["ops"]) + "\n").encode(), timeout=300)
        shutil.rmtree(d, ignore_errors=True)
        print(out[-4000:])
    return 1
