"""checks/c13_fault.py - stage `open-fault` of C13: Manifest::open of a directory with a history, with an I/O error
(EIO) injected by strace at EVERY system call of the open that touches the directory, one at a time.

What is judged (the property's first sentence, "reopening a manifest yields exactly the string set and info map
obtained by applying those edits in order", for a reopen that the operating system disturbs): the faulted open
either fails, or succeeds with exactly the state an undisturbed reopen of the same directory yields (that state is
what the differential stages compare with the model's `reach`/`fold` theorems on every run); it never panics; and an
undisturbed reopen afterwards still yields exactly that state - an open that could not read its files must not
have written anything that changes what the next open reads.  For the faults that hit a mutating call of the
open's own roll-over the directory left behind is the crash image of that call, which the crash theorems
(C13_crash_*) cover; read-side faults (open / read of MANIFEST and of the fragments) have no counterpart in the
model (Mani/Fs.v has no failing reads): this stage is the direct judgment for them, stated as such in DESIGN.md."""
import os
import re
import shutil
import subprocess

TRACE = "openat,read,pread64,write,fdatasync,fsync,link,linkat,rename,renameat,renameat2,unlink,unlinkat,statx,newfstatat,stat,fstat,lseek,getdents64"


def execcase(hxbin, root, case, strace=None, inject=None, timeout=60):
    cmd = [hxbin, "--exec", root]
    if strace or inject:
        st = ["strace", "-f", "-y", "-s", "64", "-o", strace or "/dev/null", "-e", "trace=" + TRACE]
        if inject:
            st += ["-e", "inject=%s:error=EIO:when=%d" % inject]
        cmd = st + cmd
    try:
        p = subprocess.run(cmd, input=(case + "\n").encode(), stdout=subprocess.PIPE, stderr=subprocess.DEVNULL, timeout=timeout)
        out = p.stdout.decode("utf-8", "replace")
    except subprocess.TimeoutExpired:
        return None
    acks = {}
    for l in out.splitlines():
        if l.startswith("@@OP "):
            t = l.split(" ", 2)
            acks[int(t[1])] = t[2] if len(t) > 2 else ""
    return acks


def dir_calls(trace_path, root, after_op=None, until_op=0):
    """-> [(syscall, ordinal, short description)] of the calls that touch `root`, in order, between the harness's
    acknowledgement of op `after_op` (None: from the start) and that of op `until_op`"""
    counts, out = {}, []
    active = after_op is None
    for line in open(trace_path, errors="replace"):
        m = re.match(r"\d+\s+(\w+)\((.*)$", line)
        if not m:
            continue
        sysc, rest = m.group(1), m.group(2)
        if sysc == "write" and ('"@@OP %d' % until_op) in rest:
            break            # the operation has returned; what follows is the harness's own dump
        counts[sysc] = counts.get(sysc, 0) + 1
        if sysc == "write" and after_op is not None and ('"@@OP %d' % after_op) in rest:
            active = True
            continue
        if not active:
            continue
        if root in rest and ".scratch" not in rest:
            what = re.findall(re.escape(root) + r"/?([A-Za-z0-9_.]*)", rest)
            out.append((sysc, counts[sysc], "%s %s" % (sysc, ",".join(what[:2]))))
    return out


def state_of(ack):
    return ack.split(" | ")[0] if ack else None


def run_case(args):
    hxbin, workroot, name, case = args
    base = os.path.join(workroot, name)
    shutil.rmtree(base, ignore_errors=True)
    os.makedirs(base)
    res = {"name": name, "case": case, "problems": [], "faults": 0, "calls": {}, "open_failed": 0, "open_ok": 0, "skipped": None}
    hd, _, body = case.partition(";")
    root0 = os.path.join(base, "d0")
    acks = execcase(hxbin, root0, case)
    if acks is None or not os.path.isdir(root0):
        res["skipped"] = "history did not run"
        return res
    raws = " ".join(re.findall(r"\bi:\d+:[0-9a-fA-F-]*", case))
    probe = "%s; open; dump; close; sweep %s" % (hd.strip(), raws)
    dry = os.path.join(base, "dry")
    shutil.copytree(root0, dry, symlinks=True)
    tr = os.path.join(base, "dry.trace")
    a = execcase(hxbin, dry, probe, strace=tr)
    if a is None or a.get(0) != "ok":
        # the history ended in a state that does not reopen (not this stage's subject; the main stages judge it)
        res["skipped"] = "undisturbed reopen: %s" % (a.get(0) if a else "timeout")
        shutil.rmtree(base, ignore_errors=True)
        return res
    expected = state_of(a.get(1))
    calls = dir_calls(tr, dry)
    for k, (sysc, ordinal, what) in enumerate(calls):
        d = os.path.join(base, "k%d" % k)
        shutil.copytree(root0, d, symlinks=True)
        # the paths differ between copies only in the last component, so the call sequence is the same
        a = execcase(hxbin, d, probe, inject=(sysc, ordinal))
        res["faults"] += 1
        key = what.split(" ")[0]
        res["calls"][key] = res["calls"].get(key, 0) + 1
        rp = {"fault_call_index": k, "fault": "EIO at %s (call %d of that kind in the process)" % (what, ordinal)}
        if a is None:
            res["problems"].append(dict(rp, kind="error", what="the faulted open did not return"))
        else:
            r0 = a.get(0, "NOOUT")
            if r0 == "PANIC":
                res["problems"].append(dict(rp, kind="error", what="Manifest::open panicked on an I/O error"))
            elif r0 == "ok":
                res["open_ok"] += 1
                got = state_of(a.get(1))
                if got != expected:
                    res["problems"].append(dict(rp, kind="state", what="the open reported success with a state that is not the applied edits' state", got=got, expected=expected))
            else:
                res["open_failed"] += 1
        b = execcase(hxbin, d, probe)
        if b is None or b.get(0) != "ok":
            res["problems"].append(dict(rp, kind="error", what="after the faulted open an undisturbed reopen fails: %s" % (b.get(0) if b else "timeout")))
        elif state_of(b.get(1)) != expected:
            res["problems"].append(dict(rp, kind="state", what="after the faulted open an undisturbed reopen yields another state", got=state_of(b.get(1)), expected=expected))
        shutil.rmtree(d, ignore_errors=True)
        shutil.rmtree(d + ".scratch", ignore_errors=True)
    shutil.rmtree(base, ignore_errors=True)
    return res


def run_apply_case(args):
    """the last apply of the history, with EIO at each of its system calls: the call fails (or succeeds), and an
    undisturbed reopen yields the state before the edit or the state with the whole edit - with it when the call
    had returned success"""
    hxbin, workroot, name, case = args
    base = os.path.join(workroot, name)
    shutil.rmtree(base, ignore_errors=True)
    os.makedirs(base)
    res = {"name": name, "case": case, "problems": [], "faults": 0, "calls": {}, "apply_failed": 0, "apply_ok": 0, "kept": 0, "lost": 0, "skipped": None, "corr": []}
    parts = [p.strip() for p in case.split(";")]
    hd, ops = parts[0], parts[1:]
    idx = [i for i, o in enumerate(ops) if o.startswith("apply ")]
    if not idx or ops[-1] != "close":
        res["skipped"] = "no apply"
        return res
    last = idx[-1]
    prefix, target = ops[:last], ops[last]
    # the history up to the target, closed
    hist = "; ".join([hd] + prefix + ([] if prefix and prefix[-1] == "close" else ["close"]))
    root0 = os.path.join(base, "d0")
    if execcase(hxbin, root0, hist) is None or not os.path.isdir(root0):
        res["skipped"] = "history did not run"
        return res
    raws = " ".join(re.findall(r"\bi:\d+:[0-9a-fA-F-]*", case))
    probe = "%s; open; dump; close; sweep %s" % (hd, raws)
    step = "%s; open; %s; close; sweep %s" % (hd, target, raws)

    def reopen_state(d):
        a = execcase(hxbin, d, probe)
        return (a.get(0) if a else "timeout"), (state_of(a.get(1)) if a else None)
    d = os.path.join(base, "s0")
    shutil.copytree(root0, d, symlinks=True)
    r, s0 = reopen_state(d)
    if r != "ok":
        res["skipped"] = "undisturbed reopen before the edit: %s" % r
        shutil.rmtree(base, ignore_errors=True)
        return res
    dry = os.path.join(base, "dry")
    shutil.copytree(root0, dry, symlinks=True)
    tr = os.path.join(base, "dry.trace")
    a = execcase(hxbin, dry, step, strace=tr)
    if a is None or a.get(0) != "ok" or not a.get(1, "").endswith("| ok"):
        res["skipped"] = "the edit is refused or fails without a fault: %s" % (a.get(1) if a else "timeout")
        shutil.rmtree(base, ignore_errors=True)
        return res
    r, s1 = reopen_state(dry)
    calls = dir_calls(tr, dry, after_op=0, until_op=1)
    for k, (sysc, ordinal, what) in enumerate(calls):
        d = os.path.join(base, "k%d" % k)
        shutil.copytree(root0, d, symlinks=True)
        ftr = os.path.join(base, "k%d.trace" % k)
        a = execcase(hxbin, d, step, strace=ftr, inject=(sysc, ordinal))
        # the tie to the crash theorems: a call that returns an error is the LAST mutating call of the operation, so
        # the directory left behind is the crash image "process died before call k" that C13_crash_* speak about
        try:
            after, seen = [], False
            for line in open(ftr, errors="replace"):
                if "(INJECTED)" in line:
                    seen = True
                    continue
                m = re.match(r"\d+\s+(\w+)\((.*)$", line)
                if not m or not seen:
                    continue
                if m.group(1) == "write" and '"@@OP 1' in m.group(2):
                    break
                if d in m.group(2) and (m.group(1) in ("write", "fdatasync", "fsync", "link", "linkat", "rename", "renameat", "renameat2", "unlink", "unlinkat")
                                        or (m.group(1) == "openat" and ("O_CREAT" in m.group(2) or "O_WRONLY" in m.group(2) or "O_RDWR" in m.group(2)))):
                    after.append(m.group(1))
            os.unlink(ftr)
        except OSError:
            after = []
        res["faults"] += 1
        key = what.split(" ")[0]
        res["calls"][key] = res["calls"].get(key, 0) + 1
        rp = {"fault_call_index": k, "fault": "EIO at %s (call %d of that kind in the process) inside `%s`" % (what, ordinal, target[:60])}
        acked = False
        if a is None or a.get(0) != "ok":
            res["problems"].append(dict(rp, kind="error", what="the session with the faulted apply did not run: %s" % (a.get(0) if a else "timeout")))
        else:
            r1 = a.get(1, "NOOUT")
            if r1 == "PANIC":
                res["problems"].append(dict(rp, kind="error", what="Manifest::apply panicked on an I/O error"))
            elif r1.endswith("| ok"):
                acked = True
                res["apply_ok"] += 1
            else:
                res["apply_failed"] += 1
                if after:
                    # (a read-side error the code may swallow - `tmp.exists()` - lets the operation go on and succeed; that is
                    # not this case: the apply reported the error)
                    res["corr"].append({"fault_call_index": k, "what": "mutating calls after the failed call %s inside an apply that returned the error: %s (the crash theorems then do not speak about this directory)" % (what, after[:6])})
        r, st = reopen_state(d)
        if r != "ok":
            res["problems"].append(dict(rp, kind="error", what="after the faulted apply an undisturbed reopen fails: %s" % r))
        elif st == s1:
            res["kept"] += 1
        elif st == s0 and not acked:
            res["lost"] += 1
        elif st == s0:
            res["problems"].append(dict(rp, kind="state", what="the apply returned success but the reopened state does not hold the edit", got=st, expected=s1))
        else:
            res["problems"].append(dict(rp, kind="state", what="after the faulted apply the reopened state is neither the state before the edit nor the state with the whole edit", got=st, before=s0, after=s1))
        shutil.rmtree(d, ignore_errors=True)
        shutil.rmtree(d + ".scratch", ignore_errors=True)
    shutil.rmtree(base, ignore_errors=True)
    return res


def run_apply_stage(chk, cases, hxbin, pool_map):
    shm = "/dev/shm" if os.path.isdir("/dev/shm") else chk.work
    workroot = os.path.join(shm, "c13-applyfault-%d" % os.getpid())
    os.makedirs(workroot, exist_ok=True)
    try:
        results = pool_map(run_apply_case, [(hxbin, workroot, "af%d" % i, c) for i, c in enumerate(cases)])
    finally:
        shutil.rmtree(workroot, ignore_errors=True)
    cov = {"histories": len(cases), "skipped": sum(1 for r in results if r["skipped"]), "faulted_applies": sum(r["faults"] for r in results),
           "apply_failed": sum(r["apply_failed"] for r in results), "apply_succeeded": sum(r["apply_ok"] for r in results),
           "reopened_with_the_edit": sum(r["kept"] for r in results), "reopened_without_the_edit": sum(r["lost"] for r in results), "calls_faulted": {}}
    for r in results:
        for k, v in r["calls"].items():
            cov["calls_faulted"][k] = cov["calls_faulted"].get(k, 0) + v
    bad = [{"stage": "apply-fault", "tag": r["name"], "case": r["case"], "problems": r["problems"][:6]} for r in results if r["problems"]]
    corr = [{"stage": "apply-fault", "tag": r["name"], "kind": "apply-fault", "case": r["case"], "what": r["corr"][0]["what"]} for r in results if r["corr"] and not r["problems"]]
    cov["mutating_calls_after_a_failed_call"] = sum(len(r["corr"]) for r in results)
    return cov, bad, corr


def run_stage(chk, cases, hxbin, pool_map):
    shm = "/dev/shm" if os.path.isdir("/dev/shm") else chk.work
    workroot = os.path.join(shm, "c13-openfault-%d" % os.getpid())
    os.makedirs(workroot, exist_ok=True)
    try:
        results = pool_map(run_case, [(hxbin, workroot, "of%d" % i, c) for i, c in enumerate(cases)])
    finally:
        shutil.rmtree(workroot, ignore_errors=True)
    cov = {"histories": len(cases), "skipped": sum(1 for r in results if r["skipped"]), "faulted_opens": sum(r["faults"] for r in results),
           "open_failed": sum(r["open_failed"] for r in results), "open_succeeded_with_exact_state": sum(r["open_ok"] for r in results) - sum(1 for r in results for p in r["problems"] if p["kind"] == "state" and "reported success" in p["what"]),
           "calls_faulted": {}}
    for r in results:
        for k, v in r["calls"].items():
            cov["calls_faulted"][k] = cov["calls_faulted"].get(k, 0) + v
    bad = [{"stage": "open-fault", "tag": r["name"], "case": r["case"], "problems": r["problems"][:6]} for r in results if r["problems"]]
    return cov, bad
