"""C14 — setsum is an order-independent, invertible, composable multiset checksum.

Decided by: theorems of coq/theories/Setsum/Props_C14.v over the executable model
Setsum/Model.v (primes re-extracted from /repo on every run), tied to the code by running the
extracted model and the real `setsum::Setsum` / `sst::Setsum` on the same operation lists, plus a
direct oracle: the published definition computed independently (Python ints + hashlib SHA3-256)."""
import hashlib
import json
import os

import vlib

META = {
    "category": "proof",
    "text": "Coq theorems (Setsum/Props_C14.v, closed under the global context) over an executable model of setsum/src/lib.rs and sst/src/setsum.rs: abelian-group laws, permutation invariance, union, remove/insert, sub/add, digest and hex round trips, closure of canonical form under every operation incl. from_digest on arbitrary bytes (so invert_state never underflows), equality with the published definition, for all inputs; the primes are re-extracted from the source on every run; the model is tied to the code by 3-way differential runs (Rust vs extracted model vs an independent Python rendering of the definition).",
    "note": "Trusted: Coq kernel; tools/constants.py; ExtrOcamlBasic extraction + ocaml/setsum driver; harness c14; SHA3-256 is an arbitrary function to 32 bytes (streaming update = hash of the concatenation is assumed, no cryptographic property used); non-ASCII from_hexdigest input is not modelled.",
}

PROPS = "theories/Setsum/Props_C14.v"
MODULE = "Setsum.Props_C14"


def sha3(b):
    return hashlib.sha3_256(b).digest()


def hx(b):
    return b.hex() if b else "-"


class Ref:
    """the published definition, independently: columns of LE words mod the primes"""

    def __init__(self, primes):
        self.p = primes

    def zero(self):
        return [0] * 8

    def words(self, d):
        return [int.from_bytes(d[4 * i:4 * i + 4], "little") for i in range(8)]

    def item(self, b):
        return [w % p for w, p in zip(self.words(sha3(b)), self.p)]

    def add(self, a, b):
        return [(x + y) % p for x, y, p in zip(a, b, self.p)]

    def sub(self, a, b):
        return [(x - y) % p for x, y, p in zip(a, b, self.p)]

    def fd(self, d):
        return [w % p for w, p in zip(self.words(d), self.p)]

    def hexd(self, s):
        return b"".join(c.to_bytes(4, "little") for c in s).hex()


def rare_items():
    """items whose SHA3 has a word in [p, 2^32) (found by brute force once, kept in the corpus):
    without them the conditional subtraction of hash_to_state is never exercised"""
    p = os.path.join(vlib.VERIF, "corpus", "C14", "rare_items.json")
    if not os.path.exists(p):
        return []
    return [bytes.fromhex(x["item"]) for x in json.load(open(p))["items"]]


RARE = rare_items()


def gen_case(rng, primes, stats):
    """one case: list of (impl_op, model_op) strings + the reference's expected outputs"""
    ref = Ref(primes)
    regs = [ref.zero() for _ in range(4)]
    impl, model, expect = [], [], []
    pool = []
    nops = rng.range(3, 24)

    def item():
        if RARE and rng.chance(1, 8):
            stats["rare_items"] += 1
            return rng.choice(RARE)
        if pool and rng.chance(1, 3):
            return rng.choice(pool)
        k = rng.choice([0, 0, 1, 2, 3, 8, 31, 32, 33, 64, 135, 136, 137, 200])
        b = rng.bytes(rng.range(0, k)) if k else b""
        pool.append(b)
        return b

    def boundary_digest():
        cols = []
        for p in primes:
            c = rng.choice([0, 1, 2, p - 2, p - 1, p, p + 1, 2**32 - 2, 2**32 - 1, rng.below(2**32), rng.below(p)])
            cols.append(c)
        stats["fd_noncanonical"] += any(c >= p for c, p in zip(cols, primes))
        return b"".join(c.to_bytes(4, "little") for c in cols)

    for _ in range(nops):
        k = rng.below(100)
        r = rng.below(4)
        if k < 22:
            it = item()
            impl.append("ins %d %s" % (r, hx(it)))
            model.append("ins %d %s" % (r, sha3(it).hex()))
            regs[r] = ref.add(regs[r], ref.item(it))
            stats["ins"] += 1
        elif k < 32:
            it = item()
            cuts = sorted(rng.below(len(it) + 1) for _ in range(rng.below(4)))
            ps, last = [], 0
            for c in cuts:
                ps.append(it[last:c])
                last = c
            ps.append(it[last:])
            if rng.chance(1, 6):
                ps = []
                it = b""
            impl.append("insv %d %s" % (r, ",".join(hx(p) for p in ps) if ps else "-"))
            model.append("ins %d %s" % (r, sha3(it).hex()))
            regs[r] = ref.add(regs[r], ref.item(it))
            stats["insv"] += 1
        elif k < 44:
            it = item()
            impl.append(("rem %d %s" if rng.chance(1, 2) else "remv %d %s") % (r, hx(it) if it else "-"))
            if impl[-1].startswith("remv") and not it:
                impl[-1] = "remv %d -" % r
            model.append("rem %d %s" % (r, sha3(it).hex()))
            regs[r] = ref.sub(regs[r], ref.item(it))
            stats["rem"] += 1
        elif k < 50:
            key, val, ts = item(), item(), rng.choice([0, 1, 255, 256, 2**32, 2**63, 2**64 - 1, rng.below(2**64)])
            kind = rng.below(6)
            if kind in (0, 1):
                impl.append("put %d %s %d %s" % (r, hx(key), ts, hx(val)))
                it = b"\x08" + key + ts.to_bytes(8, "little") + val
            elif kind == 2:
                impl.append("del %d %s %d" % (r, hx(key), ts))
                it = b"\x09" + key + ts.to_bytes(8, "little")
            elif kind in (3, 4):
                # through sst::Setsum::insert(KeyValueRef): a put, possibly with an EMPTY value
                if rng.chance(1, 2):
                    val = b""
                impl.append("kvi %d %s %d %s" % (r, hx(key), ts, hx(val)))
                it = b"\x08" + key + ts.to_bytes(8, "little") + val
            else:
                impl.append("kvi %d %s %d ~" % (r, hx(key), ts))
                it = b"\x09" + key + ts.to_bytes(8, "little")
            model.append("ins %d %s" % (r, sha3(it).hex()))
            regs[r] = ref.add(regs[r], ref.item(it))
            stats["kv"] += 1
        elif k < 60:
            a, b = rng.below(4), rng.below(4)
            if rng.chance(1, 3):
                impl.append("addas %d %d" % (r, a))
                model.append("add %d %d %d" % (r, r, a))
                regs[r] = ref.add(regs[r], regs[a])
            else:
                impl.append("add %d %d %d" % (r, a, b))
                model.append(impl[-1])
                regs[r] = ref.add(regs[a], regs[b])
            stats["add"] += 1
        elif k < 72:
            a, b = rng.below(4), rng.below(4)
            if rng.chance(1, 3):
                impl.append("subas %d %d" % (r, a))
                model.append("sub %d %d %d" % (r, r, a))
                regs[r] = ref.sub(regs[r], regs[a])
            else:
                impl.append("sub %d %d %d" % (r, a, b))
                model.append(impl[-1])
                regs[r] = ref.sub(regs[a], regs[b])
            stats["sub"] += 1
        elif k < 82:
            d = boundary_digest()
            impl.append("fd %d %s" % (r, d.hex()))
            model.append(impl[-1])
            regs[r] = ref.fd(d)
            stats["fd"] += 1
        elif k < 88:
            # hex strings: valid, uppercase, '+'-prefixed pairs, wrong length, bad digit
            kind = rng.below(7)
            d = boundary_digest() if rng.chance(1, 2) else bytes(ref.hexd(regs[rng.below(4)]), "ascii")
            s = d.hex() if len(d) == 32 else d.decode()
            if kind == 1:
                s = s.upper()
            elif kind == 2:
                i = 2 * rng.below(32)
                s = s[:i] + "+" + s[i + 1:]
            elif kind == 3:
                s = s[:rng.below(64)]
            elif kind == 4:
                i = rng.below(64)
                s = s[:i] + rng.choice("gG-_ xz") + s[i + 1:]
            elif kind == 5:
                s = s + rng.choice(["0", "00", "a"])
            elif kind == 6:
                # a character that is not ASCII (2, 3 or 4 bytes of UTF-8), keeping the BYTE length at 64
                # or not: before a22f7bf the byte-offset slicing panicked off a character boundary
                ch = rng.choice(["\u00e9", "\u20ac", "\U0001f600"])
                n = len(ch.encode())
                i = rng.below(64 - n + 1)
                s = s[:i] + ch + (s[i + n:] if rng.chance(3, 4) else s[i + 1:])
            sb = s.encode()
            impl.append("fh %d %s" % (r, sb.hex()) if sb else "fh %d" % r)
            model.append(impl[-1])
            # reference parse
            ok = len(sb) == 64 and s.isascii()
            bs = []
            if ok:
                for i in range(32):
                    pair = s[2 * i:2 * i + 2]
                    try:
                        if pair[0] == "-" or pair[1] in "+-" or pair[0] in " _" or pair[1] in " _":
                            raise ValueError
                        if pair[0] == "+":
                            v = int(pair[1], 16)
                        else:
                            v = int(pair, 16)
                        bs.append(v)
                    except ValueError:
                        ok = False
                        break
            if ok:
                regs[r] = ref.fd(bytes(bs))
            else:
                expect.append("none")
            stats["fh"] += 1
            stats["fh_none"] += (not ok)
        else:
            impl.append("out %d" % r)
            model.append(impl[-1])
            expect.append(ref.hexd(regs[r]))
            stats["out"] += 1
    for r in range(4):
        impl.append("out %d" % r)
        model.append("out %d" % r)
        expect.append(ref.hexd(regs[r]))
    return "; ".join(impl), "; ".join(model), " ".join(expect)


def law_cases(rng, primes):
    """algebraic-law cases stated directly on the implementation: (a+b)-b, perm invariance, ..."""
    out = []
    ref = Ref(primes)
    for _ in range(40):
        its = [rng.bytes(rng.range(0, 12)) for _ in range(rng.range(2, 7))]
        perm = list(its)
        for i in range(len(perm) - 1, 0, -1):
            j = rng.below(i + 1)
            perm[i], perm[j] = perm[j], perm[i]
        k = rng.below(len(its) + 1)
        impl = ["ins 0 %s" % hx(x) for x in its] + ["ins 1 %s" % hx(x) for x in perm]
        impl += ["ins 2 %s" % hx(x) for x in its[:k]] + ["ins 3 %s" % hx(x) for x in its[k:]] + ["add 2 2 3"]
        model = ["ins 0 %s" % sha3(x).hex() for x in its] + ["ins 1 %s" % sha3(x).hex() for x in perm]
        model += ["ins 2 %s" % sha3(x).hex() for x in its[:k]] + ["ins 3 %s" % sha3(x).hex() for x in its[k:]] + ["add 2 2 3"]
        tail = ["out 0", "out 1", "out 2"] + ["rem 0 %s" % hx(x) for x in reversed(perm)] + ["out 0"]
        mtail = ["out 0", "out 1", "out 2"] + ["rem 0 %s" % sha3(x).hex() for x in reversed(perm)] + ["out 0"]
        s = ref.zero()
        for x in its:
            s = ref.add(s, ref.item(x))
        e = [ref.hexd(s)] * 3 + [ref.hexd(ref.zero())]
        out.append(("; ".join(impl + tail), "; ".join(model + mtail), " ".join(e)))
    return out


def run_lines(exe, lines, workdir, tag):
    p = os.path.join(workdir, tag + ".in")
    with open(p, "w") as fh:
        fh.write("\n".join(lines) + "\n")
    rc, out = vlib.sh("%s < %s" % (exe, p), timeout=1200)
    res = out.split("\n")
    if res and res[-1] == "":
        res.pop()
    return rc, res


def load_corpus(pid):
    d = os.path.join(vlib.VERIF, "corpus", pid)
    cases = []
    if os.path.isdir(d):
        for fn in sorted(os.listdir(d)):
            if fn.endswith(".json"):
                with open(os.path.join(d, fn)) as fh:
                    c = json.load(fh)
                if "impl" in c:
                    cases.append((c["impl"], c["model"], c["expect"], fn))
    return cases


def run(chk):
    primes_json = None
    ok_proof, info = vlib.proof_stage(chk, PROPS, MODULE, const_areas=("Setsum",), pins_rel="pins/C14.v")
    rc, out = vlib.sh(["python3", os.path.join(vlib.VERIF, "tools", "constants.py"), "Setsum", "--json"])
    primes = json.loads(out.strip().splitlines()[-1])["Setsum"]["SETSUM_PRIMES"]

    okx, outx = vlib.coq_make(["theories/Setsum/Extract.vo"])
    okm, outm, mx = vlib.ocaml_build("setsum", "mx_setsum")
    okh, outh, (hxbin,) = vlib.cargo_build(["c14"])
    if not (okx and okm):
        raise RuntimeError("model build failed:\n" + outx[-1500:] + outm[-1500:])
    if not okh:
        raise RuntimeError("harness build failed (does /repo still compile?):\n" + outh[-3000:])

    rng = vlib.Rng(chk.seed * 1000003 + 14)
    stats = {k: 0 for k in ["ins", "insv", "rem", "kv", "add", "sub", "fd", "fd_noncanonical", "fh", "fh_none", "out", "rare_items"]}
    n = 4000 if chk.tier == "quick" else 120000
    cases = [(i, m, e, "corpus:" + fn) for i, m, e, fn in load_corpus("C14")]
    ncorpus = len(cases)
    cases += [c + ("law",) for c in law_cases(rng.fork(), primes)]
    for k in range(n):
        cases.append(gen_case(rng, primes, stats) + ("gen%d" % k,))

    rc1, impl_out = run_lines(hxbin, [c[0] for c in cases], chk.work, "impl")
    rc2, model_out = run_lines(mx, [c[1] for c in cases], chk.work, "model")
    if len(impl_out) != len(cases) or len(model_out) != len(cases):
        raise RuntimeError("output line count mismatch impl=%d model=%d cases=%d" % (len(impl_out), len(model_out), len(cases)))

    distinct = set()
    corr_bad, prop_bad = [], []
    for (ci, cm, ce, tag), io, mo in zip(cases, impl_out, model_out):
        if len(ci.split(";")) >= 5 and io.strip("0 ") != "":
            distinct.add(ci)
        if io != ce:
            prop_bad.append({"tag": tag, "impl_ops": ci, "model_ops": cm, "impl_out": io, "model_out": mo, "spec_out": ce})
        elif io != mo:
            corr_bad.append({"tag": tag, "impl_ops": ci, "model_ops": cm, "impl_out": io, "model_out": mo, "spec_out": ce})

    chk.coverage.update({
        "evaluations": len(cases), "distinct_nontrivial": len(distinct),
        "rule": "register-machine op lists (insert/insert_vectored split at random positions/remove/put/del/add/sub/+=/-=/from_digest with boundary columns 0,1,p-1,p,2^32-1/from_hexdigest valid+malformed/out) from one SplitMix64 seed; non-trivial = at least 5 ops and a non-zero output; distinct = distinct op strings",
        "samples": [cases[ncorpus + 40][0][:400], cases[-1][0][:400]],
        "input_distribution": stats, "corpus_cases": ncorpus,
        "correspondence": "impl (Rust, release + overflow-checks) vs extracted Coq model vs independent Python definition, 3-way",
        "disagreements_impl_vs_model": len(corr_bad), "disagreements_impl_vs_spec": len(prop_bad),
        "trusted_base": [
            "Coq 8.16.1 kernel (coqc, full .vo build), vm_compute used for finite facts about the extracted constants",
            "tools/constants.py (primes/sizes re-extracted from setsum/src/lib.rs)",
            "extraction via ExtrOcamlBasic (no Extract Constant of ours) + ocaml/setsum/mx_setsum.ml driver",
            "harness/src/bin/c14.rs; Python hashlib SHA3-256 as the independent hash",
            "SHA3-256 itself is a section variable H (any function to 32 bytes); streaming update = hash of concatenation is assumed",
        ],
    })
    chk.assumptions = ["H (SHA3-256) is an arbitrary function returning 32 bytes; no cryptographic property is used",
                       "non-ASCII input to from_hexdigest is outside the model"]

    if prop_bad:
        b = prop_bad[0]
        chk.violation("c14_%s.json" % b["tag"].replace(":", "_"), {"kind": "property", "what": "implementation output differs from the published definition / group laws", "case": b,
                                                               "replay_cmd": "echo '<impl_ops>' | work/target/release/c14"})
    elif corr_bad or not ok_proof:
        # a proof obligation or the correspondence broke, and no input was found on which the
        # property itself fails
        chk.violation("c14_unproved.json", {"kind": "no-failing-input-found", "broken": info["broken"],
                                            "correspondence_disagreements": corr_bad[:5]}, no_input=True)


def replay(path):
    with open(path) as fh:
        obj = json.load(fh)
    print(json.dumps(obj, indent=1))
    case = obj.get("case")
    if case:
        okh, outh, (hxbin,) = vlib.cargo_build(["c14"])
        rc, out = vlib.sh("echo '%s' | %s" % (case["impl_ops"], hxbin))
        print("impl now :", out.strip())
        print("spec     :", case["spec_out"])
        return 0 if out.strip() == case["spec_out"] else 1
    return 1
