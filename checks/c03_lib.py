"""Driver of the C03 check (range scans).  A FROZEN COPY of checks/lsmlib.py (so that harness c03 +
driver mx_scan + this file stay one consistent snapshot) extended with range scans: runs histories
on the real store through the `c03` harness binary (sessions = processes; reopen = new session),
mirrors every step on the extracted Coq model (`mx_scan`), and compares every range scan three ways:
real cursor vs extracted model (run_scan / run_tree_scan) vs a direct oracle computed here from the
Python reference map (resp. from the dumped files for the tree alone)."""
import os
import select
import shutil
import subprocess

import vlib

UNIVERSE = [b"", b"a", b"a\x00", b"a\x00\x00", b"ab", b"ab\xff", b"abc", b"b", b"b\x00", b"ba", b"\xff", b"\xff\xff",
            b"k1", b"k2", b"k3", b"k4", b"k5", b"k6"]


def hx(b):
    return b.hex() if b else "-"


def unhx(s):
    return b"" if s == "-" else bytes.fromhex(s)


# ---------------------------------------------------------------- C03: bounds, programs, reference cursor
def bound_str(b):
    """("U",None) | ("I",key) | ("E",key) -> U | I<hex> | E<hex>"""
    return "U" if b[0] == "U" else b[0] + hx(b[1])


def parse_bound(s):
    return ("U", None) if s == "U" else (s[0], unhx(s[1:]))


def prog_str(prog):
    """[("F",) ("L",) ("N",) ("P",) ("S",key)] -> F,L,N,P,S<hex>   (`_` = empty program)"""
    return ",".join(st[0] + (hx(st[1]) if st[0] == "S" else "") for st in prog) if prog else "_"


def parse_prog(s):
    if s in ("_", ""):
        return []
    return [("S", unhx(st[1:])) if st[0] == "S" else (st[0],) for st in s.split(",")]


def in_bounds(lo, hi, k):
    """the property's reading of a range: bytes compare like Rust's [u8]::cmp = Python bytes comparison"""
    if lo[0] == "I" and not (lo[1] <= k):
        return False
    if lo[0] == "E" and not (lo[1] < k):
        return False
    if hi[0] == "I" and not (k <= hi[1]):
        return False
    if hi[0] == "E" and not (k < hi[1]):
        return False
    return True


def range_class(lo, hi):
    """'inverted' (lo key > hi key), 'empty' (equal keys, not both included), else 'ok'"""
    if lo[0] == "U" or hi[0] == "U":
        return "ok"
    if lo[1] > hi[1]:
        return "inverted"
    if lo[1] == hi[1] and not (lo[0] == "I" and hi[0] == "I"):
        return "empty"
    return "ok"


def obs_str(k, ts, v):
    """one observation: key@timestamp=value (the timestamp is compared too: a stale version with an
    equal value must not pass)"""
    return "%s@%d=%s" % (hx(k), ts, hx(v))


def ref_cursor(items, prog):
    """THE DIRECT ORACLE's cursor: items = the sorted live (key, value) pairs in range.  Position i in
    [-1, len]; a fresh cursor is at -1; F -> -1; L -> len; S k -> number of keys < k; N -> min(i+1,
    len); P -> max(i-1, -1); observation = the item at i or `.`.  Returns 1 + len(prog) observations."""
    n = len(items)
    i = -1

    def ob():
        return obs_str(*items[i]) if 0 <= i < n else "."

    out = [ob()]
    for st in prog:
        if st[0] == "F":
            i = -1
        elif st[0] == "L":
            i = n
        elif st[0] == "S":
            i = sum(1 for it in items if it[0] < st[1])
        elif st[0] == "N":
            i = min(i + 1, n)
        elif st[0] == "P":
            i = max(i - 1, -1)
        else:
            raise ValueError("bad step %r" % (st,))
        out.append(ob())
    return out


def reversals(prog):
    """number of direction changes in a program: a backward call (P) while heading forward (after F,
    S or N) following at least one call, or a forward call (N) while heading backward (after L or P)"""
    n, d = 0, None
    for st in prog:
        if st[0] in ("F", "S"):
            nd = "f0"
        elif st[0] == "L":
            nd = "b0"
        elif st[0] == "N":
            nd = "f"
        else:
            nd = "b"
        if d is not None and nd in ("f", "b") and d[0] != nd[0]:
            n += 1
        d = nd
    return n


class File:
    def __init__(self, name, ents):
        self.name = name          # setsum hex
        self.ents = ents          # list of (key bytes, ts int, value bytes|None)

    def first(self):
        return self.ents[0][0] if self.ents else b""

    def last(self):
        return self.ents[-1][0] if self.ents else b""


class Session:
    def __init__(self, exe, root, opts):
        self.p = subprocess.Popen([exe, root] + opts, stdin=subprocess.PIPE, stdout=subprocess.PIPE,
                                  stderr=subprocess.DEVNULL, bufsize=0)
        self.buf = b""
        self.threads = []
        ln = self.readline(600)
        self.open_line = (ln or "HANG").strip()

    def readline(self, timeout):
        """one line from the store's stdout (own buffer, so that select sees what is pending);
        None on timeout, '' on EOF"""
        fd = self.p.stdout.fileno()
        while b"\n" not in self.buf:
            ready, _, _ = select.select([fd], [], [], timeout)
            if not ready:
                return None
            chunk = os.read(fd, 1 << 16)
            if not chunk:
                rest, self.buf = self.buf, b""
                return rest.decode() if rest else ""
            self.buf += chunk
        line, self.buf = self.buf.split(b"\n", 1)
        return line.decode() + "\n"

    def cmd(self, line):
        """send one op, return its output line(s): for `dump` the FILE lines + DUMP line"""
        self.p.stdin.write((line + "\n").encode())
        self.p.stdin.flush()
        outs = []
        while True:
            # a store that stops answering is an observation (HANG), not a reason to hang the check
            ln = self.readline(600)
            if ln is None:
                self.p.kill()
                outs.append("HANG")
                return outs
            if not ln:
                outs.append("EOF")
                return outs
            ln = ln.rstrip("\n")
            if ln.startswith("THREAD"):
                self.threads.append(ln)
                continue
            outs.append(ln)
            if ln.startswith("FILE "):
                continue
            return outs

    def close(self):
        try:
            self.p.stdin.close()
        except Exception:
            pass
        try:
            self.p.wait(timeout=20)
        except subprocess.TimeoutExpired:
            self.p.kill()
            self.p.wait()


def parse_dump(lines, cache):
    """FILE.. DUMP lines -> list of levels (16 lists of file names) ; fills cache name->File, meta"""
    levels = [[] for _ in range(16)]
    meta = {}
    for ln in lines:
        if ln.startswith("FILE "):
            t = ln.split(" ")
            name = t[1]
            ents = []
            bad = None
            for e in t[2:]:
                if e == "ERR" or e.startswith("OPENERR"):
                    bad = e
                    continue
                k, ts, v = e.split(":")
                ents.append((unhx(k), int(ts), None if v == "~" else unhx(v)))
            f = File(name, ents)
            f.bad = bad
            cache[name] = f
        elif ln.startswith("DUMP"):
            for it in ln.split(" ")[1:]:
                lvl, name, fk, lk, sts, bts, size = it.split(":")
                levels[int(lvl)].append(name)
                meta[name] = {"first": unhx(fk), "last": unhx(lk), "sts": int(sts), "bts": int(bts), "size": int(size)}
    return levels, meta


def ent_str(e):
    return "%s.%d.%s" % (hx(e[0]), e[1], "~" if e[2] is None else hx(e[2]))


def file_str(fid, size, f):
    return "%d:%d:%s" % (fid, size, ",".join(ent_str(e) for e in f.ents))


class Model:
    """the extracted Coq model as a co-process"""

    def __init__(self, exe):
        self.p = subprocess.Popen([exe], stdin=subprocess.PIPE, stdout=subprocess.PIPE, stderr=subprocess.PIPE)

    def cmd(self, line):
        self.p.stdin.write((line + "\n").encode())
        self.p.stdin.flush()
        out = self.p.stdout.readline().decode()
        if not out:
            err = self.p.stderr.read().decode()
            raise RuntimeError("model driver died on %r: %s" % (line[:200], err[-500:]))
        return out.rstrip("\n")

    def close(self):
        try:
            self.p.stdin.close()
            self.p.wait(timeout=10)
        except Exception:
            self.p.kill()


def lower_bound(level_files, cache, key):
    n = 0
    for name in level_files:
        if cache[name].last() < key:
            n += 1
        else:
            break
    return n


def upper_bound(level_files, cache, key):
    n = 0
    for name in level_files:
        if cache[name].first() <= key:
            n += 1
        else:
            break
    return n


def fresh_root(tag):
    base = "/dev/shm" if os.path.isdir("/dev/shm") else os.path.join(vlib.WORK, "stores")
    root = os.path.join(base, "blue_verif_%s_%d" % (tag, os.getpid()))
    shutil.rmtree(root, ignore_errors=True)
    return root


class Run:
    """One history executed on implementation and model in lock step."""

    def __init__(self, lsm_exe, mx_exe, opts, tag, universe=None):
        self.lsm_exe, self.mx_exe, self.opts = lsm_exe, mx_exe, opts
        self.root = fresh_root(tag)
        self.cache = {}          # setsum -> File
        self.ids = {}            # setsum -> int id
        self.meta = {}
        self.levels = [[] for _ in range(16)]   # impl view (names)
        self.spec = {}           # key -> value|None   (python reference map)
        self.universe = universe or UNIVERSE
        self.events = []         # log of what happened (for replay files)
        self.problems = []       # list of dicts: kind in {read, corr, invalid, reopen, error}
        self.known_events = []   # K1/K2/K3/F7 occurrences
        self.mem_nonempty = False
        self.sess = None
        self.model = Model(mx_exe)
        self.n_reads = 0
        self.n_steps = {"write": 0, "flush": 0, "compact": 0, "move": 0, "reopen": 0, "gc": 0, "none": 0}
        # C03
        self.not_wf_from = None    # event index from which the tree is not well-formed after a known-class event
        self.pyseq = 0             # the oracle's own sequence counter (timestamps of the reference map)
        self.spec_ts = {}          # key -> timestamp of its last write
        self.n_scans = self.n_tscans = self.n_scangets = self.n_obs = self.n_seqchecks = 0
        self.mem_tomb = False      # the memtable holds a tombstone
        self.mem_keys = set()
        self.sstats = {}           # measured input distribution of the scans
        self.fps = set()           # fingerprints of distinct non-trivial (state, lo, hi, prog)
        self.sample_scans = []
        self._sinfo = None
        self.open_session(first=True)

    # -- helpers
    def fid(self, name):
        if name not in self.ids:
            self.ids[name] = len(self.ids) + 1
        return self.ids[name]

    def problem(self, kind, live=None, **kw):
        """live: does the problem still count after an event of a known class (K2) in this history?
        Yes for errors/panics/hangs and for every disagreement between the implementation and the
        EXTRACTED MODEL (the model adopts the recovered version, so impl = model must keep holding
        even where both differ from the latest-write specification) - unless the recovered tree was
        not even well-formed (wf=0: the model's partition points and the real binary searches may
        then differ, and selector asserts are a stated consequence), see c03.verdict."""
        if live is None:
            live = kind == "error"
        d = {"kind": kind, "at_event": len(self.events), "at_op": getattr(self, "cur_op", None), "live": bool(live)}
        d.update(kw)
        self.problems.append(d)

    def dump(self):
        out = self.sess.cmd("dump")
        if out[-1] in ("HANG", "EOF"):
            self.problem("error", what="store stopped answering during dump: " + out[-1])
            self.dead = True
            return self.levels
        levels, meta = parse_dump(out, self.cache)
        self.meta.update(meta)
        return levels

    def state(self):
        t = self.sess.cmd("state")[0].split()
        if t[0] in ("HANG", "EOF"):
            self.problem("error", what="store stopped answering: " + t[0])
            self.dead = True
            return {"seq_no": 0}
        return {"seq_no": int(t[1]), "mem_seq_no": int(t[2]), "imm_trigger": int(t[3]), "has_imm": t[4] == "1", "mem_size": int(t[5]),
                "stall": t[6], "mandatory": t[7], "ongoing": t[8]}

    def levels_str(self, levels):
        return "/".join(";".join(file_str(self.fid(n), self.meta[n]["size"], self.cache[n]) for n in lv) for lv in levels)

    def check_meta(self, names):
        """the dumped metadata must describe the file's entries (C10's business; here a sanity check)"""
        for n in names:
            f, m = self.cache[n], self.meta[n]
            if getattr(f, "bad", None) or not f.ents:
                self.problem("corr", what="file unreadable or empty", file=n)
                continue
            if f.first() != m["first"] or f.last() != m["last"] or min(e[1] for e in f.ents) != m["sts"] or max(e[1] for e in f.ents) != m["bts"]:
                self.problem("corr", what="metadata does not describe contents", file=n, meta=str(m))

    def compare_version(self, levels, where):
        v = self.model.cmd("V")
        ids = v.split(" ")[1].split("/")
        mine = [",".join(str(self.fid(n)) for n in lv) for lv in levels]
        if ids != mine:
            self.problem("corr", live=True, what="tree shape differs from model after " + where, impl=mine, model=ids)
        return v.split(" ")[2:]

    # -- sessions
    def open_session(self, first=False):
        self.sess = Session(self.lsm_exe, self.root, self.opts)
        self.events.append(("open", self.sess.open_line))
        if self.sess.open_line != "OPEN ok":
            self.problem("error", what="open failed", line=self.sess.open_line)
            self.dead = True
            return
        self.dead = False
        st = self.state()
        levels = self.dump()
        if first:
            # seq_no after open = (first write's timestamp) - 1
            self.model.cmd("H %d" % st["seq_no"])
            self.pyseq = st["seq_no"]
        else:
            old = set(n for lv in self.levels for n in lv)
            new = [n for lv in levels for n in lv if n not in old]
            self.check_meta(new)
            if self.mem_nonempty:
                if len(new) != 1:
                    self.problem("corr", what="reopen: expected exactly one replayed-log file", new=new)
                fid, sz = (self.fid(new[0]), self.meta[new[0]]["size"]) if new else (0, 0)
            else:
                if new:
                    self.problem("corr", what="reopen: unexpected new files", new=new)
                fid, sz = 0, 0
            r = self.model.cmd("R %d %d %d | %s" % (fid, sz, st["seq_no"], self.levels_str(levels)))
            self.pyseq = st["seq_no"]
            bits = r.split(" ")[1:]
            self.n_steps["reopen"] += 1
            self.events.append(("reopen", r))
            if bits[0] != "1" or bits[1] != "1":
                self.problem("corr", live=True, what="reopen: entries differ from before (sub1 sub2)", bits=bits)
            elif bits[2] != "1" or bits[3] != "1":
                self.known_or_problem_reopen(levels, bits)
            self.mem_nonempty = False
            self.mem_tomb = False
            self.mem_keys = set()
        self._sinfo = None
        self.levels = levels

    def known_or_problem_reopen(self, levels, bits):
        # K2: recover cannot rebuild a safe order when two files overlap in key range and in timestamp range
        names = [n for lv in levels for n in lv]
        k2 = False
        for i in range(len(names)):
            for j in range(i + 1, len(names)):
                a, b = self.meta[names[i]], self.meta[names[j]]
                if a["first"] <= b["last"] and b["first"] <= a["last"] and not (a["bts"] < b["sts"] or b["bts"] < a["sts"]):
                    k2 = True
        if k2:
            self.known_events.append(("K2", "reopen of a tree holding files that overlap in key range and timestamp range: recovered levels wf=%s ordered=%s" % (bits[2], bits[3]), len(self.events)))
            if bits[2] != "1" and self.not_wf_from is None:
                self.not_wf_from = len(self.events)
        else:
            self.problem("invalid", what="reopen produced a tree that is not well-formed/ordered and no K2 pair exists", bits=bits)

    def reopen(self):
        self.sess.close()
        self.open_session()

    # -- ops
    def write(self, batch):
        """batch: list of (key, value|None); a key named twice keeps its last write (the store
        dedupes the same way; the model's acceptance asks for distinct keys)"""
        if self.dead:
            return
        raw = batch
        last = {}
        for i, (k, v) in enumerate(batch):
            last[k] = i
        batch = [kv for i, kv in enumerate(batch) if last[kv[0]] == i]
        if len(raw) == 1:
            k, v = raw[0]
            line = ("put %s %s" % (hx(k), hx(v))) if v is not None else ("del %s" % hx(k))
        else:
            line = "batch " + ",".join("%s=%s" % (hx(k), "~" if v is None else hx(v)) for k, v in raw)
        out = self.sess.cmd(line)[0]
        self.events.append((line, out))
        if not out.endswith(" ok"):
            self.problem("error", what="write returned an error or panicked", op=line, out=out)
            return
        self.note_write(batch, line)

    def note_write(self, batch, line):
        """mirror an accepted write on the model and the reference map"""
        m = self.model.cmd("W " + ",".join("%s=%s" % (hx(k), "~" if v is None else hx(v)) for k, v in batch))
        if m != "W 1":
            self.problem("corr", what="model rejected batch", op=line)
        self.pyseq += 1            # one sequence number per batch
        for k, v in batch:
            self.spec[k] = v
            self.spec_ts[k] = self.pyseq
            self.mem_keys.add(k)
            if v is None:
                self.mem_tomb = True
        self._sinfo = None
        self.mem_nonempty = True
        self.n_steps["write"] += 1

    def reads(self, keys=None):
        if self.dead:
            return
        keys = keys or self.universe
        out = self.sess.cmd("getall " + ",".join(hx(k) for k in keys))[0].split(" ")
        if out[0] != "GET":
            self.problem("error", what="reads did not complete", out=out[:3])
            self.dead = True
            return
        out = out[1:]
        mo = self.model.cmd("G " + ",".join(hx(k) for k in keys)).split(" ")[1:]
        self.n_reads += len(keys)
        for k, io, m in zip(keys, out, mo):
            want = self.spec.get(k)
            ws = "." if want is None else hx(want)
            ic = "." if io == "~" else io
            if ic != ws:
                self.problem("read", live=(m != ic), key=hx(k), impl=io, spec=ws, model=m)
            elif m != ws:
                self.problem("corr", what="model read differs from spec and implementation", key=hx(k), impl=io, model=m)

    def flush(self):
        if self.dead or not self.mem_nonempty:
            return
        out = self.sess.cmd("flush")[0]
        self.events.append(("flush", out))
        self.after_flush(out)

    def after_flush(self, out):
        """bookkeeping after the store has flushed its memtable (`out` = its FLUSH.. line)"""
        if not out.startswith("FLUSH"):
            self.problem("error", what="flush did not complete", out=out, threads=self.sess.threads)
            self.dead = True
            return
        levels = self.dump()
        old = set(n for lv in self.levels for n in lv)
        new = [n for n in levels[0] if n not in old]
        if len(new) != 1 or levels[0][-1:] != new or levels[1:] != self.levels[1:] or levels[0][:-1] != self.levels[0]:
            self.problem("corr", what="flush: expected exactly one new file appended to L0", new=new)
            self.levels = levels
            self._sinfo = None
            return
        self.check_meta(new)
        f = self.cache[new[0]]
        m = self.model.cmd("F %d %d" % (self.fid(new[0]), self.meta[new[0]]["size"]))
        want = ",".join(ent_str(e) for e in f.ents)
        if m[2:] != want:
            self.problem("corr", live=True, what="flush: file contents differ from the model's memtable", impl=want[:300], model=m[2:][:300])
        self.levels = levels
        self.mem_nonempty = False
        self.mem_tomb = False
        self.mem_keys = set()
        self._sinfo = None
        self.pyseq += 1            # the rollover takes a sequence number
        self.n_steps["flush"] += 1
        self.compare_version(levels, "flush")

    def compact(self):
        """one compaction step; returns False when the selector found nothing"""
        if self.dead:
            return False
        out = self.sess.cmd("compact")[0]
        self.events.append(("compact", out))
        t = out.split(" ")
        if t[0] != "COMPACT":
            self.problem("error", what="compaction step did not complete", out=out)
            self.dead = True
            return False
        if t[1] == "none":
            self.n_steps["none"] += 1
            return False
        if t[1] == "err" or t[0] == "PANIC":
            self.problem("error", what="compaction returned an error or panicked", out=out)
            return False
        lo, up, fk, lk, size, inputs = int(t[1]), int(t[2]), unhx(t[3]), unhx(t[4]), int(t[5]), t[6].split(",")
        levels = self.dump()
        old_up = self.levels[up]
        lb = lower_bound(old_up, self.cache, fk)
        ub = upper_bound(old_up, self.cache, lk)
        new_up = levels[up]
        n_out = len(new_up) - (len(old_up) - (ub - lb)) if lb <= ub else 0
        outs = new_up[lb:lb + max(0, n_out)]
        self.check_meta(outs)
        m = self.model.cmd("C %d %d %s %s %s | %s" % (lo, up, hx(fk), hx(lk), ",".join(str(self.fid(n)) for n in inputs),
                                                    ";".join(file_str(self.fid(n), self.meta[n]["size"], self.cache[n]) for n in outs)))
        bits = m.split(" ")[1:]
        is_gc = bits[5] == "1"          # the model classified the step as a garbage collection
        kind = "move" if len(inputs) == 1 else ("gc" if is_gc else "compact")
        self.n_steps[kind] += 1
        self.last_compaction = {"lo": lo, "up": up, "inputs": inputs, "outs": outs, "bits": bits, "kind": kind}
        if bits[0] != "1":
            self.classify_invalid(lo, up, inputs, kind, bits[3])
        if is_gc:
            if bits[4] != "1":
                self.problem("invalid", what="garbage collection dropped something the admissible set does not allow (not a subsequence of the merge, or a key's newest version dropped while older ones stay)", inputs=inputs, outs=outs)
        elif bits[1] != "1":
            self.problem("corr", what="compaction outputs are not the sorted merge of the inputs", inputs=inputs, outs=outs)
        if bits[2] != "1":
            self.problem("invalid", what="levels not well-formed after compaction", c=out)
            if self.known_events and self.not_wf_from is None:
                self.not_wf_from = len(self.events)
        elif bits[0] == "1" and bits[6] != "1" and (is_gc and bits[4] == "1" or (not is_gc) and bits[1] == "1"):
            self.problem("corr", what="step not accepted by the model although its parts are", bits=bits)
        self.levels = levels
        self._sinfo = None
        self.compare_version(levels, "compaction")
        return True

    def classify_invalid(self, lo, up, inputs, kind, parts):
        # parts = shape slice rest range closed ids ; the known classes fail ONLY the closure conjunct
        if parts != "111101":
            self.problem("invalid", what="compaction outside the admissible set (conjuncts shape,slice,rest,range,closed,ids = %s)" % parts,
                         lo=lo, up=up, inputs=inputs)
        elif kind == "move":
            self.known_events.append(("K3", "trivial move of a file whose level sibling shares its boundary key / overlaps it (L%d->L%d, %s)" % (lo, up, inputs[0][:8]), len(self.events)))
        else:
            self.known_events.append(("K1", "merging compaction L%d->L%d whose inputs are not overlap-closed (expand_compaction adds wholly-contained files of shallower levels)" % (lo, up), len(self.events)))

    # -- C03: range scans ---------------------------------------------------------------------
    def stat(self, key, n=1):
        self.sstats[key] = self.sstats.get(key, 0) + n

    def state_info(self):
        """facts about the current store state (cached until the next step): fingerprint, number of
        non-empty components (memtable, each L0 file, each deeper non-empty level), non-empty levels,
        whether a tombstone is stored somewhere, whether some key has versions in >= 2 components"""
        if self._sinfo is None:
            import hashlib
            names = [n for lv in self.levels for n in lv]
            comps = (1 if self.mem_nonempty else 0) + len(self.levels[0]) + sum(1 for lv in self.levels[1:] if lv)
            nlev = sum(1 for lv in self.levels if lv)
            tomb = self.mem_tomb or any(e[2] is None for n in names for e in self.cache[n].ents)
            # a key shadowed across components: present in the memtable and a file, or in two files
            seen, spread = set(self.mem_keys), False
            for n in names:
                ks = set(e[0] for e in self.cache[n].ents)
                if ks & seen:
                    spread = True
                seen |= ks
            h = hashlib.sha1()
            h.update(repr([list(lv) for lv in self.levels]).encode())
            h.update(repr(sorted(self.spec.items(), key=lambda kv: kv[0])).encode())
            h.update(b"M" if self.mem_nonempty else b"m")
            self._sinfo = {"fp": h.digest()[:10], "components": comps, "levels": nlev, "tomb": tomb, "spread": spread}
        return self._sinfo

    def spec_items(self, lo, hi):
        """the specification: the keys whose latest write is a put, within the bounds, ascending"""
        return sorted((k, self.spec_ts[k], v) for k, v in self.spec.items() if v is not None and in_bounds(lo, hi, k))

    def tree_items(self, lo, hi):
        """the same for the tree alone, from the dumped files of the current levels: per key the
        version with the largest timestamp over all files; live if it is a put"""
        best = {}
        for lv in self.levels:
            for n in lv:
                for k, ts, v in self.cache[n].ents:
                    if k not in best or ts > best[k][0]:
                        best[k] = (ts, v)
        return sorted((k, tv[0], tv[1]) for k, tv in best.items() if tv[1] is not None and in_bounds(lo, hi, k))

    def note_scan(self, what, lo, hi, prog, items):
        si = self.state_info()
        self.stat("bounds_%s%s" % (lo[0], hi[0]))
        rc = range_class(lo, hi)
        self.stat("range_" + rc)
        self.stat("result_len_%s" % (len(items) if len(items) < 4 else "4+"))
        self.stat("prog_len_%s" % (len(prog) if len(prog) < 3 else ("3-7" if len(prog) < 8 else "8+")))
        for st in prog:
            self.stat("op_" + st[0])
        r = reversals(prog)
        self.stat("reversals", r)
        if r:
            self.stat("progs_with_reversal")
        if si["levels"] >= 2 and si["tomb"]:
            self.stat("scans_on_multilevel_tree_with_tombstone")
        if si["spread"]:
            self.stat("scans_with_key_versions_in_several_components")
        if self.mem_nonempty and si["levels"] >= 1:
            self.stat("scans_with_memtable_and_tree")
        self.stat("components_%s" % (si["components"] if si["components"] < 4 else "4+"))
        if si["components"] >= 2 and len(prog) >= 2:
            import hashlib
            self.fps.add(hashlib.sha1(si["fp"] + ("%s %s %s %s" % (what, bound_str(lo), bound_str(hi), prog_str(prog))).encode()).digest()[:8])
        if len(self.sample_scans) < 2 and len(prog) >= 3 and items:
            self.sample_scans.append("%s %s %s %s" % (what, bound_str(lo), bound_str(hi), prog_str(prog)))

    def store_line(self, op, tag, what):
        """one scan op on the real store; None when it did not complete"""
        out = self.sess.cmd(op)[0]
        self.events.append((op, out[:400]))
        t = out.split(" ")
        if t[0] != tag or (len(t) > 1 and t[1] == "err"):
            self.problem("scan", live=True, what=what + " did not complete (panic, error or hang)", op=op, out=out[:300])
            if t[0] in ("HANG", "EOF"):
                self.dead = True
            return None
        return t[1:]

    def scan(self, lo, hi, prog):
        """KeyValueStore::range_scan + cursor program: implementation vs direct oracle vs model"""
        if self.dead:
            return
        args = "%s %s %s" % (bound_str(lo), bound_str(hi), prog_str(prog))
        impl = self.store_line("scan " + args, "SCAN", "scan")
        ms = self.model.cmd("S " + args).split(" ")[1:]
        ml = self.model.cmd("L " + args).split(" ")[1:]
        items = self.spec_items(lo, hi)
        oracle = ref_cursor(items, prog)
        self.note_scan("scan", lo, hi, prog, items)
        if impl is None:
            return
        self.n_scans += 1
        self.n_obs += len(oracle)
        if impl != oracle:
            self.problem("scan", live=(ms != impl), what="range scan differs from the live keys in range (direct oracle)", op="scan", lo=bound_str(lo),
                         hi=bound_str(hi), prog=prog_str(prog), impl=" ".join(impl), oracle=" ".join(oracle), model=" ".join(ms), model_live=" ".join(ml))
        elif ms != impl:
            self.problem("corr", live=True, what="model run_scan differs from the implementation (which agrees with the oracle)", op="scan", lo=bound_str(lo),
                         hi=bound_str(hi), prog=prog_str(prog), impl=" ".join(impl), oracle=" ".join(oracle), model=" ".join(ms))
        if ml != oracle:
            self.problem("corr", what="model run_live (reference cursor over live_spec) differs from the Python oracle", op="scan", lo=bound_str(lo),
                         hi=bound_str(hi), prog=prog_str(prog), oracle=" ".join(oracle), model_live=" ".join(ml))

    def tscan(self, lo, hi, prog):
        """LsmTree::range_scan (the tree alone, read at u64::MAX) vs the dumped files vs the model"""
        if self.dead:
            return
        args = "%s %s %s" % (bound_str(lo), bound_str(hi), prog_str(prog))
        impl = self.store_line("tscan " + args, "TSCAN", "tree scan")
        mt = self.model.cmd("T " + args).split(" ")[1:]
        items = self.tree_items(lo, hi)
        oracle = ref_cursor(items, prog)
        self.note_scan("tscan", lo, hi, prog, items)
        if impl is None:
            return
        self.n_tscans += 1
        self.n_obs += len(oracle)
        if impl != oracle:
            self.problem("scan", live=(mt != impl), what="tree range scan differs from the newest live versions in the dumped files", op="tscan", lo=bound_str(lo),
                         hi=bound_str(hi), prog=prog_str(prog), impl=" ".join(impl), oracle=" ".join(oracle), model=" ".join(mt))
        elif mt != impl:
            self.problem("corr", live=True, what="model run_tree_scan differs from the implementation (which agrees with the oracle)", op="tscan", lo=bound_str(lo),
                         hi=bound_str(hi), prog=prog_str(prog), impl=" ".join(impl), oracle=" ".join(oracle), model=" ".join(mt))

    def scanget(self, lo, hi, keys):
        """a forward walk of a range_scan cursor to its end and point reads taken at the same moment"""
        if self.dead:
            return
        op = "scanget %s %s %s" % (bound_str(lo), bound_str(hi), ",".join(hx(k) for k in keys))
        t = self.store_line(op, "SCANGET", "scan + point reads")
        items = self.spec_items(lo, hi)
        self.stat("scanget")
        if t is None:
            return
        self.n_scangets += 1
        bar = t.index("|") if "|" in t else len(t)
        walk, gets = t[1:bar], t[bar + 1:]
        want = [obs_str(*it) for it in items]
        self.n_obs += len(want) + len(keys)
        common = dict(op="scanget", lo=bound_str(lo), hi=bound_str(hi), prog="F,N*")
        # the model's walk: F, then next until one past the end of the implementation's walk
        mprog = [("F",)] + [("N",)] * (len(walk) + 1)
        mw = self.model.cmd("S %s %s %s" % (bound_str(lo), bound_str(hi), prog_str(mprog))).split(" ")[1:]
        model_walk_ok = (mw[2:] == walk + ["."])
        mg = self.model.cmd("G " + ",".join(hx(k) for k in keys)).split(" ")[1:]
        if walk != want or t[0] != str(len(want)):
            self.problem("scan", live=not model_walk_ok, what="forward walk differs from the live keys in range", impl=" ".join(walk), oracle=" ".join(want), model=" ".join(mw[2:]), **common)
        elif not model_walk_ok:
            self.problem("corr", live=True, what="model forward walk differs from the implementation's (which agrees with the oracle)", impl=" ".join(walk), model=" ".join(mw[2:]), **common)
        if len(gets) != len(keys):
            self.problem("scan", live=True, what="point reads missing", out=" ".join(t)[:300], **common)
            return
        seen = {}
        for w in walk:
            if "=" in w:
                kt, v = w.split("=", 1)
                seen.setdefault(kt.split("@")[0], []).append(v)
        for k, g, m in zip(keys, gets, mg):
            spec = self.spec.get(k)
            ws = "." if spec is None else hx(spec)
            gc = "." if g == "~" else g
            if gc != ws:
                self.problem("scan", live=(m != gc), what="point read taken with the scan differs from the last write", key=hx(k), impl=g, spec=ws, model=m, **common)
            expect_in_walk = (gc != "." and not gc.startswith("err") and in_bounds(lo, hi, k))
            got = seen.get(hx(k), [])
            if expect_in_walk != (got == [gc]) or (not expect_in_walk and got):
                # after a K2 reopen a point read can be stale (first hit in a mis-ordered lookup order) while
                # the scan merges by timestamp: excused only if the extracted model shows the same two answers
                self.problem("scan", live=(m != gc or not model_walk_ok), model_point_read=m, what="scan and point read of one key disagree", key=hx(k), point_read=g, in_bounds=in_bounds(lo, hi, k), in_scan=got, **common)

    def ref_cursor_from(self, items, i, prog):
        """continue the oracle's cursor from position i: observations [at i] + after every call, and the final position"""
        n = len(items)

        def ob():
            return obs_str(*items[i]) if 0 <= i < n else "."

        out = [ob()]
        for st in prog:
            if st[0] == "F":
                i = -1
            elif st[0] == "L":
                i = n
            elif st[0] == "S":
                i = sum(1 for it in items if it[0] < st[1])
            elif st[0] == "N":
                i = min(i + 1, n)
            elif st[0] == "P":
                i = max(i - 1, -1)
            out.append(ob())
        return out, i

    def flushscan(self, lo, hi, prog1, prog2, gate=False):
        """gate: False = race with the memtable thread; True/"gate" = parked after the ingest (imm=2:
        the snapshot holds the flushed entries twice); "pre" = parked before the ingest (imm=3: the
        snapshot of C03_scan_with_immutable_memtable, for certain)"""
        """a range_scan cursor taken right after the rollover was requested, while the memtable
        thread flushes the immutable memtable: the snapshot holds memtable + immutable memtable + the
        version from before the ingest (Coq: C03_scan_with_immutable_memtable).  prog1 runs while the
        flush is (possibly) in progress, prog2 on the same cursor after the flush was ingested.  The
        result must be what a scan before the flush gives."""
        if self.dead:
            return
        if not self.mem_nonempty:
            return self.scan(lo, hi, prog1 + prog2)
        args = "%s %s" % (bound_str(lo), bound_str(hi))
        items = self.spec_items(lo, hi)
        o1, pos = self.ref_cursor_from(items, -1, prog1)
        o2, _ = self.ref_cursor_from(items, pos, prog2)
        # the model: one cursor, prog1 ++ prog2, on the store before the flush
        ms = self.model.cmd("S %s %s" % (args, prog_str(prog1 + prog2))).split(" ")[1:]
        # the model of the snapshot taken after the ingest and before `imm` is cleared (every pair of the
        # immutable memtable merged twice): outside the theorems, compared all the same
        md = self.model.cmd("D %s %s" % (args, prog_str(prog1 + prog2))).split(" ")[1:]
        self.note_scan("flushscan", lo, hi, prog1 + prog2, items)
        gmode = "gate" if gate is True else (gate or "")
        op = "flushscan %s %s %s%s" % (args, prog_str(prog1), prog_str(prog2), " " + gmode if gmode else "")
        out = self.sess.cmd(op)[0]
        self.events.append((op, out[:400]))
        t = out.split(" ")
        if t[0] != "FLUSHSCAN" or t[1] == "err" or "|" not in t:
            self.problem("scan", live=True, what="scan during a flush did not complete (panic, error or hang)", op=op, out=out[:300])
            if t[0] in ("HANG", "EOF", "PANIC"):
                self.dead = True
                return
            return self.after_flush("FLUSH ?") if t[0] == "FLUSHSCAN" else None
        target, imm = t[1], t[2]
        bar = t.index("|")
        i1, i2 = t[3:bar], t[bar + 1:]
        self.stat("flushscan_" + imm)
        self.n_scans += 1
        self.n_obs += len(o1) + len(o2)
        common = dict(op="flushscan", lo=bound_str(lo), hi=bound_str(hi), prog=prog_str(prog1) + " | " + prog_str(prog2), imm=imm)
        if gmode and imm not in ("imm=2", "imm=3"):
            self.problem("error", what="the memtable thread did not park at the gate", op=op, out=out[:200])
        mm = md if imm == "imm=2" else ms
        if i1 != o1 or i2 != o2:
            self.problem("scan", live=(mm != i1 + i2[1:]), what="range scan taken during a flush (snapshot with an immutable memtable) differs from the live keys in range",
                         impl=" ".join(i1 + ["|"] + i2), oracle=" ".join(o1 + ["|"] + o2), model=" ".join(mm), **common)
        elif mm != i1 + i2[1:]:
            self.problem("corr", live=True, what="model (run_scan_dup for imm=2, else run_scan before the flush) differs from the scan taken during the flush",
                         impl=" ".join(i1 + ["|"] + i2), model=" ".join(mm), **common)
        self.after_flush("FLUSH " + target)

    def scanw(self, lo, hi, prog1, writes, prog2):
        """a range_scan cursor, prog1, then single puts/deletes, then prog2 on the SAME cursor: the
        cursor is a snapshot at its creation (Coq: C03_scan_at_any_timestamp - the later writes have
        larger timestamps than the cursor's read timestamp), the writes must not show"""
        if self.dead:
            return
        args = "%s %s" % (bound_str(lo), bound_str(hi))
        items = self.spec_items(lo, hi)
        o1, pos = self.ref_cursor_from(items, -1, prog1)
        o2, _ = self.ref_cursor_from(items, pos, prog2)
        ms = self.model.cmd("S %s %s" % (args, prog_str(prog1 + prog2))).split(" ")[1:]
        self.note_scan("scanw", lo, hi, prog1 + prog2, items)
        op = "scanw %s %s %s %s" % (args, prog_str(prog1), ",".join("%s=%s" % (hx(k), "~" if v is None else hx(v)) for k, v in writes), prog_str(prog2))
        out = self.sess.cmd(op)[0]
        self.events.append((op, out[:400]))
        t = out.split(" ")
        if t[0] != "SCANW" or t.count("|") != 2:
            self.problem("scan", live=True, what="scan with interleaved writes did not complete (panic, error or hang)", op=op, out=out[:300])
            self.dead = True
            return
        b1 = t.index("|")
        b2 = t.index("|", b1 + 1)
        i1, wres, i2 = t[1:b1], t[b1 + 1:b2], t[b2 + 1:]
        if wres != ["k" * len(writes)]:
            self.problem("error", what="a write between cursor calls returned an error", op=op, out=out[:300])
            self.dead = True
            return
        for k, v in writes:
            self.note_write([(k, v)], op)
        self.stat("scanw")
        self.n_scans += 1
        self.n_obs += len(o1) + len(o2)
        common = dict(op="scanw", lo=bound_str(lo), hi=bound_str(hi), prog=prog_str(prog1) + " | " + prog_str(prog2))
        if i1 != o1 or i2 != o2:
            self.problem("scan", live=(ms != i1 + i2[1:]), what="range scan cursor changed by writes made after its creation (or differs from the live keys at creation)",
                         impl=" ".join(i1 + ["|"] + i2), oracle=" ".join(o1 + ["|"] + o2), model=" ".join(ms), writes=op.split(" ")[4], **common)
        elif ms != i1 + i2[1:]:
            self.problem("corr", live=True, what="model run_scan (at creation) differs from the cursor used across writes",
                         impl=" ".join(i1 + ["|"] + i2), model=" ".join(ms), **common)

    def seqcheck(self):
        if self.dead:
            return
        st = self.state()
        if self.dead:
            return
        q = self.model.cmd("Q").split(" ")[1]
        self.n_seqchecks += 1
        if str(st["seq_no"]) != q or st["seq_no"] != self.pyseq:
            self.problem("corr", live=True, what="sequence number differs from the model's / the oracle's", impl=st["seq_no"], model=q, oracle=self.pyseq)

    def finish(self):
        try:
            self.sess.close()
        except Exception:
            pass
        self.model.close()
        shutil.rmtree(self.root, ignore_errors=True)


def shrink(ops, failing, max_runs=400):
    """delta debugging on an op list: `failing(ops)` -> bool.  Returns a smaller failing list."""
    runs = [0]

    def test(c):
        runs[0] += 1
        return failing(c)

    n = 2
    while len(ops) >= 2 and runs[0] < max_runs:
        chunk = max(1, len(ops) // n)
        reduced = False
        for i in range(0, len(ops), chunk):
            cand = ops[:i] + ops[i + chunk:]
            if cand and test(cand):
                ops = cand
                n = max(n - 1, 2)
                reduced = True
                break
            if runs[0] >= max_runs:
                break
        if not reduced:
            if chunk == 1:
                break
            n = min(len(ops), n * 2)
    return ops
