"""Shared driver for the lsmtk store checks (C01, C03, C04, C05, C08): runs histories on the real
store through the `lsm` harness binary (sessions = processes; reopen = new session), mirrors every
step on the extracted Coq model (`mx_lsm`), and returns a structured record of what both did."""
import os
import select
import shutil
import subprocess

import vlib

UNIVERSE = [b"", b"a", b"a\x00", b"a\x00\x00", b"ab", b"ab\xff", b"abc", b"b", b"b\x00", b"ba", b"\xff", b"\xff\xff",
            b"k1", b"k2", b"k3", b"k4", b"k5", b"k6"]


def hx(b):
    return b.hex() if b else "-"


def unhx(s):
    return b"" if s == "-" else bytes.fromhex(s)


class File:
    def __init__(self, name, ents):
        self.name = name          # setsum hex
        self.ents = ents          # list of (key bytes, ts int, value bytes|None)

    def first(self):
        return self.ents[0][0] if self.ents else b""

    def last(self):
        return self.ents[-1][0] if self.ents else b""


class Session:
    def __init__(self, exe, root, opts):
        self.p = subprocess.Popen([exe, root] + opts, stdin=subprocess.PIPE, stdout=subprocess.PIPE,
                                  stderr=subprocess.DEVNULL, bufsize=0)
        self.buf = b""
        self.threads = []
        ln = self.readline(600)
        self.open_line = (ln or "HANG").strip()

    def readline(self, timeout):
        """one line from the store's stdout (own buffer, so that select sees what is pending);
        None on timeout, '' on EOF"""
        fd = self.p.stdout.fileno()
        while b"\n" not in self.buf:
            ready, _, _ = select.select([fd], [], [], timeout)
            if not ready:
                return None
            chunk = os.read(fd, 1 << 16)
            if not chunk:
                rest, self.buf = self.buf, b""
                return rest.decode() if rest else ""
            self.buf += chunk
        line, self.buf = self.buf.split(b"\n", 1)
        return line.decode() + "\n"

    def cmd(self, line):
        """send one op, return its output line(s): for `dump` the FILE lines + DUMP line"""
        self.p.stdin.write((line + "\n").encode())
        self.p.stdin.flush()
        outs = []
        while True:
            # a store that stops answering is an observation (HANG), not a reason to hang the check
            ln = self.readline(600)
            if ln is None:
                self.p.kill()
                outs.append("HANG")
                return outs
            if not ln:
                outs.append("EOF")
                return outs
            ln = ln.rstrip("\n")
            if ln.startswith("THREAD"):
                self.threads.append(ln)
                continue
            outs.append(ln)
            if ln.startswith("FILE "):
                continue
            return outs

    def close(self):
        try:
            self.p.stdin.close()
        except Exception:
            pass
        try:
            self.p.wait(timeout=20)
        except subprocess.TimeoutExpired:
            self.p.kill()
            self.p.wait()


def parse_dump(lines, cache):
    """FILE.. DUMP lines -> list of levels (16 lists of file names) ; fills cache name->File, meta"""
    levels = [[] for _ in range(16)]
    meta = {}
    for ln in lines:
        if ln.startswith("FILE "):
            t = ln.split(" ")
            name = t[1]
            ents = []
            bad = None
            for e in t[2:]:
                if e == "ERR" or e.startswith("OPENERR"):
                    bad = e
                    continue
                k, ts, v = e.split(":")
                ents.append((unhx(k), int(ts), None if v == "~" else unhx(v)))
            f = File(name, ents)
            f.bad = bad
            cache[name] = f
        elif ln.startswith("DUMP"):
            for it in ln.split(" ")[1:]:
                lvl, name, fk, lk, sts, bts, size = it.split(":")
                levels[int(lvl)].append(name)
                meta[name] = {"first": unhx(fk), "last": unhx(lk), "sts": int(sts), "bts": int(bts), "size": int(size)}
    return levels, meta


def ent_str(e):
    return "%s.%d.%s" % (hx(e[0]), e[1], "~" if e[2] is None else hx(e[2]))


def file_str(fid, size, f):
    return "%d:%d:%s" % (fid, size, ",".join(ent_str(e) for e in f.ents))


class Model:
    """the extracted Coq model as a co-process"""

    def __init__(self, exe):
        self.p = subprocess.Popen([exe], stdin=subprocess.PIPE, stdout=subprocess.PIPE, stderr=subprocess.PIPE)

    def cmd(self, line):
        self.p.stdin.write((line + "\n").encode())
        self.p.stdin.flush()
        out = self.p.stdout.readline().decode()
        if not out:
            err = self.p.stderr.read().decode()
            raise RuntimeError("model driver died on %r: %s" % (line[:200], err[-500:]))
        return out.rstrip("\n")

    def close(self):
        try:
            self.p.stdin.close()
            self.p.wait(timeout=10)
        except Exception:
            self.p.kill()


def lower_bound(level_files, cache, key):
    n = 0
    for name in level_files:
        if cache[name].last() < key:
            n += 1
        else:
            break
    return n


def upper_bound(level_files, cache, key):
    n = 0
    for name in level_files:
        if cache[name].first() <= key:
            n += 1
        else:
            break
    return n


def fresh_root(tag):
    base = "/dev/shm" if os.path.isdir("/dev/shm") else os.path.join(vlib.WORK, "stores")
    root = os.path.join(base, "blue_verif_%s_%d" % (tag, os.getpid()))
    shutil.rmtree(root, ignore_errors=True)
    return root


class Run:
    """One history executed on implementation and model in lock step."""

    def __init__(self, lsm_exe, mx_exe, opts, tag, universe=None, tree=False):
        """tree=True: lsm_exe is the `lsmtree` binary (a bare LsmTree fed by external ingests)"""
        self.tree = tree
        self.max_ts = 0
        self.lsm_exe, self.mx_exe, self.opts = lsm_exe, mx_exe, opts
        self.root = fresh_root(tag)
        self.cache = {}          # setsum -> File
        self.ids = {}            # setsum -> int id
        self.meta = {}
        self.levels = [[] for _ in range(16)]   # impl view (names)
        self.spec = {}           # key -> value|None   (python reference map)
        self.universe = universe or UNIVERSE
        self.events = []         # log of what happened (for replay files)
        self.problems = []       # list of dicts: kind in {read, corr, invalid, reopen, error}
        self.known_events = []   # K1/K2/K3/F7 occurrences
        self.mem_nonempty = False
        self.sess = None
        self.model = Model(mx_exe)
        self.n_reads = 0
        self.n_steps = {"write": 0, "flush": 0, "compact": 0, "move": 0, "reopen": 0, "gc": 0, "none": 0,
                        "select": 0, "select-none": 0, "deferred": 0}
        self.pending = {}        # index -> description of a compaction selected and not yet performed
        self.open_session(first=True)

    # -- helpers
    def fid(self, name):
        if name not in self.ids:
            self.ids[name] = len(self.ids) + 1
        return self.ids[name]

    def problem(self, kind, **kw):
        d = {"kind": kind, "at_event": len(self.events)}
        d.update(kw)
        self.problems.append(d)

    def dump(self):
        out = self.sess.cmd("dump")
        if out[-1] in ("HANG", "EOF"):
            self.problem("error", what="store stopped answering during dump: " + out[-1])
            self.dead = True
            return self.levels
        levels, meta = parse_dump(out, self.cache)
        self.meta.update(meta)
        return levels

    def state(self):
        t = self.sess.cmd("state")[0].split()
        if t[0] in ("HANG", "EOF"):
            self.problem("error", what="store stopped answering: " + t[0])
            self.dead = True
            return {"seq_no": 0}
        return {"seq_no": int(t[1]), "mem_seq_no": int(t[2]), "imm_trigger": int(t[3]), "has_imm": t[4] == "1", "mem_size": int(t[5]),
                "stall": t[6], "mandatory": t[7], "ongoing": t[8]}

    def levels_str(self, levels):
        return "/".join(";".join(file_str(self.fid(n), self.meta[n]["size"], self.cache[n]) for n in lv) for lv in levels)

    def check_meta(self, names):
        """the dumped metadata must describe the file's entries (C10's business; here a sanity check)"""
        for n in names:
            f, m = self.cache[n], self.meta[n]
            if getattr(f, "bad", None) or not f.ents:
                self.problem("corr", what="file unreadable or empty", file=n)
                continue
            if f.first() != m["first"] or f.last() != m["last"] or min(e[1] for e in f.ents) != m["sts"] or max(e[1] for e in f.ents) != m["bts"]:
                self.problem("corr", what="metadata does not describe contents", file=n, meta=str(m))

    def compare_version(self, levels, where):
        v = self.model.cmd("V")
        ids = v.split(" ")[1].split("/")
        mine = [",".join(str(self.fid(n)) for n in lv) for lv in levels]
        if ids != mine:
            self.problem("corr", what="tree shape differs from model after " + where, impl=mine, model=ids)
        return v.split(" ")[2:]

    # -- sessions
    def open_session(self, first=False):
        self.sess = Session(self.lsm_exe, self.root, self.opts)
        self.events.append(("open", self.sess.open_line))
        if self.sess.open_line != "OPEN ok":
            self.problem("error", what="open failed", line=self.sess.open_line)
            self.dead = True
            return
        self.dead = False
        st = {"seq_no": self.max_ts} if self.tree else self.state()
        levels = self.dump()
        if first:
            # seq_no after open = (first write's timestamp) - 1
            self.model.cmd("H %d" % st["seq_no"])
        else:
            old = set(n for lv in self.levels for n in lv)
            new = [n for lv in levels for n in lv if n not in old]
            self.check_meta(new)
            if self.mem_nonempty:
                if len(new) != 1:
                    self.problem("corr", what="reopen: expected exactly one replayed-log file", new=new)
                fid, sz = (self.fid(new[0]), self.meta[new[0]]["size"]) if new else (0, 0)
            else:
                if new:
                    self.problem("corr", what="reopen: unexpected new files", new=new)
                fid, sz = 0, 0
            r = self.model.cmd("R %d %d %d | %s" % (fid, sz, st["seq_no"], self.levels_str(levels)))
            bits = r.split(" ")[1:]
            self.n_steps["reopen"] += 1
            self.events.append(("reopen", r))
            if bits[0] != "1" or bits[1] != "1":
                self.problem("corr", what="reopen: entries differ from before (sub1 sub2)", bits=bits)
            elif bits[2] != "1" or bits[3] != "1":
                self.known_or_problem_reopen(levels, bits)
            self.mem_nonempty = False
        self.levels = levels

    def known_or_problem_reopen(self, levels, bits):
        # K2: recover cannot rebuild a safe order when two files overlap in key range and in timestamp range
        names = [n for lv in levels for n in lv]
        k2 = False
        for i in range(len(names)):
            for j in range(i + 1, len(names)):
                a, b = self.meta[names[i]], self.meta[names[j]]
                if a["first"] <= b["last"] and b["first"] <= a["last"] and not (a["bts"] < b["sts"] or b["bts"] < a["sts"]):
                    k2 = True
        if k2:
            # 4th field: was the recovered tree at least well-formed?  (if it is not, binary searches inside a level and
            # the selector's asserts are undefined from here on; if it is, the store must keep behaving as the MODEL
            # run on that recovered arrangement does - only the order of versions is wrong)
            self.known_events.append(("K2", "reopen of a tree holding files that overlap in key range and timestamp range: recovered levels wf=%s ordered=%s" % (bits[2], bits[3]), len(self.events), bits[2] == "1"))
        else:
            self.problem("invalid", what="reopen produced a tree that is not well-formed/ordered and no K2 pair exists", bits=bits)

    def reopen(self):
        self.sess.close()
        self.pending = {}        # selections die with the process; nothing of them was applied
        self.open_session()

    # -- ops
    def write(self, batch):
        """batch: list of (key, value|None); a key named twice keeps its last write (the store dedupes;
        Model.write transcribes that loop: `dedup_last`)"""
        if self.dead:
            return
        raw = batch          # the model sees the batch as submitted: Model.write keeps the last write to each key, as the store does
        if len(raw) == 1:
            k, v = raw[0]
            line = ("put %s %s" % (hx(k), hx(v))) if v is not None else ("del %s" % hx(k))
        else:
            line = "batch " + ",".join("%s=%s" % (hx(k), "~" if v is None else hx(v)) for k, v in raw)
        out = self.sess.cmd(line)[0]
        self.events.append((line, out))
        if not out.endswith(" ok"):
            self.problem("error", what="write returned an error or panicked", op=line, out=out)
            return
        m = self.model.cmd("W " + ",".join("%s=%s" % (hx(k), "~" if v is None else hx(v)) for k, v in raw))
        if m != "W 1":
            self.problem("corr", what="model rejected batch", op=line)
        for k, v in raw:     # python reference map: later entries of a batch overwrite earlier ones
            self.spec[k] = v
        self.mem_nonempty = True
        self.n_steps["write"] += 1

    def ingest(self, entries):
        """tree mode: entries = list of (key, ts, value|None), all newer than everything stored"""
        if self.dead:
            return
        line = "ingest " + ",".join("%s.%d.%s" % (hx(k), ts, "~" if v is None else hx(v)) for k, ts, v in entries)
        out = self.sess.cmd(line)[0]
        self.events.append((line[:200], out))
        if out != "INGEST ok":
            self.problem("error", what="ingest returned an error or panicked", op=line[:200], out=out)
            return
        levels = self.dump()
        old = set(n for lv in self.levels for n in lv)
        new = [n for n in levels[0] if n not in old]
        if len(new) != 1 or levels[0][-1:] != new or levels[1:] != self.levels[1:] or levels[0][:-1] != self.levels[0]:
            self.problem("corr", what="ingest: expected exactly one new file appended to L0", new=new)
            self.levels = levels
            return
        self.check_meta(new)
        f = self.cache[new[0]]
        want = sorted(entries, key=lambda e: (e[0], -e[1]))
        if [(e[0], e[1], e[2]) for e in f.ents] != want:
            self.problem("corr", what="ingest: the file in the tree does not hold the ingested entries")
        m = self.model.cmd("I " + file_str(self.fid(new[0]), self.meta[new[0]]["size"], f))
        if m != "I 1":
            self.problem("corr", what="model does not accept the ingest", out=m)
        # latest write per key = the newest version in the file
        for k, ts, v in sorted(entries, key=lambda e: (e[0], e[1])):
            self.spec[k] = v
        self.max_ts = max([self.max_ts] + [e[1] for e in entries])
        self.levels = levels
        self.n_steps["ingest"] = self.n_steps.get("ingest", 0) + 1
        self.compare_version(levels, "ingest")

    def reads(self, keys=None):
        if self.dead:
            return
        keys = keys or self.universe
        out = self.sess.cmd("getall " + ",".join(hx(k) for k in keys))[0].split(" ")
        if out[0] != "GET":
            self.problem("error", what="reads did not complete", out=out[:3])
            self.dead = True
            return
        out = out[1:]
        mo = self.model.cmd("G " + ",".join(hx(k) for k in keys)).split(" ")[1:]
        self.n_reads += len(keys)
        for k, io, m in zip(keys, out, mo):
            want = self.spec.get(k)
            ws = "." if want is None else hx(want)
            ic = "." if io == "~" else io
            if ic != ws:
                self.problem("read", key=hx(k), impl=io, spec=ws, model=m)
            elif m != ws:
                self.problem("corr", what="model read differs from spec and implementation", key=hx(k), impl=io, model=m)

    def flush(self):
        if self.dead or not self.mem_nonempty:
            return
        out = self.sess.cmd("flush")[0]
        self.events.append(("flush", out))
        if not out.startswith("FLUSH"):
            self.problem("error", what="flush did not complete", out=out, threads=self.sess.threads)
            self.dead = True
            return
        levels = self.dump()
        old = set(n for lv in self.levels for n in lv)
        new = [n for n in levels[0] if n not in old]
        if len(new) != 1 or levels[0][-1:] != new or levels[1:] != self.levels[1:] or levels[0][:-1] != self.levels[0]:
            self.problem("corr", what="flush: expected exactly one new file appended to L0", new=new)
            self.levels = levels
            return
        self.check_meta(new)
        f = self.cache[new[0]]
        m = self.model.cmd("F %d %d" % (self.fid(new[0]), self.meta[new[0]]["size"]))
        want = ",".join(ent_str(e) for e in f.ents)
        if m[2:] != want:
            self.problem("corr", what="flush: file contents differ from the model's memtable", impl=want[:300], model=m[2:][:300])
        self.levels = levels
        self.mem_nonempty = False
        self.n_steps["flush"] += 1
        self.compare_version(levels, "flush")

    def compact(self):
        """one compaction step; returns False when the selector found nothing"""
        if self.dead:
            return False
        out = self.sess.cmd("compact")[0]
        self.events.append(("compact", out))
        t = out.split(" ")
        if t[0] != "COMPACT":
            self.problem("error", what="compaction step did not complete", out=out)
            self.dead = True
            return False
        if t[1] == "none":
            self.n_steps["none"] += 1
            return False
        if t[1] == "err" or t[0] == "PANIC":
            self.problem("error", what="compaction returned an error or panicked", out=out)
            return False
        return self.applied(t[1:], out)

    def select(self):
        """first half of a compaction step (as a compaction thread does it): the selector's choice
        stays in the ongoing list; returns its index or None"""
        if self.dead:
            return None
        out = self.sess.cmd("select")[0]
        self.events.append(("select", out))
        t = out.split(" ")
        if t[0] != "SELECT" or t[1] == "err":
            self.problem("error", what="selection did not complete", out=out)
            self.dead = True
            return None
        if t[1] == "none":
            self.n_steps["select-none"] += 1
            return None
        self.pending[int(t[1])] = t[2:]
        self.n_steps["select"] += 1
        # the model's CSelect: admissible on the current version AND not overlapping any ongoing one
        lo, up, fk, lk, inputs = int(t[2]), int(t[3]), unhx(t[4]), unhx(t[5]), t[7].split(",")
        for n in inputs:
            if n not in self.cache:
                self.dump()              # a file we have not read yet (cannot happen: every step dumps)
        m = self.model.cmd("S %d %d %s %s %s" % (lo, up, hx(fk), hx(lk), ",".join(str(self.fid(n)) for n in inputs))).split(" ")
        if m[1] != "1":
            self.problem("invalid", what="the selector chose a compaction that is not admissible on the current version (at selection time)", c=out)
        if m[2] != "1":
            self.problem("invalid", what="the selector chose a compaction that overlaps an ongoing one (level range and key range): conflict exclusion failed",
                         c=out, ongoing=[" ".join(v[:4]) for k, v in sorted(self.pending.items()) if k != int(t[1])])
        return int(t[1])

    def perform(self, idx):
        """second half: the compaction selected earlier is performed NOW, on the tree as it is now
        (other selections, performs, flushes and ingests happened in between); the model judges it
        at this point, on its current version"""
        if self.dead or idx not in self.pending:
            return False
        pos = sorted(self.pending).index(idx)     # its position in the model's pending list (selection order, removals keep order)
        desc = self.pending.pop(idx)
        out = self.sess.cmd("perform %d" % idx)[0]
        self.events.append(("perform", out + " | " + " ".join(desc[:2])))
        if out != "PERFORM ok":
            self.problem("error", what="a selected compaction returned an error or panicked when performed later", out=out, selected=" ".join(desc)[:200])
            self.model.cmd("X %d" % pos)
            if not out.startswith("PERFORM"):
                self.dead = True
            return False
        self.n_steps["deferred"] += 1
        return self.applied(desc, out, pos=pos)

    def applied(self, t, out, pos=None):
        """pos: None = selected and applied at once (model command C); else the position of this
        compaction in the model's list of ongoing compactions (model command A: applied NOW)"""
        lo, up, fk, lk, size, inputs = int(t[0]), int(t[1]), unhx(t[2]), unhx(t[3]), int(t[4]), t[5].split(",")
        levels = self.dump()
        old_up = self.levels[up]
        lb = lower_bound(old_up, self.cache, fk)
        ub = upper_bound(old_up, self.cache, lk)
        new_up = levels[up]
        n_out = len(new_up) - (len(old_up) - (ub - lb)) if lb <= ub else 0
        outs = new_up[lb:lb + max(0, n_out)]
        self.check_meta(outs)
        outs_s = ";".join(file_str(self.fid(n), self.meta[n]["size"], self.cache[n]) for n in outs)
        if pos is None:
            m = self.model.cmd("C %d %d %s %s %s | %s" % (lo, up, hx(fk), hx(lk), ",".join(str(self.fid(n)) for n in inputs), outs_s))
        else:
            m = self.model.cmd("A %d | %s" % (pos, outs_s))
        bits = m.split(" ")[1:]
        is_gc = bits[5] == "1"          # the model classified the step as a garbage collection
        kind = "move" if len(inputs) == 1 else ("gc" if is_gc else "compact")
        self.n_steps[kind] += 1
        self.last_compaction = {"lo": lo, "up": up, "inputs": inputs, "outs": outs, "bits": bits, "kind": kind}
        if bits[0] != "1":
            self.classify_invalid(lo, up, inputs, kind, bits[3])
        if is_gc:
            if bits[4] != "1":
                self.problem("invalid", what="garbage collection dropped something the admissible set does not allow (not a subsequence of the merge, or a key's newest version dropped while older ones stay)", inputs=inputs, outs=outs)
        elif bits[1] != "1":
            self.problem("corr", what="compaction outputs are not the sorted merge of the inputs", inputs=inputs, outs=outs)
        if bits[2] != "1":
            self.problem("invalid", what="levels not well-formed after compaction", c=out)
        elif bits[0] == "1" and bits[6] != "1" and (is_gc and bits[4] == "1" or (not is_gc) and bits[1] == "1"):
            self.problem("corr", what="step not accepted by the model although its parts are", bits=bits)
        # the concurrent model's verdict (ModelConcurrent.cacceptedb): for an atomic step, also no overlap with
        # the ongoing compactions and no id clash with their inputs; for a deferred apply, outputs judged
        # against the entries read at selection time, which must be what the current version holds
        if len(bits) > 7 and bits[7] != "1" and bits[0] == "1" and bits[6] == "1":
            self.problem("invalid", what="step accepted on its own but not beside the ongoing compactions (overlaps one of them, or adds a file carrying the id of one of their inputs)" if pos is None
                         else "deferred apply not accepted by the concurrent model although admissible on the current version", bits=bits, c=out)
        if pos is not None and len(bits) > 8 and bits[8] != "1":
            self.problem("invalid", what="the entries under the input ids changed between selection and apply", c=out)
        self.levels = levels
        self.compare_version(levels, "compaction")
        return True

    def classify_invalid(self, lo, up, inputs, kind, parts):
        # parts = shape slice rest range closed ids ; the known classes fail ONLY the closure conjunct
        if parts != "111101":
            self.problem("invalid", what="compaction outside the admissible set (conjuncts shape,slice,rest,range,closed,ids = %s)" % parts,
                         lo=lo, up=up, inputs=inputs)
        elif kind == "move":
            self.known_events.append(("K3", "trivial move of a file whose level sibling shares its boundary key / overlaps it (L%d->L%d, %s)" % (lo, up, inputs[0][:8]), len(self.events)))
        else:
            self.known_events.append(("K1", "merging compaction L%d->L%d whose inputs are not overlap-closed (expand_compaction adds wholly-contained files of shallower levels)" % (lo, up), len(self.events)))

    def finish(self):
        try:
            self.sess.close()
        except Exception:
            pass
        self.model.close()
        shutil.rmtree(self.root, ignore_errors=True)


def shrink(ops, failing, max_runs=400):
    """delta debugging on an op list: `failing(ops)` -> bool.  Returns a smaller failing list."""
    runs = [0]

    def test(c):
        runs[0] += 1
        return failing(c)

    n = 2
    while len(ops) >= 2 and runs[0] < max_runs:
        chunk = max(1, len(ops) // n)
        reduced = False
        for i in range(0, len(ops), chunk):
            cand = ops[:i] + ops[i + chunk:]
            if cand and test(cand):
                ops = cand
                n = max(n - 1, 2)
                reduced = True
                break
            if runs[0] >= max_runs:
                break
        if not reduced:
            if chunk == 1:
                break
            n = min(len(ops), n * 2)
    return ops
