(* Conc/ProofsRead.v — what a snapshot reads: at the instant a reader takes its snapshot, a point
   read of any key through (memtable, immutable memtable, tree version) at the timestamp
   visible_seq_no returns exactly what the committed batches say; and nothing that happens later
   changes what the reader's captured components return at that timestamp. *)
From Coq Require Import NArith List Bool Arith PArith FMapPositive Lia Permutation.
From Blue Require Import Lsm.Model Lsm.KeyOrder Lsm.LoadProofs Lsm.Ordered Lsm.SortLemmas Lsm.CompactProofs Lsm.History.
From Blue Require Import Conc.KvsConc Conc.Spec Conc.ProofsBase Conc.ProofsSkel Conc.ProofsData.
Import ListNotations.
Open Scope N_scope.

Arguments N.leb : simpl never.
Arguments N.ltb : simpl never.
Arguments N.eqb : simpl never.
Arguments N.add : simpl never.
Arguments N.max : simpl never.

(* r is the newest version of k not newer than t among the entries satisfying P *)
Definition newest (P : entry -> Prop) (k : key) (t : N) (r : option entry) : Prop :=
  match r with
  | Some e => P e /\ ek e = k /\ ets e <= t /\ (forall e', P e' -> ek e' = k -> ets e' <= t -> ets e' <= ets e)
  | None => forall e', P e' -> ek e' = k -> t < ets e'
  end.

Lemma newest_ext (P Q : entry -> Prop) k t r :
  (forall e, ek e = k -> ets e <= t -> (P e <-> Q e)) -> newest P k t r -> newest Q k t r.
Proof.
  intros H. destruct r as [e|]; cbn.
  - intros (H1 & H2 & H3 & H4). split; [now apply H|]. split; [exact H2|]. split; [exact H3|].
    intros e' Q' K' T'. apply H4; auto. now apply H.
  - intros Hn e' Q' K'. destruct (N.lt_ge_cases t (ets e')) as [|Hle]; [assumption|].
    apply Hn; auto. apply H; auto.
Qed.

(* a memtable (sorted, per key strictly descending) *)
Lemma mt_load_newest es k t : ssorted es -> desc_ts (kfilter k es) ->
  newest (fun e => In e es) k t (mt_load es k t).
Proof.
  intros Hs Hd. rewrite (mt_load_sorted es k t Hs), ents_load_view.
  pose proof (find_desc_newest (kfilter k es) t Hd) as H.
  destruct (find _ (kfilter k es)) as [e|]; cbn.
  - destruct H as (Hin & Hle & Hmax). apply in_kfilter in Hin. destruct Hin as [Hin Hk].
    repeat split; auto. intros e' He' Hk' Hle'. apply Hmax; auto. apply in_kfilter. tauto.
  - intros e' He' Hk'. apply H. apply in_kfilter. tauto.
Qed.

Lemma load_version_newest v k t : wf_version v -> Ordered (mkS [] v 0) ->
  newest (fun e => In e (file_entries v)) k t (load_version v k t).
Proof.
  intros Hw Ho. pose proof (load_newest (mkS [] v 0) k t Hw Ho) as H.
  unfold load in H. cbn [mem ver ents_load find] in H.
  destruct (load_version v k t) as [e|]; cbn; exact H.
Qed.

(* ------------------------------------------------------------------ the committed database *)
Definition in_db (d : db) (e : entry) : Prop := exists b, In (ets e, b) d /\ In (ek e, ev e) b.

Definition db_entry (d : db) (k : key) : option entry :=
  match db_get d k with Some (s, v) => Some (mkE k s v) | None => None end.

Lemma batch_get_in (b : batch) k v : batch_get b k = Some v -> In (k, v) b.
Proof.
  unfold batch_get. destruct (find _ b) as [kv|] eqn:E; [|discriminate].
  intros H. inversion H; subst. apply find_some in E. destruct E as [Hin Hk].
  apply key_eqb_eq in Hk. subst. now destruct kv.
Qed.

Lemma batch_get_none (b : batch) k : batch_get b k = None -> forall v, ~ In (k, v) b.
Proof.
  unfold batch_get. destruct (find _ b) as [kv|] eqn:E; [discriminate|].
  intros _ v Hin. pose proof (find_none _ _ E (k, v) Hin) as H. cbn in H. rewrite key_eqb_refl in H. discriminate.
Qed.

Lemma nodup_batch_unique (b : batch) k v v' : nodup_keysb (map fst b) = true -> In (k, v) b -> In (k, v') b -> v = v'.
Proof.
  intros Hnd H1 H2. apply In_nth_error in H1, H2. destruct H1 as (i & Hi), H2 as (j & Hj).
  assert (i = j) by (eapply (nodup_keys_nth b i j); eauto). subst. congruence.
Qed.

Lemma db_asc_in d s b s' b' : db_asc ((s, b) :: d) -> In (s', b') d -> s < s'.
Proof. cbn. intros [H _]. apply H. Qed.

Lemma db_get_newest d k t :
  db_asc d -> (forall s b, In (s, b) d -> s <= t /\ nodup_keysb (map fst b) = true) ->
  newest (in_db d) k t (db_entry d k).
Proof.
  unfold db_entry. induction d as [|[s b] d IH]; intros Ha Hv; cbn [db_get].
  - cbn. intros e' (b' & [] & _).
  - assert (Ha' : db_asc d) by (cbn in Ha; tauto).
    assert (Hv' : forall s b, In (s, b) d -> s <= t /\ nodup_keysb (map fst b) = true) by (intros; apply Hv; now right).
    specialize (IH Ha' Hv').
    destruct (db_get d k) as [[s1 v1]|] eqn:E.
    + (* a later batch names the key *)
      cbn in *. destruct IH as ((b1 & Hb1 & Hkv1) & _ & Hle & Hmax).
      split; [exists b1; split; [now right|exact Hkv1]|]. split; [reflexivity|]. split; [exact Hle|].
      intros e' (b' & [Eb|Hb'] & Hkv') Hk' Hle'.
      * inversion Eb; subst. pose proof (db_asc_in d (ets e') b' s1 b1 Ha Hb1). lia.
      * apply Hmax; auto. exists b'. auto.
    + destruct (batch_get b k) as [v|] eqn:Eb.
      * cbn. split; [exists b; split; [now left|now apply batch_get_in]|]. split; [reflexivity|].
        split; [apply (Hv s b); now left|].
        intros e' (b' & [Eb'|Hb'] & Hkv') Hk' Hle'.
        -- inversion Eb'; subst. lia.
        -- exfalso. cbn in IH. specialize (IH e' (ex_intro _ b' (conj Hb' Hkv')) Hk').
           pose proof (Hv' _ _ Hb') as [H _]. lia.
      * cbn. intros e' (b' & [Eb'|Hb'] & Hkv') Hk'.
        -- inversion Eb'; subst. exfalso. eapply batch_get_none; eauto.
        -- cbn in IH. apply IH; auto. exists b'. auto.
Qed.

(* two newest elements of the committed database are the same entry *)
Lemma in_db_unique d e e' : db_asc d -> (forall s b, In (s, b) d -> nodup_keysb (map fst b) = true) ->
  in_db d e -> in_db d e' -> ek e = ek e' -> ets e = ets e' -> e = e'.
Proof.
  intros Ha Hnd (b & Hb & Hkv) (b' & Hb' & Hkv') Hk Hs.
  assert (b = b').
  { rewrite <- Hs in Hb'. clear -Ha Hb Hb'. induction d as [|[s0 b0] d IH]; [destruct Hb|].
    cbn in Ha. destruct Ha as [H0 Ha]. destruct Hb as [E|Hb], Hb' as [E'|Hb'].
    - congruence.
    - inversion E; subst. specialize (H0 _ _ Hb'). lia.
    - inversion E'; subst. specialize (H0 _ _ Hb). lia.
    - now apply IH. }
  subst b'. rewrite <- Hk in Hkv'.
  assert (ev e = ev e') by (eapply nodup_batch_unique; eauto).
  destruct e, e'; cbn in *; congruence.
Qed.

Lemma newest_unique (P : entry -> Prop) k t r r' :
  (forall e e', P e -> P e' -> ek e = ek e' -> ets e = ets e' -> e = e') ->
  newest P k t r -> newest P k t r' -> r = r'.
Proof.
  intros Hu. destruct r as [e|], r' as [e'|]; cbn.
  - intros (H1 & H2 & H3 & H4) (G1 & G2 & G3 & G4). f_equal. apply Hu; auto; [congruence|].
    specialize (H4 e' G1 G2 G3). specialize (G4 e H1 H2 H3). lia.
  - intros (H1 & H2 & H3 & _) G. specialize (G e H1 H2). lia.
  - intros G (H1 & H2 & H3 & _). specialize (G e' H1 H2). lia.
  - reflexivity.
Qed.

(* ------------------------------------------------------------------ the snapshot instant *)
Definition in_comps (st : state) (e : entry) : Prop :=
  In e (ents st (k_cur st)) \/ (exists g, k_imm st = Some g /\ In e (ents st g)) \/ In e (file_entries (k_tree st)).

Definition cur_imm_ents (st : state) : option (list entry) :=
  match k_imm st with Some g => Some (ents st g) | None => None end.

Lemma read_point_newest st d k t : Skel st -> Data st d ->
  newest (in_comps st) k t (read_point (ents st (k_cur st)) (cur_imm_ents st) (k_tree st) k t).
Proof.
  intros Hsk Hd. unfold read_point.
  pose proof (mt_load_newest (ents st (k_cur st)) k t (d_sorted st d Hd _) (mt_desc st d _ k Hd)) as Hm.
  pose proof (load_version_newest (k_tree st) k t (d_tree_wf st d Hd) (d_tree_ord st d Hd)) as Ht.
  pose proof (d_imm st d Hd) as Himm.
  (* entries outside the memtable are not newer than mem_seq_no *)
  assert (Hrest : forall e', (exists g, k_imm st = Some g /\ In e' (ents st g)) \/ In e' (file_entries (k_tree st)) ->
                             ets e' <= k_memseq st).
  { intros e' [(g & Hg & He')|He'].
    - rewrite Himm in Hg. destruct (f_gen (k_fl st)) as [[trig g0]|] eqn:G; [|discriminate]. inversion Hg; subst.
      now apply (d_imm_rng st d Hd trig g e' G).
    - pose proof (d_tree_hi st d Hd e' He') as H. destruct (f_gen (k_fl st)) as [[trig g0]|] eqn:G; [|exact H].
      pose proof (d_imm_lt st d Hd trig g0 G) as [_ Hlt].
      destruct H as [H|[_ H]]; [lia|]. now apply (d_imm_rng st d Hd trig g0 e' G). }
  destruct (mt_load (ents st (k_cur st)) k t) as [e|]; cbn in Hm.
  - (* hit in the memtable *)
    destruct Hm as (H1 & H2 & H3 & H4). cbn. split; [now left|]. split; [exact H2|]. split; [exact H3|].
    intros e' [He'|He'] Hk' Hle'; [now apply H4|].
    pose proof (Hrest e' He'). pose proof (d_cur_lo st d Hd e H1). lia.
  - unfold cur_imm_ents, in_comps. clear Hrest. rewrite Himm. destruct (f_gen (k_fl st)) as [[trig g]|] eqn:G.
    + pose proof (mt_load_newest (ents st g) k t (d_sorted st d Hd _) (mt_desc st d _ k Hd)) as Hi.
      destruct (mt_load (ents st g) k t) as [e|]; cbn in Hi.
      * destruct Hi as (H1 & H2 & H3 & H4). cbn. split; [right; left; eauto|]. split; [exact H2|]. split; [exact H3|].
        intros e' [He'|[(g' & Hg' & He')|He']] Hk' Hle'.
        -- specialize (Hm e' He' Hk'). lia.
        -- inversion Hg'; subst g'. now apply H4.
        -- pose proof (d_tree_hi st d Hd e' He') as H. rewrite G in H. destruct H as [H|[_ H]]; [|now apply H4].
           pose proof (d_imm_rng st d Hd trig g e G H1). lia.
      * destruct (load_version (k_tree st) k t) as [e|]; cbn in Ht |- *.
        -- destruct Ht as (H1 & H2 & H3 & H4). split; [right; now right|]. split; [exact H2|]. split; [exact H3|].
           intros e' [He'|[(g' & Hg' & He')|He']] Hk' Hle'.
           ++ specialize (Hm e' He' Hk'). lia.
           ++ inversion Hg'; subst g'. specialize (Hi e' He' Hk'). lia.
           ++ now apply H4.
        -- intros e' [He'|[(g' & Hg' & He')|He']] Hk'.
           ++ now apply Hm.
           ++ inversion Hg'; subst g'. now apply Hi.
           ++ now apply Ht.
    + destruct (load_version (k_tree st) k t) as [e|]; cbn in Ht |- *.
      * destruct Ht as (H1 & H2 & H3 & H4). split; [right; now right|]. split; [exact H2|]. split; [exact H3|].
        intros e' [He'|[(g' & Hg' & He')|He']] Hk' Hle'.
        -- specialize (Hm e' He' Hk'). lia.
        -- discriminate.
        -- now apply H4.
      * intros e' [He'|[(g' & Hg' & He')|He']] Hk'; [now apply Hm|discriminate|now apply Ht].
Qed.

(* at timestamp visible_seq_no the components hold exactly the committed entries *)
Lemma comps_are_db st d e : Skel st -> Data st d -> ets e <= k_vis st -> (in_comps st e <-> in_db d e).
Proof.
  intros Hsk Hd Hle. split.
  - assert (Hmt : forall g, In e (ents st g) -> in_db d e).
    { intros g He. destruct (d_ents st d Hd g e He) as [H|(t & b & n & j & Hw & _)]; [exact H|exfalso].
      pose proof (sk_seq_hi st Hsk t _ (w_data_seq _ _ _ _ _ Hw)). lia. }
    intros [He|[(g & _ & He)|He]]; [now apply (Hmt (k_cur st))|now apply (Hmt g)|now apply (d_tree_db st d Hd)].
  - intros (b & Hb & Hkv). pose proof (d_present st d Hd (ets e) b (ek e, ev e) Hb Hkv) as H.
    cbn [fst snd] in H. destruct e. exact H.
Qed.

Theorem snapshot_correct st d k : Skel st -> Data st d ->
  read_point (ents st (k_cur st)) (cur_imm_ents st) (k_tree st) k (k_vis st) = db_entry d k.
Proof.
  intros Hsk Hd.
  pose proof (read_point_newest st d k (k_vis st) Hsk Hd) as H1.
  pose proof (db_get_newest d k (k_vis st) (d_db_asc st d Hd) (d_db_vis st d Hd)) as H2.
  apply (newest_ext _ (in_db d)) in H1; [|intros e _ Hle; now apply comps_are_db].
  eapply newest_unique; eauto.
  intros e e'. apply in_db_unique; [apply (d_db_asc st d Hd)|]. intros s b Hb. apply (d_db_vis st d Hd s b Hb).
Qed.
