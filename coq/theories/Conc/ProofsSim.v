(* Conc/ProofsSim.v — forward simulation: every step of the implementation machine KvsConc.step is a
   step of the atomic specification machine Spec.sstep on the same label. *)
From Coq Require Import NArith List Bool Arith PArith FMapPositive Lia Permutation.
From Blue Require Import Lsm.Model Lsm.KeyOrder Lsm.LoadProofs Lsm.Ordered Lsm.SortLemmas Lsm.CompactProofs Lsm.History.
From Blue Require Import Conc.KvsConc Conc.Spec Conc.ProofsBase Conc.ProofsSkel Conc.ProofsData Conc.ProofsRead.
Import ListNotations.
Open Scope N_scope.

Arguments N.leb : simpl never.
Arguments N.ltb : simpl never.
Arguments N.eqb : simpl never.
Arguments N.add : simpl never.
Arguments N.max : simpl never.

(* ------------------------------------------------------------------ what a reader holds *)
Definition rd (st : state) (sn : snap) (k : key) : option entry :=
  read_point (ents st (sn_mem sn)) (imm_ents st sn) (sn_ver sn) k (sn_ts sn).
Definition rd_imm (st : state) (sn : snap) (k : key) : option entry :=
  match imm_ents st sn with Some i => mt_load i k (sn_ts sn) | None => None end.

Definition RdOk (st : state) (sn : snap) (view : db) : Prop :=
  sn_ts sn <= k_vis st /\ forall k, rd st sn k = db_entry view k.

Definition trel (st : state) (sp : sstate) (t : tid) : Prop :=
  match getpc st t with
  | Idle => sget sp t = SIdle
  | WInvoked b | WLocked b | WLinked b _ | WAssigned b _ _ | WPicked b _ _ _ | WAppending b _ _ _
  | WInserting b _ _ _ _ | WDropped b _ _ _ | WLocked2 b _ _ _ | WParked b _ _ _ | WHead b _ _ _
  | WFailed b _ _ | WFailedL b _ _ | WFailedU b _ =>
      sget sp t = SWPending b
  | WPublished _ _ _ | WUnlinked _ _ => sget sp t = SWDone
  | RInvoked q => sget sp t = SRPending q
  | RGetMem k sn => exists view, sget sp t = SRView (QGet k) view None /\ RdOk st sn view
  | RGetImm k sn => exists view, sget sp t = SRView (QGet k) view None /\ RdOk st sn view /\
                                 mt_load (ents st (sn_mem sn)) k (sn_ts sn) = None
  | RGetTree k sn => exists view, sget sp t = SRView (QGet k) view None /\ RdOk st sn view /\
                                  mt_load (ents st (sn_mem sn)) k (sn_ts sn) = None /\ rd_imm st sn k = None
  | RGot k r => exists view, sget sp t = SRView (QGet k) view None /\ r = db_entry view k
  | RScanning lo hi sn last => exists view, sget sp t = SRView (QScan lo hi) view last /\ RdOk st sn view
  end.

Record Rel (st : state) (sp : sstate) : Prop := {
  rel_skel : Skel st;
  rel_data : Data st (s_db sp);
  rel_thr : forall t, trel st sp t
}.

(* ------------------------------------------------------------------ stability of what was read *)
Definition old_same (st st' : state) : Prop :=
  forall g t, t <= k_vis st ->
    filter (fun e => ets e <=? t) (ents st' g) = filter (fun e => ets e <=? t) (ents st g).

Lemma mt_load_stable es es' k t : ssorted es -> ssorted es' ->
  filter (fun e => ets e <=? t) es' = filter (fun e => ets e <=? t) es -> mt_load es' k t = mt_load es k t.
Proof.
  intros Hs Hs' Hf. rewrite !mt_load_sorted by assumption.
  rewrite (ents_load_filter es'), (ents_load_filter es), Hf. reflexivity.
Qed.

Lemma step_old_same st d l st' : Skel st -> Data st d -> step st l = Some st' -> old_same st st'.
Proof.
  intros Hsk Hd H g tt Htt.
  assert (Triv : forall s, k_mems s = k_mems st -> filter (fun e => ets e <=? tt) (ents s g) = filter (fun e => ets e <=? tt) (ents st g))
    by (intros s Hs; now rewrite (ents_eq st s g Hs)).
  destruct l; inv_step H;
    try solve [inversion H; subst st'; apply Triv; reflexivity];
    try solve [inv_guard H; subst st'; apply Triv; try reflexivity;
               try (destruct full; reflexivity); try (destruct h; reflexivity)].
  - (* LWLog *) inversion H; subst st'. change (ents (with_pc ?a t ?p) g) with (ents a g). rewrite ents_upd. cbn [mt_ents].
    destruct (Nat.eqb_spec g0 g) as [<-|]; cbn [andb]; [|reflexivity]. now destruct (g0 <? length (k_mems st))%nat.
  - (* LWInsert *) destruct (nth_error b i) eqn:Hkv; [|discriminate]. inversion H; subst st'.
    change (ents (with_pc ?a t ?p) g) with (ents a g). rewrite ents_upd. cbn [mt_ents].
    destruct (Nat.eqb_spec g0 g) as [<-|]; cbn [andb]; [|reflexivity].
    destruct (g0 <? length (k_mems st))%nat; [|reflexivity].
    fold (ents st g0). apply filter_insert_entry. cbn [ets].
    assert (Hts : w_seq (getpc st t) = Some s) by (rewrite Hpc; reflexivity).
    pose proof (sk_seq_hi st Hsk t s Hts). apply N.leb_gt. lia.
  - (* LFRollover *) inv_guard H. subst st'. destruct (Nat.lt_ge_cases g (length (k_mems st))) as [Hlt|Hge].
    + change (ents (with_fl ?a ?p) g) with (ents a g). now rewrite ents_rollover_old.
    + rewrite (ents_out st g Hge). change (ents (with_fl ?a ?p) g) with (ents a g).
      destruct (ents (do_rollover st) g) as [|e r] eqn:E; [reflexivity|].
      destruct (ents_rollover_any st g e) as [Hc _]; [rewrite E; now left|lia].
Qed.

Lemma step_vis_mono st l st' : Skel st -> step st l = Some st' -> k_vis st <= k_vis st'.
Proof.
  intros Hsk H.
  destruct l; inv_step H;
    try solve [inversion H; subst st'; cbn; lia];
    try solve [inv_guard H; subst st'; st_simpl; try lia; try (destruct full; cbn; lia); try (destruct h; cbn; lia);
               try (destruct q; cbn; lia)].
  - destruct (nth_error b i); [|discriminate]. inversion H; subst st'. cbn. lia.
  - inv_guard H. subst st'. st_simpl.
    assert (Hts : w_seq (getpc st t) = Some s0) by (rewrite Hpc; reflexivity).
    pose proof (sk_seq_hi st Hsk t s0 Hts). cbn. lia.
Qed.

Section Stable.
  Variables (st st' : state) (d d' : db).
  Hypothesis Hd : Data st d.
  Hypothesis Hd' : Data st' d'.
  Hypothesis Hold : old_same st st'.
  Hypothesis Hvis : k_vis st <= k_vis st'.

  Lemma mt_stable g k t : t <= k_vis st -> mt_load (ents st' g) k t = mt_load (ents st g) k t.
  Proof.
    intros Ht. apply mt_load_stable; [apply (d_sorted st d Hd)|apply (d_sorted st' d' Hd')|now apply Hold].
  Qed.

  Lemma imm_ents_stable sn k : sn_ts sn <= k_vis st -> rd_imm st' sn k = rd_imm st sn k.
  Proof. intros Ht. unfold rd_imm, imm_ents. destruct (sn_imm sn); [now apply mt_stable|reflexivity]. Qed.

  Lemma rd_stable sn k : sn_ts sn <= k_vis st -> rd st' sn k = rd st sn k.
  Proof.
    intros Ht. unfold rd, read_point. rewrite (mt_stable _ k _ Ht).
    destruct (mt_load (ents st (sn_mem sn)) k (sn_ts sn)); [reflexivity|].
    fold (rd_imm st' sn k). fold (rd_imm st sn k). now rewrite imm_ents_stable.
  Qed.

  Lemma RdOk_stable sn view : RdOk st sn view -> RdOk st' sn view.
  Proof. intros [H1 H2]. split; [lia|]. intros k. rewrite rd_stable by exact H1. apply H2. Qed.

  Lemma trel_stable sp sp' t : getpc st' t = getpc st t -> sget sp' t = sget sp t -> trel st sp t -> trel st' sp' t.
  Proof.
    unfold trel. intros Hg Hs. rewrite Hg, Hs. destruct (getpc st t); auto.
    - intros (view & H1 & H2). exists view. split; [exact H1|now apply RdOk_stable].
    - intros (view & H1 & H2 & H3). exists view. split; [exact H1|]. split; [now apply RdOk_stable|].
      rewrite mt_stable; [exact H3|apply H2].
    - intros (view & H1 & H2 & H3 & H4). exists view. split; [exact H1|]. split; [now apply RdOk_stable|].
      split; [rewrite mt_stable; [exact H3|apply H2]|rewrite imm_ents_stable; [exact H4|apply H2]].
    - intros (view & H1 & H2). exists view. split; [exact H1|now apply RdOk_stable].
  Qed.
End Stable.

(* ------------------------------------------------------------------ the scan cursor *)
Lemma min_key_spec l : match min_key l with
                       | Some m => In m l /\ forall x, In x l -> key_leb m x = true
                       | None => l = []
                       end.
Proof.
  induction l as [|k r IH]; cbn [min_key]; [reflexivity|].
  destruct (min_key r) as [m|].
  - destruct IH as [Hin Hmin]. destruct (key_leb k m) eqn:E.
    + split; [now left|]. intros x [<-|Hx]; [apply key_leb_refl|]. eapply key_leb_trans; eauto.
    + split; [now right|]. intros x [<-|Hx]; [|now apply Hmin].
      destruct (key_leb_total k m) as [H|H]; [congruence|exact H].
  - subst r. split; [now left|]. intros x [<-|[]]. apply key_leb_refl.
Qed.

Lemma min_key_same l1 l2 : (forall x, In x l1 <-> In x l2) -> min_key l1 = min_key l2.
Proof.
  intros H. pose proof (min_key_spec l1) as H1. pose proof (min_key_spec l2) as H2.
  destruct (min_key l1) as [m1|], (min_key l2) as [m2|].
  - destruct H1 as [I1 M1], H2 as [I2 M2]. f_equal. apply key_leb_antisym; [apply M1, H, I2|apply M2, H, I1].
  - subst l2. destruct H1 as [I1 _]. apply H in I1. destruct I1.
  - subst l1. destruct H2 as [I2 _]. apply H in I2. destruct I2.
  - reflexivity.
Qed.

Lemma first_some_in {A B} (f : A -> option B) l y : first_some f l = Some y -> exists x, In x l /\ f x = Some y.
Proof.
  induction l as [|x l IH]; cbn [first_some]; [discriminate|].
  destruct (f x) as [z|] eqn:E.
  - intros H. inversion H; subst. exists x. split; [now left|exact E].
  - intros H. destruct (IH H) as (x' & Hx' & Hf). exists x'. split; [now right|exact Hf].
Qed.

Lemma lookup_files_flat v k f : In f (lookup_files v k) -> In f (flat v).
Proof.
  unfold lookup_files, flat. rewrite !in_app_iff. intros [H|H]; [now left|right].
  apply in_flat_map in H. destruct H as (lv & Hlv & Hf). apply in_concat. exists lv. split; [exact Hlv|].
  unfold key_slice, slice in Hf. apply in_firstn in Hf. now apply in_skipn in Hf.
Qed.

Lemma load_version_in v k t e : load_version v k t = Some e -> In e (file_entries v) /\ ek e = k.
Proof.
  unfold load_version. intros H. apply first_some_in in H. destruct H as (f & Hf & He).
  unfold ents_load in He. apply find_some in He. destruct He as [Hin Hh].
  unfold hit in Hh. apply andb_prop in Hh. destruct Hh as [Hk _]. apply key_eqb_eq in Hk.
  split; [|exact Hk]. unfold file_entries. apply in_flat_map. exists f. split; [now apply (lookup_files_flat v k)|exact Hin].
Qed.

Lemma mt_load_in es k t e : mt_load es k t = Some e -> In e es /\ ek e = k.
Proof.
  unfold mt_load. destruct (find (seek_ge k t) es) as [x|] eqn:E; [|discriminate].
  destruct (key_eqb (ek x) k) eqn:Ek; [|discriminate]. intros H. inversion H; subst.
  apply find_some in E. split; [tauto|now apply key_eqb_eq].
Qed.

Lemma read_point_key m im v k t e : read_point m im v k t = Some e -> ek e = k /\ In k (comp_keys m im v).
Proof.
  unfold read_point, comp_keys. destruct (mt_load m k t) as [x|] eqn:E1.
  - intros H. inversion H; subst. apply mt_load_in in E1. destruct E1 as [Hin Hk]. split; [exact Hk|].
    apply in_or_app. left. rewrite <- Hk. now apply in_map.
  - destruct im as [i|].
    + destruct (mt_load i k t) as [x|] eqn:E2.
      * intros H. inversion H; subst. apply mt_load_in in E2. destruct E2 as [Hin Hk]. split; [exact Hk|].
        apply in_or_app. right. apply in_or_app. left. rewrite <- Hk. now apply in_map.
      * intros H. apply load_version_in in H. destruct H as [Hin Hk]. split; [exact Hk|].
        apply in_or_app. right. apply in_or_app. right. rewrite <- Hk. now apply in_map.
    + intros H. apply load_version_in in H. destruct H as [Hin Hk]. split; [exact Hk|].
      apply in_or_app. right. apply in_or_app. right. rewrite <- Hk. now apply in_map.
Qed.

Lemma db_get_key d k x : db_get d k = Some x -> In k (db_keys d).
Proof.
  revert x. induction d as [|[s b] d IH]; intros x; cbn [db_get db_keys flat_map]; [discriminate|].
  destruct (db_get d k) as [y|].
  - intros _. apply in_or_app. right. now apply (IH y).
  - destruct (batch_get b k) as [v|] eqn:E; [|discriminate]. intros _. apply in_or_app. left.
    apply batch_get_in in E. cbn [snd]. change k with (fst (k, v)). now apply in_map.
Qed.

Lemma live_eq m im v t view k : read_point m im v k t = db_entry view k -> live_at m im v t k = db_live view k.
Proof.
  unfold live_at, db_live, db_entry. intros ->. destruct (db_get view k) as [[s [x|]]|]; reflexivity.
Qed.

Lemma in_dedupk ks k : In k (dedupk ks) <-> In k ks.
Proof.
  induction ks as [|x r IH]; cbn [dedupk]; [tauto|].
  destruct (existsb (key_eqb x) r) eqn:E.
  - rewrite IH. split; [now right|]. intros [<-|H]; [|exact H].
    apply existsb_exists in E. destruct E as (y & Hy & Hxy). apply key_eqb_eq in Hxy. now subst.
  - cbn [In]. rewrite IH. tauto.
Qed.

Lemma scan_next_eq m im v t view lo hi last :
  (forall k, read_point m im v k t = db_entry view k) ->
  scan_next m im v t lo hi last = db_scan_next view lo hi last.
Proof.
  intros H. unfold scan_next, db_scan_next.
  assert (Hl : forall k, live_at m im v t k = db_live view k) by (intros; now apply live_eq).
  set (P := fun k => in_bounds lo hi k && after last k && is_some (db_live view k)).
  assert (E1 : filter (fun k => if in_bounds lo hi k then if after last k then
                                  match live_at m im v t k with Some _ => true | None => false end else false else false)
                      (dedupk (comp_keys m im v)) = filter P (dedupk (comp_keys m im v))).
  { apply filter_ext. intros k. unfold P. rewrite Hl. destruct (in_bounds lo hi k), (after last k); reflexivity. }
  rewrite E1.
  assert (E2 : min_key (filter P (dedupk (comp_keys m im v))) = min_key (filter P (db_keys view))).
  { apply min_key_same. intros k. rewrite !filter_In, in_dedupk. split; intros [_ Hp]; (split; [|exact Hp]).
    - unfold P in Hp. apply andb_prop in Hp. destruct Hp as [_ Hp]. unfold db_live in Hp.
      destruct (db_get view k) as [x|] eqn:E; [|discriminate]. eapply db_get_key; eauto.
    - unfold P in Hp. apply andb_prop in Hp. destruct Hp as [_ Hp]. rewrite <- Hl in Hp. unfold live_at in Hp.
      destruct (read_point m im v k t) as [e|] eqn:E; [|discriminate]. now apply (read_point_key m im v k t e). }
  rewrite E2. destruct (min_key (filter P (db_keys view))) as [k|]; [|reflexivity]. now rewrite Hl.
Qed.

(* ------------------------------------------------------------------ the specification's thread map *)
Lemma sget_sset sp t p t' : sget (sset sp t p) t' = if Pos.eqb t' t then p else sget sp t'.
Proof.
  unfold sget, sset. cbn [s_pcs]. destruct (Pos.eqb_spec t' t) as [->|H].
  - now rewrite PositiveMap.gss.
  - now rewrite PositiveMap.gso.
Qed.

Lemma db_max_le d v : (forall s b, In (s, b) d -> s <= v) -> db_max d <= v.
Proof.
  induction d as [|[s b] d IH]; cbn [db_max fold_right]; intros H; [lia|].
  cbn [fst]. fold (db_max d). pose proof (H s b (or_introl eq_refl)).
  assert (db_max d <= v) by (apply IH; intros; eapply H; right; eauto). lia.
Qed.

Lemma result_db_value view k : result_of (db_entry view k) = db_value view k.
Proof. unfold db_entry, db_value. destruct (db_get view k) as [[s v]|]; reflexivity. Qed.

(* ------------------------------------------------------------------ the simulation *)
Lemma rel_step_frame st sp l st' sp' :
  Rel st sp -> step st l = Some st' -> s_db sp' = commit_of st l (s_db sp) ->
  (forall t, (getpc st' t = getpc st t /\ sget sp' t = sget sp t) \/ trel st' sp' t) ->
  Rel st' sp'.
Proof.
  intros [Hsk Hd Ht] Hstep Hdb Hthr.
  pose proof (skel_step st l st' Hsk Hstep) as Hsk'.
  pose proof (data_step st (s_db sp) l st' Hsk Hd Hstep) as Hd'.
  constructor; [exact Hsk'|now rewrite Hdb|].
  intros t. destruct (Hthr t) as [[Hg Hs]|H]; [|exact H].
  eapply (trel_stable st st' (s_db sp) _ Hd Hd'); eauto.
  - eapply step_old_same; eauto.
  - eapply step_vis_mono; eauto.
Qed.

Lemma getpc_other_with_pc st0 t p t' : t' <> t -> getpc (with_pc st0 t p) t' = getpc st0 t'.
Proof. intros H. now apply getpc_with_pc_other. Qed.

(* a step of thread t that the specification does not see and that keeps t in the same class *)
Ltac stutter HR Hstep Hpc t :=
  eexists; split; [reflexivity|];
  eapply (rel_step_frame _ _ _ _ _ HR Hstep); [cbn [commit_of]; rewrite ?Hpc; reflexivity|];
  let t' := fresh "t'" in intros t'; case_t t' t; [right|left; split; [|reflexivity]];
  [unfold trel; autorewrite with kvs; rewrite Pos.eqb_refl;
   let X := fresh "X" in pose proof (rel_thr _ _ HR t) as X; unfold trel in X; rewrite Hpc in X
  |autorewrite with kvs; destruct (Pos.eqb_spec t' t); [contradiction|reflexivity]].

Ltac stutter0 HR Hstep :=
  eexists; split; [reflexivity|];
  eapply (rel_step_frame _ _ _ _ _ HR Hstep); [reflexivity|];
  let t' := fresh "t'" in intros t'; left; split; reflexivity.

Theorem sim_step st sp l st' : Rel st sp -> step st l = Some st' -> exists sp', sstep sp l = Some sp' /\ Rel st' sp'.
Proof.
  intros HR Hstep. pose proof Hstep as H.
  pose proof (rel_skel st sp HR) as Hsk. pose proof (rel_data st sp HR) as Hd.
  destruct l; inv_step H.
  - (* LInvW *) inversion H; subst st'. clear H.
    pose proof (rel_thr st sp HR t) as X. unfold trel in X. rewrite Hpc in X.
    exists (sset sp t (SWPending (dedupe b))). split; [cbn [sstep]; now rewrite X|].
    eapply (rel_step_frame _ _ _ _ _ HR Hstep); [reflexivity|].
    intros t'. case_t t' t; [right|left; split].
    + unfold trel. autorewrite with kvs. rewrite Pos.eqb_refl, sget_sset, Pos.eqb_refl. reflexivity.
    + autorewrite with kvs. destruct (Pos.eqb_spec t' t); [contradiction|reflexivity].
    + rewrite sget_sset. destruct (Pos.eqb_spec t' t); [contradiction|reflexivity].
  - (* LWLock *) inv_guard H. subst st'. stutter HR Hstep Hpc t. exact X.
  - (* LWLink *) inv_guard H. subst st'. stutter HR Hstep Hpc t. exact X.
  - (* LWAssign *) inv_guard H. subst st'. stutter HR Hstep Hpc t. exact X.
  - (* LWPick *) inv_guard H. subst st'. destruct full; stutter HR Hstep Hpc t; exact X.
  - (* LWUnlock *) inv_guard H. subst st'. stutter HR Hstep Hpc t. exact X.
  - (* LWLog *) inversion H; subst st'. stutter HR Hstep Hpc t. exact X.
  - (* LWInsert *) destruct (nth_error b i) eqn:Hkv; [|discriminate]. inversion H; subst st'. stutter HR Hstep Hpc t. exact X.
  - (* LWDrop *) inv_guard H. subst st'. stutter HR Hstep Hpc t. exact X.
  - (* LWLock2 *) inv_guard H. subst st'. stutter HR Hstep Hpc t. exact X.
  - (* LWHead *) inv_guard H. subst st'. destruct h; stutter HR Hstep Hpc t; exact X.
  - (* LWWake *) inv_guard H. subst st'. stutter HR Hstep Hpc t. exact X.
  - (* LWPublish *) inv_guard H. subst st'. apply N.eqb_eq in Hg. subst s.
    pose proof (rel_thr st sp HR t) as X. unfold trel in X. rewrite Hpc in X.
    assert (Hts : w_seq (getpc st t) = Some s0) by (rewrite Hpc; reflexivity).
    pose proof (sk_seq_hi st Hsk t s0 Hts) as [Hvis _].
    assert (Hmax : db_max (s_db sp) <? s0 = true).
    { apply N.ltb_lt. assert (db_max (s_db sp) <= k_vis st); [|lia].
      apply db_max_le. intros s b' Hb'. apply (d_db_vis st _ Hd s b' Hb'). }
    exists (sset (mkSp (s_db sp ++ [(s0, b)]) (s_pcs sp)) t SWDone). split; [cbn [sstep]; now rewrite X, Hmax|].
    eapply (rel_step_frame _ _ _ _ _ HR Hstep); [cbn [commit_of]; rewrite Hpc; reflexivity|].
    intros t'. case_t t' t; [right|left; split].
    + unfold trel. autorewrite with kvs. rewrite Pos.eqb_refl, sget_sset, Pos.eqb_refl. reflexivity.
    + autorewrite with kvs. destruct (Pos.eqb_spec t' t); [contradiction|reflexivity].
    + rewrite sget_sset. destruct (Pos.eqb_spec t' t); [contradiction|reflexivity].
  - (* LWUnlink *) inv_guard H. subst st'. stutter HR Hstep Hpc t. exact X.
  - (* LWRet *) inv_guard H. subst st'.
    pose proof (rel_thr st sp HR t) as X. unfold trel in X. rewrite Hpc in X.
    exists (sset sp t SIdle). split; [cbn [sstep]; now rewrite X|].
    eapply (rel_step_frame _ _ _ _ _ HR Hstep); [reflexivity|].
    intros t'. case_t t' t; [right|left; split].
    + unfold trel. autorewrite with kvs. rewrite Pos.eqb_refl, sget_sset, Pos.eqb_refl. reflexivity.
    + autorewrite with kvs. destruct (Pos.eqb_spec t' t); [contradiction|reflexivity].
    + rewrite sget_sset. destruct (Pos.eqb_spec t' t); [contradiction|reflexivity].
  - (* LWFail *) inversion H; subst st'. stutter HR Hstep Hpc t. exact X.
  - (* LWLockF *) inv_guard H. subst st'. stutter HR Hstep Hpc t. exact X.
  - (* LWUnlinkF *) inv_guard H. subst st'. stutter HR Hstep Hpc t. exact X.
  - (* LWRetF *) inv_guard H. subst st'.
    pose proof (rel_thr st sp HR t) as X. unfold trel in X. rewrite Hpc in X.
    exists (sset sp t SIdle). split; [cbn [sstep]; now rewrite X|].
    eapply (rel_step_frame _ _ _ _ _ HR Hstep); [reflexivity|].
    intros t'. case_t t' t; [right|left; split].
    + unfold trel. autorewrite with kvs. rewrite Pos.eqb_refl, sget_sset, Pos.eqb_refl. reflexivity.
    + autorewrite with kvs. destruct (Pos.eqb_spec t' t); [contradiction|reflexivity].
    + rewrite sget_sset. destruct (Pos.eqb_spec t' t); [contradiction|reflexivity].
  - (* LInvR *) inversion H; subst st'. clear H.
    pose proof (rel_thr st sp HR t) as X. unfold trel in X. rewrite Hpc in X.
    exists (sset sp t (SRPending q)). split; [cbn [sstep]; now rewrite X|].
    eapply (rel_step_frame _ _ _ _ _ HR Hstep); [reflexivity|].
    intros t'. case_t t' t; [right|left; split].
    + unfold trel. autorewrite with kvs. rewrite Pos.eqb_refl, sget_sset, Pos.eqb_refl. reflexivity.
    + autorewrite with kvs. destruct (Pos.eqb_spec t' t); [contradiction|reflexivity].
    + rewrite sget_sset. destruct (Pos.eqb_spec t' t); [contradiction|reflexivity].
  - (* LSnap *) inv_guard H. subst st'.
    pose proof (rel_thr st sp HR t) as X. unfold trel in X. rewrite Hpc in X.
    exists (sset sp t (SRView q (s_db sp) None)). split; [cbn [sstep]; now rewrite X|].
    eapply (rel_step_frame _ _ _ _ _ HR Hstep); [reflexivity|].
    set (sn := mkSnap (k_vis st) (k_cur st) (k_imm st) (k_tree st)).
    assert (Hok : forall st2, k_vis st2 = k_vis st -> (forall g, ents st2 g = ents st g) -> RdOk st2 sn (s_db sp)).
    { intros st2 Hv2 He2. split; [cbn; lia|]. intros k. unfold rd, imm_ents. cbn [sn_ts sn_mem sn_imm sn_ver sn].
      rewrite He2. replace (match k_imm st with Some g => Some (mt_ents (mem_at st2 g)) | None => None end) with (cur_imm_ents st).
      - now apply snapshot_correct.
      - unfold cur_imm_ents. destruct (k_imm st) as [g|]; [|reflexivity]. f_equal. symmetry. apply (He2 g). }
    intros t'. case_t t' t; [right|left; split].
    + unfold trel. autorewrite with kvs. rewrite Pos.eqb_refl, sget_sset, Pos.eqb_refl.
      destruct q; (eexists; split; [reflexivity|apply Hok; reflexivity]).
    + autorewrite with kvs. destruct (Pos.eqb_spec t' t); [contradiction|reflexivity].
    + rewrite sget_sset. destruct (Pos.eqb_spec t' t); [contradiction|reflexivity].
  - (* LRMem *) inv_guard H. subst st'. stutter HR Hstep Hpc t.
    destruct X as (view & X1 & X2). destruct (mt_load (mt_ents (mem_at st (sn_mem sn))) k (sn_ts sn)) as [e|] eqn:E.
    + exists view. split; [exact X1|]. destruct X2 as [_ X2]. rewrite <- (X2 k). unfold rd, read_point.
      fold (ents st (sn_mem sn)) in E. now rewrite E.
    + destruct (sn_imm sn) eqn:Ei; exists view; (split; [exact X1|]); (split; [exact X2|]); [exact E|split; [exact E|]].
      unfold rd_imm, imm_ents. now rewrite Ei.
  - (* LRImm *) inv_guard H. subst st'. stutter HR Hstep Hpc t.
    destruct X as (view & X1 & X2 & X3).
    destruct (match imm_ents st sn with Some i => mt_load i k (sn_ts sn) | None => None end) as [e|] eqn:E.
    + exists view. split; [exact X1|]. destruct X2 as [_ X2]. rewrite <- (X2 k). unfold rd, read_point. now rewrite X3, E.
    + exists view. repeat split; auto; apply X2.
  - (* LRTree *) inv_guard H. subst st'. stutter HR Hstep Hpc t.
    destruct X as (view & X1 & X2 & X3 & X4). exists view. split; [exact X1|]. destruct X2 as [_ X2]. rewrite <- (X2 k).
    unfold rd, read_point. unfold rd_imm in X4. now rewrite X3, X4.
  - (* LRetGet *) inv_guard H. subst st'.
    pose proof (rel_thr st sp HR t) as X. unfold trel in X. rewrite Hpc in X. destruct X as (view & X1 & X2).
    exists (sset sp t SIdle). split; [cbn [sstep]; rewrite X1; subst r0; rewrite <- result_db_value, Hg; reflexivity|].
    eapply (rel_step_frame _ _ _ _ _ HR Hstep); [reflexivity|].
    intros t'. case_t t' t; [right|left; split].
    + unfold trel. autorewrite with kvs. rewrite Pos.eqb_refl, sget_sset, Pos.eqb_refl. reflexivity.
    + autorewrite with kvs. destruct (Pos.eqb_spec t' t); [contradiction|reflexivity].
    + rewrite sget_sset. destruct (Pos.eqb_spec t' t); [contradiction|reflexivity].
  - (* LScanNext *) inv_guard H. subst st'.
    pose proof (rel_thr st sp HR t) as X. unfold trel in X. rewrite Hpc in X. destruct X as (view & X1 & X2).
    assert (Eq : scan_next (mt_ents (mem_at st (sn_mem sn))) (imm_ents st sn) (sn_ver sn) (sn_ts sn) lo hi last
                 = db_scan_next view lo hi last) by (apply scan_next_eq; apply X2).
    rewrite Eq in *.
    eexists. split; [cbn [sstep]; rewrite X1, Hg; reflexivity|].
    eapply (rel_step_frame _ _ _ _ _ HR Hstep); [reflexivity|].
    intros t'. case_t t' t; [right|left; split].
    + unfold trel. autorewrite with kvs. rewrite Pos.eqb_refl, sget_sset, Pos.eqb_refl.
      exists view. split; [reflexivity|]. exact X2.
    + autorewrite with kvs. destruct (Pos.eqb_spec t' t); [contradiction|reflexivity].
    + rewrite sget_sset. destruct (Pos.eqb_spec t' t); [contradiction|reflexivity].
  - (* LRetScan *) inversion H; subst st'. clear H.
    pose proof (rel_thr st sp HR t) as X. unfold trel in X. rewrite Hpc in X. destruct X as (view & X1 & X2).
    exists (sset sp t SIdle). split; [cbn [sstep]; now rewrite X1|].
    eapply (rel_step_frame _ _ _ _ _ HR Hstep); [reflexivity|].
    intros t'. case_t t' t; [right|left; split].
    + unfold trel. autorewrite with kvs. rewrite Pos.eqb_refl, sget_sset, Pos.eqb_refl. reflexivity.
    + autorewrite with kvs. destruct (Pos.eqb_spec t' t); [contradiction|reflexivity].
    + rewrite sget_sset. destruct (Pos.eqb_spec t' t); [contradiction|reflexivity].
  - inv_guard H. subst st'. stutter0 HR Hstep.
  - inv_guard H. subst st'. stutter0 HR Hstep.
  - inv_guard H. subst st'. stutter0 HR Hstep.
  - inv_guard H. subst st'. stutter0 HR Hstep.
  - inv_guard H. subst st'. destruct h; stutter0 HR Hstep.
  - inv_guard H. subst st'. stutter0 HR Hstep.
  - inv_guard H. subst st'. stutter0 HR Hstep.
  - inv_guard H. subst st'. stutter0 HR Hstep.
  - inversion H; subst st'. stutter0 HR Hstep.
  - inversion H; subst st'. stutter0 HR Hstep.
  - inv_guard H. subst st'. stutter0 HR Hstep.
  - inv_guard H. subst st'. stutter0 HR Hstep.
  - unfold step in H. inv_guard H. subst st'. stutter0 HR Hstep.
  - unfold step in H. inv_guard H. subst st'. stutter0 HR Hstep.
Qed.
