(* Conc/ProofsSkel.v — the control skeleton of KvsConc: mutual exclusion, the wait list holds exactly
   the linked threads in link order, link order is sequence-number order, the head is the oldest. *)
From Coq Require Import NArith List Bool Arith PArith FMapPositive Lia.
From Blue Require Import Lsm.Model Lsm.History Conc.KvsConc Conc.ProofsBase.
Import ListNotations.
Open Scope N_scope.

Arguments N.leb : simpl never.
Arguments N.ltb : simpl never.
Arguments N.eqb : simpl never.
Arguments N.add : simpl never.
Arguments N.max : simpl never.

(* ------------------------------------------------------------------ projections of a pc *)
Definition w_idx (p : pc) : option nat :=
  match p with
  | WLinked _ i | WAssigned _ i _ | WPicked _ i _ _ | WAppending _ i _ _ | WInserting _ i _ _ _
  | WDropped _ i _ _ | WLocked2 _ i _ _ | WParked _ i _ _ | WHead _ i _ _ | WPublished _ i _
  | WFailed _ i _ | WFailedL _ i _ => Some i
  | _ => None
  end.
(* assigned and not yet published *)
Definition w_seq (p : pc) : option N :=
  match p with
  | WAssigned _ _ s | WPicked _ _ s _ | WAppending _ _ s _ | WInserting _ _ s _ _
  | WDropped _ _ s _ | WLocked2 _ _ s _ | WParked _ _ s _ | WHead _ _ s _
  | WFailed _ _ s | WFailedL _ _ s => Some s
  | _ => None
  end.
Definition w_locked (p : pc) : bool :=
  match p with
  | WLocked _ | WLinked _ _ | WAssigned _ _ _ | WPicked _ _ _ _ | WLocked2 _ _ _ _ | WHead _ _ _ _
  | WPublished _ _ _ | WUnlinked _ _ | WFailedL _ _ _ | WFailedU _ _ => true
  | _ => false
  end.
Definition f_idx (f : fpc) : option nat :=
  match f with FLinked _ _ i | FParked _ _ i | FHead _ _ i => Some i | _ => None end.
Definition f_locked (f : fpc) : bool :=
  match f with
  | FLocked | FRolled _ _ | FLinked _ _ _ | FHead _ _ _ | FUnlinked _ _ | FLocked2 _ _ => true
  | _ => false
  end.

Lemma w_seq_has_idx p s : w_seq p = Some s -> exists i, w_idx p = Some i.
Proof. destruct p; cbn; try discriminate; eauto. Qed.

Record Skel (st : state) : Prop := {
  sk_mutex_c : forall t, w_locked (getpc st t) = true -> k_mutex st = Some (OClient t);
  sk_mutex_f : f_locked (k_fl st) = true -> k_mutex st = Some OFlusher;
  sk_vis : k_vis st <= k_seq st;
  sk_memseq : k_memseq st < k_seq st;
  sk_asc : asc (k_wllive st);
  sk_bound : forall i, In i (k_wllive st) -> (i < k_wlnext st)%nat;
  sk_in_c : forall t i, w_idx (getpc st t) = Some i -> In i (k_wllive st);
  sk_in_f : forall i, f_idx (k_fl st) = Some i -> In i (k_wllive st);
  sk_uniq : forall t t' i, t <> t' -> w_idx (getpc st t) = Some i -> w_idx (getpc st t') = Some i -> False;
  sk_uniq_f : forall t i, w_idx (getpc st t) = Some i -> f_idx (k_fl st) = Some i -> False;
  sk_seq_hi : forall t s, w_seq (getpc st t) = Some s -> k_vis st < s /\ s <= k_seq st;
  sk_ord : forall t t' i i' s s', t <> t' ->
             w_idx (getpc st t) = Some i -> w_idx (getpc st t') = Some i' ->
             w_seq (getpc st t) = Some s -> w_seq (getpc st t') = Some s' -> (i < i')%nat -> s < s';
  sk_linked_last : forall t b i, getpc st t = WLinked b i -> k_wlnext st = S i;
  sk_head_c : forall t b i s g, getpc st t = WHead b i s g -> is_head st i = true;
  sk_head_f : forall trig g i, k_fl st = FHead trig g i -> is_head st i = true
}.

(* ------------------------------------------------------------------ rewriting through the updates *)
Lemma getpc_with_mutex st m t : getpc (with_mutex st m) t = getpc st t. Proof. reflexivity. Qed.
Lemma getpc_with_fl st f t : getpc (with_fl st f) t = getpc st t. Proof. reflexivity. Qed.
Lemma getpc_with_wl st a b t : getpc (with_wl st a b) t = getpc st t. Proof. reflexivity. Qed.
Lemma getpc_with_seq st a t : getpc (with_seq st a) t = getpc st t. Proof. reflexivity. Qed.
Lemma getpc_with_vis st a t : getpc (with_vis st a) t = getpc st t. Proof. reflexivity. Qed.
Lemma getpc_with_trig st a t : getpc (with_trig st a) t = getpc st t. Proof. reflexivity. Qed.
Lemma getpc_with_mems st a t : getpc (with_mems st a) t = getpc st t. Proof. reflexivity. Qed.
Lemma getpc_with_tree st a t : getpc (with_tree st a) t = getpc st t. Proof. reflexivity. Qed.
Lemma getpc_do_trigger st t : getpc (do_trigger st) t = getpc st t. Proof. reflexivity. Qed.
Lemma getpc_do_rollover st t : getpc (do_rollover st) t = getpc st t. Proof. reflexivity. Qed.
Lemma getpc_set_imm st a t : getpc (set_imm st a) t = getpc st t. Proof. reflexivity. Qed.
Lemma getpc_upd_mem st g m t : getpc (upd_mem st g m) t = getpc st t. Proof. reflexivity. Qed.
Lemma getpc_if (c : bool) st1 st2 t : getpc (if c then st1 else st2) t = if c then getpc st1 t else getpc st2 t.
Proof. destruct c; reflexivity. Qed.

Global Hint Rewrite getpc_with_pc getpc_with_mutex getpc_with_fl getpc_with_wl getpc_with_seq getpc_with_vis
  getpc_with_trig getpc_with_mems getpc_with_tree getpc_do_trigger getpc_do_rollover getpc_set_imm
  getpc_upd_mem : kvs.

Ltac st_simpl :=
  cbn [k_mutex k_seq k_vis k_trig k_memseq k_cur k_imm k_mems k_tree k_wlnext k_wllive k_fl
       with_pc with_mutex with_fl with_wl with_seq with_vis with_trig with_mems with_tree
       do_trigger do_rollover set_imm upd_mem] in *.

(* invert one step: exposes the old pc, the guard conditions and the new state *)
Ltac inv_step H :=
  unfold step in H;
  match type of H with
  | match getpc ?st ?t with _ => _ end = Some _ =>
      let Hpc := fresh "Hpc" in destruct (getpc st t) eqn:Hpc; try discriminate H
  | match k_fl ?st with _ => _ end = Some _ =>
      let Hfl := fresh "Hfl" in destruct (k_fl st) eqn:Hfl; try discriminate H
  | _ => idtac
  end.

Ltac case_t t' t :=
  let E := fresh "E" in
  destruct (Pos.eqb_spec t' t) as [E|E]; [subst t'|].

(* the unchanged-threads part of every clause: a thread other than the stepping one *)
Ltac other_locked Hsk :=
  match goal with
  | H : w_locked (getpc ?st ?t') = true, Hm : k_mutex ?st = _ |- _ =>
      let X := fresh in pose proof (sk_mutex_c st Hsk t' H) as X; rewrite Hm in X; try discriminate X; try (inversion X; subst; try congruence)
  end.

Lemma locked_excl st t t' : Skel st -> k_mutex st = Some (OClient t) -> t' <> t -> w_locked (getpc st t') = false.
Proof.
  intros Hsk Hm Hne. destruct (w_locked (getpc st t')) eqn:E; [|reflexivity].
  pose proof (sk_mutex_c st Hsk t' E) as X. rewrite Hm in X. inversion X. congruence.
Qed.
Lemma locked_none st t' : Skel st -> k_mutex st = None -> w_locked (getpc st t') = false.
Proof.
  intros Hsk Hm. destruct (w_locked (getpc st t')) eqn:E; [|reflexivity].
  pose proof (sk_mutex_c st Hsk t' E) as X. rewrite Hm in X. discriminate.
Qed.
Lemma locked_flusher st t' : Skel st -> k_mutex st = Some OFlusher -> w_locked (getpc st t') = false.
Proof.
  intros Hsk Hm. destruct (w_locked (getpc st t')) eqn:E; [|reflexivity].
  pose proof (sk_mutex_c st Hsk t' E) as X. rewrite Hm in X. discriminate.
Qed.
Lemma flocked_none st : Skel st -> k_mutex st = None -> f_locked (k_fl st) = false.
Proof.
  intros Hsk Hm. destruct (f_locked (k_fl st)) eqn:E; [|reflexivity].
  pose proof (sk_mutex_f st Hsk E) as X. rewrite Hm in X. discriminate.
Qed.
Lemma flocked_client st t : Skel st -> k_mutex st = Some (OClient t) -> f_locked (k_fl st) = false.
Proof.
  intros Hsk Hm. destruct (f_locked (k_fl st)) eqn:E; [|reflexivity].
  pose proof (sk_mutex_f st Hsk E) as X. rewrite Hm in X. discriminate.
Qed.

(* a step of thread t that leaves every skeleton-relevant projection of its pc alone and touches
   nothing but the pcs (and possibly memtables / tree / trigger) preserves the skeleton *)
Lemma skel_frame st st' t p :
  Skel st ->
  k_mutex st' = k_mutex st -> k_seq st' = k_seq st -> k_vis st' = k_vis st -> k_memseq st' = k_memseq st ->
  k_wlnext st' = k_wlnext st -> k_wllive st' = k_wllive st -> k_fl st' = k_fl st ->
  (forall t', getpc st' t' = if Pos.eqb t' t then p else getpc st t') ->
  w_idx p = w_idx (getpc st t) -> w_seq p = w_seq (getpc st t) -> w_locked p = w_locked (getpc st t) ->
  (forall b i, p = WLinked b i -> exists b', getpc st t = WLinked b' i) ->
  (forall b i s g, p = WHead b i s g -> exists b' g', getpc st t = WHead b' i s g') ->
  Skel st'.
Proof.
  intros Hsk Hm Hs Hv Hms Hn Hl Hf Hg Hi Hq Hlk HL HH.
  assert (Gi : forall t', w_idx (getpc st' t') = w_idx (getpc st t')).
  { intros t'. rewrite Hg. destruct (Pos.eqb_spec t' t); [now subst|reflexivity]. }
  assert (Gs : forall t', w_seq (getpc st' t') = w_seq (getpc st t')).
  { intros t'. rewrite Hg. destruct (Pos.eqb_spec t' t); [now subst|reflexivity]. }
  assert (Gl : forall t', w_locked (getpc st' t') = w_locked (getpc st t')).
  { intros t'. rewrite Hg. destruct (Pos.eqb_spec t' t); [now subst|reflexivity]. }
  assert (Hhd : forall i, is_head st' i = is_head st i) by (intros i; unfold is_head; now rewrite Hl).
  constructor.
  - intros t' H. rewrite Gl in H. rewrite Hm. now apply (sk_mutex_c st Hsk).
  - rewrite Hf, Hm. apply (sk_mutex_f st Hsk).
  - rewrite Hv, Hs. apply (sk_vis st Hsk).
  - rewrite Hms, Hs. apply (sk_memseq st Hsk).
  - rewrite Hl. apply (sk_asc st Hsk).
  - rewrite Hl, Hn. apply (sk_bound st Hsk).
  - intros t' i. rewrite Gi, Hl. apply (sk_in_c st Hsk).
  - rewrite Hf, Hl. apply (sk_in_f st Hsk).
  - intros t1 t2 i. rewrite !Gi. apply (sk_uniq st Hsk).
  - intros t1 i. rewrite Gi, Hf. apply (sk_uniq_f st Hsk).
  - intros t1 s. rewrite Gs, Hv, Hs. apply (sk_seq_hi st Hsk).
  - intros t1 t2 i i' s s'. rewrite !Gi, !Gs. apply (sk_ord st Hsk).
  - intros t1 b i. rewrite Hg, Hn. destruct (Pos.eqb_spec t1 t) as [->|].
    + intros Hp. destruct (HL b i Hp) as (b' & Hb'). eapply (sk_linked_last st Hsk); eauto.
    + apply (sk_linked_last st Hsk).
  - intros t1 b i s g. rewrite Hg, Hhd. destruct (Pos.eqb_spec t1 t) as [->|].
    + intros Hp. destruct (HH b i s g Hp) as (b' & g' & Hb'). eapply (sk_head_c st Hsk); eauto.
    + apply (sk_head_c st Hsk).
  - intros trig g i. rewrite Hf, Hhd. apply (sk_head_f st Hsk).
Qed.

(* frame for steps that change no pc at all and none of the skeleton's shared fields *)
Lemma skel_frame0 st st' :
  Skel st ->
  k_mutex st' = k_mutex st -> k_seq st' = k_seq st -> k_vis st' = k_vis st -> k_memseq st' = k_memseq st ->
  k_wlnext st' = k_wlnext st -> k_wllive st' = k_wllive st -> k_fl st' = k_fl st ->
  (forall t', getpc st' t' = getpc st t') -> Skel st'.
Proof.
  intros Hsk Hm Hs Hv Hms Hn Hl Hf Hg.
  apply (skel_frame st st' 1%positive (getpc st 1%positive)); auto.
  - intros t'. rewrite Hg. destruct (Pos.eqb_spec t' 1%positive); [now subst|reflexivity].
  - intros b i H. eauto.
  - intros b i s g H. eauto.
Qed.

Ltac frame_tac Hsk t :=
  eapply (skel_frame _ _ t); [exact Hsk|reflexivity..| | | | | |];
  [intros ?; autorewrite with kvs; reflexivity| | | | |];
  match goal with Hpc : getpc _ t = _ |- _ => rewrite ?Hpc end; try reflexivity;
  try (intros; discriminate).

(* ------------------------------------------------------------------ mutex changes only *)
(* thread t takes, keeps or releases the mutex and changes pc; wait list and counters untouched *)
Lemma skel_mutex_step st st' t p :
  Skel st ->
  k_seq st' = k_seq st -> k_vis st' = k_vis st -> k_memseq st' = k_memseq st ->
  k_wlnext st' = k_wlnext st -> k_wllive st' = k_wllive st -> k_fl st' = k_fl st ->
  (forall t', getpc st' t' = if Pos.eqb t' t then p else getpc st t') ->
  w_idx p = w_idx (getpc st t) -> w_seq p = w_seq (getpc st t) ->
  (w_locked p = true -> k_mutex st' = Some (OClient t)) ->
  (k_mutex st = None \/ k_mutex st = Some (OClient t)) ->
  (k_mutex st' = None \/ k_mutex st' = Some (OClient t)) ->
  (forall b i, p <> WLinked b i) ->
  (forall b i s g, p = WHead b i s g -> is_head st i = true) ->
  Skel st'.
Proof.
  intros Hsk Hs Hv Hms Hn Hl Hf Hg Hi Hq Hlk Hold Hnew HL HH.
  assert (Oth : forall t', t' <> t -> w_locked (getpc st t') = false).
  { intros t' Hne. destruct Hold as [H|H]; [now apply locked_none|now apply (locked_excl st t)]. }
  assert (Fl : f_locked (k_fl st) = false).
  { destruct Hold as [H|H]; [now apply flocked_none|now apply (flocked_client st t)]. }
  assert (Gi : forall t', w_idx (getpc st' t') = w_idx (getpc st t')).
  { intros t'. rewrite Hg. destruct (Pos.eqb_spec t' t); [now subst|reflexivity]. }
  assert (Gs : forall t', w_seq (getpc st' t') = w_seq (getpc st t')).
  { intros t'. rewrite Hg. destruct (Pos.eqb_spec t' t); [now subst|reflexivity]. }
  assert (Hhd : forall i, is_head st' i = is_head st i) by (intros i; unfold is_head; now rewrite Hl).
  constructor.
  - intros t'. rewrite Hg. destruct (Pos.eqb_spec t' t) as [->|Hne]; [exact Hlk|].
    rewrite (Oth t' Hne). discriminate.
  - rewrite Hf, Fl. discriminate.
  - rewrite Hv, Hs. apply (sk_vis st Hsk).
  - rewrite Hms, Hs. apply (sk_memseq st Hsk).
  - rewrite Hl. apply (sk_asc st Hsk).
  - rewrite Hl, Hn. apply (sk_bound st Hsk).
  - intros t' i. rewrite Gi, Hl. apply (sk_in_c st Hsk).
  - rewrite Hf, Hl. apply (sk_in_f st Hsk).
  - intros t1 t2 i. rewrite !Gi. apply (sk_uniq st Hsk).
  - intros t1 i. rewrite Gi, Hf. apply (sk_uniq_f st Hsk).
  - intros t1 s. rewrite Gs, Hv, Hs. apply (sk_seq_hi st Hsk).
  - intros t1 t2 i i' s s'. rewrite !Gi, !Gs. apply (sk_ord st Hsk).
  - intros t1 b i. rewrite Hg. destruct (Pos.eqb_spec t1 t) as [->|Hne].
    + intros Hp. exfalso. eapply HL; eauto.
    + intros Hp. assert (X : w_locked (getpc st t1) = true) by (rewrite Hp; reflexivity).
      rewrite (Oth t1 Hne) in X. discriminate.
  - intros t1 b i s g. rewrite Hg, Hhd.
    destruct (Pos.eqb_spec t1 t) as [->|Hne]; [apply HH|].
    intros Hp. assert (X : w_locked (getpc st t1) = true) by (rewrite Hp; reflexivity).
    rewrite (Oth t1 Hne) in X. discriminate.
  - intros trig g i. rewrite Hf. intros Hf'. rewrite Hf' in Fl. discriminate.
Qed.

(* the flusher takes, keeps or releases the mutex and changes its pc; wait list and counters untouched *)
Lemma skel_fl_step st st' f :
  Skel st ->
  k_seq st' = k_seq st -> k_vis st' = k_vis st -> k_memseq st' = k_memseq st ->
  k_wlnext st' = k_wlnext st -> k_wllive st' = k_wllive st -> k_fl st' = f ->
  (forall t', getpc st' t' = getpc st t') ->
  f_idx f = f_idx (k_fl st) ->
  (f_locked f = true -> k_mutex st' = Some OFlusher) ->
  (k_mutex st = None \/ k_mutex st = Some OFlusher) ->
  (k_mutex st' = None \/ k_mutex st' = Some OFlusher) ->
  (forall trig g i, f = FHead trig g i -> is_head st i = true) ->
  Skel st'.
Proof.
  intros Hsk Hs Hv Hms Hn Hl Hf Hg Hi Hlk Hold Hnew HH.
  assert (Oth : forall t', w_locked (getpc st t') = false).
  { intros t'. destruct Hold as [H|H]; [now apply locked_none|now apply locked_flusher]. }
  assert (Hhd : forall i, is_head st' i = is_head st i) by (intros i; unfold is_head; now rewrite Hl).
  constructor.
  - intros t'. rewrite Hg, Oth. discriminate.
  - rewrite Hf. exact Hlk.
  - rewrite Hv, Hs. apply (sk_vis st Hsk).
  - rewrite Hms, Hs. apply (sk_memseq st Hsk).
  - rewrite Hl. apply (sk_asc st Hsk).
  - rewrite Hl, Hn. apply (sk_bound st Hsk).
  - intros t' i. rewrite Hg, Hl. apply (sk_in_c st Hsk).
  - rewrite Hf, Hi, Hl. apply (sk_in_f st Hsk).
  - intros t1 t2 i. rewrite !Hg. apply (sk_uniq st Hsk).
  - intros t1 i. rewrite Hg, Hf, Hi. apply (sk_uniq_f st Hsk).
  - intros t1 s. rewrite Hg, Hv, Hs. apply (sk_seq_hi st Hsk).
  - intros t1 t2 i i' s s'. rewrite !Hg. apply (sk_ord st Hsk).
  - intros t1 b i. rewrite Hg. intros Hp.
    assert (X : w_locked (getpc st t1) = true) by (rewrite Hp; reflexivity). rewrite Oth in X. discriminate.
  - intros t1 b i s g. rewrite Hg. intros Hp.
    assert (X : w_locked (getpc st t1) = true) by (rewrite Hp; reflexivity). rewrite Oth in X. discriminate.
  - intros trig g i. rewrite Hf, Hhd. apply HH.
Qed.

(* ------------------------------------------------------------------ the steps that touch the wait list
   or the counters *)
Lemma in_snoc {A} (l : list A) x y : In y (l ++ [x]) <-> In y l \/ y = x.
Proof. rewrite in_app_iff. cbn. intuition. Qed.

Lemma skel_wlink st t b :
  Skel st -> getpc st t = WLocked b -> k_mutex st = Some (OClient t) ->
  Skel (with_pc (with_wl st (S (k_wlnext st)) (k_wllive st ++ [k_wlnext st])) t (WLinked b (k_wlnext st))).
Proof.
  intros Hsk Hpc Hm.
  set (st' := with_pc _ t _).
  assert (Oth : forall t', t' <> t -> w_locked (getpc st t') = false) by (intros; now apply (locked_excl st t)).
  assert (Fl : f_locked (k_fl st) = false) by now apply (flocked_client st t).
  assert (Gi : forall t', t' <> t -> w_idx (getpc st' t') = w_idx (getpc st t')).
  { intros t' Hne. unfold st'. autorewrite with kvs. destruct (Pos.eqb_spec t' t); [contradiction|reflexivity]. }
  assert (Gs : forall t', w_seq (getpc st' t') = w_seq (getpc st t')).
  { intros t'. unfold st'. autorewrite with kvs. destruct (Pos.eqb_spec t' t) as [->|]; [now rewrite Hpc|reflexivity]. }
  assert (Gt : getpc st' t = WLinked b (k_wlnext st)) by (unfold st'; apply getpc_with_pc_same).
  assert (Bnd : forall t' i, w_idx (getpc st t') = Some i -> (i < k_wlnext st)%nat).
  { intros t' i H. apply (sk_bound st Hsk), (sk_in_c st Hsk t' i H). }
  constructor; unfold st'; st_simpl; fold st'.
  - intros t'. case_t t' t; [intros _; exact Hm|]. unfold st'. autorewrite with kvs.
    destruct (Pos.eqb_spec t' t); [contradiction|]. rewrite (Oth t' E). discriminate.
  - rewrite Fl. discriminate.
  - apply (sk_vis st Hsk).
  - apply (sk_memseq st Hsk).
  - apply asc_snoc; [apply (sk_asc st Hsk)|apply (sk_bound st Hsk)].
  - intros i Hi. apply in_snoc in Hi. destruct Hi as [Hi| ->]; [|lia].
    pose proof (sk_bound st Hsk i Hi). lia.
  - intros t' i. case_t t' t.
    + rewrite Gt. cbn. intros H. inversion H. apply in_snoc. now right.
    + rewrite (Gi t' E). intros H. apply in_snoc. left. eapply (sk_in_c st Hsk); eauto.
  - intros i H. apply in_snoc. left. now apply (sk_in_f st Hsk).
  - intros t1 t2 i Hne. case_t t1 t; [|case_t t2 t].
    + rewrite Gt, (Gi t2) by congruence. cbn. intros H1 H2. inversion H1; subst.
      pose proof (Bnd t2 _ H2). lia.
    + rewrite Gt, (Gi t1) by congruence. cbn. intros H1 H2. inversion H2; subst.
      pose proof (Bnd t1 _ H1). lia.
    + rewrite (Gi t1), (Gi t2) by assumption. now apply (sk_uniq st Hsk).
  - intros t1 i. case_t t1 t.
    + rewrite Gt. cbn. intros H1 H2. inversion H1; subst.
      pose proof (sk_bound st Hsk _ (sk_in_f st Hsk _ H2)). lia.
    + rewrite (Gi t1 E). apply (sk_uniq_f st Hsk).
  - intros t1 s. rewrite Gs. apply (sk_seq_hi st Hsk).
  - intros t1 t2 i i' s s' Hne. rewrite !Gs. case_t t1 t; [rewrite Hpc; discriminate|].
    case_t t2 t; [intros _ _ _; rewrite Hpc; discriminate|].
    rewrite (Gi t1), (Gi t2) by assumption. now apply (sk_ord st Hsk).
  - intros t1 b' i. case_t t1 t.
    + rewrite Gt. intros H. inversion H. reflexivity.
    + unfold st'. autorewrite with kvs. destruct (Pos.eqb_spec t1 t); [contradiction|].
      intros Hp. assert (X : w_locked (getpc st t1) = true) by (rewrite Hp; reflexivity).
      rewrite (Oth t1 E) in X. discriminate.
  - intros t1 b' i s g. case_t t1 t; [rewrite Gt; discriminate|].
    unfold st'. autorewrite with kvs. destruct (Pos.eqb_spec t1 t); [contradiction|].
    intros Hp. assert (X : w_locked (getpc st t1) = true) by (rewrite Hp; reflexivity).
    rewrite (Oth t1 E) in X. discriminate.
  - intros trig g i Hf. rewrite Hf in Fl. discriminate.
Qed.

Lemma skel_wassign st t b i :
  Skel st -> getpc st t = WLinked b i -> k_mutex st = Some (OClient t) ->
  Skel (with_pc (with_seq st (k_seq st + 1)) t (WAssigned b i (k_seq st + 1))).
Proof.
  intros Hsk Hpc Hm.
  set (st' := with_pc _ t _).
  assert (Oth : forall t', t' <> t -> w_locked (getpc st t') = false) by (intros; now apply (locked_excl st t)).
  assert (Fl : f_locked (k_fl st) = false) by now apply (flocked_client st t).
  assert (Gi : forall t', w_idx (getpc st' t') = w_idx (getpc st t')).
  { intros t'. unfold st'. autorewrite with kvs. destruct (Pos.eqb_spec t' t) as [->|]; [now rewrite Hpc|reflexivity]. }
  assert (Gs : forall t', t' <> t -> w_seq (getpc st' t') = w_seq (getpc st t')).
  { intros t' Hne. unfold st'. autorewrite with kvs. destruct (Pos.eqb_spec t' t); [contradiction|reflexivity]. }
  assert (Gt : getpc st' t = WAssigned b i (k_seq st + 1)) by (unfold st'; apply getpc_with_pc_same).
  assert (Hnx : k_wlnext st = S i) by (eapply (sk_linked_last st Hsk); eauto).
  assert (Hti : w_idx (getpc st t) = Some i) by (rewrite Hpc; reflexivity).
  assert (Lt : forall t' i', t' <> t -> w_idx (getpc st t') = Some i' -> (i' < i)%nat).
  { intros t' i' Hne H. pose proof (sk_bound st Hsk _ (sk_in_c st Hsk t' i' H)) as Hb.
    assert (i' <> i) by (intros ->; eapply (sk_uniq st Hsk t' t i); eauto). lia. }
  pose proof (sk_vis st Hsk) as Hv. pose proof (sk_memseq st Hsk) as Hms.
  constructor; unfold st'; st_simpl; fold st'.
  - intros t'. case_t t' t; [intros _; exact Hm|]. unfold st'. autorewrite with kvs.
    destruct (Pos.eqb_spec t' t); [contradiction|]. rewrite (Oth t' E). discriminate.
  - rewrite Fl. discriminate.
  - lia.
  - lia.
  - apply (sk_asc st Hsk).
  - apply (sk_bound st Hsk).
  - intros t' j. rewrite Gi. apply (sk_in_c st Hsk).
  - apply (sk_in_f st Hsk).
  - intros t1 t2 j. rewrite !Gi. apply (sk_uniq st Hsk).
  - intros t1 j. rewrite Gi. apply (sk_uniq_f st Hsk).
  - intros t1 s. case_t t1 t.
    + rewrite Gt. cbn. intros H. inversion H. lia.
    + rewrite (Gs t1 E). intros H. pose proof (sk_seq_hi st Hsk t1 s H). lia.
  - intros t1 t2 j j' s s' Hne. rewrite !Gi. case_t t1 t; [|case_t t2 t].
    + rewrite Hti. intros H1 H2. inversion H1; subst j. pose proof (Lt t2 j' ltac:(congruence) H2). lia.
    + rewrite Hti, Gt, (Gs t1 E). cbn. intros H1 H2 H3 H4 _. inversion H4; subst s'.
      pose proof (sk_seq_hi st Hsk t1 s H3). lia.
    + rewrite (Gs t1 E), (Gs t2 E0). now apply (sk_ord st Hsk).
  - intros t1 b' j. case_t t1 t; [rewrite Gt; discriminate|].
    unfold st'. autorewrite with kvs. destruct (Pos.eqb_spec t1 t); [contradiction|].
    intros Hp. assert (X : w_locked (getpc st t1) = true) by (rewrite Hp; reflexivity).
    rewrite (Oth t1 E) in X. discriminate.
  - intros t1 b' j s g. case_t t1 t; [rewrite Gt; discriminate|].
    unfold st'. autorewrite with kvs. destruct (Pos.eqb_spec t1 t); [contradiction|].
    intros Hp. assert (X : w_locked (getpc st t1) = true) by (rewrite Hp; reflexivity).
    rewrite (Oth t1 E) in X. discriminate.
  - intros trig g j Hf. rewrite Hf in Fl. discriminate.
Qed.

(* the head publishes: every other writer in flight has a larger sequence number *)
Lemma head_is_min_seq st t b i s g t' s' :
  Skel st -> getpc st t = WHead b i s g -> t' <> t -> w_seq (getpc st t') = Some s' -> s < s'.
Proof.
  intros Hsk Hpc Hne Hs'.
  destruct (w_seq_has_idx _ _ Hs') as (i' & Hi').
  pose proof (sk_head_c st Hsk t b i s g Hpc) as Hh.
  pose proof (is_head_min st i (sk_asc st Hsk) Hh i' (sk_in_c st Hsk t' i' Hi')) as Hle.
  assert (Hti : w_idx (getpc st t) = Some i) by (rewrite Hpc; reflexivity).
  assert (i' <> i) by (intros ->; eapply (sk_uniq st Hsk t' t i); eauto).
  eapply (sk_ord st Hsk t t' i i' s s'); eauto; [rewrite Hpc; reflexivity|lia].
Qed.

Lemma skel_wpublish st t b i s g :
  Skel st -> getpc st t = WHead b i s g -> k_mutex st = Some (OClient t) ->
  Skel (with_pc (with_vis st s) t (WPublished b i s)).
Proof.
  intros Hsk Hpc Hm.
  set (st' := with_pc _ t _).
  assert (Oth : forall t', t' <> t -> w_locked (getpc st t') = false) by (intros; now apply (locked_excl st t)).
  assert (Fl : f_locked (k_fl st) = false) by now apply (flocked_client st t).
  assert (Gi : forall t', w_idx (getpc st' t') = w_idx (getpc st t')).
  { intros t'. unfold st'. autorewrite with kvs. destruct (Pos.eqb_spec t' t) as [->|]; [now rewrite Hpc|reflexivity]. }
  assert (Gs : forall t', t' <> t -> w_seq (getpc st' t') = w_seq (getpc st t')).
  { intros t' Hne. unfold st'. autorewrite with kvs. destruct (Pos.eqb_spec t' t); [contradiction|reflexivity]. }
  assert (Gt : getpc st' t = WPublished b i s) by (unfold st'; apply getpc_with_pc_same).
  assert (Hts : w_seq (getpc st t) = Some s) by (rewrite Hpc; reflexivity).
  pose proof (sk_seq_hi st Hsk t s Hts) as [Hlo Hhi].
  constructor; unfold st'; st_simpl; fold st'.
  - intros t'. case_t t' t; [intros _; exact Hm|]. unfold st'. autorewrite with kvs.
    destruct (Pos.eqb_spec t' t); [contradiction|]. rewrite (Oth t' E). discriminate.
  - rewrite Fl. discriminate.
  - exact Hhi.
  - apply (sk_memseq st Hsk).
  - apply (sk_asc st Hsk).
  - apply (sk_bound st Hsk).
  - intros t' j. rewrite Gi. apply (sk_in_c st Hsk).
  - apply (sk_in_f st Hsk).
  - intros t1 t2 j. rewrite !Gi. apply (sk_uniq st Hsk).
  - intros t1 j. rewrite Gi. apply (sk_uniq_f st Hsk).
  - intros t1 s1. case_t t1 t; [rewrite Gt; discriminate|].
    rewrite (Gs t1 E). intros H. pose proof (sk_seq_hi st Hsk t1 s1 H).
    pose proof (head_is_min_seq st t b i s g t1 s1 Hsk Hpc E H). lia.
  - intros t1 t2 j j' s1 s2 Hne. rewrite !Gi. case_t t1 t; [intros _ _; rewrite Gt; discriminate|].
    case_t t2 t; [intros _ _ _; rewrite Gt; discriminate|].
    rewrite (Gs t1 E), (Gs t2 E0). now apply (sk_ord st Hsk).
  - intros t1 b' j. case_t t1 t; [rewrite Gt; discriminate|].
    unfold st'. autorewrite with kvs. destruct (Pos.eqb_spec t1 t); [contradiction|].
    intros Hp. assert (X : w_locked (getpc st t1) = true) by (rewrite Hp; reflexivity).
    rewrite (Oth t1 E) in X. discriminate.
  - intros t1 b' j s1 g1. case_t t1 t; [rewrite Gt; discriminate|].
    unfold st'. autorewrite with kvs. destruct (Pos.eqb_spec t1 t); [contradiction|].
    intros Hp. assert (X : w_locked (getpc st t1) = true) by (rewrite Hp; reflexivity).
    rewrite (Oth t1 E) in X. discriminate.
  - intros trig g1 j Hf. rewrite Hf in Fl. discriminate.
Qed.

Lemma skel_wunlink st t i pnew :
  Skel st -> w_idx (getpc st t) = Some i -> k_mutex st = Some (OClient t) ->
  w_idx pnew = None -> w_seq pnew = None -> (forall b j, pnew <> WLinked b j) -> (forall b j s g, pnew <> WHead b j s g) ->
  Skel (with_pc (with_wl st (k_wlnext st) (unlink (k_wllive st) i)) t pnew).
Proof.
  intros Hsk Hti Hm Hni Hns HnL HnH.
  set (st' := with_pc _ t _).
  assert (Oth : forall t', t' <> t -> w_locked (getpc st t') = false) by (intros; now apply (locked_excl st t)).
  assert (Fl : f_locked (k_fl st) = false) by now apply (flocked_client st t).
  assert (Gi : forall t', t' <> t -> w_idx (getpc st' t') = w_idx (getpc st t')).
  { intros t' Hne. unfold st'. autorewrite with kvs. destruct (Pos.eqb_spec t' t); [contradiction|reflexivity]. }
  assert (Gs : forall t', t' <> t -> w_seq (getpc st' t') = w_seq (getpc st t')).
  { intros t' Hne. unfold st'. autorewrite with kvs. destruct (Pos.eqb_spec t' t); [contradiction|reflexivity]. }
  assert (Gt : getpc st' t = pnew) by (unfold st'; apply getpc_with_pc_same).
  constructor; unfold st'; st_simpl; fold st'.
  - intros t'. case_t t' t; [intros _; exact Hm|]. unfold st'. autorewrite with kvs.
    destruct (Pos.eqb_spec t' t); [contradiction|]. rewrite (Oth t' E). discriminate.
  - rewrite Fl. discriminate.
  - apply (sk_vis st Hsk).
  - apply (sk_memseq st Hsk).
  - apply asc_unlink, (sk_asc st Hsk).
  - intros j Hj. apply in_unlink in Hj. apply (sk_bound st Hsk). tauto.
  - intros t' j. case_t t' t; [rewrite Gt, Hni; discriminate|]. rewrite (Gi t' E). intros H.
    apply in_unlink. split; [eapply (sk_in_c st Hsk); eauto|].
    intros ->. eapply (sk_uniq st Hsk t' t i); eauto.
  - intros j H. apply in_unlink. split; [now apply (sk_in_f st Hsk)|].
    intros ->. eapply (sk_uniq_f st Hsk t i); eauto.
  - intros t1 t2 j Hne. case_t t1 t; [rewrite Gt, Hni; discriminate|]. case_t t2 t; [intros _; rewrite Gt, Hni; discriminate|].
    rewrite (Gi t1), (Gi t2) by assumption. now apply (sk_uniq st Hsk).
  - intros t1 j. case_t t1 t; [rewrite Gt, Hni; discriminate|]. rewrite (Gi t1 E). apply (sk_uniq_f st Hsk).
  - intros t1 s1. case_t t1 t; [rewrite Gt, Hns; discriminate|]. rewrite (Gs t1 E). apply (sk_seq_hi st Hsk).
  - intros t1 t2 j j' s1 s2 Hne. case_t t1 t; [rewrite Gt, Hni; discriminate|].
    case_t t2 t; [intros _; rewrite Gt, Hni; discriminate|].
    rewrite (Gi t1), (Gi t2), (Gs t1), (Gs t2) by assumption. now apply (sk_ord st Hsk).
  - intros t1 b' j. case_t t1 t; [rewrite Gt; intros X; exfalso; eapply HnL; eauto|].
    unfold st'. autorewrite with kvs. destruct (Pos.eqb_spec t1 t); [contradiction|].
    intros Hp. assert (X : w_locked (getpc st t1) = true) by (rewrite Hp; reflexivity).
    rewrite (Oth t1 E) in X. discriminate.
  - intros t1 b' j s1 g1. case_t t1 t; [rewrite Gt; intros X; exfalso; eapply HnH; eauto|].
    unfold st'. autorewrite with kvs. destruct (Pos.eqb_spec t1 t); [contradiction|].
    intros Hp. assert (X : w_locked (getpc st t1) = true) by (rewrite Hp; reflexivity).
    rewrite (Oth t1 E) in X. discriminate.
  - intros trig g1 j Hf. rewrite Hf in Fl. discriminate.
Qed.

(* steps of the flusher that touch counters or the wait list; no client is in a locked pc *)
Lemma skel_fl_gen st st' :
  Skel st -> k_mutex st = Some OFlusher -> k_mutex st' = Some OFlusher ->
  (forall t', getpc st' t' = getpc st t') ->
  k_vis st' = k_vis st -> k_seq st <= k_seq st' -> k_vis st' <= k_seq st' -> k_memseq st' < k_seq st' ->
  asc (k_wllive st') -> (forall i, In i (k_wllive st') -> (i < k_wlnext st')%nat) ->
  (forall t i, w_idx (getpc st t) = Some i -> In i (k_wllive st')) ->
  (forall i, f_idx (k_fl st') = Some i -> In i (k_wllive st')) ->
  (forall t i, w_idx (getpc st t) = Some i -> f_idx (k_fl st') = Some i -> False) ->
  (forall trig g i, k_fl st' = FHead trig g i -> is_head st' i = true) ->
  Skel st'.
Proof.
  intros Hsk Hm Hm' Hg Hv Hs Hvs Hms Ha Hb Hic Hif Huf Hh.
  assert (Oth : forall t', w_locked (getpc st t') = false) by (intros; now apply locked_flusher).
  constructor.
  - intros t'. rewrite Hg, Oth. discriminate.
  - intros _. exact Hm'.
  - exact Hvs.
  - exact Hms.
  - exact Ha.
  - exact Hb.
  - intros t i. rewrite Hg. apply Hic.
  - exact Hif.
  - intros t1 t2 i. rewrite !Hg. apply (sk_uniq st Hsk).
  - intros t1 i. rewrite Hg. apply Huf.
  - intros t1 s. rewrite Hg, Hv. intros H. pose proof (sk_seq_hi st Hsk t1 s H). lia.
  - intros t1 t2 i i' s s'. rewrite !Hg. apply (sk_ord st Hsk).
  - intros t1 b i. rewrite Hg. intros Hp.
    assert (X : w_locked (getpc st t1) = true) by (rewrite Hp; reflexivity). rewrite Oth in X. discriminate.
  - intros t1 b i s g. rewrite Hg. intros Hp.
    assert (X : w_locked (getpc st t1) = true) by (rewrite Hp; reflexivity). rewrite Oth in X. discriminate.
  - exact Hh.
Qed.

(* the flusher moves between two pcs that hold neither the mutex nor a wait-list index *)
Lemma skel_fl_free st st' f :
  Skel st ->
  k_mutex st' = k_mutex st -> k_seq st' = k_seq st -> k_vis st' = k_vis st -> k_memseq st' = k_memseq st ->
  k_wlnext st' = k_wlnext st -> k_wllive st' = k_wllive st -> k_fl st' = f ->
  (forall t', getpc st' t' = getpc st t') ->
  f_locked f = false -> f_idx f = None -> f_idx (k_fl st) = None -> Skel st'.
Proof.
  intros Hsk Hm Hs Hv Hms Hn Hl Hf Hg Hlk Hi Hi0.
  assert (Hhd : forall i, is_head st' i = is_head st i) by (intros i; unfold is_head; now rewrite Hl).
  constructor.
  - intros t'. rewrite Hg, Hm. apply (sk_mutex_c st Hsk).
  - rewrite Hf, Hlk. discriminate.
  - rewrite Hv, Hs. apply (sk_vis st Hsk).
  - rewrite Hms, Hs. apply (sk_memseq st Hsk).
  - rewrite Hl. apply (sk_asc st Hsk).
  - rewrite Hl, Hn. apply (sk_bound st Hsk).
  - intros t' i. rewrite Hg, Hl. apply (sk_in_c st Hsk).
  - rewrite Hf, Hi. discriminate.
  - intros t1 t2 i. rewrite !Hg. apply (sk_uniq st Hsk).
  - intros t1 i. rewrite Hf, Hi. discriminate.
  - intros t1 s. rewrite Hg, Hv, Hs. apply (sk_seq_hi st Hsk).
  - intros t1 t2 i i' s s'. rewrite !Hg. apply (sk_ord st Hsk).
  - intros t1 b i. rewrite Hg, Hn. apply (sk_linked_last st Hsk).
  - intros t1 b i s g. rewrite Hg, Hhd. apply (sk_head_c st Hsk).
  - intros trig g i. rewrite Hf. intros E. rewrite E in Hi. discriminate.
Qed.

Ltac mutex_tac Hsk t :=
  eapply (skel_mutex_step _ _ t);
  [exact Hsk|reflexivity|reflexivity|reflexivity|reflexivity|reflexivity|reflexivity
  |intros ?; autorewrite with kvs; reflexivity|..];
  match goal with Hpc : getpc _ t = _ |- _ => rewrite ?Hpc end; st_simpl; try reflexivity; auto;
  try (intros; discriminate).

Ltac fl_tac Hsk f :=
  eapply (skel_fl_step _ _ f);
  [exact Hsk|reflexivity|reflexivity|reflexivity|reflexivity|reflexivity|reflexivity
  |intros ?; reflexivity|..];
  match goal with Hfl : k_fl _ = _ |- _ => rewrite ?Hfl end; st_simpl; try reflexivity; auto;
  try (intros; discriminate).

Theorem skel_step st l st' : Skel st -> step st l = Some st' -> Skel st'.
Proof.
  intros Hsk H. destruct l; inv_step H.
  - (* LInvW *) inversion H; subst st'. frame_tac Hsk t.
  - (* LWLock *) inv_guard H. subst st'. apply free_none in Hg. mutex_tac Hsk t.
  - (* LWLink *) inv_guard H. subst st'. apply holds_client in Hg0. now apply skel_wlink.
  - (* LWAssign *) inv_guard H. subst st'. apply holds_client in Hg0. now apply skel_wassign.
  - (* LWPick *) inv_guard H. subst st'. destruct full; frame_tac Hsk t.
  - (* LWUnlock *) inv_guard H. subst st'. apply holds_client in Hg. mutex_tac Hsk t.
  - (* LWLog *) inversion H; subst st'. frame_tac Hsk t.
  - (* LWInsert *) destruct (nth_error b i); [|discriminate]. inversion H; subst st'. frame_tac Hsk t.
  - (* LWDrop *) inv_guard H. subst st'. frame_tac Hsk t.
  - (* LWLock2 *) inv_guard H. subst st'. apply free_none in Hg. mutex_tac Hsk t.
  - (* LWHead *) inv_guard H. subst st'. apply holds_client in Hg0. apply eqb_prop in Hg. destruct h.
    + mutex_tac Hsk t. intros b' i s' g' E. inversion E; subst. now symmetry.
    + mutex_tac Hsk t.
  - (* LWWake *) inv_guard H. subst st'. apply free_none in Hg. mutex_tac Hsk t.
  - (* LWPublish *) inv_guard H. subst st'. apply holds_client in Hg0. eapply skel_wpublish; eassumption.
  - (* LWUnlink *) inv_guard H. subst st'. apply holds_client in Hg.
    apply skel_wunlink; auto; try (rewrite Hpc; reflexivity); intros; discriminate.
  - (* LWRet *) inv_guard H. subst st'. apply holds_client in Hg. mutex_tac Hsk t.
  - (* LWFail *) inversion H; subst st'. frame_tac Hsk t.
  - (* LWLockF *) inv_guard H. subst st'. apply free_none in Hg. mutex_tac Hsk t.
  - (* LWUnlinkF *) inv_guard H. subst st'. apply holds_client in Hg.
    apply skel_wunlink; auto; try (rewrite Hpc; reflexivity); intros; discriminate.
  - (* LWRetF *) inv_guard H. subst st'. apply holds_client in Hg. mutex_tac Hsk t.
  - (* LInvR *) inversion H; subst st'. frame_tac Hsk t.
  - (* LSnap *) inv_guard H. subst st'. destruct q; frame_tac Hsk t.
  - (* LRMem *) inv_guard H. subst st'.
    destruct (mt_load _ k (sn_ts sn)); [|destruct (sn_imm sn)]; frame_tac Hsk t.
  - (* LRImm *) inv_guard H. subst st'.
    destruct (match imm_ents st sn with Some i => mt_load i k (sn_ts sn) | None => None end); frame_tac Hsk t.
  - (* LRTree *) inv_guard H. subst st'. frame_tac Hsk t.
  - (* LRetGet *) inv_guard H. subst st'. frame_tac Hsk t.
  - (* LScanNext *) inv_guard H. subst st'. frame_tac Hsk t.
  - (* LRetScan *) inversion H; subst st'. frame_tac Hsk t.
  - (* LFLock *) inv_guard H. subst st'. apply free_none in Hg. fl_tac Hsk FLocked.
  - (* LFWait *) inv_guard H. subst st'. apply holds_flusher in Hg0. fl_tac Hsk FIdle.
  - (* LFRollover *) inv_guard H. subst st'. apply holds_flusher in Hg0.
    pose proof (sk_vis st Hsk). pose proof (sk_memseq st Hsk).
    eapply (skel_fl_gen st); try reflexivity; st_simpl; try exact Hsk; try exact Hg0; try lia.
    + apply (sk_asc st Hsk).
    + apply (sk_bound st Hsk).
    + apply (sk_in_c st Hsk).
    + intros; discriminate.
    + intros; discriminate.
    + intros; discriminate.
  - (* LFLink *) inv_guard H. subst st'. apply holds_flusher in Hg0.
    pose proof (sk_vis st Hsk). pose proof (sk_memseq st Hsk).
    eapply (skel_fl_gen st); try reflexivity; st_simpl; try exact Hsk; try exact Hg0; try lia.
    + apply asc_snoc; [apply (sk_asc st Hsk)|apply (sk_bound st Hsk)].
    + intros i Hi. apply in_snoc in Hi. destruct Hi as [Hi| ->]; [|lia].
      pose proof (sk_bound st Hsk i Hi). lia.
    + intros t i Hi. apply in_snoc. left. eapply (sk_in_c st Hsk); eauto.
    + cbn. intros i Hi. inversion Hi. apply in_snoc. now right.
    + cbn. intros t i Hi Hi'. inversion Hi'; subst.
      pose proof (sk_bound st Hsk _ (sk_in_c st Hsk t _ Hi)). lia.
    + intros; discriminate.
  - (* LFHead *) inv_guard H. subst st'. apply holds_flusher in Hg0. apply eqb_prop in Hg. destruct h.
    + fl_tac Hsk (FHead trig g idx). intros trig' g' i E. inversion E; subst. now symmetry.
    + fl_tac Hsk (FParked trig g idx).
  - (* LFWake *) inv_guard H. subst st'. apply free_none in Hg. fl_tac Hsk (FLinked trig g idx).
  - (* LFUnlink *) inv_guard H. subst st'. apply holds_flusher in Hg.
    pose proof (sk_vis st Hsk). pose proof (sk_memseq st Hsk).
    eapply (skel_fl_gen st); try reflexivity; st_simpl; try exact Hsk; try exact Hg; try lia.
    + apply asc_unlink, (sk_asc st Hsk).
    + intros j Hj. apply in_unlink in Hj. apply (sk_bound st Hsk). tauto.
    + intros t i Hi. apply in_unlink. split; [eapply (sk_in_c st Hsk); eauto|].
      intros ->. eapply (sk_uniq_f st Hsk t idx); eauto. rewrite Hfl. reflexivity.
    + intros; discriminate.
    + intros; discriminate.
    + intros; discriminate.
  - (* LFUnlock *) inv_guard H. subst st'. apply holds_flusher in Hg. fl_tac Hsk (FSealing trig g).
  - (* LFSeal *) inversion H; subst st'. eapply (skel_fl_free st); try reflexivity; try exact Hsk. now rewrite Hfl.
  - (* LFInstall *) inversion H; subst st'. eapply (skel_fl_free st); try reflexivity; try exact Hsk. now rewrite Hfl.
  - (* LFLock2 *) inv_guard H. subst st'. apply free_none in Hg. fl_tac Hsk (FLocked2 trig g).
  - (* LFClear *) inv_guard H. subst st'. apply holds_flusher in Hg. fl_tac Hsk FIdle.
  - (* LTrigger *) unfold step in H. inv_guard H. subst st'. eapply (skel_frame0 st); try reflexivity; exact Hsk.
  - (* LCompact *) unfold step in H. inv_guard H. subst st'. eapply (skel_frame0 st); try reflexivity; exact Hsk.
Qed.
