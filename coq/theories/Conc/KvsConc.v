(* Conc/KvsConc.v — small-step interleaving model of the concurrent paths of the lsmtk key-value
   store (lsmtk/src/kvs/mod.rs, lsmtk/src/kvs/memtable.rs) on top of the Lsm tree model.
   Definitions only.

   What is transcribed from the Rust (function by function, in the order of its effects):
     KeyValueStore::write       lock state; wait_list.link; seq_no += 1; (memtable full -> rollover_memtable);
                                clone mem / mem_log; unlock; log.append; MemTable::write (one skiplist
                                insert per entry); drop(memtable), drop(log); lock; while !is_head
                                naked_wait; visible_seq_no = seq_no (the repair of F6, commit 70b43d5);
                                drop(wait_guard); notify_head; return (unlock)
     KeyValueStore::load        one critical section: mem, imm, tree.take_snapshot, visible_seq_no;
                                then mem.load, imm.load, version.load, first hit wins (a tombstone is a hit)
     KeyValueStore::range_scan  the same snapshot; the merged + pruned + bounded cursor is modelled by
                                its result: the next key after the cursor position whose newest
                                version not newer than the timestamp is a put (the cursor stack itself
                                is C11/C03/C07)
     KeyValueStore::_memtable_thread   lock; while imm_trigger < mem_seq_no wait; imm = mem; mem = new;
                                mem_seq_no = seq_no; seq_no += 1; wait_list.link; while !is_head
                                naked_wait; drop(guard); notify_head; unlock; seal the log (must be the
                                sole owner); build the sst from imm; tree._ingest (version installation);
                                lock; imm = None; imm_trigger = ...; unlock
     MemTable::write / load     SkipList::insert keeps (key ascending, timestamp descending) order;
                                load seeks to (key, timestamp) and tests the key of the node found
     WriteBatch de-duplication  (commit e9a5d1d) keep the last write to each key
   Steps of the machine are the labels below; one label = one atomic step of one thread.  The state
   mutex is explicit (k_mutex); a step that needs it is enabled only for its holder.  Condition
   variables: a waiting thread may wake at any time the mutex is free (spurious wake-ups allowed),
   so notifications do not appear in this (safety) model.  The memory model is sequential
   consistency; skiplist insert and seek are atomic (their own concurrency is C17).
   The wait list is modelled at the level of its specification (Sync42.ModelWaitList.wspec, proved
   to be refined by the ring implementation in C18_waitlist_refines_spec): the linked indices in
   link order; the head is the oldest.  `link` never blocks here (fewer than MAX_CONCURRENCY = 65536
   writers in flight).
   Inputs (oracles) of the model, carried by the labels: whether the memtable is full when a writer
   looks (approximate_size is a relaxed counter), file ids and sizes, which compaction runs and how
   its outputs are cut (must be admissible: Lsm.Model.valid_compactionb, and the outputs the sorted
   merge of the inputs: outputs_okb — what Lsm.History.acceptedb asks of an OCompact step). *)
From Coq Require Import NArith List Bool Arith PArith FMapPositive.
From Blue Require Import Gen.Const_Lsm Lsm.Model Lsm.History.
Import ListNotations.
Open Scope N_scope.

Definition tid := positive.
Definition value := option (list N).           (* None = tombstone *)
Definition batch := list (key * value).

(* WriteBatch de-duplication in KeyValueStore::write: keep[idx] = "no later entry has this key" *)
Fixpoint dedupe (b : batch) : batch :=
  match b with
  | [] => []
  | kv :: r => if existsb (key_eqb (fst kv)) (map fst r) then dedupe r else kv :: dedupe r
  end.

Definition entries_of (s : N) (b : batch) : list entry := map (fun kv => mkE (fst kv) s (snd kv)) b.

(* ---- memtable: the skiplist as its sorted node list, and the log it is paired with ---- *)
Record memtable := mkMt { mt_ents : list entry; mt_log : list (N * batch) }.
Definition empty_mt := mkMt [] [].

(* SkipListIterator::seek(Key{key,timestamp}) followed by the key test of MemTable::load *)
Definition seek_ge (k : key) (t : N) (e : entry) : bool := entry_leb (mkE k t None) e.
Definition mt_load (es : list entry) (k : key) (t : N) : option entry :=
  match find (seek_ge k t) es with
  | Some e => if key_eqb (ek e) k then Some e else None
  | None => None
  end.

(* ---- thread-local state ---- *)
Inductive rquery := QGet (k : key) | QScan (lo hi : option key).    (* inclusive bounds *)

Record snap := mkSnap { sn_ts : N; sn_mem : nat; sn_imm : option nat; sn_ver : version }.

Inductive pc :=
| Idle
(* write *)
| WInvoked (b : batch)
| WLocked (b : batch)
| WLinked (b : batch) (idx : nat)
| WAssigned (b : batch) (idx : nat) (s : N)
| WPicked (b : batch) (idx : nat) (s : N) (g : nat)
| WAppending (b : batch) (idx : nat) (s : N) (g : nat)
| WInserting (b : batch) (idx : nat) (s : N) (g : nat) (i : nat)
| WDropped (b : batch) (idx : nat) (s : N) (g : nat)
| WLocked2 (b : batch) (idx : nat) (s : N) (g : nat)
| WParked (b : batch) (idx : nat) (s : N) (g : nat)
| WHead (b : batch) (idx : nat) (s : N) (g : nat)
| WPublished (b : batch) (idx : nat) (s : N)
| WUnlinked (b : batch) (s : N)
(* write, error path: the log refused the batch (empty, oversized, I/O error) *)
| WFailed (b : batch) (idx : nat) (s : N)
| WFailedL (b : batch) (idx : nat) (s : N)
| WFailedU (b : batch) (s : N)
(* load / range_scan *)
| RInvoked (q : rquery)
| RGetMem (k : key) (sn : snap)
| RGetImm (k : key) (sn : snap)
| RGetTree (k : key) (sn : snap)
| RGot (k : key) (r : option entry)
| RScanning (lo hi : option key) (sn : snap) (last : option key).

Inductive fpc :=
| FIdle
| FLocked
| FRolled (trig : N) (g : nat)
| FLinked (trig : N) (g : nat) (idx : nat)
| FParked (trig : N) (g : nat) (idx : nat)
| FHead (trig : N) (g : nat) (idx : nat)
| FUnlinked (trig : N) (g : nat)
| FSealing (trig : N) (g : nat)
| FBuilt (trig : N) (g : nat)
| FInstalled (trig : N) (g : nat)
| FLocked2 (trig : N) (g : nat).

Inductive owner := OClient (t : tid) | OFlusher.

Record state := mkSt {
  k_mutex : option owner;       (* KeyValueStore.state (the Mutex) *)
  k_seq : N;                    (* state.seq_no: last assigned *)
  k_vis : N;                    (* state.visible_seq_no: last completed; the read timestamp *)
  k_trig : N;                   (* state.imm_trigger *)
  k_memseq : N;                 (* state.mem_seq_no *)
  k_cur : nat;                  (* generation of state.mem *)
  k_imm : option nat;           (* generation of state.imm *)
  k_mems : list memtable;       (* every memtable generation ever created (an Arc keeps a memtable
                                   alive for the readers and writers that still hold it) *)
  k_tree : version;             (* the tree's current version *)
  k_wlnext : nat;               (* wait list: next index *)
  k_wllive : list nat;          (* wait list: linked indices, oldest first *)
  k_pcs : PositiveMap.t pc;     (* client threads *)
  k_fl : fpc                    (* the memtable (flush) thread *)
}.

Definition getpc (st : state) (t : tid) : pc :=
  match PositiveMap.find t (k_pcs st) with Some p => p | None => Idle end.
Definition mem_at (st : state) (g : nat) : memtable := nth g (k_mems st) empty_mt.

Definition with_pc (st : state) (t : tid) (p : pc) : state :=
  mkSt (k_mutex st) (k_seq st) (k_vis st) (k_trig st) (k_memseq st) (k_cur st) (k_imm st) (k_mems st)
       (k_tree st) (k_wlnext st) (k_wllive st) (PositiveMap.add t p (k_pcs st)) (k_fl st).
Definition with_mutex (st : state) (m : option owner) : state :=
  mkSt m (k_seq st) (k_vis st) (k_trig st) (k_memseq st) (k_cur st) (k_imm st) (k_mems st)
       (k_tree st) (k_wlnext st) (k_wllive st) (k_pcs st) (k_fl st).
Definition with_fl (st : state) (f : fpc) : state :=
  mkSt (k_mutex st) (k_seq st) (k_vis st) (k_trig st) (k_memseq st) (k_cur st) (k_imm st) (k_mems st)
       (k_tree st) (k_wlnext st) (k_wllive st) (k_pcs st) f.
Definition with_wl (st : state) (nx : nat) (lv : list nat) : state :=
  mkSt (k_mutex st) (k_seq st) (k_vis st) (k_trig st) (k_memseq st) (k_cur st) (k_imm st) (k_mems st)
       (k_tree st) nx lv (k_pcs st) (k_fl st).
Definition with_seq (st : state) (s : N) : state :=
  mkSt (k_mutex st) s (k_vis st) (k_trig st) (k_memseq st) (k_cur st) (k_imm st) (k_mems st)
       (k_tree st) (k_wlnext st) (k_wllive st) (k_pcs st) (k_fl st).
Definition with_vis (st : state) (v : N) : state :=
  mkSt (k_mutex st) (k_seq st) v (k_trig st) (k_memseq st) (k_cur st) (k_imm st) (k_mems st)
       (k_tree st) (k_wlnext st) (k_wllive st) (k_pcs st) (k_fl st).
Definition with_trig (st : state) (v : N) : state :=
  mkSt (k_mutex st) (k_seq st) (k_vis st) v (k_memseq st) (k_cur st) (k_imm st) (k_mems st)
       (k_tree st) (k_wlnext st) (k_wllive st) (k_pcs st) (k_fl st).
Definition with_mems (st : state) (ms : list memtable) : state :=
  mkSt (k_mutex st) (k_seq st) (k_vis st) (k_trig st) (k_memseq st) (k_cur st) (k_imm st) ms
       (k_tree st) (k_wlnext st) (k_wllive st) (k_pcs st) (k_fl st).
Definition with_tree (st : state) (v : version) : state :=
  mkSt (k_mutex st) (k_seq st) (k_vis st) (k_trig st) (k_memseq st) (k_cur st) (k_imm st) (k_mems st)
       v (k_wlnext st) (k_wllive st) (k_pcs st) (k_fl st).

(* rollover_memtable: imm_trigger = max(imm_trigger, mem_seq_no) *)
Definition do_trigger (st : state) : state := with_trig st (N.max (k_trig st) (k_memseq st)).

(* the rollover of _memtable_thread, between its wait and its link *)
Definition do_rollover (st : state) : state :=
  mkSt (k_mutex st) (k_seq st + 1) (k_vis st) (k_trig st) (k_seq st) (length (k_mems st)) (Some (k_cur st))
       (k_mems st ++ [empty_mt]) (k_tree st) (k_wlnext st) (k_wllive st) (k_pcs st) (k_fl st).

Definition set_imm (st : state) (i : option nat) : state :=
  mkSt (k_mutex st) (k_seq st) (k_vis st) (k_trig st) (k_memseq st) (k_cur st) i (k_mems st)
       (k_tree st) (k_wlnext st) (k_wllive st) (k_pcs st) (k_fl st).

Definition upd_mem (st : state) (g : nat) (m : memtable) : state := with_mems st (set_nth g m (k_mems st)).

Definition is_head (st : state) (idx : nat) : bool :=
  match k_wllive st with i :: _ => Nat.eqb i idx | [] => false end.
Definition unlink (lv : list nat) (idx : nat) : list nat := filter (fun i => negb (Nat.eqb i idx)) lv.

(* ---- reads ---- *)
Definition imm_ents (st : state) (sn : snap) : option (list entry) :=
  match sn_imm sn with Some g => Some (mt_ents (mem_at st g)) | None => None end.

(* KeyValueStore::load as one function of the three components *)
Definition read_point (m : list entry) (im : option (list entry)) (v : version) (k : key) (t : N) : option entry :=
  match mt_load m k t with
  | Some e => Some e
  | None =>
      match match im with Some i => mt_load i k t | None => None end with
      | Some e => Some e
      | None => load_version v k t
      end
  end.

Definition result_of (r : option entry) : option value :=
  match r with Some e => Some (ev e) | None => None end.

(* the scan cursor: the smallest key after `last` within the bounds whose visible version is a put *)
Definition in_bounds (lo hi : option key) (k : key) : bool :=
  match lo with Some l => key_leb l k | None => true end &&
  match hi with Some h => key_leb k h | None => true end.
Definition after (last : option key) (k : key) : bool :=
  match last with Some l => key_ltb l k | None => true end.
Definition comp_keys (m : list entry) (im : option (list entry)) (v : version) : list key :=
  map ek m ++ map ek (match im with Some i => i | None => [] end) ++ map ek (file_entries v).
Fixpoint min_key (ks : list key) : option key :=
  match ks with
  | [] => None
  | k :: r => match min_key r with Some k' => if key_leb k k' then Some k else Some k' | None => Some k end
  end.
Definition live_at (m : list entry) (im : option (list entry)) (v : version) (t : N) (k : key) : option (list N) :=
  match read_point m im v k t with Some e => ev e | None => None end.
(* candidate keys without repetitions (a memtable holds many versions of a key) *)
Fixpoint dedupk (ks : list key) : list key :=
  match ks with
  | [] => []
  | k :: r => if existsb (key_eqb k) r then dedupk r else k :: dedupk r
  end.
Definition scan_next (m : list entry) (im : option (list entry)) (v : version) (t : N)
                     (lo hi last : option key) : option (key * list N) :=
  let cands := filter (fun k => if in_bounds lo hi k then
                                  if after last k then
                                    match live_at m im v t k with Some _ => true | None => false end
                                  else false
                                else false)
                      (dedupk (comp_keys m im v)) in
  match min_key cands with
  | Some k => match live_at m im v t k with Some x => Some (k, x) | None => None end
  | None => None
  end.

(* ---- labels: one atomic step of one thread ---- *)
Inductive label :=
| LInvW (t : tid) (b : batch)
| LWLock (t : tid)
| LWLink (t : tid) (idx : nat)
| LWAssign (t : tid) (s : N)
| LWPick (t : tid) (full : bool)
| LWUnlock (t : tid)
| LWLog (t : tid)
| LWInsert (t : tid)
| LWDrop (t : tid)
| LWLock2 (t : tid)
| LWHead (t : tid) (h : bool)
| LWWake (t : tid)
| LWPublish (t : tid) (s : N)
| LWUnlink (t : tid)
| LWRet (t : tid)
| LWFail (t : tid)
| LWLockF (t : tid)
| LWUnlinkF (t : tid)
| LWRetF (t : tid)
| LInvR (t : tid) (q : rquery)
| LSnap (t : tid) (ts : N)
| LRMem (t : tid) (hit : bool)
| LRImm (t : tid) (hit : bool)
| LRTree (t : tid) (hit : bool)
| LRetGet (t : tid) (r : option value)
| LScanNext (t : tid) (kv : option (key * list N))
| LRetScan (t : tid)
| LFLock
| LFWait
| LFRollover
| LFLink (idx : nat)
| LFHead (h : bool)
| LFWake
| LFUnlink
| LFUnlock
| LFSeal
| LFInstall (fid fsz : N)
| LFLock2
| LFClear
| LTrigger
| LCompact (c : compaction) (outs : list file).

Definition value_eqb (a b : value) : bool :=
  match a, b with None, None => true | Some p, Some q => key_eqb p q | _, _ => false end.
Definition ovalue_eqb (a b : option value) : bool :=
  match a, b with None, None => true | Some p, Some q => value_eqb p q | _, _ => false end.
Definition okv_eqb (a b : option (key * list N)) : bool :=
  match a, b with
  | None, None => true
  | Some (k1, v1), Some (k2, v2) => key_eqb k1 k2 && key_eqb v1 v2
  | _, _ => false
  end.
Definition is_some {A} (o : option A) : bool := match o with Some _ => true | None => false end.

Definition holds (st : state) (o : owner) : bool :=
  match k_mutex st, o with
  | Some (OClient a), OClient b => Pos.eqb a b
  | Some OFlusher, OFlusher => true
  | _, _ => false
  end.
Definition free (st : state) : bool := match k_mutex st with None => true | Some _ => false end.

Definition guard (c : bool) (st : state) : option state := if c then Some st else None.

(* does any thread other than the flusher still hold the Arc of this memtable's log?  (only used to
   state the theorem about LFSeal; the step itself does not look) *)

Definition step (st : state) (l : label) : option state :=
  match l with
  (* ---------------------------------------------------------------- write *)
  | LInvW t b =>
      match getpc st t with Idle => Some (with_pc st t (WInvoked (dedupe b))) | _ => None end
  | LWLock t =>
      match getpc st t with
      | WInvoked b => guard (free st) (with_pc (with_mutex st (Some (OClient t))) t (WLocked b))
      | _ => None
      end
  | LWLink t idx =>
      match getpc st t with
      | WLocked b =>
          guard (holds st (OClient t) && Nat.eqb idx (k_wlnext st))
                (with_pc (with_wl st (S (k_wlnext st)) (k_wllive st ++ [k_wlnext st])) t (WLinked b (k_wlnext st)))
      | _ => None
      end
  | LWAssign t s =>
      match getpc st t with
      | WLinked b idx =>
          guard (holds st (OClient t) && (s =? k_seq st + 1))
                (with_pc (with_seq st (k_seq st + 1)) t (WAssigned b idx (k_seq st + 1)))
      | _ => None
      end
  | LWPick t full =>
      match getpc st t with
      | WAssigned b idx s =>
          guard (holds st (OClient t))
                (with_pc (if full then do_trigger st else st) t (WPicked b idx s (k_cur st)))
      | _ => None
      end
  | LWUnlock t =>
      match getpc st t with
      | WPicked b idx s g => guard (holds st (OClient t)) (with_pc (with_mutex st None) t (WAppending b idx s g))
      | _ => None
      end
  | LWLog t =>
      match getpc st t with
      | WAppending b idx s g =>
          let m := mem_at st g in
          Some (with_pc (upd_mem st g (mkMt (mt_ents m) (mt_log m ++ [(s, b)]))) t (WInserting b idx s g 0))
      | _ => None
      end
  | LWInsert t =>
      match getpc st t with
      | WInserting b idx s g i =>
          match nth_error b i with
          | Some kv =>
              let m := mem_at st g in
              Some (with_pc (upd_mem st g (mkMt (insert_entry (mkE (fst kv) s (snd kv)) (mt_ents m)) (mt_log m)))
                            t (WInserting b idx s g (S i)))
          | None => None
          end
      | _ => None
      end
  | LWDrop t =>
      match getpc st t with
      | WInserting b idx s g i => guard (Nat.eqb i (length b)) (with_pc st t (WDropped b idx s g))
      | _ => None
      end
  | LWLock2 t =>
      match getpc st t with
      | WDropped b idx s g => guard (free st) (with_pc (with_mutex st (Some (OClient t))) t (WLocked2 b idx s g))
      | _ => None
      end
  | LWHead t h =>
      match getpc st t with
      | WLocked2 b idx s g =>
          guard (holds st (OClient t) && Bool.eqb h (is_head st idx))
                (if h then with_pc st t (WHead b idx s g)
                 else with_pc (with_mutex st None) t (WParked b idx s g))    (* naked_wait *)
      | _ => None
      end
  | LWWake t =>
      match getpc st t with
      | WParked b idx s g => guard (free st) (with_pc (with_mutex st (Some (OClient t))) t (WLocked2 b idx s g))
      | _ => None
      end
  | LWPublish t s' =>
      match getpc st t with
      | WHead b idx s g =>
          guard (holds st (OClient t) && (s' =? s)) (with_pc (with_vis st s) t (WPublished b idx s))
      | _ => None
      end
  | LWUnlink t =>
      match getpc st t with
      | WPublished b idx s =>
          guard (holds st (OClient t))
                (with_pc (with_wl st (k_wlnext st) (unlink (k_wllive st) idx)) t (WUnlinked b s))
      | _ => None
      end
  | LWRet t =>
      match getpc st t with
      | WUnlinked b s => guard (holds st (OClient t)) (with_pc (with_mutex st None) t Idle)
      | _ => None
      end
  (* the error path of write (commit bb64109): log.append (or the conversion of the batch) fails
     before anything is inserted; the refs are dropped, the store mutex is taken, the guard is
     dropped WITHOUT waiting to be the head and WITHOUT publishing, the head is notified *)
  | LWFail t =>
      match getpc st t with
      | WAppending b idx s g => Some (with_pc st t (WFailed b idx s))
      | _ => None
      end
  | LWLockF t =>
      match getpc st t with
      | WFailed b idx s => guard (free st) (with_pc (with_mutex st (Some (OClient t))) t (WFailedL b idx s))
      | _ => None
      end
  | LWUnlinkF t =>
      match getpc st t with
      | WFailedL b idx s =>
          guard (holds st (OClient t))
                (with_pc (with_wl st (k_wlnext st) (unlink (k_wllive st) idx)) t (WFailedU b s))
      | _ => None
      end
  | LWRetF t =>
      match getpc st t with
      | WFailedU b s => guard (holds st (OClient t)) (with_pc (with_mutex st None) t Idle)
      | _ => None
      end
  (* ---------------------------------------------------------------- load / range_scan *)
  | LInvR t q =>
      match getpc st t with Idle => Some (with_pc st t (RInvoked q)) | _ => None end
  | LSnap t ts =>
      match getpc st t with
      | RInvoked q =>
          let sn := mkSnap (k_vis st) (k_cur st) (k_imm st) (k_tree st) in
          guard (free st && (ts =? k_vis st))
                (with_pc st t (match q with QGet k => RGetMem k sn | QScan lo hi => RScanning lo hi sn None end))
      | _ => None
      end
  | LRMem t h =>
      match getpc st t with
      | RGetMem k sn =>
          let r := mt_load (mt_ents (mem_at st (sn_mem sn))) k (sn_ts sn) in
          guard (Bool.eqb h (is_some r))
                (with_pc st t (match r with
                               | Some e => RGot k (Some e)
                               | None => match sn_imm sn with Some _ => RGetImm k sn | None => RGetTree k sn end
                               end))
      | _ => None
      end
  | LRImm t h =>
      match getpc st t with
      | RGetImm k sn =>
          let r := match imm_ents st sn with Some i => mt_load i k (sn_ts sn) | None => None end in
          guard (Bool.eqb h (is_some r))
                (with_pc st t (match r with Some e => RGot k (Some e) | None => RGetTree k sn end))
      | _ => None
      end
  | LRTree t h =>
      match getpc st t with
      | RGetTree k sn =>
          let r := load_version (sn_ver sn) k (sn_ts sn) in
          guard (Bool.eqb h (is_some r)) (with_pc st t (RGot k r))
      | _ => None
      end
  | LRetGet t r =>
      match getpc st t with
      | RGot k e => guard (ovalue_eqb r (result_of e)) (with_pc st t Idle)
      | _ => None
      end
  | LScanNext t kv =>
      match getpc st t with
      | RScanning lo hi sn last =>
          let r := scan_next (mt_ents (mem_at st (sn_mem sn))) (imm_ents st sn) (sn_ver sn) (sn_ts sn) lo hi last in
          guard (okv_eqb kv r)
                (with_pc st t (RScanning lo hi sn (match r with Some (k, _) => Some k | None => last end)))
      | _ => None
      end
  | LRetScan t =>
      match getpc st t with
      | RScanning _ _ _ _ => Some (with_pc st t Idle)
      | _ => None
      end
  (* ---------------------------------------------------------------- _memtable_thread *)
  | LFLock =>
      match k_fl st with
      | FIdle => guard (free st) (with_fl (with_mutex st (Some OFlusher)) FLocked)
      | _ => None
      end
  | LFWait =>
      match k_fl st with
      | FLocked => guard (holds st OFlusher && (k_trig st <? k_memseq st)) (with_fl (with_mutex st None) FIdle)
      | _ => None
      end
  | LFRollover =>
      match k_fl st with
      | FLocked =>
          guard (holds st OFlusher && negb (k_trig st <? k_memseq st))
                (with_fl (do_rollover st) (FRolled (k_memseq st) (k_cur st)))
      | _ => None
      end
  | LFLink idx =>
      match k_fl st with
      | FRolled trig g =>
          guard (holds st OFlusher && Nat.eqb idx (k_wlnext st))
                (with_fl (with_wl st (S (k_wlnext st)) (k_wllive st ++ [k_wlnext st])) (FLinked trig g (k_wlnext st)))
      | _ => None
      end
  | LFHead h =>
      match k_fl st with
      | FLinked trig g idx =>
          guard (holds st OFlusher && Bool.eqb h (is_head st idx))
                (if h then with_fl st (FHead trig g idx) else with_fl (with_mutex st None) (FParked trig g idx))
      | _ => None
      end
  | LFWake =>
      match k_fl st with
      | FParked trig g idx => guard (free st) (with_fl (with_mutex st (Some OFlusher)) (FLinked trig g idx))
      | _ => None
      end
  | LFUnlink =>
      match k_fl st with
      | FHead trig g idx =>
          guard (holds st OFlusher) (with_fl (with_wl st (k_wlnext st) (unlink (k_wllive st) idx)) (FUnlinked trig g))
      | _ => None
      end
  | LFUnlock =>
      match k_fl st with
      | FUnlinked trig g => guard (holds st OFlusher) (with_fl (with_mutex st None) (FSealing trig g))
      | _ => None
      end
  | LFSeal =>
      match k_fl st with
      | FSealing trig g => Some (with_fl st (FBuilt trig g))
      | _ => None
      end
  | LFInstall fid fsz =>
      match k_fl st with
      | FBuilt trig g =>
          Some (with_fl (with_tree st (ver (flush (mkS (mt_ents (mem_at st g)) (k_tree st) 0) fid fsz))) (FInstalled trig g))
      | _ => None
      end
  | LFLock2 =>
      match k_fl st with
      | FInstalled trig g => guard (free st) (with_fl (with_mutex st (Some OFlusher)) (FLocked2 trig g))
      | _ => None
      end
  | LFClear =>
      match k_fl st with
      | FLocked2 trig g =>
          guard (holds st OFlusher) (with_fl (with_mutex (with_trig (set_imm st None) trig) None) FIdle)
      | _ => None
      end
  (* ---------------------------------------------------------------- environment *)
  | LTrigger => guard (free st) (do_trigger st)      (* verif_request_flush: one critical section *)
  | LCompact c outs =>
      guard (valid_compactionb (k_tree st) c && outputs_okb (k_tree st) c outs)
            (with_tree st (apply_compaction (k_tree st) c outs))
  end.

Fixpoint run (st : state) (ls : list label) : option state :=
  match ls with
  | [] => Some st
  | l :: r => match step st l with Some st' => run st' r | None => None end
  end.

(* a fresh store: KeyValueStore::open on an empty directory leaves seq_no = s0 (2), mem_seq_no = s0 - 1;
   the model is stated for any starting numbers with m0 < s0 *)
Definition init (s0 m0 t0 : N) : state :=
  mkSt None s0 s0 t0 m0 0 None [empty_mt] (repeat [] (N.to_nat LSM_NUM_LEVELS)) 0 [] (PositiveMap.empty pc) FIdle.

(* first rejected label of a trace, for the acceptor: (index, state before it) *)
Fixpoint run_upto (st : state) (ls : list label) (n : nat) : nat * state * bool :=
  match ls with
  | [] => (n, st, true)
  | l :: r => match step st l with Some st' => run_upto st' r (S n) | None => (n, st, false) end
  end.

(* does this pc still hold the Arcs of memtable generation g and of its log (cloned at LWPick,
   dropped at LWDrop)?  `_memtable_thread` returns a logic error when it finds the log shared. *)
Definition holds_mem (p : pc) (g : nat) : bool :=
  match p with
  | WPicked _ _ _ g' | WAppending _ _ _ g' | WInserting _ _ _ g' _ => Nat.eqb g' g
  | _ => false
  end.

(* ---- the code as it was before commit 70b43d5: load / range_scan took state.seq_no (the last
   ASSIGNED sequence number) as the read timestamp.  Only the snapshot step differs. ---- *)
Definition step_unrepaired (st : state) (l : label) : option state :=
  match l with
  | LSnap t ts =>
      match getpc st t with
      | RInvoked q =>
          let sn := mkSnap (k_seq st) (k_cur st) (k_imm st) (k_tree st) in
          guard (free st && (ts =? k_seq st))
                (with_pc st t (match q with QGet k => RGetMem k sn | QScan lo hi => RScanning lo hi sn None end))
      | _ => None
      end
  | _ => step st l
  end.
Fixpoint run_unrepaired (st : state) (ls : list label) : option state :=
  match ls with
  | [] => Some st
  | l :: r => match step_unrepaired st l with Some st' => run_unrepaired st' r | None => None end
  end.

(* ---- process exit + KeyValueStore::open on the same directory.  The store has no close; a session
   ends by process exit.  When no client operation is in flight and the memtable thread is idle
   (no immutable memtable), `open` replays the log of the memtable into one sst that is ingested
   into the tree (recover_one), starts an empty memtable and fresh counters s0 / m0 / t0 (what the
   new process reports), a fresh wait list and no threads.  The guard says which exits the model
   covers: quiescent, every sequence number in the store not above the new mem_seq_no. ---- *)
Definition pc_idle (p : pc) : bool := match p with Idle => true | _ => false end.
Definition quiescent (st : state) : bool :=
  forallb (fun tp => pc_idle (snd tp)) (PositiveMap.elements (k_pcs st)) &&
  match k_fl st with FIdle => true | _ => false end &&
  match k_imm st with None => true | Some _ => false end &&
  match k_mutex st with None => true | Some _ => false end.
Definition reopen (st : state) (fid fsz s0 m0 t0 : N) : option state :=
  let m := mt_ents (mem_at st (k_cur st)) in
  if quiescent st && (m0 <? s0) && (k_vis st <=? m0) &&
     forallb (fun e => ets e <=? m0) m && forallb (fun e => ets e <=? m0) (file_entries (k_tree st))
  then Some (mkSt None s0 s0 t0 m0 0 None [empty_mt] (ver (flush (mkS m (k_tree st) 0) fid fsz)) 0 []
                  (PositiveMap.empty pc) FIdle)
  else None.
