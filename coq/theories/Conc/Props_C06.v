(* Props_C06.v — the property theorems for C06 and nothing else.
   C06: "Concurrent reads/writes are linearizable; batches become visible atomically".

   The implementation machine is KvsConc.step (small steps of KeyValueStore::write / load /
   range_scan / _memtable_thread, version installation and compactions, interleaved in any order:
   a schedule is the list of labels).  The specification machine is Spec.sstep: an ATOMIC multi-key
   store in which a whole batch takes effect at one label (LWPublish) between its invocation and
   its response, and a read takes its whole view at one label (LSnap) between its invocation and
   its response.  `dbof pre` is the committed database after the trace prefix `pre`.
   Memory model: sequential consistency (interleaving of atomic steps); skiplist insert / seek are
   atomic steps here (their own concurrency is C17). *)
From Coq Require Import NArith List PArith.
From Blue Require Import Gen.Const_Conc Lsm.Model Lsm.History.
From Blue Require Import Conc.KvsConc Conc.Spec Conc.ProofsSkel Conc.ProofsData Conc.ProofsSim Conc.ProofsTop Conc.ProofsHist.
Import ListNotations.
Open Scope N_scope.

(* THE refinement: for EVERY schedule (any number of client threads, the flush thread, admissible
   compactions, any interleaving, any length) accepted by the implementation machine from a fresh
   store, the same trace is a run of the atomic store.  Hence every operation takes effect at a
   single instant between its invocation and its response (writes, whole batches, at LWPublish;
   reads at LSnap), i.e. the history is linearizable, with multi-key batches and scans atomic. *)
Theorem C06_refines_atomic_store : forall s0 m0 t0 ls st, m0 < s0 ->
  run (init s0 m0 t0) ls = Some st -> exists sp, srun sinit ls = Some sp.
Proof.
  intros s0 m0 t0 ls st H Hrun. destruct (sim_run ls _ _ _ (rel_init s0 m0 t0 H) Hrun) as (sp & Hs & _). eauto.
Qed.

(* The same from ANY pair of states related by the simulation relation Rel (the control skeleton,
   the data invariant: where committed and in-flight entries are and how memtable generations and
   the tree are ordered, and the per-thread correspondence), e.g. a store opened on existing data:
   the relation is inductive, so the refinement does not depend on starting empty. *)
Theorem C06_refinement_is_inductive : forall st sp ls st', Rel st sp ->
  run st ls = Some st' -> exists sp', srun sp ls = Some sp' /\ Rel st' sp'.
Proof. intros st sp ls st' HR Hrun. exact (sim_run ls st sp st' HR Hrun). Qed.

(* Process exit and `open` on the same directory (the store has no close).  When no client
   operation is in flight and the memtable thread is idle, `open` replays the memtable's log into an
   sst of the tree and starts with fresh counters (KvsConc.reopen): the new state is related to the
   SAME committed database, so every schedule of the new session again refines the atomic store
   started from what the previous sessions committed: the theorems do not depend on an empty tree. *)
Theorem C06_reopen_keeps_refinement : forall st sp fid fsz s0 m0 t0 st1 ls st2, Rel st sp ->
  reopen st fid fsz s0 m0 t0 = Some st1 -> run st1 ls = Some st2 ->
  exists sp2, srun (sreopen sp) ls = Some sp2 /\ Rel st2 sp2.
Proof.
  intros st sp fid fsz s0 m0 t0 st1 ls st2 HR Hre Hrun.
  exact (sim_run ls st1 (sreopen sp) st2 (reopen_rel st sp fid fsz s0 m0 t0 st1 HR Hre) Hrun).
Qed.

(* Per-key linearizability of point reads.  A `load` that returns r was invoked (LInvR), took its
   snapshot (LSnap) and returned, in this order, with no other invocation by the thread in
   between; r is the value of the LAST committed write to the key in the database V as of the
   snapshot instant; V extends the database as of the invocation and is extended by the database
   as of the response; the database is strictly ascending in sequence numbers. *)
Theorem C06_per_key_linearizable : forall s0 m0 t0 pre t r st, m0 < s0 ->
  run (init s0 m0 t0) (pre ++ [LRetGet t r]) = Some st ->
  exists pre1 pre2 pre3 k ts,
    pre = pre1 ++ LInvR t (QGet k) :: pre2 ++ LSnap t ts :: pre3 /\ no_inv t pre2 /\ no_inv t pre3 /\
    let V := dbof (pre1 ++ LInvR t (QGet k) :: pre2) in
    r = db_value V k /\ prefix_of (dbof pre1) V /\ prefix_of V (dbof pre) /\ db_asc (dbof pre).
Proof.
  intros s0 m0 t0 pre t r st H Hrun.
  destruct (C06_refines_atomic_store _ _ _ _ _ H Hrun) as (sp & Hs).
  destruct (hist_get pre t r sp Hs) as (pre1 & pre2 & pre3 & k & ts & Hp & H2 & H3 & Hr).
  exists pre1, pre2, pre3, k, ts. split; [exact Hp|]. split; [exact H2|]. split; [exact H3|]. cbn zeta.
  assert (Hpre : exists sp0, srun sinit pre = Some sp0).
  { apply srun_snoc in Hs. destruct Hs as (sp0 & Hs0 & _). eauto. }
  destruct Hpre as (sp0 & Hs0). split; [exact Hr|].
  assert (Eq : pre = (pre1 ++ LInvR t (QGet k) :: pre2) ++ LSnap t ts :: pre3).
  { rewrite Hp, <- app_assoc. reflexivity. }
  rewrite Eq in Hs0. destruct (srun_app_some _ _ _ _ Hs0) as (spx & Hx).
  split; [|split].
  - eapply (dbof_prefix pre1 (LInvR t (QGet k) :: pre2)); eauto.
  - rewrite Eq. eapply dbof_prefix; eauto.
  - rewrite Eq. eapply dbof_asc; eauto.
Qed.

(* A write returns only after its whole batch has been committed (published) — once, between its
   invocation and its response. *)
Theorem C06_write_commits_before_return : forall s0 m0 t0 pre t st, m0 < s0 ->
  run (init s0 m0 t0) (pre ++ [LWRet t]) = Some st ->
  exists pre1 pre2 pre3 b0 s,
    pre = pre1 ++ LInvW t b0 :: pre2 ++ LWPublish t s :: pre3 /\ no_inv t pre2 /\ no_inv t pre3 /\
    dbof (pre1 ++ LInvW t b0 :: pre2 ++ [LWPublish t s]) = dbof (pre1 ++ LInvW t b0 :: pre2) ++ [(s, dedupe b0)].
Proof.
  intros s0 m0 t0 pre t st H Hrun.
  destruct (C06_refines_atomic_store _ _ _ _ _ H Hrun) as (sp & Hs). eapply hist_wret; eauto.
Qed.

(* A write that returns an error (the log refused the batch) was never published: the database is
   unchanged by it, so no reader ever sees any part of it. *)
Theorem C06_failed_write_has_no_effect : forall s0 m0 t0 pre t st, m0 < s0 ->
  run (init s0 m0 t0) (pre ++ [LWRetF t]) = Some st ->
  (exists pre1 pre2 b0, pre = pre1 ++ LInvW t b0 :: pre2 /\ no_inv t pre2 /\ (forall s, ~ In (LWPublish t s) pre2)) /\
  dbof (pre ++ [LWRetF t]) = dbof pre.
Proof.
  intros s0 m0 t0 pre t st H Hrun.
  destruct (C06_refines_atomic_store _ _ _ _ _ H Hrun) as (sp & Hs). eapply hist_wretf; eauto.
Qed.

(* "A read never returns a value older than one whose write had completed before the read began":
   if batch (s, b) is in the database when the read is invoked (dbof pre1 — by the theorem above
   this holds for every write that has returned) and b writes key k, the read returns the value of
   a write to k with a sequence number >= s (that very value when equal). *)
Theorem C06_no_stale_read : forall (inv view : db) s b k v,
  db_asc view -> prefix_of inv view -> In (s, b) inv -> batch_get b k = Some v ->
  exists s' v', db_get view k = Some (s', v') /\ s <= s' /\ db_value view k = Some v' /\ (s' = s -> v' = v).
Proof.
  intros inv view s b k v Ha (x & ->) Hin Hg.
  destruct (db_get_contains (inv ++ x) k s b v Ha) as (s' & v' & H1 & H2 & H3); [apply in_or_app; now left|exact Hg|].
  exists s', v'. unfold db_value. rewrite H1. auto.
Qed.

(* "... and never a value that was not written": what a read returns for k is what some committed
   batch of its view wrote to k (and that batch was published, hence invoked, before the snapshot);
   it returns "nothing" only if no committed batch of the view names k. *)
Theorem C06_no_unwritten_value : forall (view : db) k,
  match db_value view k with
  | Some v => exists s b, In (s, b) view /\ batch_get b k = Some v
  | None => forall s b, In (s, b) view -> batch_get b k = None
  end.
Proof.
  intros view k. unfold db_value. destruct (db_get view k) as [[s v]|] eqn:E.
  - destruct (db_get_source _ _ _ _ E) as (b & H1 & H2). eauto.
  - intros s b Hin. destruct (batch_get b k) as [v|] eqn:Eb; [|reflexivity]. exfalso.
    clear -E Hin Eb. induction view as [|[s0 b0] d IH]; [destruct Hin|]. cbn [db_get] in E.
    destruct (db_get d k) as [x|] eqn:Ed; [discriminate|]. destruct Hin as [Ein|Hin].
    + inversion Ein; subst. rewrite Eb in E. discriminate.
    + now apply IH.
Qed.

(* Monotone reads: along an accepted trace the database only grows, and what it holds for a key
   only gets newer — so a read that begins after another read has returned (its view extends the
   other's) never returns an older version. *)
Theorem C06_monotone_reads : forall s0 m0 t0 pre x st k s1 v1, m0 < s0 ->
  run (init s0 m0 t0) (pre ++ x) = Some st ->
  db_get (dbof pre) k = Some (s1, v1) ->
  prefix_of (dbof pre) (dbof (pre ++ x)) /\
  exists s2 v2, db_get (dbof (pre ++ x)) k = Some (s2, v2) /\ s1 <= s2.
Proof.
  intros s0 m0 t0 pre x st k s1 v1 H Hrun Hg.
  destruct (C06_refines_atomic_store _ _ _ _ _ H Hrun) as (sp & Hs).
  pose proof (dbof_prefix pre x sp Hs) as Hp. split; [exact Hp|].
  destruct Hp as (y & Hy). rewrite Hy. apply (db_get_app_mono (dbof pre) y k s1 v1); [|exact Hg].
  rewrite <- Hy. eapply dbof_asc; eauto.
Qed.

(* Batch atomicity.  Take any accepted trace, any view V taken inside it (the database after a
   prefix: what a `load` or a `range_scan` snapshot holds), and any batch (s, b) committed anywhere
   in the trace: for any two keys the batch writes, V holds a version at least as new as the batch
   for both or for neither.  No snapshot observes some of a batch's keys updated and others not. *)
Theorem C06_batch_atomic_snapshot : forall s0 m0 t0 pre x st s b k1 k2, m0 < s0 ->
  run (init s0 m0 t0) (pre ++ x) = Some st ->
  In (s, b) (dbof (pre ++ x)) -> batch_get b k1 <> None -> batch_get b k2 <> None ->
  sees (dbof pre) s k1 = sees (dbof pre) s k2.
Proof.
  intros s0 m0 t0 pre x st s b k1 k2 H Hrun Hin H1 H2.
  destruct (C06_refines_atomic_store _ _ _ _ _ H Hrun) as (sp & Hs).
  destruct (dbof_prefix pre x sp Hs) as (y & Hy).
  apply (view_batch_atomic (dbof pre) y s b k1 k2); auto; rewrite <- Hy; [eapply dbof_asc; eauto|exact Hin].
Qed.

(* A scan is ONE snapshot: every pair a `range_scan` cursor returns is the next live pair, after the
   pair returned before, of the one database V that was current at the scan's snapshot instant
   (between its invocation and this return), whatever writes, rollovers, flushes and compactions
   happen while the cursor is held. *)
Theorem C06_scan_is_one_snapshot : forall s0 m0 t0 pre t kv st, m0 < s0 ->
  run (init s0 m0 t0) (pre ++ [LScanNext t kv]) = Some st ->
  exists pre1 pre2 pre3 lo hi ts,
    pre = pre1 ++ LInvR t (QScan lo hi) :: pre2 ++ LSnap t ts :: pre3 /\ no_inv t pre2 /\ no_inv t pre3 /\
    kv = db_scan_next (dbof (pre1 ++ LInvR t (QScan lo hi) :: pre2)) lo hi (scan_cursor t pre3 None).
Proof.
  intros s0 m0 t0 pre t kv st H Hrun.
  destruct (C06_refines_atomic_store _ _ _ _ _ H Hrun) as (sp & Hs). eapply hist_scan; eauto.
Qed.

(* ... where "next live pair" means: the least key after the cursor, inside the bounds, whose
   latest committed write in V is a put; None only when there is none. *)
Theorem C06_scan_next_is_least_live : forall d lo hi last,
  match db_scan_next d lo hi last with
  | Some (k, x) => in_bounds lo hi k = true /\ after last k = true /\ db_live d k = Some x /\
                   forall k', in_bounds lo hi k' = true -> after last k' = true -> db_live d k' <> None -> key_leb k k' = true
  | None => forall k', in_bounds lo hi k' = true -> after last k' = true -> db_live d k' = None
  end.
Proof. exact db_scan_next_spec. Qed.

(* The mechanism, as invariants of every reachable state: the store mutex excludes; the wait list
   holds exactly the linked threads in link order; link order is sequence-number order; a writer
   in flight has a sequence number above visible_seq_no (so no snapshot can see it); the thread
   that found itself at the head is the oldest. *)
Theorem C06_reachable_skeleton : forall s0 m0 t0 ls st, m0 < s0 -> run (init s0 m0 t0) ls = Some st -> Skel st.
Proof.
  intros s0 m0 t0 ls st H Hrun. destruct (sim_run ls _ _ _ (rel_init s0 m0 t0 H) Hrun) as (sp & _ & HR). exact (rel_skel _ _ HR).
Qed.

(* `_memtable_thread` never finds the log of the immutable memtable shared ("ordering invariant
   violated; someone still holds a reference to mem_log" is unreachable): once it has passed the
   head of the wait list no writer holds the memtable or its log. *)
Theorem C06_flush_owns_log : forall s0 m0 t0 ls st trig g t, m0 < s0 -> run (init s0 m0 t0) ls = Some st ->
  k_fl st = FSealing trig g -> holds_mem (getpc st t) g = false.
Proof.
  intros s0 m0 t0 ls st trig g t H Hrun Hfl.
  destruct (sim_run ls _ _ _ (rel_init s0 m0 t0 H) Hrun) as (sp & _ & HR).
  apply (seal_exclusive st sp trig g t HR); rewrite Hfl; reflexivity.
Qed.

(* SkipList::insert never meets an equal (key, timestamp) — the panic of finding F7 is unreachable
   with the de-duplicated batch. *)
Theorem C06_no_duplicate_insert : forall s0 m0 t0 ls st t b idx s g i kv e, m0 < s0 -> run (init s0 m0 t0) ls = Some st ->
  getpc st t = WInserting b idx s g i -> nth_error b i = Some kv ->
  In e (mt_ents (mem_at st g)) -> ~ (ek e = fst kv /\ ets e = s).
Proof.
  intros s0 m0 t0 ls st t b idx s g i kv e H Hrun Hpc Hkv He [Hk Hs].
  destruct (sim_run ls _ _ _ (rel_init s0 m0 t0 H) Hrun) as (sp & _ & HR).
  eapply (insert_fresh st (s_db sp)); eauto; [exact (rel_skel _ _ HR)|exact (rel_data _ _ HR)].
Qed.

(* ---- the defect this property exposed (finding F6), kept as a theorem about the code as it was
   before commit 70b43d5: with the last ASSIGNED sequence number as read timestamp a scan taken
   while a two-key batch has inserted one of its entries returns that one key — a trace the
   unrepaired machine accepts, and which no atomic store can produce; the repaired machine
   rejects it. ---- *)
Definition t1 : tid := 1%positive.
Definition t2 : tid := 2%positive.
Definition t3 : tid := 3%positive.
Definition b12 : batch := [([1], Some [10]); ([2], Some [20])].
Definition torn_trace : list label := [
  LInvW t1 b12; LWLock t1; LWLink t1 0; LWAssign t1 3; LWPick t1 false; LWUnlock t1; LWLog t1; LWInsert t1;
  LInvR t2 (QScan None None); LSnap t2 3; LScanNext t2 (Some ([1], [10])); LScanNext t2 None; LRetScan t2 ].

Theorem C06_batch_atomic_refuted_before_repair :
  exists ls, run_unrepaired (init 2 1 0) ls <> None /\ srun sinit ls = None /\ run (init 2 1 0) ls = None.
Proof. exists torn_trace. vm_compute. repeat split; discriminate. Qed.

(* the model takes WaitList::link as never blocking: the ring (re-extracted from sync42/src/lib.rs on
   every run) has room for this many linked waiters, i.e. writers in flight *)
Example wait_list_ring_has_room : 1 < CONC_MAX_CONCURRENCY.
Proof. vm_compute. reflexivity. Qed.

(* ---- non-vacuity: a concrete schedule with a batch, a torn-looking moment (scan while one of two
   entries is inserted: sees neither), a rollover requested by the writer, the flush thread's
   hand-shake, version installation, reads through memtable / immutable memtable / tree, a delete
   overlapping reads, and scans — accepted by the implementation machine. ---- *)
Definition ex_trace : list label := [
  LInvW t1 b12; LWLock t1; LWLink t1 0; LWAssign t1 3; LWPick t1 true; LWUnlock t1; LWLog t1; LWInsert t1;
  LInvR t2 (QScan None None); LSnap t2 2; LScanNext t2 None;
  LWInsert t1; LWDrop t1; LWLock2 t1; LWHead t1 true; LWPublish t1 3; LWUnlink t1; LWRet t1;
  LRetScan t2;
  LInvR t2 (QScan None None); LSnap t2 3; LScanNext t2 (Some ([1], [10])); LScanNext t2 (Some ([2], [20])); LScanNext t2 None; LRetScan t2;
  LFLock; LFRollover; LFLink 1; LFHead true; LFUnlink; LFUnlock; LFSeal; LFInstall 100 10;
  LInvR t2 (QGet [1]); LSnap t2 3; LRMem t2 false; LRImm t2 true; LRetGet t2 (Some (Some [10]));
  LFLock2; LFClear;
  LInvW t3 [([1], None)]; LWLock t3; LWLink t3 2; LWAssign t3 5; LWPick t3 false; LWUnlock t3; LWLog t3; LWInsert t3; LWDrop t3;
  LInvR t2 (QGet [1]); LSnap t2 3; LRMem t2 false; LRTree t2 true; LRetGet t2 (Some (Some [10]));
  LWLock2 t3; LWHead t3 true; LWPublish t3 5; LWUnlink t3; LWRet t3;
  LInvR t2 (QGet [1]); LSnap t2 5; LRMem t2 true; LRetGet t2 (Some None);
  LInvR t2 (QScan None None); LSnap t2 5; LScanNext t2 (Some ([2], [20])); LScanNext t2 None; LRetScan t2 ].

Example ex_trace_accepted :
  match run (init 2 1 0) ex_trace with Some st => (k_vis st, k_seq st, k_memseq st, length (k_mems st)) = (5, 5, 3, 2%nat) | None => False end.
Proof. vm_compute. reflexivity. Qed.

Example ex_trace_db : dbof ex_trace = [(3, b12); (5, [([1], None)])].
Proof. vm_compute. reflexivity. Qed.

(* a related pair on EXISTING data (for C06_refinement_is_inductive / C06_reopen_keeps_refinement):
   the store of ex_trace after exit + open: two committed batches, their entries in the tree (one
   flushed file and the recovered log), counters 7 / 6 *)
Example related_pair_on_existing_data :
  exists st sp, Rel st sp /\ s_db sp = [(3, b12); (5, [([1], None)])] /\
                file_entries (k_tree st) <> [] /\ mt_ents (mem_at st (k_cur st)) = [] /\ k_seq st = 7.
Proof.
  destruct (run (init 2 1 0) ex_trace) as [st1|] eqn:E1; [|vm_compute in E1; discriminate].
  destruct (sim_run _ _ _ _ (rel_init 2 1 0 eq_refl) E1) as (sp1 & Hs & HR).
  destruct (reopen st1 200 10 7 6 0) as [st2|] eqn:E2.
  - exists st2, (sreopen sp1). split; [eapply reopen_rel; eauto|]. split.
    + cbn. rewrite <- (dbof_run _ _ Hs). exact ex_trace_db.
    + vm_compute in E1. injection E1 as <-. vm_compute in E2. injection E2 as <-.
      split; [vm_compute; discriminate|]. split; reflexivity.
  - exfalso. vm_compute in E1. injection E1 as <-. vm_compute in E2. discriminate.
Qed.
