(* Extraction of the executable concurrent model (acceptor for recorded traces of the real store)
   and of the atomic specification machine.  Directives: ExtrOcamlBasic only; N / positive / nat
   stay inductive.  No Extract Constant of ours. *)
From Coq Require Import NArith List PArith.
From Blue Require Import Lsm.Model Lsm.History Conc.KvsConc Conc.Spec.
Require Import ExtrOcamlBasic.
Extraction Language OCaml.
Extraction "../ocaml/conc/gen_conc.ml" init step step_unrepaired reopen sinit sstep sreopen dbof db_value db_live
  k_vis k_seq k_memseq k_trig k_cur k_imm k_wlnext k_wllive N.of_nat N.to_nat.
