(* Conc/Spec.v — the specification C06 is checked against: an ATOMIC multi-key store with snapshots.
   Definitions only.

   The specification machine reads the same labels as the implementation machine (KvsConc.step)
   but gives a meaning to four of them only:
     LWPublish t s   the whole batch of thread t takes effect, at once, with sequence number s
     LSnap t ts      thread t takes its view: the database as it is at this instant
     LRetGet t r     r must be what the view holds for the key asked for
     LScanNext t kv  kv must be the next live pair of the view after the cursor
   together with the bracketing by invocation (LInvW / LInvR) and response (LWRet / LRetGet /
   LRetScan; LWRetF is the response of a write that failed: it must not have taken effect).  Every other label is a stutter.  Hence a trace accepted by this machine is
   linearizable by construction: every operation takes effect at a single instant between its
   invocation and its response (writes at their LWPublish, reads at their LSnap), and what reads
   return is what the sequential store holds at that instant. *)
From Coq Require Import NArith List Bool Arith PArith FMapPositive.
From Blue Require Import Lsm.Model Conc.KvsConc.
Import ListNotations.
Open Scope N_scope.

Definition db := list (N * batch).     (* committed batches, oldest first *)

(* what a batch says about a key *)
Definition batch_get (b : batch) (k : key) : option value :=
  match find (fun kv => key_eqb (fst kv) k) b with Some kv => Some (snd kv) | None => None end.

(* the sequential store: the last committed batch that names the key decides *)
Fixpoint db_get (d : db) (k : key) : option (N * value) :=
  match d with
  | [] => None
  | (s, b) :: r =>
      match db_get r k with
      | Some x => Some x
      | None => match batch_get b k with Some v => Some (s, v) | None => None end
      end
  end.
Definition db_value (d : db) (k : key) : option value :=
  match db_get d k with Some (_, v) => Some v | None => None end.
Definition db_live (d : db) (k : key) : option (list N) :=
  match db_get d k with Some (_, Some x) => Some x | _ => None end.
Definition db_keys (d : db) : list key := flat_map (fun sb => map fst (snd sb)) d.
Definition db_max (d : db) : N := fold_right (fun sb m => N.max (fst sb) m) 0 d.

Definition db_scan_next (d : db) (lo hi last : option key) : option (key * list N) :=
  let cands := filter (fun k => in_bounds lo hi k && after last k && is_some (db_live d k)) (db_keys d) in
  match min_key cands with
  | Some k => match db_live d k with Some x => Some (k, x) | None => None end
  | None => None
  end.

Inductive spc :=
| SIdle
| SWPending (b : batch)
| SWDone
| SRPending (q : rquery)
| SRView (q : rquery) (view : db) (last : option key).

Record sstate := mkSp { s_db : db; s_pcs : PositiveMap.t spc }.

Definition sget (sp : sstate) (t : tid) : spc :=
  match PositiveMap.find t (s_pcs sp) with Some p => p | None => SIdle end.
Definition sset (sp : sstate) (t : tid) (p : spc) : sstate := mkSp (s_db sp) (PositiveMap.add t p (s_pcs sp)).

Definition sstep (sp : sstate) (l : label) : option sstate :=
  match l with
  | LInvW t b => match sget sp t with SIdle => Some (sset sp t (SWPending (dedupe b))) | _ => None end
  | LWPublish t s =>
      match sget sp t with
      | SWPending b => if db_max (s_db sp) <? s then Some (sset (mkSp (s_db sp ++ [(s, b)]) (s_pcs sp)) t SWDone) else None
      | _ => None
      end
  | LWRet t => match sget sp t with SWDone => Some (sset sp t SIdle) | _ => None end
  | LWRetF t => match sget sp t with SWPending _ => Some (sset sp t SIdle) | _ => None end   (* a failed write: no effect *)
  | LInvR t q => match sget sp t with SIdle => Some (sset sp t (SRPending q)) | _ => None end
  | LSnap t _ => match sget sp t with SRPending q => Some (sset sp t (SRView q (s_db sp) None)) | _ => None end
  | LRetGet t r =>
      match sget sp t with
      | SRView (QGet k) view _ => if ovalue_eqb r (db_value view k) then Some (sset sp t SIdle) else None
      | _ => None
      end
  | LScanNext t kv =>
      match sget sp t with
      | SRView (QScan lo hi) view last =>
          let r := db_scan_next view lo hi last in
          if okv_eqb kv r then Some (sset sp t (SRView (QScan lo hi) view (match r with Some (k, _) => Some k | None => last end)))
          else None
      | _ => None
      end
  | LRetScan t => match sget sp t with SRView (QScan _ _) _ _ => Some (sset sp t SIdle) | _ => None end
  | _ => Some sp
  end.

Fixpoint srun (sp : sstate) (ls : list label) : option sstate :=
  match ls with
  | [] => Some sp
  | l :: r => match sstep sp l with Some sp' => srun sp' r | None => None end
  end.

Definition sinit : sstate := mkSp [] (PositiveMap.empty spc).

(* ---- observations on a trace (for the history-level statements) ---- *)
(* the database after a trace (a prefix of the trace under consideration) *)
Definition dbof (ls : list label) : db :=
  match srun sinit ls with Some sp => s_db sp | None => [] end.

(* no invocation by thread t among these labels *)
Definition no_inv (t : tid) (ls : list label) : Prop :=
  forall l, In l ls -> match l with LInvR t' _ | LInvW t' _ => t' <> t | _ => True end.

(* the view holds, for key k, a version at least as new as sequence number s *)
Definition sees (v : db) (s : N) (k : key) : bool :=
  match db_get v k with Some (s', _) => s <=? s' | None => false end.

Definition prefix_of (a b : db) : Prop := exists x, b = a ++ x.

(* the key of the last pair a scan of thread t has returned among these labels *)
Fixpoint scan_cursor (t : tid) (ls : list label) (acc : option key) : option key :=
  match ls with
  | [] => acc
  | LScanNext t' (Some (k, _)) :: r => scan_cursor t r (if Pos.eqb t' t then Some k else acc)
  | _ :: r => scan_cursor t r acc
  end.

(* process exit + open: the committed database stays, no operation is in flight *)
Definition sreopen (sp : sstate) : sstate := mkSp (s_db sp) (PositiveMap.empty spc).
