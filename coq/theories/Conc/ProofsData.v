(* Conc/ProofsData.v — the data invariant of KvsConc: where the entries of committed and in-flight
   batches are, how the memtable generations and the tree are ordered, and its preservation. *)
From Coq Require Import NArith List Bool Arith PArith FMapPositive Lia Permutation.
From Blue Require Import Lsm.Model Lsm.KeyOrder Lsm.LoadProofs Lsm.Ordered Lsm.SortLemmas Lsm.CompactProofs Lsm.WfProofs Lsm.History.
From Blue Require Import Conc.KvsConc Conc.Spec Conc.ProofsBase Conc.ProofsSkel.
Import ListNotations.
Open Scope N_scope.

Arguments N.leb : simpl never.
Arguments N.ltb : simpl never.
Arguments N.eqb : simpl never.
Arguments N.add : simpl never.
Arguments N.max : simpl never.

(* ------------------------------------------------------------------ projections *)
(* a write that has chosen its memtable and is not yet published: batch, sequence number,
   generation, number of entries already inserted *)
Definition w_data (p : pc) : option (batch * N * nat * nat) :=
  match p with
  | WPicked b _ s g | WAppending b _ s g => Some (b, s, g, O)
  | WInserting b _ s g i => Some (b, s, g, i)
  | WDropped b _ s g | WLocked2 b _ s g | WParked b _ s g | WHead b _ s g => Some (b, s, g, length b)
  | _ => None
  end.
Definition w_batch (p : pc) : option batch :=
  match p with
  | WInvoked b | WLocked b | WLinked b _ | WAssigned b _ _ | WPicked b _ _ _ | WAppending b _ _ _
  | WInserting b _ _ _ _ | WDropped b _ _ _ | WLocked2 b _ _ _ | WParked b _ _ _ | WHead b _ _ _
  | WPublished b _ _ | WUnlinked b _ | WFailed b _ _ | WFailedL b _ _ | WFailedU b _ => Some b
  | _ => None
  end.
Definition w_assigned_only (p : pc) : option N := match p with WAssigned _ _ s => Some s | _ => None end.
Definition f_gen (f : fpc) : option (N * nat) :=
  match f with
  | FIdle | FLocked => None
  | FRolled t g | FLinked t g _ | FParked t g _ | FHead t g _ | FUnlinked t g | FSealing t g | FBuilt t g
  | FInstalled t g | FLocked2 t g => Some (t, g)
  end.
Definition f_pre (f : fpc) : bool :=
  match f with FRolled _ _ | FLinked _ _ _ | FParked _ _ _ => true | _ => false end.
Definition f_installed (f : fpc) : bool :=
  match f with FInstalled _ _ | FLocked2 _ _ => true | _ => false end.

Lemma w_data_seq p b s g n : w_data p = Some (b, s, g, n) -> w_seq p = Some s.
Proof. destruct p; cbn; intros H; inversion H; reflexivity. Qed.
Lemma w_data_batch p b s g n : w_data p = Some (b, s, g, n) -> w_batch p = Some b.
Proof. destruct p; cbn; intros H; inversion H; reflexivity. Qed.

Definition ents (st : state) (g : nat) : list entry := mt_ents (mem_at st g).

Fixpoint db_asc (d : db) : Prop :=
  match d with [] => True | (s, _) :: r => (forall s' b', In (s', b') r -> s < s') /\ db_asc r end.

Record Data (st : state) (d : db) : Prop := {
  d_batch : forall t b, w_batch (getpc st t) = Some b -> nodup_keysb (map fst b) = true;
  d_len : (k_cur st < length (k_mems st))%nat;
  d_imm : k_imm st = match f_gen (k_fl st) with Some (_, g) => Some g | None => None end;
  d_imm_lt : forall trig g, f_gen (k_fl st) = Some (trig, g) -> (g < k_cur st)%nat /\ trig < k_memseq st;
  d_assigned : forall t s, w_assigned_only (getpc st t) = Some s -> k_memseq st < s;
  d_wdata : forall t b s g n, w_data (getpc st t) = Some (b, s, g, n) ->
      (n <= length b)%nat /\
      (forall j kv, (j < n)%nat -> nth_error b j = Some kv -> In (mkE (fst kv) s (snd kv)) (ents st g)) /\
      ((g = k_cur st /\ k_memseq st < s) \/
       (exists trig, f_gen (k_fl st) = Some (trig, g) /\ f_pre (k_fl st) = true /\ trig < s /\ s <= k_memseq st /\
                     (forall j i, f_idx (k_fl st) = Some j -> w_idx (getpc st t) = Some i -> (i < j)%nat)));
  d_ents : forall g e, In e (ents st g) ->
      (exists b, In (ets e, b) d /\ In (ek e, ev e) b) \/
      (exists t b n j, w_data (getpc st t) = Some (b, ets e, g, n) /\ (j < n)%nat /\ nth_error b j = Some (ek e, ev e));
  d_sorted : forall g, ssorted (ents st g);
  d_nodup : forall g, NoDup (ents st g);
  d_keyts : forall g e e', In e (ents st g) -> In e' (ents st g) -> ek e = ek e' -> ets e = ets e' -> e = e';
  d_db_asc : db_asc d;
  d_db_vis : forall s b, In (s, b) d -> s <= k_vis st /\ nodup_keysb (map fst b) = true;
  d_present : forall s b kv, In (s, b) d -> In kv b ->
      In (mkE (fst kv) s (snd kv)) (ents st (k_cur st)) \/
      (exists g, k_imm st = Some g /\ In (mkE (fst kv) s (snd kv)) (ents st g)) \/
      In (mkE (fst kv) s (snd kv)) (file_entries (k_tree st));
  d_cur_lo : forall e, In e (ents st (k_cur st)) -> k_memseq st < ets e;
  d_imm_rng : forall trig g e, f_gen (k_fl st) = Some (trig, g) -> In e (ents st g) -> trig < ets e /\ ets e <= k_memseq st;
  d_tree_db : forall e, In e (file_entries (k_tree st)) -> exists b, In (ets e, b) d /\ In (ek e, ev e) b;
  d_tree_hi : forall e, In e (file_entries (k_tree st)) ->
      match f_gen (k_fl st) with
      | None => ets e <= k_memseq st
      | Some (trig, g) => ets e <= trig \/ (f_installed (k_fl st) = true /\ In e (ents st g))
      end;
  d_installed : forall trig g e, f_gen (k_fl st) = Some (trig, g) -> f_installed (k_fl st) = true ->
      In e (ents st g) -> In e (file_entries (k_tree st));
  d_tree_wf : wf_version (k_tree st);
  d_tree_ord : Ordered (mkS [] (k_tree st) 0);
  d_tree_ne : k_tree st <> []
}.

(* ------------------------------------------------------------------ consequences *)
Lemma db_asc_snoc d s b : db_asc d -> (forall s' b', In (s', b') d -> s' < s) -> db_asc (d ++ [(s, b)]).
Proof.
  induction d as [|[s0 b0] d IH]; cbn [db_asc app]; intros H Hlt.
  - split; [intros ? ? []|exact I].
  - destruct H as [H0 Hd]. split.
    + intros s' b' Hin. apply in_app_or in Hin. destruct Hin as [Hin|[E|[]]]; [eapply H0; eauto|].
      inversion E; subst. apply (Hlt s0 b0). now left.
    + apply IH; [exact Hd|]. intros s' b' Hin. apply (Hlt s' b'). now right.
Qed.

Lemma data_seq_hi st d g e : Skel st -> Data st d -> In e (ents st g) -> ets e <= k_seq st.
Proof.
  intros Hsk Hd He. destruct (d_ents st d Hd g e He) as [(b & Hb & _)|(t & b & n & j & Hw & _)].
  - pose proof (d_db_vis st d Hd _ _ Hb) as [H _]. pose proof (sk_vis st Hsk). lia.
  - apply w_data_seq in Hw. pose proof (sk_seq_hi st Hsk t _ Hw). lia.
Qed.

(* distinct threads in flight have distinct sequence numbers *)
Lemma seq_unique st t t' s : Skel st -> w_seq (getpc st t) = Some s -> w_seq (getpc st t') = Some s -> t = t'.
Proof.
  intros Hsk H1 H2. destruct (Pos.eq_dec t t') as [|Hne]; [assumption|exfalso].
  destruct (w_seq_has_idx _ _ H1) as (i & Hi). destruct (w_seq_has_idx _ _ H2) as (i' & Hi').
  assert (i <> i') by (intros ->; eapply (sk_uniq st Hsk t t' i'); eauto).
  destruct (Nat.lt_ge_cases i i') as [Hlt|Hge].
  - pose proof (sk_ord st Hsk t t' i i' s s Hne Hi Hi' H1 H2 Hlt). lia.
  - assert (Hlt : (i' < i)%nat) by lia.
    pose proof (sk_ord st Hsk t' t i' i s s (not_eq_sym Hne) Hi' Hi H2 H1 Hlt). lia.
Qed.

(* per key, the versions held by a memtable are strictly descending *)
Lemma desc_ge_strict l : desc_ge l -> NoDup l ->
  (forall e e', In e l -> In e' l -> ets e = ets e' -> e = e') -> desc_ts l.
Proof.
  induction l as [|x r IH]; cbn [desc_ge desc_ts]; [auto|]. intros [Hx Hr] Hnd Hu.
  inversion Hnd as [|? ? Hnin Hnd']; subst. split.
  - intros y Hy. specialize (Hx y Hy).
    assert (ets y <> ets x).
    { intros E. assert (y = x) by (apply Hu; [now right|now left|exact E]). subst. contradiction. }
    lia.
  - apply IH; auto. intros e e' He He'. apply Hu; now right.
Qed.

Lemma NoDup_filter {A} (p : A -> bool) l : NoDup l -> NoDup (filter p l).
Proof.
  induction 1 as [|x l Hx Hn IH]; cbn [filter]; [constructor|].
  destruct (p x); [constructor; [rewrite filter_In; tauto|exact IH]|exact IH].
Qed.

Lemma mt_desc st d g k : Data st d -> desc_ts (kfilter k (ents st g)).
Proof.
  intros Hd. apply desc_ge_strict.
  - apply kfilter_ssorted_desc_ge, (d_sorted st d Hd).
  - apply NoDup_filter, (d_nodup st d Hd).
  - intros e e' He He' Hts. apply in_kfilter in He, He'. destruct He as [He Hk], He' as [He' Hk'].
    apply (d_keyts st d Hd g); auto. congruence.
Qed.

(* the entries of a tree as the Lsm development sees them *)
Lemma file_entries_all v q : file_entries v = all_entries (mkS [] v q).
Proof. reflexivity. Qed.

Lemma ver_flush_seq m v q q' id sz : ver (flush (mkS m v q) id sz) = ver (flush (mkS m v q') id sz).
Proof. unfold flush. cbn [mem ver seq]. destruct m; reflexivity. Qed.

Lemma flush_entries m v q id sz e : Inv (mkS m v q) -> v <> [] ->
  In e (file_entries (ver (flush (mkS m v q) id sz))) <-> In e m \/ In e (file_entries v).
Proof.
  intros I Hne.
  destruct m as [|m0 mr].
  { unfold flush. cbn [mem ver In]. tauto. }
  assert (Hmem : mem (flush (mkS (m0 :: mr) v q) id sz) = []) by reflexivity.
  pose proof (flush_kview (mkS (m0 :: mr) v q) id sz (ek e) I Hne) as Hk.
  assert (H1 : In e (all_entries (flush (mkS (m0 :: mr) v q) id sz)) <-> In e (all_entries (mkS (m0 :: mr) v q))).
  { rewrite !in_all_entries_kview, Hk. tauto. }
  unfold all_entries in H1. rewrite Hmem in H1. cbn [app mem ver] in H1.
  change (m0 :: mr ++ flat_map fents (flat v)) with ((m0 :: mr) ++ flat_map fents (flat v)) in H1.
  rewrite in_app_iff in H1. exact H1.
Qed.

Lemma build_inv m v q : wf_version v -> Ordered (mkS [] v 0) ->
  (forall k, desc_ts (kfilter k m)) ->
  (forall e e', In e m -> In e' (file_entries v) -> ets e' < ets e) ->
  (forall e, In e m -> ets e <= q) -> (forall e, In e (file_entries v) -> ets e <= q) ->
  Inv (mkS m v q).
Proof.
  intros Hwf Hord Hm Hnew Hq1 Hq2. constructor; cbn [ver mem seq].
  - exact Hwf.
  - intros k. unfold kview. cbn [mem ver]. apply desc_ts_app. split; [apply Hm|]. split.
    + specialize (Hord k). unfold kview in Hord. cbn [mem ver kfilter filter app] in Hord. exact Hord.
    + intros x y Hx Hy. apply in_kfilter in Hx. destruct Hx as [Hx _].
      apply Hnew; [exact Hx|]. unfold file_entries. apply in_flat_map in Hy. destruct Hy as (f & Hf & Hy).
      apply in_kfilter in Hy. apply in_flat_map. exists f. tauto.
  - intros e He. unfold all_entries in He. cbn [mem ver] in He. apply in_app_or in He.
    destruct He; [now apply Hq1|now apply Hq2].
  - intros e e' He He'. now apply Hnew.
Qed.

Lemma Ordered_nomem v q q' : Ordered (mkS [] v q) -> Ordered (mkS [] v q').
Proof. intros H k. exact (H k). Qed.

Lemma data_tree_inv st d : Skel st -> Data st d -> Inv (mkS [] (k_tree st) (k_seq st)).
Proof.
  intros Hsk Hd. apply build_inv.
  - apply (d_tree_wf st d Hd).
  - apply (d_tree_ord st d Hd).
  - intros k. exact I.
  - intros e e' [].
  - intros e [].
  - intros e He. destruct (d_tree_db st d Hd e He) as (b & Hb & _).
    pose proof (d_db_vis st d Hd _ _ Hb) as [H _]. pose proof (sk_vis st Hsk). lia.
Qed.

(* ------------------------------------------------------------------ frames *)
Lemma ents_eq st st' g : k_mems st' = k_mems st -> ents st' g = ents st g.
Proof. intros H. unfold ents, mem_at. now rewrite H. Qed.

(* client thread t changes its pc; nothing of the data moves *)
Lemma data_pc_frame st st' d t p :
  Data st d ->
  k_cur st' = k_cur st -> k_imm st' = k_imm st ->
  length (k_mems st') = length (k_mems st) -> (forall g, ents st' g = ents st g) -> k_tree st' = k_tree st ->
  k_fl st' = k_fl st -> k_memseq st' = k_memseq st -> k_vis st' = k_vis st ->
  (forall t', getpc st' t' = if Pos.eqb t' t then p else getpc st t') ->
  w_data p = w_data (getpc st t) ->
  (forall b, w_batch p = Some b -> nodup_keysb (map fst b) = true) ->
  (forall s, w_assigned_only p = Some s -> k_memseq st < s) ->
  (forall i, w_idx p = Some i -> w_data p <> None -> w_idx (getpc st t) = Some i) ->
  Data st' d.
Proof.
  intros Hd Hc Hi Hm E Ht Hf Hms Hv Hg Hwd Hb Ha Hix.
  assert (Gd : forall t', w_data (getpc st' t') = w_data (getpc st t')).
  { intros t'. rewrite Hg. destruct (Pos.eqb_spec t' t); [now subst|reflexivity]. }
  constructor.
  - intros t' b. rewrite Hg. destruct (Pos.eqb_spec t' t); [apply Hb|apply (d_batch st d Hd)].
  - rewrite Hc, Hm. apply (d_len st d Hd).
  - rewrite Hi, Hf. apply (d_imm st d Hd).
  - rewrite Hf, Hc, Hms. apply (d_imm_lt st d Hd).
  - intros t' s. rewrite Hg, Hms. destruct (Pos.eqb_spec t' t); [apply Ha|apply (d_assigned st d Hd)].
  - intros t' b s g n. rewrite Gd, E, Hc, Hms, Hf. intros Hw.
    destruct (d_wdata st d Hd t' b s g n Hw) as (H1 & H2 & H3). split; [exact H1|]. split; [exact H2|].
    destruct H3 as [H3|(trig & G1 & G2 & G3 & G4 & G5)]; [left; exact H3|right].
    exists trig. repeat split; auto. intros j i Hj. rewrite Hg.
    destruct (Pos.eqb_spec t' t) as [->|]; [|now apply G5].
    intros Hp. apply (G5 j i Hj). apply Hix; [exact Hp|]. rewrite Hwd, Hw. discriminate.
  - intros g e. rewrite E. intros He. destruct (d_ents st d Hd g e He) as [H|(t' & b & n & j & Hw & Hj)]; [now left|right].
    exists t', b, n, j. now rewrite Gd.
  - intros g. rewrite E. apply (d_sorted st d Hd).
  - intros g. rewrite E. apply (d_nodup st d Hd).
  - intros g. rewrite E. apply (d_keyts st d Hd).
  - apply (d_db_asc st d Hd).
  - rewrite Hv. apply (d_db_vis st d Hd).
  - intros s b kv. rewrite !E, Hc, Hi, Ht. setoid_rewrite E. apply (d_present st d Hd).
  - intros e. rewrite Hc, E, Hms. apply (d_cur_lo st d Hd).
  - intros trig g e. rewrite Hf, E, Hms. apply (d_imm_rng st d Hd).
  - rewrite Ht. apply (d_tree_db st d Hd).
  - intros e. rewrite Ht, Hf, Hms. intros He. pose proof (d_tree_hi st d Hd e He) as H.
    destruct (f_gen (k_fl st)) as [[trig g]|]; [|exact H]. now rewrite E.
  - intros trig g e. rewrite Hf, E, Ht. apply (d_installed st d Hd).
  - rewrite Ht. apply (d_tree_wf st d Hd).
  - rewrite Ht. apply (d_tree_ord st d Hd).
  - rewrite Ht. apply (d_tree_ne st d Hd).
Qed.

(* the flusher changes its pc within one phase; nothing of the data moves *)
Lemma data_fl_frame st st' d :
  Data st d ->
  k_cur st' = k_cur st -> k_imm st' = k_imm st -> k_mems st' = k_mems st -> k_tree st' = k_tree st ->
  k_memseq st' = k_memseq st -> k_vis st' = k_vis st ->
  (forall t', getpc st' t' = getpc st t') ->
  f_gen (k_fl st') = f_gen (k_fl st) -> f_pre (k_fl st') = f_pre (k_fl st) ->
  f_installed (k_fl st') = f_installed (k_fl st) ->
  (forall j, f_idx (k_fl st') = Some j -> f_pre (k_fl st') = true ->
     f_idx (k_fl st) = Some j \/ forall t i, w_idx (getpc st t) = Some i -> (i < j)%nat) ->
  Data st' d.
Proof.
  intros Hd Hc Hi Hm Ht Hms Hv Hg Hfg Hfp Hfi Hix.
  assert (E : forall g, ents st' g = ents st g) by (intros; now apply ents_eq).
  constructor.
  - intros t' b. rewrite Hg. apply (d_batch st d Hd).
  - rewrite Hc, Hm. apply (d_len st d Hd).
  - rewrite Hi, Hfg. apply (d_imm st d Hd).
  - rewrite Hfg, Hc, Hms. apply (d_imm_lt st d Hd).
  - intros t' s. rewrite Hg, Hms. apply (d_assigned st d Hd).
  - intros t' b s g n. rewrite Hg, E, Hc, Hms, Hfg. intros Hw.
    destruct (d_wdata st d Hd t' b s g n Hw) as (H1 & H2 & H3). split; [exact H1|]. split; [exact H2|].
    destruct H3 as [H3|(trig & G1 & G2 & G3 & G4 & G5)]; [left; exact H3|right].
    exists trig. rewrite Hfp. repeat split; auto. intros j i Hj Hti.
    destruct (Hix j Hj) as [Hold|Hnew]; [now rewrite Hfp|now apply (G5 j i)|now apply (Hnew t' i)].
  - intros g e. rewrite E. intros He. destruct (d_ents st d Hd g e He) as [H|(t' & b & n & j & Hw & Hj)]; [now left|right].
    exists t', b, n, j. now rewrite Hg.
  - intros g. rewrite E. apply (d_sorted st d Hd).
  - intros g. rewrite E. apply (d_nodup st d Hd).
  - intros g. rewrite E. apply (d_keyts st d Hd).
  - apply (d_db_asc st d Hd).
  - rewrite Hv. apply (d_db_vis st d Hd).
  - intros s b kv. rewrite !E, Hc, Hi, Ht. setoid_rewrite E. apply (d_present st d Hd).
  - intros e. rewrite Hc, E, Hms. apply (d_cur_lo st d Hd).
  - intros trig g e. rewrite Hfg, E, Hms. apply (d_imm_rng st d Hd).
  - rewrite Ht. apply (d_tree_db st d Hd).
  - intros e. rewrite Ht, Hfg, Hms, Hfi. intros He. pose proof (d_tree_hi st d Hd e He) as H.
    destruct (f_gen (k_fl st)) as [[trig g]|]; [|exact H]. now rewrite E.
  - intros trig g e. rewrite Hfg, Hfi, E, Ht. apply (d_installed st d Hd).
  - rewrite Ht. apply (d_tree_wf st d Hd).
  - rewrite Ht. apply (d_tree_ord st d Hd).
  - rewrite Ht. apply (d_tree_ne st d Hd).
Qed.

(* ------------------------------------------------------------------ LWPick *)
Lemma data_wpick st d t b i s tr :
  Skel st -> Data st d -> getpc st t = WAssigned b i s ->
  Data (with_pc (with_trig st tr) t (WPicked b i s (k_cur st))) d.
Proof.
  intros Hsk Hd Hpc. set (st' := with_pc _ t _).
  assert (E : forall g, ents st' g = ents st g) by reflexivity.
  assert (Gd : forall t', t' <> t -> getpc st' t' = getpc st t').
  { intros t' Hne. unfold st'. autorewrite with kvs. destruct (Pos.eqb_spec t' t); [contradiction|reflexivity]. }
  assert (Gt : getpc st' t = WPicked b i s (k_cur st)) by (unfold st'; apply getpc_with_pc_same).
  assert (Hms : k_memseq st < s) by (apply (d_assigned st d Hd t); rewrite Hpc; reflexivity).
  constructor; unfold st'; st_simpl; fold st'.
  - intros t' b'. case_t t' t; [rewrite Gt|rewrite (Gd t' E0)]; [|apply (d_batch st d Hd)].
    cbn. intros H. inversion H; subst. apply (d_batch st d Hd t). now rewrite Hpc.
  - apply (d_len st d Hd).
  - apply (d_imm st d Hd).
  - apply (d_imm_lt st d Hd).
  - intros t' s'. case_t t' t; [rewrite Gt; discriminate|rewrite (Gd t' E0)]. apply (d_assigned st d Hd).
  - intros t' b' s' g n. case_t t' t.
    + rewrite Gt. cbn. intros H. inversion H; subst. split; [lia|]. split; [intros j kv Hj; lia|]. left. auto.
    + rewrite (Gd t' E0). intros Hw. destruct (d_wdata st d Hd t' b' s' g n Hw) as (H1 & H2 & H3).
      split; [exact H1|]. split; [exact H2|]. destruct H3 as [H3|(trig & G1 & G2 & G3 & G4 & G5)]; [now left|right].
      exists trig. repeat split; auto.
  - intros g e He. destruct (d_ents st d Hd g e He) as [H|(t' & b' & n & j & Hw & Hj)]; [now left|right].
    exists t', b', n, j. case_t t' t; [rewrite Hpc in Hw; discriminate|]. now rewrite (Gd t' E0).
  - apply (d_sorted st d Hd).
  - apply (d_nodup st d Hd).
  - apply (d_keyts st d Hd).
  - apply (d_db_asc st d Hd).
  - apply (d_db_vis st d Hd).
  - apply (d_present st d Hd).
  - apply (d_cur_lo st d Hd).
  - apply (d_imm_rng st d Hd).
  - apply (d_tree_db st d Hd).
  - apply (d_tree_hi st d Hd).
  - apply (d_installed st d Hd).
  - apply (d_tree_wf st d Hd).
  - apply (d_tree_ord st d Hd).
  - apply (d_tree_ne st d Hd).
Qed.

(* ------------------------------------------------------------------ memtable updates *)
Lemma ents_upd st g m g' :
  ents (upd_mem st g m) g' = if (Nat.eqb g g' && (g <? length (k_mems st))%nat)%bool then mt_ents m else ents st g'.
Proof.
  unfold ents. destruct (Nat.eqb_spec g g') as [<-|Hne]; cbn [andb].
  - destruct (Nat.ltb_spec g (length (k_mems st))) as [Hlt|Hge].
    + now rewrite mem_at_upd_same.
    + unfold mem_at, upd_mem, with_mems. cbn [k_mems]. rewrite !nth_overflow; auto.
      now rewrite set_nth_length.
  - now rewrite mem_at_upd_other.
Qed.

Lemma ents_out st g : (length (k_mems st) <= g)%nat -> ents st g = [].
Proof. intros H. unfold ents. now rewrite mem_at_out. Qed.

Lemma f_installed_not_pre f : f_installed f = true -> f_pre f = false.
Proof. destruct f; cbn; congruence. Qed.

Lemma data_gen_lt st d t b s g n : Data st d -> w_data (getpc st t) = Some (b, s, g, n) -> (g < length (k_mems st))%nat.
Proof.
  intros Hd Hw. destruct (d_wdata st d Hd t b s g n Hw) as (_ & _ & [[-> _]|(trig & G1 & _)]).
  - apply (d_len st d Hd).
  - pose proof (d_imm_lt st d Hd trig g G1) as [H _]. pose proof (d_len st d Hd). lia.
Qed.

(* no entry with the key and sequence number of the entry about to be inserted is there yet *)
Lemma insert_fresh st d t b idx s g i kv e :
  Skel st -> Data st d -> getpc st t = WInserting b idx s g i -> nth_error b i = Some kv ->
  In e (ents st g) -> ek e = fst kv -> ets e = s -> False.
Proof.
  intros Hsk Hd Hpc Hkv He Hk Hs.
  assert (Hts : w_seq (getpc st t) = Some s) by (rewrite Hpc; reflexivity).
  destruct (d_ents st d Hd g e He) as [(b' & Hb' & _)|(t' & b' & n & j & Hw & Hj & Hn)].
  - pose proof (d_db_vis st d Hd _ _ Hb') as [H _]. pose proof (sk_seq_hi st Hsk t s Hts). lia.
  - rewrite Hs in Hw. assert (t' = t) by (eapply seq_unique; eauto using w_data_seq). subst t'.
    rewrite Hpc in Hw. cbn in Hw. inversion Hw; subst b' n.
    assert (Hnd : nodup_keysb (map fst b) = true) by (apply (d_batch st d Hd t); rewrite Hpc; reflexivity).
    assert (j = i) by (eapply (nodup_keys_nth b j i); eauto). lia.
Qed.

Lemma data_winsert st d t b idx s g i kv :
  Skel st -> Data st d -> getpc st t = WInserting b idx s g i -> nth_error b i = Some kv ->
  Data (with_pc (upd_mem st g (mkMt (insert_entry (mkE (fst kv) s (snd kv)) (mt_ents (mem_at st g))) (mt_log (mem_at st g))))
                t (WInserting b idx s g (S i))) d.
Proof.
  intros Hsk Hd Hpc Hkv.
  set (x := mkE (fst kv) s (snd kv)). set (st' := with_pc _ t _).
  assert (Hw : w_data (getpc st t) = Some (b, s, g, i)) by (rewrite Hpc; reflexivity).
  pose proof (data_gen_lt st d t b s g i Hd Hw) as Hg.
  destruct (d_wdata st d Hd t b s g i Hw) as (Hle & Hins & Hgen).
  assert (E : forall g', ents st' g' = if Nat.eqb g g' then insert_entry x (ents st g) else ents st g').
  { intros g'. unfold st'. change (ents (with_pc ?a t ?p) g') with (ents a g'). rewrite ents_upd.
    apply Nat.ltb_lt in Hg. rewrite Hg, andb_true_r. reflexivity. }
  assert (Sub : forall g' e, In e (ents st g') -> In e (ents st' g')).
  { intros g' e He. rewrite E. destruct (Nat.eqb_spec g g') as [<-|]; [|exact He]. apply in_insert_entry. now right. }
  assert (Gd : forall t', t' <> t -> getpc st' t' = getpc st t').
  { intros t' Hne. unfold st'. autorewrite with kvs. destruct (Pos.eqb_spec t' t); [contradiction|reflexivity]. }
  assert (Gt : getpc st' t = WInserting b idx s g (S i)) by (unfold st'; apply getpc_with_pc_same).
  assert (Fresh : forall e, In e (ents st g) -> ek e = fst kv -> ets e = s -> False)
    by (intros; eapply insert_fresh; eauto).
  assert (Hts : w_seq (getpc st t) = Some s) by (rewrite Hpc; reflexivity).
  pose proof (sk_seq_hi st Hsk t s Hts) as [Hvis Hseq].
  constructor; unfold st'; st_simpl; fold st'.
  - intros t' b'. case_t t' t; [rewrite Gt|rewrite (Gd t' E0)]; [|apply (d_batch st d Hd)].
    cbn. intros H. inversion H; subst. apply (d_batch st d Hd t). now rewrite Hpc.
  - rewrite set_nth_length. apply (d_len st d Hd).
  - apply (d_imm st d Hd).
  - apply (d_imm_lt st d Hd).
  - intros t' s'. case_t t' t; [rewrite Gt; discriminate|rewrite (Gd t' E0)]. apply (d_assigned st d Hd).
  - intros t' b' s' g' n. case_t t' t.
    + rewrite Gt. cbn. intros H. inversion H; subst b' s' g' n. split.
      { assert (i < length b)%nat by (apply nth_error_Some; congruence). lia. }
      split.
      { intros j kv' Hj Hn. rewrite E, Nat.eqb_refl. apply in_insert_entry.
        destruct (Nat.eq_dec j i) as [->|Hne]; [left|right; apply (Hins j kv'); [lia|exact Hn]].
        rewrite Hkv in Hn. inversion Hn. subst kv'. reflexivity. }
      destruct Hgen as [Hgl|(trig & G1 & G2 & G3 & G4 & G5)]; [now left|right].
      exists trig. repeat split; auto. intros j i' Hj Hi'. apply (G5 j i' Hj). rewrite Hpc. exact Hi'.
    + rewrite (Gd t' E0). intros Hw'. destruct (d_wdata st d Hd t' b' s' g' n Hw') as (H1 & H2 & H3).
      split; [exact H1|]. split; [intros j kv' Hj Hn; apply Sub; eauto|].
      destruct H3 as [H3|(trig & G1 & G2 & G3 & G4 & G5)]; [now left|right].
      exists trig. repeat split; auto.
  - intros g' e. rewrite E. destruct (Nat.eqb_spec g g') as [<-|Hne].
    + intros He. apply in_insert_entry in He. destruct He as [->|He].
      * right. exists t, b, (S i), i. rewrite Gt. cbn. repeat split; auto.
        rewrite Hkv. now destruct kv.
      * destruct (d_ents st d Hd g e He) as [H|(t' & b' & n & j & Hw' & Hj & Hn)]; [now left|right].
        case_t t' t.
        -- rewrite Hw in Hw'. injection Hw' as Eb Es En. subst b' n.
           exists t, b, (S i), j. rewrite Gt. cbn. rewrite Es. repeat split; auto.
        -- exists t', b', n, j. now rewrite (Gd t' E0).
    + intros He. destruct (d_ents st d Hd g' e He) as [H|(t' & b' & n & j & Hw' & Hj & Hn)]; [now left|right].
      case_t t' t.
      -- rewrite Hw in Hw'. injection Hw' as Eb Es Eg En. contradiction.
      -- exists t', b', n, j. now rewrite (Gd t' E0).
  - intros g'. rewrite E. destruct (Nat.eqb g g'); [apply insert_entry_ssorted|]; apply (d_sorted st d Hd).
  - intros g'. rewrite E. destruct (Nat.eqb_spec g g') as [<-|]; [|apply (d_nodup st d Hd)].
    apply (Permutation_NoDup (insert_entry_perm x (ents st g))). constructor; [|apply (d_nodup st d Hd)].
    intros Hin. now apply (Fresh x Hin).
  - intros g' e e'. rewrite E. destruct (Nat.eqb_spec g g') as [<-|]; [|apply (d_keyts st d Hd)].
    intros He He' Hk Hs. apply in_insert_entry in He, He'.
    destruct He as [->|He], He' as [->|He']; auto.
    + exfalso. apply (Fresh e' He'); [now rewrite <- Hk|now rewrite <- Hs].
    + exfalso. apply (Fresh e He); [now rewrite Hk|now rewrite Hs].
    + now apply (d_keyts st d Hd g).
  - apply (d_db_asc st d Hd).
  - apply (d_db_vis st d Hd).
  - intros s' b' kv' Hin Hkv'. destruct (d_present st d Hd s' b' kv' Hin Hkv') as [H|[(g' & Hi & H)|H]].
    + left. now apply Sub.
    + right. left. exists g'. split; [exact Hi|now apply Sub].
    + right. now right.
  - intros e. rewrite E. destruct (Nat.eqb_spec g (k_cur st)) as [Hc|]; [|apply (d_cur_lo st d Hd)].
    intros He. apply in_insert_entry in He. destruct He as [->|He]; [|apply (d_cur_lo st d Hd); now rewrite <- Hc].
    cbn [ets x]. destruct Hgen as [[_ H]|(trig & G1 & _)]; [exact H|].
    pose proof (d_imm_lt st d Hd trig g G1) as [H _]. lia.
  - intros trig g' e Hf. rewrite E. destruct (Nat.eqb_spec g g') as [<-|]; [|now apply (d_imm_rng st d Hd)].
    intros He. apply in_insert_entry in He. destruct He as [->|He]; [|now apply (d_imm_rng st d Hd trig g)].
    cbn [ets x]. destruct Hgen as [[Hc _]|(trig' & G1 & G2 & G3 & G4 & _)].
    + pose proof (d_imm_lt st d Hd trig g Hf) as [H _]. lia.
    + rewrite Hf in G1. inversion G1; subst. lia.
  - apply (d_tree_db st d Hd).
  - intros e He. pose proof (d_tree_hi st d Hd e He) as H.
    destruct (f_gen (k_fl st)) as [[trig g']|]; [|exact H]. destruct H as [H|[H1 H2]]; [now left|right].
    split; [exact H1|now apply Sub].
  - intros trig g' e Hf Hinst. rewrite E. destruct (Nat.eqb_spec g g') as [<-|]; [|now apply (d_installed st d Hd trig)].
    intros He. apply in_insert_entry in He. destruct He as [->|He]; [|now apply (d_installed st d Hd trig g)].
    exfalso. destruct Hgen as [[Hc _]|(trig' & G1 & G2 & _)].
    + pose proof (d_imm_lt st d Hd trig g Hf) as [H _]. lia.
    + rewrite (f_installed_not_pre _ Hinst) in G2. discriminate.
  - apply (d_tree_wf st d Hd).
  - apply (d_tree_ord st d Hd).
  - apply (d_tree_ne st d Hd).
Qed.

(* ------------------------------------------------------------------ LWPublish: the batch becomes committed *)
Lemma data_wpublish st d t b i s g :
  Skel st -> Data st d -> getpc st t = WHead b i s g ->
  Data (with_pc (with_vis st s) t (WPublished b i s)) (d ++ [(s, b)]).
Proof.
  intros Hsk Hd Hpc. set (st' := with_pc _ t _).
  assert (E : forall g', ents st' g' = ents st g') by reflexivity.
  assert (Gd : forall t', t' <> t -> getpc st' t' = getpc st t').
  { intros t' Hne. unfold st'. autorewrite with kvs. destruct (Pos.eqb_spec t' t); [contradiction|reflexivity]. }
  assert (Gt : getpc st' t = WPublished b i s) by (unfold st'; apply getpc_with_pc_same).
  assert (Hw : w_data (getpc st t) = Some (b, s, g, length b)) by (rewrite Hpc; reflexivity).
  assert (Hts : w_seq (getpc st t) = Some s) by (rewrite Hpc; reflexivity).
  pose proof (sk_seq_hi st Hsk t s Hts) as [Hvis Hseq].
  destruct (d_wdata st d Hd t b s g (length b) Hw) as (_ & Hins & Hgen).
  assert (Hnd : nodup_keysb (map fst b) = true) by (apply (d_batch st d Hd t); rewrite Hpc; reflexivity).
  constructor; unfold st'; st_simpl; fold st'.
  - intros t' b'. case_t t' t; [rewrite Gt|rewrite (Gd t' E0)]; [|apply (d_batch st d Hd)].
    cbn. intros H. inversion H; subst. exact Hnd.
  - apply (d_len st d Hd).
  - apply (d_imm st d Hd).
  - apply (d_imm_lt st d Hd).
  - intros t' s'. case_t t' t; [rewrite Gt; discriminate|rewrite (Gd t' E0)]. apply (d_assigned st d Hd).
  - intros t' b' s' g' n. case_t t' t; [rewrite Gt; discriminate|]. rewrite (Gd t' E0). apply (d_wdata st d Hd).
  - intros g' e He. destruct (d_ents st d Hd g' e He) as [(b' & H1 & H2)|(t' & b' & n & j & Hw' & Hj & Hn)].
    + left. exists b'. split; [apply in_or_app; now left|exact H2].
    + case_t t' t.
      * rewrite Hw in Hw'. injection Hw' as Eb Es Eg En. subst b'. left. exists b. split.
        -- apply in_or_app. right. left. now rewrite Es.
        -- eapply nth_error_In; eauto.
      * right. exists t', b', n, j. now rewrite (Gd t' E0).
  - apply (d_sorted st d Hd).
  - apply (d_nodup st d Hd).
  - apply (d_keyts st d Hd).
  - apply db_asc_snoc; [apply (d_db_asc st d Hd)|]. intros s' b' Hin.
    pose proof (d_db_vis st d Hd s' b' Hin) as [H _]. lia.
  - intros s' b' Hin. apply in_app_or in Hin. destruct Hin as [Hin|[Ein|[]]].
    + pose proof (d_db_vis st d Hd s' b' Hin) as [H1 H2]. split; [lia|exact H2].
    + inversion Ein; subst. split; [lia|exact Hnd].
  - intros s' b' kv Hin Hkv. apply in_app_or in Hin. destruct Hin as [Hin|[Ein|[]]]; [now apply (d_present st d Hd s' b')|].
    inversion Ein; subst s' b'. apply In_nth_error in Hkv. destruct Hkv as (j & Hj).
    assert (Hlt : (j < length b)%nat) by (apply nth_error_Some; congruence).
    pose proof (Hins j kv Hlt Hj) as Hin.
    destruct Hgen as [[-> _]|(trig & G1 & _)]; [now left|right; left].
    exists g. split; [|exact Hin]. rewrite (d_imm st d Hd), G1. reflexivity.
  - apply (d_cur_lo st d Hd).
  - apply (d_imm_rng st d Hd).
  - intros e He. destruct (d_tree_db st d Hd e He) as (b' & H1 & H2). exists b'. split; [apply in_or_app; now left|exact H2].
  - apply (d_tree_hi st d Hd).
  - apply (d_installed st d Hd).
  - apply (d_tree_wf st d Hd).
  - apply (d_tree_ord st d Hd).
  - apply (d_tree_ne st d Hd).
Qed.

(* ------------------------------------------------------------------ LFRollover *)
Lemma ents_rollover_old st g : (g < length (k_mems st))%nat -> ents (do_rollover st) g = ents st g.
Proof. intros H. unfold ents, mem_at, do_rollover. cbn [k_mems]. now rewrite app_nth1. Qed.
Lemma ents_rollover_new st : ents (do_rollover st) (length (k_mems st)) = [].
Proof. unfold ents, mem_at, do_rollover. cbn [k_mems]. rewrite app_nth2, Nat.sub_diag by lia. reflexivity. Qed.
Lemma ents_rollover_any st g e : In e (ents (do_rollover st) g) -> (g < length (k_mems st))%nat /\ In e (ents st g).
Proof.
  destruct (Nat.lt_ge_cases g (length (k_mems st))) as [Hlt|Hge].
  - rewrite ents_rollover_old by exact Hlt. auto.
  - destruct (Nat.eq_dec g (length (k_mems st))) as [->|Hne]; [rewrite ents_rollover_new; intros []|].
    unfold ents, mem_at, do_rollover. cbn [k_mems]. rewrite nth_overflow; [intros []|]. rewrite app_length. cbn. lia.
Qed.

Lemma data_frollover st d :
  Skel st -> Data st d -> k_fl st = FLocked -> k_mutex st = Some OFlusher ->
  Data (with_fl (do_rollover st) (FRolled (k_memseq st) (k_cur st))) d.
Proof.
  intros Hsk Hd Hfl Hm. set (st' := with_fl _ _).
  assert (Hnone : f_gen (k_fl st) = None) by (rewrite Hfl; reflexivity).
  assert (Himm : k_imm st = None) by (rewrite (d_imm st d Hd), Hnone; reflexivity).
  pose proof (d_len st d Hd) as Hlen.
  assert (Eold : forall g, (g < length (k_mems st))%nat -> ents st' g = ents st g) by (intros; now apply ents_rollover_old).
  assert (Eany : forall g e, In e (ents st' g) -> (g < length (k_mems st))%nat /\ In e (ents st g)) by (intros; now apply ents_rollover_any).
  assert (Gd : forall t', getpc st' t' = getpc st t') by reflexivity.
  assert (NoAss : forall t' s, w_assigned_only (getpc st t') = Some s -> False).
  { intros t' s H. assert (X : w_locked (getpc st t') = true) by (destruct (getpc st t'); cbn in *; congruence).
    rewrite (locked_flusher st t' Hsk Hm) in X. discriminate. }
  constructor; unfold st'; st_simpl; fold st'.
  - intros t' b. rewrite Gd. apply (d_batch st d Hd).
  - rewrite app_length. cbn. lia.
  - reflexivity.
  - cbn. intros trig g H. inversion H; subst. split; [exact Hlen|apply (sk_memseq st Hsk)].
  - intros t' s. rewrite Gd. intros H. exfalso. eapply NoAss; eauto.
  - intros t' b s g n. rewrite Gd. intros Hw. destruct (d_wdata st d Hd t' b s g n Hw) as (H1 & H2 & H3).
    assert (Hg : (g < length (k_mems st))%nat) by (eapply data_gen_lt; eauto).
    split; [exact H1|]. split; [intros j kv Hj Hn; rewrite (Eold g Hg); eauto|].
    destruct H3 as [[-> H3]|(trig & G1 & _)]; [|rewrite Hnone in G1; discriminate].
    right. exists (k_memseq st). cbn. repeat split; auto.
    + pose proof (sk_seq_hi st Hsk t' s (w_data_seq _ _ _ _ _ Hw)). lia.
    + intros; discriminate.
  - intros g e He. destruct (Eany g e He) as [Hg He']. destruct (d_ents st d Hd g e He') as [H|H]; [now left|right]. exact H.
  - intros g. destruct (Nat.lt_ge_cases g (length (k_mems st))) as [Hlt|Hge]; [rewrite (Eold g Hlt); apply (d_sorted st d Hd)|].
    assert (ents st' g = []) as ->; [|exact I].
    destruct (ents st' g) as [|e r] eqn:E0; [reflexivity|]. destruct (Eany g e) as [H _]; [rewrite E0; now left|lia].
  - intros g. destruct (Nat.lt_ge_cases g (length (k_mems st))) as [Hlt|Hge]; [rewrite (Eold g Hlt); apply (d_nodup st d Hd)|].
    assert (ents st' g = []) as ->; [|constructor].
    destruct (ents st' g) as [|e r] eqn:E0; [reflexivity|]. destruct (Eany g e) as [H _]; [rewrite E0; now left|lia].
  - intros g e e' He He'. destruct (Eany g e He) as [Hg H1]. destruct (Eany g e' He') as [_ H2]. now apply (d_keyts st d Hd g).
  - apply (d_db_asc st d Hd).
  - apply (d_db_vis st d Hd).
  - intros s b kv Hin Hkv. destruct (d_present st d Hd s b kv Hin Hkv) as [H|[(g & Hi & _)|H]].
    + right. left. exists (k_cur st). split; [reflexivity|]. now rewrite (Eold _ Hlen).
    + rewrite Himm in Hi. discriminate.
    + right. now right.
  - intros e He. destruct (Eany _ e He) as [H _]. lia.
  - cbn. intros trig g e H. inversion H; subst. rewrite (Eold _ Hlen). intros He. split.
    + now apply (d_cur_lo st d Hd).
    + eapply data_seq_hi; eauto.
  - apply (d_tree_db st d Hd).
  - cbn. intros e He. left. pose proof (d_tree_hi st d Hd e He) as H. now rewrite Hnone in H.
  - cbn. intros; discriminate.
  - apply (d_tree_wf st d Hd).
  - apply (d_tree_ord st d Hd).
  - apply (d_tree_ne st d Hd).
Qed.

(* ------------------------------------------------------------------ LFHead true: every writer of the
   immutable memtable has left the wait list *)
Lemma data_fhead st d trig g idx :
  Skel st -> Data st d -> k_fl st = FLinked trig g idx -> is_head st idx = true ->
  Data (with_fl st (FHead trig g idx)) d.
Proof.
  intros Hsk Hd Hfl Hh. set (st' := with_fl _ _).
  assert (Hgen : f_gen (k_fl st) = Some (trig, g)) by (rewrite Hfl; reflexivity).
  assert (NoPre : forall t b s n, w_data (getpc st t) = Some (b, s, g, n) -> False).
  { intros t b s n Hw. destruct (d_wdata st d Hd t b s g n Hw) as (_ & _ & [[Hc _]|(trig' & G1 & G2 & G3 & G4 & G5)]).
    - pose proof (d_imm_lt st d Hd trig g Hgen) as [H _]. lia.
    - destruct (w_seq_has_idx _ _ (w_data_seq _ _ _ _ _ Hw)) as (i & Hi).
      assert (Hlt : (i < idx)%nat) by (apply (G5 idx i); [rewrite Hfl; reflexivity|exact Hi]).
      pose proof (is_head_min st idx (sk_asc st Hsk) Hh i (sk_in_c st Hsk t i Hi)). lia. }
  constructor; unfold st'; st_simpl; fold st'; try apply Hd.
  - rewrite (d_imm st d Hd), Hfl. reflexivity.
  - cbn. intros trig' g' H. inversion H; subst. now apply (d_imm_lt st d Hd trig' g').
  - intros t b s g' n Hw. destruct (d_wdata st d Hd t b s g' n Hw) as (H1 & H2 & H3).
    split; [exact H1|]. split; [exact H2|]. destruct H3 as [H3|(trig' & G1 & _)]; [now left|].
    rewrite Hgen in G1. inversion G1; subst. exfalso. eapply NoPre; eauto.
  - cbn. intros trig' g' e H. inversion H; subst. now apply (d_imm_rng st d Hd trig' g').
  - cbn. intros e He. pose proof (d_tree_hi st d Hd e He) as H. rewrite Hgen in H.
    destruct H as [H|[H _]]; [now left|]. rewrite Hfl in H. discriminate.
  - cbn. intros; discriminate.
Qed.

(* once the flusher has passed the head nobody writes to the immutable memtable: its entries are committed *)
Lemma imm_committed st d trig g e :
  Data st d -> f_gen (k_fl st) = Some (trig, g) -> f_pre (k_fl st) = false -> In e (ents st g) ->
  exists b, In (ets e, b) d /\ In (ek e, ev e) b.
Proof.
  intros Hd Hgen Hpre He. destruct (d_ents st d Hd g e He) as [H|(t & b & n & j & Hw & _)]; [exact H|exfalso].
  destruct (d_wdata st d Hd t b (ets e) g n Hw) as (_ & _ & [[Hc _]|(trig' & G1 & G2 & _)]).
  - pose proof (d_imm_lt st d Hd trig g Hgen) as [H _]. lia.
  - congruence.
Qed.

(* ------------------------------------------------------------------ LFInstall *)
Lemma data_finstall st d trig g fid fsz :
  Skel st -> Data st d -> k_fl st = FBuilt trig g ->
  Data (with_fl (with_tree st (ver (flush (mkS (mt_ents (mem_at st g)) (k_tree st) 0) fid fsz))) (FInstalled trig g)) d.
Proof.
  intros Hsk Hd Hfl. set (st' := with_fl _ _).
  assert (Hgen : f_gen (k_fl st) = Some (trig, g)) by (rewrite Hfl; reflexivity).
  assert (Hpre : f_pre (k_fl st) = false) by (rewrite Hfl; reflexivity).
  assert (Hinst : f_installed (k_fl st) = false) by (rewrite Hfl; reflexivity).
  assert (Hlo : forall e', In e' (file_entries (k_tree st)) -> ets e' <= trig).
  { intros e' He'. pose proof (d_tree_hi st d Hd e' He') as H. rewrite Hgen in H.
    destruct H as [H|[H _]]; [exact H|congruence]. }
  assert (I : Inv (mkS (ents st g) (k_tree st) (k_seq st))).
  { apply build_inv.
    - apply (d_tree_wf st d Hd).
    - apply (d_tree_ord st d Hd).
    - intros k. eapply mt_desc; eauto.
    - intros e e' He He'. pose proof (d_imm_rng st d Hd trig g e Hgen He) as [H _]. pose proof (Hlo e' He'). lia.
    - intros e He. eapply data_seq_hi; eauto.
    - intros e He. destruct (d_tree_db st d Hd e He) as (b & Hb & _).
      pose proof (d_db_vis st d Hd _ _ Hb) as [H _]. pose proof (sk_vis st Hsk). lia. }
  pose proof (d_tree_ne st d Hd) as Hne.
  destruct (flush_inv _ fid fsz I Hne) as [I2 Hne2].
  assert (Etree : k_tree st' = ver (flush (mkS (ents st g) (k_tree st) (k_seq st)) fid fsz)).
  { unfold st'. st_simpl. apply ver_flush_seq. }
  assert (Hin : forall e, In e (file_entries (k_tree st')) <-> In e (ents st g) \/ In e (file_entries (k_tree st))).
  { intros e. rewrite Etree. now apply flush_entries. }
  assert (E : forall g', ents st' g' = ents st g') by reflexivity.
  constructor; try (unfold st'; st_simpl; fold st'; apply Hd).
  - unfold st'; st_simpl. rewrite (d_imm st d Hd), Hfl. reflexivity.
  - unfold st'; st_simpl. cbn. intros trig' g' H. inversion H; subst. now apply (d_imm_lt st d Hd trig' g').
  - intros t b s g' n. change (getpc st' t) with (getpc st t). intros Hw.
    destruct (d_wdata st d Hd t b s g' n Hw) as (H1 & H2 & H3).
    split; [exact H1|]. split; [exact H2|]. destruct H3 as [H3|(trig' & G1 & G2 & _)]; [now left|congruence].
  - intros s b kv Hi Hkv. destruct (d_present st d Hd s b kv Hi Hkv) as [H|[H|H]]; [now left|right; now left|].
    right. right. apply Hin. now right.
  - unfold st'; st_simpl. cbn. intros trig' g' e H. inversion H; subst. now apply (d_imm_rng st d Hd trig' g').
  - intros e He. apply Hin in He. destruct He as [He|He]; [|now apply (d_tree_db st d Hd)].
    eapply imm_committed; eauto.
  - intros e He. unfold st' at 1. st_simpl. cbn. apply Hin in He. destruct He as [He|He]; [right; auto|left; auto].
  - unfold st' at 1 2. st_simpl. cbn. intros trig' g' e H _ He. inversion H; subst. apply Hin. now left.
  - rewrite Etree. exact (inv_wf _ I2).
  - rewrite Etree. intros k. pose proof (inv_ord _ I2 k) as H. unfold kview in *.
    assert (Hm : mem (flush (mkS (ents st g) (k_tree st) (k_seq st)) fid fsz) = []).
    { unfold flush. cbn [mem]. destruct (ents st g); reflexivity. }
    rewrite Hm in H. exact H.
  - rewrite Etree. exact Hne2.
Qed.

(* ------------------------------------------------------------------ LFClear *)
Lemma data_fclear st d trig g m :
  Skel st -> Data st d -> k_fl st = FLocked2 trig g ->
  Data (with_fl (with_mutex (with_trig (set_imm st None) trig) m) FIdle) d.
Proof.
  intros Hsk Hd Hfl. set (st' := with_fl _ _).
  assert (Hgen : f_gen (k_fl st) = Some (trig, g)) by (rewrite Hfl; reflexivity).
  assert (Hpre : f_pre (k_fl st) = false) by (rewrite Hfl; reflexivity).
  assert (Hinst : f_installed (k_fl st) = true) by (rewrite Hfl; reflexivity).
  assert (Himm : k_imm st = Some g) by (rewrite (d_imm st d Hd), Hgen; reflexivity).
  constructor; unfold st'; st_simpl; fold st'; try apply Hd.
  - reflexivity.
  - cbn. intros; discriminate.
  - intros t b s g' n. change (getpc st' t) with (getpc st t). intros Hw.
    destruct (d_wdata st d Hd t b s g' n Hw) as (H1 & H2 & H3).
    split; [exact H1|]. split; [exact H2|]. destruct H3 as [H3|(trig' & G1 & G2 & _)]; [now left|congruence].
  - intros s b kv Hi Hkv. destruct (d_present st d Hd s b kv Hi Hkv) as [H|[(g' & Hg' & H)|H]]; [now left| |right; now right].
    right. right. rewrite Himm in Hg'. inversion Hg'; subst g'. eapply (d_installed st d Hd); eauto.
  - cbn. intros; discriminate.
  - cbn. intros e He. pose proof (d_tree_hi st d Hd e He) as H. rewrite Hgen in H.
    pose proof (d_imm_lt st d Hd trig g Hgen) as [_ Hlt].
    destruct H as [H|[_ H]]; [lia|]. now apply (d_imm_rng st d Hd trig g e Hgen).
  - cbn. intros; discriminate.
Qed.

(* ------------------------------------------------------------------ LCompact *)
Lemma data_compact st d c outs :
  Skel st -> Data st d -> valid_compactionb (k_tree st) c = true -> outputs_okb (k_tree st) c outs = true ->
  Data (with_tree st (apply_compaction (k_tree st) c outs)) d.
Proof.
  intros Hsk Hd Hv Ho. set (st' := with_tree _ _).
  pose proof (data_tree_inv st d Hsk Hd) as I.
  set (s := mkS [] (k_tree st) (k_seq st)) in *.
  assert (Hk : forall k, kview (compact s c outs) k = kview s k)
    by (intros k; apply (compaction_preserves_kview s c outs (inv_wf _ I) (inv_ord _ I) Hv Ho)).
  assert (Hwf : wf_version (apply_compaction (k_tree st) c outs))
    by (apply (compaction_wf s c outs (inv_wf _ I) (inv_ord _ I) Hv Ho)).
  assert (Hin : forall e, In e (file_entries (k_tree st')) <-> In e (file_entries (k_tree st))).
  { intros e. apply (files_view_eq s (compact s c outs) eq_refl Hk). }
  constructor; try (unfold st'; st_simpl; fold st'; apply Hd).
  - intros s0 b kv Hi Hkv. destruct (d_present st d Hd s0 b kv Hi Hkv) as [H|[H|H]]; [now left|right; now left|].
    right. right. now apply Hin.
  - intros e He. apply Hin in He. now apply (d_tree_db st d Hd).
  - intros e He. apply Hin in He. apply (d_tree_hi st d Hd e He).
  - intros trig g e H1 H2 H3. apply Hin. eapply (d_installed st d Hd); eauto.
  - exact Hwf.
  - intros k. pose proof (inv_ord _ I k) as H. rewrite <- (Hk k) in H. exact H.
  - unfold st'. st_simpl. apply apply_compaction_nonempty, (d_tree_ne st d Hd).
Qed.

(* ------------------------------------------------------------------ LWFail: a write that has inserted
   nothing gives up *)
Lemma data_wfail st d t b idx s g :
  Data st d -> getpc st t = WAppending b idx s g -> Data (with_pc st t (WFailed b idx s)) d.
Proof.
  intros Hd Hpc. set (st' := with_pc _ t _).
  assert (E : forall g', ents st' g' = ents st g') by reflexivity.
  assert (Gd : forall t', t' <> t -> getpc st' t' = getpc st t').
  { intros t' Hne. unfold st'. autorewrite with kvs. destruct (Pos.eqb_spec t' t); [contradiction|reflexivity]. }
  assert (Gt : getpc st' t = WFailed b idx s) by (unfold st'; apply getpc_with_pc_same).
  constructor; unfold st'; st_simpl; fold st'; try apply Hd.
  - intros t' b'. case_t t' t; [rewrite Gt|rewrite (Gd t' E0)]; [|apply (d_batch st d Hd)].
    cbn. intros H. inversion H; subst. apply (d_batch st d Hd t). now rewrite Hpc.
  - intros t' s'. case_t t' t; [rewrite Gt; discriminate|rewrite (Gd t' E0)]. apply (d_assigned st d Hd).
  - intros t' b' s' g' n. case_t t' t; [rewrite Gt; discriminate|]. rewrite (Gd t' E0). intros Hw.
    destruct (d_wdata st d Hd t' b' s' g' n Hw) as (H1 & H2 & H3). split; [exact H1|]. split; [exact H2|].
    destruct H3 as [H3|(trig & G1 & G2 & G3 & G4 & G5)]; [now left|right]. exists trig. repeat split; auto.
  - intros g' e He. destruct (d_ents st d Hd g' e He) as [H|(t' & b' & n & j & Hw & Hj & Hn)]; [now left|right].
    case_t t' t; [rewrite Hpc in Hw; cbn in Hw; inversion Hw; subst; lia|]. exists t', b', n, j. now rewrite (Gd t' E0).
Qed.

(* ------------------------------------------------------------------ every step *)
Definition commit_of (st : state) (l : label) (d : db) : db :=
  match l with
  | LWPublish t _ => match getpc st t with WHead b _ s _ => d ++ [(s, b)] | _ => d end
  | _ => d
  end.

Ltac dframe Hd t :=
  eapply (data_pc_frame _ _ _ t);
  [exact Hd|reflexivity|reflexivity|try reflexivity|try (intros ?; reflexivity)|reflexivity|reflexivity|reflexivity|reflexivity
  |intros ?; autorewrite with kvs; reflexivity|..];
  match goal with Hpc : getpc _ t = _ |- _ => rewrite ?Hpc end; try reflexivity;
  try (intros; discriminate);
  try (let b' := fresh in let H := fresh in intros b' H; cbn in H; inversion H; subst;
       match goal with Hpc : getpc ?st t = _ |- _ => apply (d_batch st _ Hd t); rewrite Hpc; reflexivity end);
  try (let i' := fresh in let H := fresh in let H2 := fresh in intros i' H H2; cbn in *; solve [exact H | exfalso; apply H2; reflexivity]).

Ltac fframe Hd :=
  eapply (data_fl_frame _ _ _);
  [exact Hd|reflexivity|reflexivity|reflexivity|reflexivity|reflexivity|reflexivity|intros ?; reflexivity|..];
  st_simpl; match goal with Hfl : k_fl _ = _ |- _ => rewrite ?Hfl end; try reflexivity;
  try (intros; discriminate).

Theorem data_step st d l st' : Skel st -> Data st d -> step st l = Some st' -> Data st' (commit_of st l d).
Proof.
  intros Hsk Hd H. destruct l; inv_step H; cbn [commit_of]; rewrite ?Hpc.
  - (* LInvW *) inversion H; subst st'. dframe Hd t.
    intros b' Hb'. cbn in Hb'. inversion Hb'. apply dedupe_nodup.
  - (* LWLock *) inv_guard H. subst st'. dframe Hd t.
  - (* LWLink *) inv_guard H. subst st'. dframe Hd t.
  - (* LWAssign *) inv_guard H. subst st'. dframe Hd t.
    intros s' Hs'. cbn in Hs'. inversion Hs'. pose proof (sk_memseq st Hsk). lia.
  - (* LWPick *) inv_guard H. subst st'. destruct full.
    + unfold do_trigger. eapply data_wpick; eauto.
    + assert (E : st = with_trig st (k_trig st)) by (destruct st; reflexivity).
      rewrite E at 1. eapply data_wpick; eauto.
  - (* LWUnlock *) inv_guard H. subst st'. dframe Hd t.
  - (* LWLog *) inversion H; subst st'. dframe Hd t.
    + unfold upd_mem, with_mems, with_pc. cbn [k_mems]. apply set_nth_length.
    + intros g'. change (ents (with_pc ?a t ?p) g') with (ents a g'). rewrite ents_upd. cbn [mt_ents].
      destruct (Nat.eqb_spec g g') as [<-|]; cbn [andb]; [|reflexivity]. now destruct (g <? length (k_mems st))%nat.
  - (* LWInsert *) destruct (nth_error b i) eqn:Hkv; [|discriminate]. inversion H; subst st'. eapply data_winsert; eauto.
  - (* LWDrop *) inv_guard H. subst st'. apply Nat.eqb_eq in Hg. subst i. dframe Hd t.
  - (* LWLock2 *) inv_guard H. subst st'. dframe Hd t.
  - (* LWHead *) inv_guard H. subst st'. destruct h; dframe Hd t.
  - (* LWWake *) inv_guard H. subst st'. dframe Hd t.
  - (* LWPublish *) inv_guard H. subst st'. eapply data_wpublish; eauto.
  - (* LWUnlink *) inv_guard H. subst st'. dframe Hd t.
  - (* LWRet *) inv_guard H. subst st'. dframe Hd t.
  - (* LWFail *) inversion H; subst st'. eapply data_wfail; eauto.
  - (* LWLockF *) inv_guard H. subst st'. dframe Hd t.
  - (* LWUnlinkF *) inv_guard H. subst st'. dframe Hd t.
  - (* LWRetF *) inv_guard H. subst st'. dframe Hd t.
  - (* LInvR *) inversion H; subst st'. dframe Hd t.
  - (* LSnap *) inv_guard H. subst st'. destruct q; dframe Hd t.
  - (* LRMem *) inv_guard H. subst st'.
    destruct (mt_load _ k (sn_ts sn)); [|destruct (sn_imm sn)]; dframe Hd t.
  - (* LRImm *) inv_guard H. subst st'.
    destruct (match imm_ents st sn with Some i => mt_load i k (sn_ts sn) | None => None end); dframe Hd t.
  - (* LRTree *) inv_guard H. subst st'. dframe Hd t.
  - (* LRetGet *) inv_guard H. subst st'. dframe Hd t.
  - (* LScanNext *) inv_guard H. subst st'. dframe Hd t.
  - (* LRetScan *) inversion H; subst st'. dframe Hd t.
  - (* LFLock *) inv_guard H. subst st'. fframe Hd.
  - (* LFWait *) inv_guard H. subst st'. fframe Hd.
  - (* LFRollover *) inv_guard H. subst st'. apply holds_flusher in Hg0. now apply data_frollover.
  - (* LFLink *) inv_guard H. subst st'. fframe Hd.
    cbn. intros j Hj _. inversion Hj; subst. right. intros t i Hi.
    apply (sk_bound st Hsk), (sk_in_c st Hsk t i Hi).
  - (* LFHead *) inv_guard H. subst st'. apply eqb_prop in Hg. destruct h.
    + now apply data_fhead.
    + fframe Hd. cbn. intros j Hj _. now left.
  - (* LFWake *) inv_guard H. subst st'. fframe Hd. cbn. intros j Hj _. now left.
  - (* LFUnlink *) inv_guard H. subst st'. fframe Hd.
  - (* LFUnlock *) inv_guard H. subst st'. fframe Hd.
  - (* LFSeal *) inversion H; subst st'. fframe Hd.
  - (* LFInstall *) inversion H; subst st'. now apply data_finstall.
  - (* LFLock2 *) inv_guard H. subst st'. fframe Hd.
  - (* LFClear *) inv_guard H. subst st'. eapply data_fclear; eauto.
  - (* LTrigger *) unfold step in H. inv_guard H. subst st'. eapply (data_fl_frame st); try reflexivity; try exact Hd.
    intros j Hj _. now left.
  - (* LCompact *) unfold step in H. inv_guard H. subst st'. now apply data_compact.
Qed.
