(* Conc/ProofsHist.v — what acceptance by the atomic specification machine (Spec.sstep) means for
   the recorded history: linearization points between invocation and response, reads return the
   latest committed write, the database only grows, views are batch-atomic. *)
From Coq Require Import NArith List Bool Arith PArith FMapPositive Lia.
From Blue Require Import Lsm.Model Lsm.KeyOrder Lsm.History.
From Blue Require Import Conc.KvsConc Conc.Spec Conc.ProofsBase Conc.ProofsData Conc.ProofsRead Conc.ProofsSim.
Import ListNotations.
Open Scope N_scope.

Arguments N.leb : simpl never.
Arguments N.ltb : simpl never.
Arguments N.eqb : simpl never.
Arguments N.add : simpl never.
Arguments N.max : simpl never.

(* ------------------------------------------------------------------ runs of the specification *)
Lemma srun_app sp a b : srun sp (a ++ b) = match srun sp a with Some sp' => srun sp' b | None => None end.
Proof.
  revert sp. induction a as [|l a IH]; intros sp; cbn [srun app]; [reflexivity|].
  destruct (sstep sp l); [apply IH|reflexivity].
Qed.

Lemma srun_snoc sp a l sp' : srun sp (a ++ [l]) = Some sp' <-> exists sp1, srun sp a = Some sp1 /\ sstep sp1 l = Some sp'.
Proof.
  rewrite srun_app. destruct (srun sp a) as [sp1|]; cbn [srun].
  - destruct (sstep sp1 l) as [sp2|] eqn:E.
    + split; [intros H; inversion H; subst; eauto|intros (x & Hx & Hs); inversion Hx; subst; congruence].
    + split; [discriminate|intros (x & Hx & Hs); inversion Hx; subst; congruence].
  - split; [discriminate|intros (x & Hx & _); discriminate].
Qed.

Lemma dbof_run pre sp : srun sinit pre = Some sp -> dbof pre = s_db sp.
Proof. intros H. unfold dbof. now rewrite H. Qed.

(* the database is append-only and strictly ascending *)
Lemma sstep_db sp l sp' : sstep sp l = Some sp' ->
  s_db sp' = s_db sp \/ exists t s b, l = LWPublish t s /\ sget sp t = SWPending b /\ db_max (s_db sp) < s /\ s_db sp' = s_db sp ++ [(s, b)].
Proof.
  destruct l; cbn [sstep]; try (intros H; inversion H; subst; now left);
    try (destruct (sget sp t) as [| | | |[k|lo hi] view last]; try discriminate; intros H; inversion H; now left).
  - destruct (sget sp t) eqn:E; try discriminate. destruct (db_max (s_db sp) <? s) eqn:Em; [|discriminate].
    intros H. inversion H; subst. right. exists t, s, b. apply N.ltb_lt in Em. auto.
  - destruct (sget sp t) as [| | | |[k|lo hi] view last]; try discriminate.
    destruct (ovalue_eqb r (db_value view k)); [|discriminate]. intros H. inversion H. now left.
  - destruct (sget sp t) as [| | | |[k|lo hi] view last]; try discriminate.
    destruct (okv_eqb kv (db_scan_next view lo hi last)); [|discriminate]. intros H. inversion H. now left.
Qed.

Lemma db_max_ge d s b : In (s, b) d -> s <= db_max d.
Proof.
  induction d as [|[s0 b0] d IH]; [intros []|]. cbn [db_max fold_right fst]. fold (db_max d).
  intros [E|H]; [inversion E; lia|specialize (IH H); lia].
Qed.

Lemma srun_prefix ls : forall sp sp', srun sp ls = Some sp' -> prefix_of (s_db sp) (s_db sp').
Proof.
  induction ls as [|l ls IH]; intros sp sp'; cbn [srun].
  - intros H. inversion H. exists []. now rewrite app_nil_r.
  - destruct (sstep sp l) as [sp1|] eqn:E; [|discriminate]. intros H. destruct (IH _ _ H) as (x & Hx).
    destruct (sstep_db _ _ _ E) as [Hs|(t & s & b & _ & _ & _ & Hs)]; rewrite Hs in Hx.
    + now exists x.
    + exists ((s, b) :: x). now rewrite Hx, <- app_assoc.
Qed.

Lemma srun_asc ls : forall sp sp', db_asc (s_db sp) -> srun sp ls = Some sp' -> db_asc (s_db sp').
Proof.
  induction ls as [|l ls IH]; intros sp sp' Ha; cbn [srun].
  - intros H. now inversion H; subst.
  - destruct (sstep sp l) as [sp1|] eqn:E; [|discriminate]. apply IH.
    destruct (sstep_db _ _ _ E) as [Hs|(t & s & b & _ & _ & Hm & Hs)]; rewrite Hs; [exact Ha|].
    apply db_asc_snoc; [exact Ha|]. intros s' b' Hin. pose proof (db_max_ge _ _ _ Hin). lia.
Qed.

Theorem dbof_prefix pre x sp : srun sinit (pre ++ x) = Some sp -> prefix_of (dbof pre) (dbof (pre ++ x)).
Proof.
  intros H. pose proof H as H'. rewrite srun_app in H'. destruct (srun sinit pre) as [sp1|] eqn:E; [|discriminate].
  rewrite (dbof_run _ _ E), (dbof_run _ _ H). eapply srun_prefix; eauto.
Qed.

Theorem dbof_asc pre sp : srun sinit pre = Some sp -> db_asc (dbof pre).
Proof. intros H. rewrite (dbof_run _ _ H). eapply (srun_asc pre sinit); [exact I|exact H]. Qed.

(* ------------------------------------------------------------------ pure facts about databases *)
Lemma db_get_source d k s v : db_get d k = Some (s, v) -> exists b, In (s, b) d /\ batch_get b k = Some v.
Proof.
  induction d as [|[s0 b0] d IH]; cbn [db_get]; [discriminate|].
  destruct (db_get d k) as [[s1 v1]|].
  - intros H. inversion H; subst. destruct (IH eq_refl) as (b & Hb & Hg). exists b. split; [now right|exact Hg].
  - destruct (batch_get b0 k) as [v0|] eqn:E; [|discriminate]. intros H. inversion H; subst. exists b0. split; [now left|exact E].
Qed.

Lemma db_get_contains d k s b v : db_asc d -> In (s, b) d -> batch_get b k = Some v ->
  exists s' v', db_get d k = Some (s', v') /\ s <= s' /\ (s' = s -> v' = v).
Proof.
  induction d as [|[s0 b0] d IH]; [intros _ []|]. intros Ha Hin Hg. cbn [db_get].
  cbn [db_asc] in Ha. destruct Ha as [H0 Ha]. destruct Hin as [E|Hin].
  - inversion E; subst s0 b0. destruct (db_get d k) as [[s1 v1]|] eqn:E1.
    + exists s1, v1. destruct (db_get_source _ _ _ _ E1) as (b1 & Hb1 & _). specialize (H0 _ _ Hb1).
      split; [reflexivity|]. split; [lia|]. intros ->. lia.
    + rewrite Hg. exists s, v. split; [reflexivity|]. split; [lia|auto].
  - destruct (IH Ha Hin Hg) as (s' & v' & H1 & H2 & H3). rewrite H1. exists s', v'. auto.
Qed.

Lemma db_asc_app_lt a x s b s' b' : db_asc (a ++ x) -> In (s, b) a -> In (s', b') x -> s < s'.
Proof.
  induction a as [|[s0 b0] a IH]; [intros _ []|]. cbn [app db_asc]. intros [H0 Ha] [E|Hin] Hx.
  - inversion E; subst. apply (H0 s' b'). apply in_or_app. now right.
  - now apply IH.
Qed.

Lemma db_asc_app_l a x : db_asc (a ++ x) -> db_asc a.
Proof.
  induction a as [|[s0 b0] a IH]; [intros _; exact I|]. cbn [app db_asc]. intros [H0 Ha]. split; [|now apply IH].
  intros s' b' Hin. apply (H0 s' b'). apply in_or_app. now left.
Qed.

Lemma db_get_app_mono v x k s1 v1 : db_asc (v ++ x) -> db_get v k = Some (s1, v1) ->
  exists s2 v2, db_get (v ++ x) k = Some (s2, v2) /\ s1 <= s2.
Proof.
  intros Ha Hg. destruct (db_get_source _ _ _ _ Hg) as (b & Hb & Hbg).
  destruct (db_get_contains (v ++ x) k s1 b v1 Ha) as (s2 & v2 & H1 & H2 & _); [apply in_or_app; now left|exact Hbg|].
  exists s2, v2. auto.
Qed.

Lemma db_asc_unique d s b b' : db_asc d -> In (s, b) d -> In (s, b') d -> b = b'.
Proof.
  induction d as [|[s0 b0] d IH]; [intros _ []|]. cbn [db_asc]. intros [H0 Ha] [E|Hb] [E'|Hb'].
  - congruence.
  - inversion E; subst. specialize (H0 _ _ Hb'). lia.
  - inversion E'; subst. specialize (H0 _ _ Hb). lia.
  - now apply IH.
Qed.

(* a view that is a prefix of the (ascending) database sees all of a batch or none of it *)
Theorem view_batch_atomic v x s b k1 k2 : db_asc (v ++ x) -> In (s, b) (v ++ x) ->
  batch_get b k1 <> None -> batch_get b k2 <> None -> sees v s k1 = sees v s k2.
Proof.
  intros Ha Hin H1 H2.
  assert (In_v : In (s, b) v -> forall k, batch_get b k <> None -> sees v s k = true).
  { intros Hv k Hk. destruct (batch_get b k) as [vv|] eqn:E; [|congruence].
    destruct (db_get_contains v k s b vv (db_asc_app_l _ _ Ha) Hv E) as (s' & v' & G1 & G2 & _).
    unfold sees. rewrite G1. apply N.leb_le. lia. }
  assert (Not_v : ~ In (s, b) v -> forall k, sees v s k = false).
  { intros Hnv k. unfold sees. destruct (db_get v k) as [[s' v']|] eqn:E; [|reflexivity].
    destruct (db_get_source _ _ _ _ E) as (b' & Hb' & _). apply in_app_or in Hin. destruct Hin as [Hin|Hin]; [contradiction|].
    pose proof (db_asc_app_lt _ _ _ _ _ _ Ha Hb' Hin). apply N.leb_gt. lia. }
  destruct (existsb (fun sb => fst sb =? s) v) eqn:Ex.
  - apply existsb_exists in Ex. destruct Ex as ([s0 b'] & Hv & Hs). cbn in Hs. apply N.eqb_eq in Hs. subst s0.
    assert (b' = b) by (eapply (db_asc_unique (v ++ x)); eauto; apply in_or_app; now left). subst b'.
    rewrite !In_v; auto.
  - assert (Hnv : ~ In (s, b) v).
    { intros Hv. assert (existsb (fun sb => fst sb =? s) v = true); [|congruence].
      apply existsb_exists. exists (s, b). split; [exact Hv|apply N.eqb_refl]. }
    rewrite !Not_v; auto.
Qed.

(* ------------------------------------------------------------------ where in the trace an operation stands *)
Definition TInv (pre : list label) (sp : sstate) (t : tid) : Prop :=
  match sget sp t with
  | SIdle => True
  | SWPending b => exists pre1 pre2 b0, pre = pre1 ++ LInvW t b0 :: pre2 /\ b = dedupe b0 /\ no_inv t pre2 /\
                                         (forall s, ~ In (LWPublish t s) pre2)
  | SWDone => exists pre1 pre2 pre3 b0 s,
      pre = pre1 ++ LInvW t b0 :: pre2 ++ LWPublish t s :: pre3 /\ no_inv t pre2 /\ no_inv t pre3 /\
      dbof (pre1 ++ LInvW t b0 :: pre2 ++ [LWPublish t s]) = dbof (pre1 ++ LInvW t b0 :: pre2) ++ [(s, dedupe b0)]
  | SRPending q => exists pre1 pre2, pre = pre1 ++ LInvR t q :: pre2 /\ no_inv t pre2
  | SRView q v last => exists pre1 pre2 pre3 ts,
      pre = pre1 ++ LInvR t q :: pre2 ++ LSnap t ts :: pre3 /\ no_inv t pre2 /\ no_inv t pre3 /\
      v = dbof (pre1 ++ LInvR t q :: pre2) /\ last = scan_cursor t pre3 None
  end.

Definition not_inv_of (t : tid) (l : label) : Prop :=
  match l with LInvR t' _ | LInvW t' _ => t' <> t | _ => True end.

Lemma no_inv_snoc t seg l : no_inv t seg -> not_inv_of t l -> no_inv t (seg ++ [l]).
Proof. intros H Hl x Hx. apply in_app_or in Hx. destruct Hx as [Hx|[<-|[]]]; [now apply H|exact Hl]. Qed.

Lemma no_inv_nil t : no_inv t []. Proof. intros x []. Qed.

Lemma scan_cursor_app t a b acc : scan_cursor t (a ++ b) acc = scan_cursor t b (scan_cursor t a acc).
Proof.
  revert acc. induction a as [|l a IH]; intros acc; cbn [app scan_cursor]; [reflexivity|].
  destruct l; try apply IH. destruct kv as [[k x]|]; apply IH.
Qed.

(* a label that leaves thread t's specification state alone extends the last segment *)
Lemma tinv_extend pre sp sp' t l :
  sget sp' t = sget sp t -> not_inv_of t l ->
  (forall k x, l <> LScanNext t (Some (k, x))) -> (forall s, l <> LWPublish t s) ->
  TInv pre sp t -> TInv (pre ++ [l]) sp' t.
Proof.
  unfold TInv. intros Hs Hl Hsc Hpub. rewrite Hs. destruct (sget sp t) as [|b| |q|q v last]; auto.
  - intros (pre1 & pre2 & b0 & -> & Hb & Hn & Hnp). exists pre1, (pre2 ++ [l]), b0.
    split; [now rewrite <- app_assoc|]. split; [exact Hb|]. split; [now apply no_inv_snoc|].
    intros s0 Hin. apply in_app_or in Hin. destruct Hin as [Hin|[E|[]]]; [eapply Hnp; eauto|]. eapply Hpub; eauto.
  - intros (pre1 & pre2 & pre3 & b0 & s & -> & H2 & H3 & Hdb). exists pre1, pre2, (pre3 ++ [l]), b0, s.
    split; [now rewrite <- !app_assoc; cbn; rewrite <- app_assoc|]. repeat split; auto. now apply no_inv_snoc.
  - intros (pre1 & pre2 & -> & Hn). exists pre1, (pre2 ++ [l]). split; [now rewrite <- app_assoc|now apply no_inv_snoc].
  - intros (pre1 & pre2 & pre3 & ts & -> & H2 & H3 & Hv & Hl'). exists pre1, pre2, (pre3 ++ [l]), ts.
    split; [now rewrite <- !app_assoc; cbn; rewrite <- app_assoc|]. repeat split; auto; [now apply no_inv_snoc|].
    rewrite scan_cursor_app, <- Hl'. cbn [scan_cursor]. destruct l; try reflexivity.
    destruct kv as [[k x]|]; [|reflexivity]. destruct (Pos.eqb_spec t0 t) as [->|]; [|reflexivity].
    exfalso. eapply Hsc; eauto.
Qed.

Lemma sget_sset_same sp t p : sget (sset sp t p) t = p.
Proof. rewrite sget_sset, Pos.eqb_refl. reflexivity. Qed.
Lemma sget_sset_other sp t p t' : t' <> t -> sget (sset sp t p) t' = sget sp t'.
Proof. intros H. rewrite sget_sset. destruct (Pos.eqb_spec t' t); [contradiction|reflexivity]. Qed.

Lemma tinv_step pre sp l sp' : srun sinit pre = Some sp -> sstep sp l = Some sp' ->
  (forall t, TInv pre sp t) -> forall t, TInv (pre ++ [l]) sp' t.
Proof.
  intros Hrun Hstep Hinv t.
  assert (Hrun' : srun sinit (pre ++ [l]) = Some sp') by (apply srun_snoc; eauto).
  (* labels the specification does not see *)
  assert (Stutter : sp' = sp -> not_inv_of t l -> (forall k x, l <> LScanNext t (Some (k, x))) ->
                    (forall s, l <> LWPublish t s) -> TInv (pre ++ [l]) sp' t).
  { intros -> Hn Hs Hp. apply (tinv_extend pre sp sp t l); auto. }
  destruct l; cbn [sstep] in Hstep;
    try (inversion Hstep; subst sp'; apply Stutter; [reflexivity|exact I|intros; discriminate|intros; discriminate]).
  - (* LInvW *) destruct (sget sp t0) eqn:E; try discriminate. inversion Hstep; subst sp'. clear Hstep.
    destruct (Pos.eq_dec t t0) as [->|Hne].
    + unfold TInv. rewrite sget_sset_same. exists pre, [], b. repeat split; auto using no_inv_nil.
    + apply (tinv_extend pre sp _ t); [now apply sget_sset_other|cbn; congruence|intros; discriminate|intros; discriminate|apply Hinv].
  - (* LWPublish *) destruct (sget sp t0) eqn:E; try discriminate. destruct (db_max (s_db sp) <? s); [|discriminate].
    inversion Hstep; subst sp'. clear Hstep.
    destruct (Pos.eq_dec t t0) as [->|Hne].
    + pose proof (Hinv t0) as X. unfold TInv in X. rewrite E in X. destruct X as (pre1 & pre2 & b0 & -> & Hb & Hn & _).
      unfold TInv. rewrite sget_sset_same. exists pre1, pre2, [], b0, s. rewrite <- app_assoc. cbn [app].
      repeat split; auto using no_inv_nil. rewrite <- app_assoc in Hrun'. cbn [app] in Hrun'.
      rewrite (dbof_run _ _ Hrun'), (dbof_run _ _ Hrun). cbn [s_db sset]. now rewrite Hb.
    + apply (tinv_extend pre sp _ t); [rewrite sget_sset_other by auto; reflexivity|exact I|intros; discriminate| |apply Hinv].
      intros s0 Hc. inversion Hc. congruence.
  - (* LWRet *) destruct (sget sp t0) eqn:E; try discriminate. inversion Hstep; subst sp'. clear Hstep.
    destruct (Pos.eq_dec t t0) as [->|Hne].
    + unfold TInv. rewrite sget_sset_same. exact I.
    + apply (tinv_extend pre sp _ t); [now apply sget_sset_other|exact I|intros; discriminate|intros; discriminate|apply Hinv].
  - (* LWRetF *) destruct (sget sp t0) eqn:E; try discriminate. inversion Hstep; subst sp'. clear Hstep.
    destruct (Pos.eq_dec t t0) as [->|Hne].
    + unfold TInv. rewrite sget_sset_same. exact I.
    + apply (tinv_extend pre sp _ t); [now apply sget_sset_other|exact I|intros; discriminate|intros; discriminate|apply Hinv].
  - (* LInvR *) destruct (sget sp t0) eqn:E; try discriminate. inversion Hstep; subst sp'. clear Hstep.
    destruct (Pos.eq_dec t t0) as [->|Hne].
    + unfold TInv. rewrite sget_sset_same. exists pre, []. split; [reflexivity|apply no_inv_nil].
    + apply (tinv_extend pre sp _ t); [now apply sget_sset_other|cbn; congruence|intros; discriminate|intros; discriminate|apply Hinv].
  - (* LSnap *) destruct (sget sp t0) eqn:E; try discriminate. inversion Hstep; subst sp'. clear Hstep.
    destruct (Pos.eq_dec t t0) as [->|Hne].
    + pose proof (Hinv t0) as X. unfold TInv in X. rewrite E in X. destruct X as (pre1 & pre2 & -> & Hn).
      unfold TInv. rewrite sget_sset_same. exists pre1, pre2, [], ts. rewrite <- app_assoc. cbn [app].
      repeat split; auto using no_inv_nil. now rewrite (dbof_run _ _ Hrun).
    + apply (tinv_extend pre sp _ t); [now apply sget_sset_other|exact I|intros; discriminate|intros; discriminate|apply Hinv].
  - (* LRetGet *) destruct (sget sp t0) as [| | | |[k|lo hi] view last] eqn:E; try discriminate.
    destruct (ovalue_eqb r (db_value view k)); [|discriminate]. inversion Hstep; subst sp'. clear Hstep.
    destruct (Pos.eq_dec t t0) as [->|Hne].
    + unfold TInv. rewrite sget_sset_same. exact I.
    + apply (tinv_extend pre sp _ t); [now apply sget_sset_other|exact I|intros; discriminate|intros; discriminate|apply Hinv].
  - (* LScanNext *) destruct (sget sp t0) as [| | | |[k|lo hi] view last] eqn:E; try discriminate.
    destruct (okv_eqb kv (db_scan_next view lo hi last)) eqn:Ek; [|discriminate]. inversion Hstep; subst sp'. clear Hstep.
    destruct (Pos.eq_dec t t0) as [->|Hne].
    + pose proof (Hinv t0) as X. unfold TInv in X. rewrite E in X.
      destruct X as (pre1 & pre2 & pre3 & ts & -> & H2 & H3 & Hv & Hl).
      unfold TInv. rewrite sget_sset_same. exists pre1, pre2, (pre3 ++ [LScanNext t0 kv]), ts.
      split; [now rewrite <- !app_assoc; cbn; rewrite <- app_assoc|]. repeat split; auto.
      * apply no_inv_snoc; [exact H3|exact I].
      * rewrite scan_cursor_app, <- Hl. cbn [scan_cursor].
        destruct kv as [[k x]|], (db_scan_next view lo hi last) as [[k' x']|]; cbn in Ek; try discriminate.
        -- rewrite Pos.eqb_refl. apply andb_prop in Ek. destruct Ek as [Ek _]. apply key_eqb_eq in Ek. now subst.
        -- reflexivity.
    + apply (tinv_extend pre sp _ t); [now apply sget_sset_other|exact I| |intros; discriminate|apply Hinv].
      intros k x Hc. inversion Hc. congruence.
  - (* LRetScan *) destruct (sget sp t0) as [| | | |[k|lo hi] view last] eqn:E; try discriminate.
    inversion Hstep; subst sp'. clear Hstep.
    destruct (Pos.eq_dec t t0) as [->|Hne].
    + unfold TInv. rewrite sget_sset_same. exact I.
    + apply (tinv_extend pre sp _ t); [now apply sget_sset_other|exact I|intros; discriminate|intros; discriminate|apply Hinv].
Qed.

Lemma tinv_run pre : forall sp, srun sinit pre = Some sp -> forall t, TInv pre sp t.
Proof.
  induction pre as [|l pre IH] using rev_ind; intros sp Hrun t.
  - cbn in Hrun. inversion Hrun; subst. unfold TInv, sget, sinit. cbn. now rewrite PositiveMap.gempty.
  - apply srun_snoc in Hrun. destruct Hrun as (sp1 & H1 & H2). eapply tinv_step; eauto.
Qed.

(* ------------------------------------------------------------------ the history-level readings *)
Lemma value_eqb_eq (a b : value) : value_eqb a b = true -> a = b.
Proof. destruct a, b; cbn; try discriminate; auto. intros H. apply key_eqb_eq in H. now subst. Qed.
Lemma ovalue_eqb_eq (a b : option value) : ovalue_eqb a b = true -> a = b.
Proof. destruct a, b; cbn; try discriminate; auto. intros H. apply value_eqb_eq in H. now subst. Qed.
Lemma okv_eqb_eq a b : okv_eqb a b = true -> a = b.
Proof.
  destruct a as [[k1 v1]|], b as [[k2 v2]|]; cbn; try discriminate; auto.
  intros H. apply andb_prop in H. destruct H as [H1 H2]. apply key_eqb_eq in H1, H2. now subst.
Qed.

Theorem hist_get pre t r sp' : srun sinit (pre ++ [LRetGet t r]) = Some sp' ->
  exists pre1 pre2 pre3 k ts,
    pre = pre1 ++ LInvR t (QGet k) :: pre2 ++ LSnap t ts :: pre3 /\ no_inv t pre2 /\ no_inv t pre3 /\
    r = db_value (dbof (pre1 ++ LInvR t (QGet k) :: pre2)) k.
Proof.
  intros H. apply srun_snoc in H. destruct H as (sp & Hrun & Hstep).
  pose proof (tinv_run pre sp Hrun t) as X. unfold TInv in X. cbn [sstep] in Hstep.
  destruct (sget sp t) as [| | | |[k|lo hi] view last]; try discriminate.
  destruct (ovalue_eqb r (db_value view k)) eqn:E; [|discriminate]. apply ovalue_eqb_eq in E.
  destruct X as (pre1 & pre2 & pre3 & ts & Hp & H2 & H3 & Hv & _). exists pre1, pre2, pre3, k, ts. subst view. auto.
Qed.

Theorem hist_wret pre t sp' : srun sinit (pre ++ [LWRet t]) = Some sp' ->
  exists pre1 pre2 pre3 b0 s,
    pre = pre1 ++ LInvW t b0 :: pre2 ++ LWPublish t s :: pre3 /\ no_inv t pre2 /\ no_inv t pre3 /\
    dbof (pre1 ++ LInvW t b0 :: pre2 ++ [LWPublish t s]) = dbof (pre1 ++ LInvW t b0 :: pre2) ++ [(s, dedupe b0)].
Proof.
  intros H. apply srun_snoc in H. destruct H as (sp & Hrun & Hstep).
  pose proof (tinv_run pre sp Hrun t) as X. unfold TInv in X. cbn [sstep] in Hstep.
  destruct (sget sp t); try discriminate. exact X.
Qed.

Theorem hist_scan pre t kv sp' : srun sinit (pre ++ [LScanNext t kv]) = Some sp' ->
  exists pre1 pre2 pre3 lo hi ts,
    pre = pre1 ++ LInvR t (QScan lo hi) :: pre2 ++ LSnap t ts :: pre3 /\ no_inv t pre2 /\ no_inv t pre3 /\
    kv = db_scan_next (dbof (pre1 ++ LInvR t (QScan lo hi) :: pre2)) lo hi (scan_cursor t pre3 None).
Proof.
  intros H. apply srun_snoc in H. destruct H as (sp & Hrun & Hstep).
  pose proof (tinv_run pre sp Hrun t) as X. unfold TInv in X. cbn [sstep] in Hstep.
  destruct (sget sp t) as [| | | |[k|lo hi] view last]; try discriminate.
  destruct (okv_eqb kv (db_scan_next view lo hi last)) eqn:E; [|discriminate]. apply okv_eqb_eq in E.
  destruct X as (pre1 & pre2 & pre3 & ts & Hp & H2 & H3 & Hv & Hl). exists pre1, pre2, pre3, lo, hi, ts. subst view last. auto.
Qed.

(* what the scan cursor of the specification returns: the least live key after the cursor *)
Theorem db_scan_next_spec d lo hi last :
  match db_scan_next d lo hi last with
  | Some (k, x) => in_bounds lo hi k = true /\ after last k = true /\ db_live d k = Some x /\
                   forall k', in_bounds lo hi k' = true -> after last k' = true -> db_live d k' <> None -> key_leb k k' = true
  | None => forall k', in_bounds lo hi k' = true -> after last k' = true -> db_live d k' = None
  end.
Proof.
  unfold db_scan_next.
  set (P := fun k => in_bounds lo hi k && after last k && is_some (db_live d k)).
  pose proof (min_key_spec (filter P (db_keys d))) as H.
  assert (Hin : forall k', in_bounds lo hi k' = true -> after last k' = true -> db_live d k' <> None -> In k' (filter P (db_keys d))).
  { intros k' B A L. apply filter_In. split.
    - unfold db_live in L. destruct (db_get d k') as [x|] eqn:E; [|congruence]. eapply db_get_key; eauto.
    - unfold P. rewrite B, A. destruct (db_live d k'); [reflexivity|congruence]. }
  destruct (min_key (filter P (db_keys d))) as [k|].
  - destruct H as [Hk Hmin]. apply filter_In in Hk. destruct Hk as [_ Hk]. unfold P in Hk.
    apply andb_prop in Hk. destruct Hk as [Hk L]. apply andb_prop in Hk. destruct Hk as [B A].
    destruct (db_live d k) as [x|] eqn:E; [|discriminate]. repeat split; auto.
  - intros k' B A. destruct (db_live d k') eqn:E; [|reflexivity]. exfalso.
    assert (X : In k' (filter P (db_keys d))) by (apply Hin; auto; congruence). rewrite H in X. destruct X.
Qed.

Lemma srun_app_some sp a b sp' : srun sp (a ++ b) = Some sp' -> exists sp1, srun sp a = Some sp1.
Proof. rewrite srun_app. destruct (srun sp a); [eauto|discriminate]. Qed.

(* a write that failed returns without ever having been published: the database is what it was *)
Theorem hist_wretf pre t sp' : srun sinit (pre ++ [LWRetF t]) = Some sp' ->
  (exists pre1 pre2 b0, pre = pre1 ++ LInvW t b0 :: pre2 /\ no_inv t pre2 /\ (forall s, ~ In (LWPublish t s) pre2)) /\
  dbof (pre ++ [LWRetF t]) = dbof pre.
Proof.
  intros H. pose proof H as H0. apply srun_snoc in H. destruct H as (sp & Hrun & Hstep).
  pose proof (tinv_run pre sp Hrun t) as X. unfold TInv in X. cbn [sstep] in Hstep.
  destruct (sget sp t) eqn:E; try discriminate. destruct X as (pre1 & pre2 & b0 & Hp & _ & Hn & Hnp).
  split; [exists pre1, pre2, b0; auto|]. rewrite (dbof_run _ _ H0), (dbof_run _ _ Hrun). inversion Hstep. reflexivity.
Qed.
