(* Conc/ProofsTop.v — initial state, whole runs, and the history-level consequences of the
   refinement (per-key linearizability, batch atomicity). *)
From Coq Require Import NArith List Bool Arith PArith FMapPositive Lia Permutation.
From Blue Require Import Gen.Const_Lsm Lsm.Model Lsm.KeyOrder Lsm.LoadProofs Lsm.Ordered Lsm.SortLemmas Lsm.CompactProofs Lsm.History.
From Blue Require Import Conc.KvsConc Conc.Spec Conc.ProofsBase Conc.ProofsSkel Conc.ProofsData Conc.ProofsRead Conc.ProofsSim.
Import ListNotations.
Open Scope N_scope.

Arguments N.leb : simpl never.
Arguments N.ltb : simpl never.
Arguments N.eqb : simpl never.
Arguments N.add : simpl never.
Arguments N.max : simpl never.

Lemma getpc_init s0 m0 t0 t : getpc (init s0 m0 t0) t = Idle.
Proof. unfold getpc, init. cbn [k_pcs]. now rewrite PositiveMap.gempty. Qed.

Lemma ents_init s0 m0 t0 g : ents (init s0 m0 t0) g = [].
Proof. unfold ents, mem_at, init. cbn [k_mems]. destruct g as [|[|g]]; reflexivity. Qed.

Lemma skel_init s0 m0 t0 : m0 < s0 -> Skel (init s0 m0 t0).
Proof.
  intros H. constructor; try (intros t; rewrite getpc_init; cbn; intros; discriminate);
    try (intros t t'; rewrite !getpc_init; cbn; intros; discriminate); cbn; try discriminate; try lia; try tauto.
Qed.

Lemma file_entries_empty n : file_entries (repeat [] n) = [].
Proof.
  unfold file_entries, flat. assert (Hc : forall n, concat (repeat (@nil file) n) = []) by (induction n0; cbn; auto).
  destruct n as [|n]; cbn; [reflexivity|]. now rewrite Hc.
Qed.

Lemma data_init s0 m0 t0 : Data (init s0 m0 t0) [].
Proof.
  destruct (init_inv 0) as [I Hne].
  assert (Ht : file_entries (k_tree (init s0 m0 t0)) = []) by apply file_entries_empty.
  constructor.
  - intros t b. rewrite getpc_init. discriminate.
  - cbn. lia.
  - reflexivity.
  - cbn. intros; discriminate.
  - intros t s. rewrite getpc_init. discriminate.
  - intros t b s g n. rewrite getpc_init. discriminate.
  - intros g e. rewrite ents_init. intros [].
  - intros g. rewrite ents_init. exact Logic.I.
  - intros g. rewrite ents_init. constructor.
  - intros g e e'. rewrite ents_init. intros [].
  - exact Logic.I.
  - intros s b [].
  - intros s b kv [].
  - intros e. rewrite ents_init. intros [].
  - cbn. intros; discriminate.
  - intros e. rewrite Ht. intros [].
  - intros e. rewrite Ht. intros [].
  - cbn. intros; discriminate.
  - exact (inv_wf _ I).
  - exact (inv_ord _ I).
  - exact Hne.
Qed.

Lemma rel_init s0 m0 t0 : m0 < s0 -> Rel (init s0 m0 t0) sinit.
Proof.
  intros H. constructor; [now apply skel_init|apply data_init|].
  intros t. unfold trel. rewrite getpc_init. unfold sget, sinit. cbn. now rewrite PositiveMap.gempty.
Qed.

Theorem sim_run ls : forall st sp st', Rel st sp -> run st ls = Some st' ->
  exists sp', srun sp ls = Some sp' /\ Rel st' sp'.
Proof.
  induction ls as [|l ls IH]; intros st sp st' HR Hrun; cbn [run srun] in *.
  - inversion Hrun; subst. eauto.
  - destruct (step st l) as [st1|] eqn:E; [|discriminate].
    destruct (sim_step st sp l st1 HR E) as (sp1 & Hs & HR1). rewrite Hs. eapply IH; eauto.
Qed.

(* ------------------------------------------------------------------ side results about reachable states *)
Lemma holds_mem_data p g : holds_mem p g = true -> exists b s n, w_data p = Some (b, s, g, n).
Proof.
  destruct p; cbn; try discriminate; intros H; apply Nat.eqb_eq in H; subst; eauto.
Qed.

(* when the flusher seals the log of the immutable memtable it is its only owner *)
Lemma seal_exclusive st sp trig g t : Rel st sp -> f_gen (k_fl st) = Some (trig, g) -> f_pre (k_fl st) = false ->
  holds_mem (getpc st t) g = false.
Proof.
  intros HR Hgen Hpre. destruct (holds_mem (getpc st t) g) eqn:E; [exfalso|reflexivity].
  destruct (holds_mem_data _ _ E) as (b & s & n & Hw).
  pose proof (rel_data st sp HR) as Hd.
  destruct (d_wdata st _ Hd t b s g n Hw) as (_ & _ & [[Hc _]|(trig' & G1 & G2 & _)]).
  - pose proof (d_imm_lt st _ Hd trig g Hgen) as [H _]. lia.
  - congruence.
Qed.
