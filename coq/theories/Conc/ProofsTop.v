(* Conc/ProofsTop.v — initial state, whole runs, and the history-level consequences of the
   refinement (per-key linearizability, batch atomicity). *)
From Coq Require Import NArith List Bool Arith PArith FMapPositive Lia Permutation.
From Blue Require Import Gen.Const_Lsm Lsm.Model Lsm.KeyOrder Lsm.LoadProofs Lsm.Ordered Lsm.SortLemmas Lsm.CompactProofs Lsm.History.
From Blue Require Import Conc.KvsConc Conc.Spec Conc.ProofsBase Conc.ProofsSkel Conc.ProofsData Conc.ProofsRead Conc.ProofsSim.
Import ListNotations.
Open Scope N_scope.

Arguments N.leb : simpl never.
Arguments N.ltb : simpl never.
Arguments N.eqb : simpl never.
Arguments N.add : simpl never.
Arguments N.max : simpl never.

Lemma getpc_init s0 m0 t0 t : getpc (init s0 m0 t0) t = Idle.
Proof. unfold getpc, init. cbn [k_pcs]. now rewrite PositiveMap.gempty. Qed.

Lemma ents_init s0 m0 t0 g : ents (init s0 m0 t0) g = [].
Proof. unfold ents, mem_at, init. cbn [k_mems]. destruct g as [|[|g]]; reflexivity. Qed.

Lemma skel_init s0 m0 t0 : m0 < s0 -> Skel (init s0 m0 t0).
Proof.
  intros H. constructor; try (intros t; rewrite getpc_init; cbn; intros; discriminate);
    try (intros t t'; rewrite !getpc_init; cbn; intros; discriminate); cbn; try discriminate; try lia; try tauto.
Qed.

Lemma file_entries_empty n : file_entries (repeat [] n) = [].
Proof.
  unfold file_entries, flat. assert (Hc : forall n, concat (repeat (@nil file) n) = []) by (induction n0; cbn; auto).
  destruct n as [|n]; cbn; [reflexivity|]. now rewrite Hc.
Qed.

Lemma data_init s0 m0 t0 : Data (init s0 m0 t0) [].
Proof.
  destruct (init_inv 0) as [I Hne].
  assert (Ht : file_entries (k_tree (init s0 m0 t0)) = []) by apply file_entries_empty.
  constructor.
  - intros t b. rewrite getpc_init. discriminate.
  - cbn. lia.
  - reflexivity.
  - cbn. intros; discriminate.
  - intros t s. rewrite getpc_init. discriminate.
  - intros t b s g n. rewrite getpc_init. discriminate.
  - intros g e. rewrite ents_init. intros [].
  - intros g. rewrite ents_init. exact Logic.I.
  - intros g. rewrite ents_init. constructor.
  - intros g e e'. rewrite ents_init. intros [].
  - exact Logic.I.
  - intros s b [].
  - intros s b kv [].
  - intros e. rewrite ents_init. intros [].
  - cbn. intros; discriminate.
  - intros e. rewrite Ht. intros [].
  - intros e. rewrite Ht. intros [].
  - cbn. intros; discriminate.
  - exact (inv_wf _ I).
  - exact (inv_ord _ I).
  - exact Hne.
Qed.

Lemma rel_init s0 m0 t0 : m0 < s0 -> Rel (init s0 m0 t0) sinit.
Proof.
  intros H. constructor; [now apply skel_init|apply data_init|].
  intros t. unfold trel. rewrite getpc_init. unfold sget, sinit. cbn. now rewrite PositiveMap.gempty.
Qed.

Theorem sim_run ls : forall st sp st', Rel st sp -> run st ls = Some st' ->
  exists sp', srun sp ls = Some sp' /\ Rel st' sp'.
Proof.
  induction ls as [|l ls IH]; intros st sp st' HR Hrun; cbn [run srun] in *.
  - inversion Hrun; subst. eauto.
  - destruct (step st l) as [st1|] eqn:E; [|discriminate].
    destruct (sim_step st sp l st1 HR E) as (sp1 & Hs & HR1). rewrite Hs. eapply IH; eauto.
Qed.

(* ------------------------------------------------------------------ side results about reachable states *)
Lemma holds_mem_data p g : holds_mem p g = true -> exists b s n, w_data p = Some (b, s, g, n).
Proof.
  destruct p; cbn; try discriminate; intros H; apply Nat.eqb_eq in H; subst; eauto.
Qed.

(* when the flusher seals the log of the immutable memtable it is its only owner *)
Lemma seal_exclusive st sp trig g t : Rel st sp -> f_gen (k_fl st) = Some (trig, g) -> f_pre (k_fl st) = false ->
  holds_mem (getpc st t) g = false.
Proof.
  intros HR Hgen Hpre. destruct (holds_mem (getpc st t) g) eqn:E; [exfalso|reflexivity].
  destruct (holds_mem_data _ _ E) as (b & s & n & Hw).
  pose proof (rel_data st sp HR) as Hd.
  destruct (d_wdata st _ Hd t b s g n Hw) as (_ & _ & [[Hc _]|(trig' & G1 & G2 & _)]).
  - pose proof (d_imm_lt st _ Hd trig g Hgen) as [H _]. lia.
  - congruence.
Qed.

(* ------------------------------------------------------------------ exit + open on the same directory *)
Lemma quiescent_idle st t : quiescent st = true -> getpc st t = Idle.
Proof.
  unfold quiescent. intros H. repeat (apply andb_prop in H; destruct H as [H ?]).
  unfold getpc. destruct (PositiveMap.find t (k_pcs st)) as [p|] eqn:E; [|reflexivity].
  apply PositiveMap.elements_correct in E. rewrite forallb_forall in H. specialize (H (t, p) E). cbn in H.
  destruct p; try discriminate. reflexivity.
Qed.

Theorem reopen_rel st sp fid fsz s0 m0 t0 st' : Rel st sp -> reopen st fid fsz s0 m0 t0 = Some st' -> Rel st' (sreopen sp).
Proof.
  intros [Hsk Hd Hthr] H. unfold reopen in H.
  destruct (quiescent st) eqn:Q; [|discriminate]. cbn [andb] in H.
  destruct (m0 <? s0) eqn:Hms; [|discriminate]. destruct (k_vis st <=? m0) eqn:Hv; [|discriminate]. cbn [andb] in H.
  destruct (forallb (fun e => ets e <=? m0) (mt_ents (mem_at st (k_cur st)))) eqn:F1; [|discriminate].
  destruct (forallb (fun e => ets e <=? m0) (file_entries (k_tree st))) eqn:F2; [|discriminate].
  cbn [andb] in H. inversion H; subst st'. clear H.
  apply N.ltb_lt in Hms. apply N.leb_le in Hv. rewrite forallb_forall in F1, F2.
  pose proof Q as Q0. unfold quiescent in Q0. repeat (apply andb_prop in Q0; destruct Q0 as [Q0 ?]).
  assert (Hfl : k_fl st = FIdle) by (destruct (k_fl st); try discriminate; reflexivity).
  assert (Himm : k_imm st = None) by (destruct (k_imm st); try discriminate; reflexivity).
  assert (Hgen : f_gen (k_fl st) = None) by (rewrite Hfl; reflexivity).
  set (d := s_db sp) in *. fold (ents st (k_cur st)) in *.
  set (m := ents st (k_cur st)) in *.
  (* every memtable entry is committed: nobody is in flight *)
  assert (Hcom : forall e, In e m -> in_db d e).
  { intros e He. destruct (d_ents st d Hd _ e He) as [X|(t & b & n & j & Hw & _)]; [exact X|].
    rewrite (quiescent_idle st t Q) in Hw. discriminate. }
  assert (I : Inv (mkS m (k_tree st) s0)).
  { apply build_inv.
    - apply (d_tree_wf st d Hd).
    - apply (d_tree_ord st d Hd).
    - intros k. eapply mt_desc; eauto.
    - intros e e' He He'. pose proof (d_cur_lo st d Hd e He). pose proof (d_tree_hi st d Hd e' He') as X.
      rewrite Hgen in X. lia.
    - intros e He. specialize (F1 e He). apply N.leb_le in F1. lia.
    - intros e He. specialize (F2 e He). apply N.leb_le in F2. lia. }
  pose proof (d_tree_ne st d Hd) as Hne.
  destruct (flush_inv _ fid fsz I Hne) as [I2 Hne2].
  set (tree' := ver (flush (mkS m (k_tree st) 0) fid fsz)).
  assert (Etree : tree' = ver (flush (mkS m (k_tree st) s0) fid fsz)) by apply ver_flush_seq.
  assert (Hin : forall e, In e (file_entries tree') <-> In e m \/ In e (file_entries (k_tree st))).
  { intros e. rewrite Etree. now apply flush_entries. }
  set (st' := mkSt None s0 s0 t0 m0 0 None [empty_mt] tree' 0 [] (PositiveMap.empty pc) FIdle).
  assert (Gp : forall t, getpc st' t = Idle) by (intros t; unfold getpc, st'; cbn [k_pcs]; now rewrite PositiveMap.gempty).
  assert (Ge : forall g, ents st' g = []) by (intros g; unfold ents, mem_at, st'; cbn [k_mems]; destruct g as [|[|g]]; reflexivity).
  constructor.
  - (* skeleton: as for a fresh store *)
    constructor; try (intros t; rewrite Gp; cbn; intros; discriminate);
      try (intros t t'; rewrite !Gp; cbn; intros; discriminate); cbn; try discriminate; try lia; try tauto.
  - unfold sreopen. cbn [s_db]. fold d. constructor.
    + intros t b. rewrite Gp. discriminate.
    + cbn. lia.
    + reflexivity.
    + cbn. intros; discriminate.
    + intros t s. rewrite Gp. discriminate.
    + intros t b s g n. rewrite Gp. discriminate.
    + intros g e. rewrite Ge. intros [].
    + intros g. rewrite Ge. exact Logic.I.
    + intros g. rewrite Ge. constructor.
    + intros g e e'. rewrite Ge. intros [].
    + apply (d_db_asc st d Hd).
    + intros s b Hb. pose proof (d_db_vis st d Hd s b Hb) as [X Y]. split; [cbn; lia|exact Y].
    + intros s b kv Hb Hkv. right. right. cbn [k_tree st']. apply Hin.
      destruct (d_present st d Hd s b kv Hb Hkv) as [X|[(g & Hg & _)|X]]; [now left|congruence|now right].
    + intros e. rewrite Ge. intros [].
    + cbn. intros; discriminate.
    + intros e He. cbn [k_tree st'] in He. apply Hin in He. destruct He as [He|He]; [now apply Hcom|now apply (d_tree_db st d Hd)].
    + intros e He. cbn [k_tree st'] in He. cbn. apply Hin in He.
      destruct He as [He|He]; [specialize (F1 e He)|specialize (F2 e He)]; now apply N.leb_le.
    + cbn. intros; discriminate.
    + cbn [k_tree st']. rewrite Etree. exact (inv_wf _ I2).
    + cbn [k_tree st']. rewrite Etree. intros k. pose proof (inv_ord _ I2 k) as X. unfold kview in *.
      assert (Hm : mem (flush (mkS m (k_tree st) s0) fid fsz) = []) by (unfold flush; cbn [mem]; destruct m; reflexivity).
      rewrite Hm in X. exact X.
    + cbn [k_tree st']. rewrite Etree. exact Hne2.
  - intros t. unfold trel. rewrite Gp. unfold sget, sreopen. cbn. now rewrite PositiveMap.gempty.
Qed.
