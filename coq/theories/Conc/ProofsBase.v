(* Conc/ProofsBase.v — infrastructure for the proofs about KvsConc: thread maps, memtable lists,
   sorted wait lists, step inversion. *)
From Coq Require Import NArith List Bool Arith PArith FMapPositive Lia Permutation.
From Blue Require Import Lsm.Model Lsm.KeyOrder Lsm.LoadProofs Lsm.Ordered Lsm.SortLemmas Lsm.History.
From Blue Require Import Conc.KvsConc.
Import ListNotations.
Open Scope N_scope.

Arguments N.leb : simpl never.
Arguments N.ltb : simpl never.
Arguments N.eqb : simpl never.
Arguments N.add : simpl never.
Arguments N.max : simpl never.

(* ------------------------------------------------------------------ thread map *)
Lemma getpc_with_pc_same st t p : getpc (with_pc st t p) t = p.
Proof. unfold getpc, with_pc. cbn [k_pcs]. now rewrite PositiveMap.gss. Qed.

Lemma getpc_with_pc_other st t t' p : t' <> t -> getpc (with_pc st t p) t' = getpc st t'.
Proof. intros H. unfold getpc, with_pc. cbn [k_pcs]. rewrite PositiveMap.gso by exact H. reflexivity. Qed.

Lemma getpc_with_pc st t p t' : getpc (with_pc st t p) t' = if Pos.eqb t' t then p else getpc st t'.
Proof.
  destruct (Pos.eqb_spec t' t) as [->|H]; [apply getpc_with_pc_same|now apply getpc_with_pc_other].
Qed.

(* ------------------------------------------------------------------ list update *)
Lemma set_nth_length {A} n (x : A) l : length (set_nth n x l) = length l.
Proof. revert n. induction l as [|y l IH]; intros [|n]; cbn; auto. Qed.

Lemma nth_set_nth_same {A} n (x d : A) l : (n < length l)%nat -> nth n (set_nth n x l) d = x.
Proof. revert n. induction l as [|y l IH]; intros [|n] H; cbn in *; try lia; auto. apply IH. lia. Qed.

Lemma nth_set_nth_other {A} n m (x d : A) l : n <> m -> nth m (set_nth n x l) d = nth m l d.
Proof.
  revert n m. induction l as [|y l IH]; intros [|n] [|m] H; cbn; auto; try congruence.
Qed.

Lemma mem_at_upd_same st g m : (g < length (k_mems st))%nat -> mem_at (upd_mem st g m) g = m.
Proof. intros H. unfold mem_at, upd_mem, with_mems. cbn [k_mems]. now apply nth_set_nth_same. Qed.

Lemma mem_at_upd_other st g g' m : g <> g' -> mem_at (upd_mem st g m) g' = mem_at st g'.
Proof. intros H. unfold mem_at, upd_mem, with_mems. cbn [k_mems]. now apply nth_set_nth_other. Qed.

Lemma mem_at_app_old st g x : (g < length (k_mems st))%nat -> nth g (k_mems st ++ [x]) empty_mt = mem_at st g.
Proof. intros H. unfold mem_at. now rewrite app_nth1. Qed.

Lemma mem_at_out st g : (length (k_mems st) <= g)%nat -> mem_at st g = empty_mt.
Proof. intros H. unfold mem_at. now apply nth_overflow. Qed.

(* ------------------------------------------------------------------ memtable lists *)
Lemma entry_leb_refl a : entry_leb a a = true.
Proof. unfold entry_leb. rewrite lex_cmp_refl. apply N.leb_le. lia. Qed.

Lemma find_none_all {A} (p : A -> bool) l : (forall x, In x l -> p x = false) -> find p l = None.
Proof.
  induction l as [|x l IH]; cbn [find]; intros H; [reflexivity|].
  rewrite (H x (or_introl eq_refl)). apply IH. intros y Hy. apply H. now right.
Qed.

(* on a sorted list the seek of MemTable::load finds what the linear search finds *)
Lemma mt_load_sorted es k t : ssorted es -> mt_load es k t = ents_load es k t.
Proof.
  unfold mt_load, ents_load. induction es as [|x r IH]; cbn [find ssorted]; [reflexivity|].
  intros [Hx Hr]. unfold seek_ge at 1, hit at 1. unfold entry_leb at 1. cbn [ek ets].
  unfold key_eqb at 2. rewrite (lex_cmp_antisym k (ek x)).
  destruct (lex_cmp k (ek x)) eqn:C; cbn [CompOpp andb].
  - (* same key *)
    apply lex_cmp_eq in C. subst k.
    destruct (ets x <=? t) eqn:E; [now rewrite key_eqb_refl|]. now apply IH.
  - (* k < key x: the seek stops here with a different key, and no later entry has key k *)
    assert (Hne : key_eqb (ek x) k = false).
    { unfold key_eqb. rewrite (lex_cmp_antisym k (ek x)), C. reflexivity. }
    rewrite Hne. symmetry. apply find_none_all. intros y Hy.
    unfold hit. apply andb_false_iff. left.
    specialize (Hx y Hy). apply entry_leb_key in Hx.
    destruct (key_eqb (ek y) k) eqn:E; [|reflexivity]. apply key_eqb_eq in E. subst k.
    unfold key_leb in Hx. rewrite (lex_cmp_antisym (ek y) (ek x)), C in Hx. discriminate.
  - now apply IH.
Qed.

Lemma filter_insert_entry (p : entry -> bool) x l : p x = false -> filter p (insert_entry x l) = filter p l.
Proof.
  intros Hx. induction l as [|y r IH]; cbn [insert_entry filter]; [now rewrite Hx|].
  destruct (entry_leb x y); cbn [filter]; [now rewrite Hx|]. now rewrite IH.
Qed.

Lemma ents_load_filter es k t : ents_load es k t = ents_load (filter (fun e => ets e <=? t) es) k t.
Proof.
  unfold ents_load. induction es as [|x r IH]; cbn [find filter]; [reflexivity|].
  destruct (ets x <=? t) eqn:E.
  - cbn [find]. unfold hit. rewrite E. destruct (key_eqb (ek x) k); cbn [andb]; [reflexivity|exact IH].
  - unfold hit. rewrite E, andb_false_r. exact IH.
Qed.

Lemma in_insert_entry x l e : In e (insert_entry x l) <-> e = x \/ In e l.
Proof.
  split; intros H.
  - apply (Permutation_in _ (Permutation_sym (insert_entry_perm x l))) in H. destruct H; auto.
  - apply (Permutation_in _ (insert_entry_perm x l)). destruct H; [left; auto|right; auto].
Qed.

(* ------------------------------------------------------------------ ascending wait lists *)
Fixpoint asc (l : list nat) : Prop :=
  match l with [] => True | x :: r => (forall y, In y r -> (x < y)%nat) /\ asc r end.

Lemma asc_snoc l x : asc l -> (forall y, In y l -> (y < x)%nat) -> asc (l ++ [x]).
Proof.
  induction l as [|a l IH]; cbn [asc app]; intros H Hx.
  - split; [intros ? []|exact I].
  - destruct H as [Ha Hl]. split.
    + intros y Hy. apply in_app_or in Hy. destruct Hy as [Hy|[<-|[]]]; [now apply Ha|apply Hx; now left].
    + apply IH; [exact Hl|]. intros y Hy. apply Hx. now right.
Qed.

Lemma in_unlink lv i j : In j (unlink lv i) <-> In j lv /\ j <> i.
Proof.
  unfold unlink. rewrite filter_In. rewrite negb_true_iff, Nat.eqb_neq. tauto.
Qed.

Lemma asc_unlink lv i : asc lv -> asc (unlink lv i).
Proof.
  induction lv as [|a l IH]; cbn [asc unlink filter]; [auto|]. intros [Ha Hl].
  destruct (negb (a =? i)%nat); cbn [asc]; [|now apply IH]. split; [|now apply IH].
  intros y Hy. apply in_unlink in Hy. now apply Ha.
Qed.

Lemma asc_head_min l h r : asc l -> l = h :: r -> forall y, In y l -> (h <= y)%nat.
Proof. intros Ha -> y [<-|Hy]; [lia|]. destruct Ha as [Ha _]. specialize (Ha y Hy). lia. Qed.

Lemma is_head_min st idx : asc (k_wllive st) -> is_head st idx = true ->
  forall y, In y (k_wllive st) -> (idx <= y)%nat.
Proof.
  unfold is_head. destruct (k_wllive st) as [|h r] eqn:E; [discriminate|].
  intros Ha Hh. apply Nat.eqb_eq in Hh. subst h. intros y Hy. eapply asc_head_min; eauto.
Qed.

(* ------------------------------------------------------------------ batches *)
Lemma dedupe_nodup b : nodup_keysb (map fst (dedupe b)) = true.
Proof.
  induction b as [|kv r IH]; cbn [dedupe]; [reflexivity|].
  destruct (existsb (key_eqb (fst kv)) (map fst r)) eqn:E; [exact IH|].
  cbn [map nodup_keysb]. rewrite IH, andb_true_r. apply negb_true_iff.
  (* the keys of dedupe r are keys of r *)
  destruct (existsb (key_eqb (fst kv)) (map fst (dedupe r))) eqn:E2; [|reflexivity].
  apply existsb_exists in E2. destruct E2 as (k & Hk & Hkk).
  assert (Hin : In k (map fst r)).
  { clear -Hk. induction r as [|x r IH]; cbn [dedupe] in Hk; [exact Hk|].
    destruct (existsb (key_eqb (fst x)) (map fst r)); [right; now apply IH|].
    destruct Hk as [<-|Hk]; [now left|right; now apply IH]. }
  assert (existsb (key_eqb (fst kv)) (map fst r) = true) by (apply existsb_exists; eauto).
  congruence.
Qed.

Lemma nodup_keys_nth (b : batch) i j kv kv' : nodup_keysb (map fst b) = true ->
  nth_error b i = Some kv -> nth_error b j = Some kv' -> fst kv = fst kv' -> i = j.
Proof.
  revert i j. induction b as [|x b IH]; intros i j Hnd Hi Hj Hk; [destruct i; discriminate|].
  cbn [map nodup_keysb] in Hnd. apply andb_prop in Hnd. destruct Hnd as [Hx Hnd].
  apply negb_true_iff in Hx.
  assert (Hnot : forall n y, nth_error b n = Some y -> fst x <> fst y).
  { intros n y Hn C. apply nth_error_In in Hn.
    assert (existsb (key_eqb (fst x)) (map fst b) = true).
    { apply existsb_exists. exists (fst y). split; [now apply in_map|]. rewrite C. apply key_eqb_refl. }
    congruence. }
  destruct i as [|i], j as [|j]; cbn [nth_error] in *.
  - reflexivity.
  - inversion Hi; subst. exfalso. eapply Hnot; eauto.
  - inversion Hj; subst. exfalso. eapply Hnot; eauto.
  - f_equal. eapply IH; eauto.
Qed.

(* ------------------------------------------------------------------ step inversion *)
Lemma guard_some c st st' : guard c st = Some st' -> c = true /\ st' = st.
Proof. unfold guard. destruct c; [intros H; inversion H; auto|discriminate]. Qed.

Lemma holds_client st t : holds st (OClient t) = true -> k_mutex st = Some (OClient t).
Proof.
  unfold holds. destruct (k_mutex st) as [[a|]|]; try discriminate.
  intros H. apply Pos.eqb_eq in H. now subst.
Qed.
Lemma holds_flusher st : holds st OFlusher = true -> k_mutex st = Some OFlusher.
Proof. unfold holds. destruct (k_mutex st) as [[a|]|]; try discriminate. reflexivity. Qed.
Lemma free_none st : free st = true -> k_mutex st = None.
Proof. unfold free. destruct (k_mutex st); [discriminate|reflexivity]. Qed.

Ltac inv_guard H :=
  let Hc := fresh "Hg" in
  apply guard_some in H; destruct H as [Hc H];
  repeat match type of Hc with
         | (_ && _) = true => let H1 := fresh "Hg" in apply andb_prop in Hc; destruct Hc as [H1 Hc]
         end.
