(* Table/ModelBytes.v — the byte layer of a block, on top of the Wire area's model of prototk:
   * the shapes of the sst messages as Wire `msg` values (KeyValuePut / KeyValueDel /
     KeyValueEntry, BlockMetadata, FinalBlock, SstEntry), exactly as the #[prototk(...)] derive
     attributes in sst/src/lib.rs declare them.  The attributes are literals of the source (not
     consts), so field numbers and types are RETYPED here; the correspondence compares the bytes
     they produce with the implementation's on every run;
   * Block::new on raw bytes (footer parsing), Block::restart_point on raw bytes, and
     BlockCursor::extract_key as the Rust does it: `Unpacker::new(&bytes[offset..boundary])`,
     `up.unpack::<KeyValueEntry>()` (Wire.ModelMsg.msg_unpack), next_offset = boundary - remain;
   * BlockCursor over raw bytes: the control flow of Table/Model.v's cursor with the byte-level
     primitives in place of the logical ones.
   Definitions only. *)
From Coq Require Import NArith ZArith List Bool.
From Blue Require Import Gen.Const_Table Table.Model Table.ModelSst Table.ModelWire.
From Blue Require Wire.Model Wire.ModelMsg.
Import ListNotations.
Open Scope N_scope.


(* ---------------------------------------------------------------- shapes (retyped literals) *)
Definition fld (num : N) (s : Wire.Model.scalar) (rest : Wire.ModelMsg.flds) : Wire.ModelMsg.flds := Wire.ModelMsg.FCons num Wire.ModelMsg.CPlain (Wire.ModelMsg.TSc s) rest.

(* struct KeyValuePut { #[prototk(1, uint64)] shared, #[prototk(2, bytes)] key_frag,
                        #[prototk(3, uint64)] timestamp, #[prototk(4, bytes)] value } *)
Definition kv_put_shape : Wire.ModelMsg.msg :=
  Wire.ModelMsg.MStruct (fld 1 Wire.Model.UInt64 (fld 2 Wire.Model.Bytes (fld 3 Wire.Model.UInt64 (fld 4 Wire.Model.Bytes Wire.ModelMsg.FNil)))).
(* struct KeyValueDel { #[prototk(5, uint64)] shared, #[prototk(6, bytes)] key_frag,
                        #[prototk(7, uint64)] timestamp } *)
Definition kv_del_shape : Wire.ModelMsg.msg :=
  Wire.ModelMsg.MStruct (fld 5 Wire.Model.UInt64 (fld 6 Wire.Model.Bytes (fld 7 Wire.Model.UInt64 Wire.ModelMsg.FNil))).
(* enum KeyValueEntry { #[prototk(8, message)] Put(KeyValuePut), #[prototk(9, message)] Del(KeyValueDel) } *)
Definition kv_entry_shape : Wire.ModelMsg.msg :=
  Wire.ModelMsg.MEnum (Wire.ModelMsg.VOne 8 (Wire.ModelMsg.TMsg kv_put_shape) (Wire.ModelMsg.VOne 9 (Wire.ModelMsg.TMsg kv_del_shape) Wire.ModelMsg.VNil)).
(* struct BlockMetadata { #[prototk(13, uint64)] start, #[prototk(14, uint64)] limit,
                          #[prototk(15, fixed32)] crc32c } *)
Definition block_metadata_shape : Wire.ModelMsg.msg :=
  Wire.ModelMsg.MStruct (fld 13 Wire.Model.UInt64 (fld 14 Wire.Model.UInt64 (fld 15 Wire.Model.Fixed32 Wire.ModelMsg.FNil))).
(* struct FinalBlock { #[prototk(16, message)] index_block, #[prototk(17, message)] filter_block,
     #[prototk(19, bytes32)] setsum, #[prototk(20, uint64)] smallest_timestamp,
     #[prototk(21, uint64)] biggest_timestamp, #[prototk(18, fixed64)] final_block_offset } *)
Definition final_block_shape : Wire.ModelMsg.msg :=
  Wire.ModelMsg.MStruct (Wire.ModelMsg.FCons 16 Wire.ModelMsg.CPlain (Wire.ModelMsg.TMsg block_metadata_shape)
             (Wire.ModelMsg.FCons 17 Wire.ModelMsg.CPlain (Wire.ModelMsg.TMsg block_metadata_shape)
             (fld 19 Wire.Model.Bytes32 (fld 20 Wire.Model.UInt64 (fld 21 Wire.Model.UInt64 (fld 18 Wire.Model.Fixed64 Wire.ModelMsg.FNil)))))).
(* enum SstEntry { #[prototk(10, bytes)] PlainBlock, #[prototk(13, bytes)] FilterBlock,
                   #[prototk(12, bytes)] FinalBlock } *)
Definition sst_entry_shape : Wire.ModelMsg.msg :=
  Wire.ModelMsg.MEnum (Wire.ModelMsg.VOne 10 (Wire.ModelMsg.TSc Wire.Model.Bytes) (Wire.ModelMsg.VOne 13 (Wire.ModelMsg.TSc Wire.Model.Bytes) (Wire.ModelMsg.VOne 12 (Wire.ModelMsg.TSc Wire.Model.Bytes) Wire.ModelMsg.VNil))).

(* ---------------------------------------------------------------- values *)
Definition entry_val (be : bentry) : Wire.ModelMsg.val :=
  match be_val be with
  | Some v => Wire.ModelMsg.VV 0 (Wire.ModelMsg.VL [Wire.ModelMsg.VZ (Z.of_N (be_shared be)); Wire.ModelMsg.VB (be_frag be);
                              Wire.ModelMsg.VZ (Z.of_N (be_ts be)); Wire.ModelMsg.VB v])
  | None => Wire.ModelMsg.VV 1 (Wire.ModelMsg.VL [Wire.ModelMsg.VZ (Z.of_N (be_shared be)); Wire.ModelMsg.VB (be_frag be); Wire.ModelMsg.VZ (Z.of_N (be_ts be))])
  end.

(* KeyValueEntry::{shared, key_frag, timestamp, value} of an unpacked value *)
Definition entry_of_val (v : Wire.ModelMsg.val) : option bentry :=
  match v with
  | Wire.ModelMsg.VV O (Wire.ModelMsg.VL [Wire.ModelMsg.VZ s; Wire.ModelMsg.VB f; Wire.ModelMsg.VZ t; Wire.ModelMsg.VB x]) =>
      Some {| be_shared := Z.to_N s; be_frag := f; be_ts := Z.to_N t; be_val := Some x |}
  | Wire.ModelMsg.VV (S O) (Wire.ModelMsg.VL [Wire.ModelMsg.VZ s; Wire.ModelMsg.VB f; Wire.ModelMsg.VZ t]) =>
      Some {| be_shared := Z.to_N s; be_frag := f; be_ts := Z.to_N t; be_val := None |}
  | _ => None
  end.

Definition metadata_val (s l crc : N) : Wire.ModelMsg.val := Wire.ModelMsg.VL [Wire.ModelMsg.VZ (Z.of_N s); Wire.ModelMsg.VZ (Z.of_N l); Wire.ModelMsg.VZ (Z.of_N crc)].

(* a record that a Rust KeyValueEntry can be: u64 fields, byte strings *)
Definition bentry_ok (be : bentry) : Prop :=
  be_shared be < Wire.Model.W64 /\ be_ts be < Wire.Model.W64 /\ Wire.Model.bytes_ok (be_frag be) /\ len (be_frag be) < Wire.Model.W64 /\
  match be_val be with Some v => Wire.Model.bytes_ok v /\ len v < Wire.Model.W64 | None => True end.

(* ---------------------------------------------------------------- results *)
Definition lift {A} (r : Wire.Model.res A) : result A :=
  match r with
  | Wire.Model.Ok a => Ok a
  | Wire.Model.Err _ => Err EUnpack
  | Wire.Model.Panic => Err EPanic
  | Wire.Model.OutOfFuel => Err EFuel
  end.

(* ---------------------------------------------------------------- Block::new on raw bytes *)
Record bblock := {
  bk_bytes : bytes;
  bk_boundary : N;      (* restarts_boundary *)
  bk_ridx : N;          (* restarts_idx *)
  bk_nr : N }.          (* num_restarts *)

(* usize subtraction (debug build: underflow panics) *)
Definition usub (a b : N) : result N := if b <=? a then Ok (a - b) else Err EPanic.

Definition bblock_new (bs : bytes) : result bblock :=
  if len bs <? 4 then Err EUnpack                             (* block_too_small *)
  else
    r <- lift (Wire.Model.le_unpack 4 (skipn (N.to_nat (len bs - 4)) bs)) ;;   (* up.unpack::<u32>() *)
    let nr := fst r in
    let capstone := 1 + 4 in
    let footer_body := nr * 4 in
    let footer_head := 1 + Wire.Model.v64_pack_sz footer_body in
    x <- usub (len bs) capstone ;;
    ridx <- usub x footer_body ;;
    boundary <- usub ridx footer_head ;;
    Ok {| bk_bytes := bs; bk_boundary := boundary; bk_ridx := ridx; bk_nr := nr |}.

(* Block::restart_point: assert!(idx < num_restarts); four bytes, little endian *)
Definition bk_restart_point (k : bblock) (i : N) : result N :=
  if bk_nr k <=? i then Err EPanic
  else
    b0 <- lift (Wire.Model.get (bk_bytes k) (bk_ridx k + i * 4)) ;;
    b1 <- lift (Wire.Model.get (bk_bytes k) (bk_ridx k + i * 4 + 1)) ;;
    b2 <- lift (Wire.Model.get (bk_bytes k) (bk_ridx k + i * 4 + 2)) ;;
    b3 <- lift (Wire.Model.get (bk_bytes k) (bk_ridx k + i * 4 + 3)) ;;
    Ok (Wire.Model.of_le_bytes [b0; b1; b2; b3]).

(* &bytes[offset..boundary] (panics when offset > boundary or boundary > len) *)
Definition bk_slice (k : bblock) (off : N) : result bytes :=
  if (off <=? bk_boundary k) && (bk_boundary k <=? len (bk_bytes k))
  then Ok (firstn (N.to_nat (bk_boundary k - off)) (skipn (N.to_nat off) (bk_bytes k)))
  else Err EPanic.

(* BlockCursor::extract_key *)
Definition bk_extract_key (k : bblock) (ri off : N) (key : bytes) : result pos :=
  if bk_boundary k <=? off then Ok PLast
  else
    sl <- bk_slice k off ;;
    r <- lift (Wire.ModelMsg.msg_unpack kv_entry_shape sl) ;;
    match entry_of_val (fst r) with
    | None => Err EUnpack
    | Some be =>
        noff <- usub (bk_boundary k) (len (snd r)) ;;
        Ok (PAt ri off noff (firstn (N.to_nat (be_shared be)) key ++ be_frag be) (be_ts be) (be_val be))
    end.

(* ---------------------------------------------------------------- BlockCursor over raw bytes *)
(* the code of Table/Model.v's cursor, with bk_restart_point / bk_extract_key; the loops take
   their fuel as an argument (the Rust loops are unbounded) *)
Definition bk_seek_restart (k : bblock) (c : bcursor) (ri : N) : result bcursor :=
  if bk_nr k <=? ri then Err ELogicRestartIdx
  else off <- bk_restart_point k ri ;;
       if bk_boundary k <=? off then Err ECorruptOffsetBoundary
       else p <- bk_extract_key k ri off (pos_key (bc_pos c)) ;; Ok (set_pos c p).

Definition bk_next (k : bblock) (c : bcursor) : result bcursor :=
  match bc_pos c with
  | PFirst => if bk_boundary k =? 0 then Ok (set_pos c PLast) else bk_seek_restart k c 0
  | PLast => Ok c
  | PAt ri off noff key ts val =>
      if bk_boundary k <=? noff then Ok (set_pos c PLast)
      else
        jump <- (if ri + 1 <? bk_nr k
                 then rp <- bk_restart_point k (ri + 1) ;; Ok (rp <=? noff) else Ok false) ;;
        if jump then bk_seek_restart k c (ri + 1)
        else p <- bk_extract_key k ri noff key ;; Ok (set_pos c p)
  end.

Fixpoint bk_cache_loop (fuel : nat) (k : bblock) (ri off limit : N) (key : bytes) (acc : list pos)
  : result (list pos) :=
  match fuel with
  | O => Err EFuel
  | S f =>
      if off <? limit then
        p <- bk_extract_key k ri off key ;;
        match p with
        | PAt _ _ noff k' _ _ => bk_cache_loop f k ri noff limit k' (acc ++ [p])
        | _ => Ok acc
        end
      else Ok acc
  end.

Definition bk_cache_restart (fuel : nat) (k : bblock) (c : bcursor) (ri : N) : result bcursor :=
  let hit := match bc_cache c with Some (r, _) => r =? ri | None => false end in
  if hit then Ok c
  else off <- bk_restart_point k ri ;;
       limit <- (if ri + 1 <? bk_nr k then bk_restart_point k (ri + 1) else Ok (bk_boundary k)) ;;
       ps <- bk_cache_loop (S fuel) k ri off limit [] [] ;;
       Ok {| bc_pos := bc_pos c; bc_cache := Some (ri, ps) |}.

Definition bk_next_offset (k : bblock) (c : bcursor) : N :=
  match bc_pos c with PFirst => 0 | PLast => bk_boundary k | PAt _ _ noff _ _ _ => noff end.

Fixpoint bk_prev_scan (fuel : nat) (k : bblock) (c : bcursor) (target : N) : result bcursor :=
  match fuel with
  | O => Err EFuel
  | S f => if bk_next_offset k c <? target then c1 <- bk_next k c ;; bk_prev_scan f k c1 target else Ok c
  end.

Definition bk_prev (fuel : nat) (k : bblock) (c : bcursor) : result bcursor :=
  match bc_pos c with
  | PFirst => Ok c
  | p =>
      let target := match p with PAt _ off _ _ _ _ => off | _ => bk_boundary k end in
      if target =? 0 then Ok (set_pos c PFirst)
      else
        let cur_ri := match p with PAt ri _ _ _ _ _ => ri | _ => bk_nr k end in
        back <- (if bk_nr k <=? cur_ri then Ok true
                 else rp <- bk_restart_point k cur_ri ;; Ok (target <=? rp)) ;;
        ri <- (if back then (if cur_ri =? 0 then Err ELogicNegRestart else Ok (cur_ri - 1))
               else Ok cur_ri) ;;
        c1 <- bk_cache_restart fuel k c ri ;;
        match (match bc_cache c1 with
               | Some (_, ps) => find (pos_noff_is target) (rev ps)
               | None => None end) with
        | Some q => Ok (set_pos c1 q)
        | None => c2 <- bk_seek_restart k c1 ri ;; bk_prev_scan (S fuel) k c2 target
        end
  end.

Fixpoint bk_bsearch (fuel : nat) (k : bblock) (c : bcursor) (key : bytes) (lo hi : N)
  : result (bcursor * N * N) :=
  match fuel with
  | O => Err EFuel
  | S f =>
      if lo <? hi then
        let mid := lo + (hi - lo + 1) / 2 in
        c1 <- bk_seek_restart k c mid ;;
        match bc_pos c1 with
        | PAt _ _ _ k' _ _ =>
            match lex_cmp key k' with
            | Gt => bk_bsearch f k c1 key mid hi
            | _ => bk_bsearch f k c1 key lo (mid - 1)
            end
        | _ => Err ECorruptNoKvp
        end
      else Ok (c, lo, hi)
  end.

Fixpoint bk_seek_scan (fuel : nat) (k : bblock) (c : bcursor) (key : bytes) : result bcursor :=
  match fuel with
  | O => Err EFuel
  | S f =>
      match bc_pos c with
      | PAt _ _ _ k' _ _ =>
          match lex_cmp key k' with
          | Gt => c1 <- bk_next k c ;; bk_seek_scan f k c1 key
          | _ => Ok c
          end
      | _ => Ok c
      end
  end.

Definition bk_seek (fuel : nat) (k : bblock) (c : bcursor) (key : bytes) : result bcursor :=
  if bk_nr k =? 0 then Err ECorruptZeroRestarts
  else if bk_boundary k =? 0 then Ok (set_pos c PLast)
  else
    r <- bk_bsearch (S fuel) k c key 0 (bk_nr k - 1) ;;
    let '(c1, lo, hi) := r in
    if negb (lo =? hi) then Err ECorruptBinSearch
    else c2 <- bk_seek_restart k c1 lo ;;
         match bc_pos c2 with
         | PAt _ _ _ _ _ _ => bk_seek_scan (S (S fuel)) k c2 key
         | _ => Err ECorruptNoKvp
         end.

Definition bk_step (fuel : nat) (k : bblock) (c : bcursor) (o : op) : result bcursor :=
  match o with
  | OFirst => Ok (bc_first c)
  | OLast => Ok (bc_last c)
  | OSeek key => bk_seek fuel k c key
  | ONext => bk_next k c
  | OPrev => bk_prev fuel k c
  end.

Fixpoint bk_run (fuel : nat) (k : bblock) (c : bcursor) (prog : list op) : list obs :=
  match prog with
  | [] => []
  | o :: p =>
      match bk_step fuel k c o with
      | Ok c1 => Ok (bc_kv c1) :: bk_run fuel k c1 p
      | Err e => Err e :: bk_run fuel k c p
      end
  end.

Fixpoint bk_load_scan (fuel : nat) (k : bblock) (c : bcursor) (key : bytes) (ts : N) : result bcursor :=
  match fuel with
  | O => Err EFuel
  | S f =>
      match bc_kv c with
      | Some e => if kref_lt_target e key ts then c1 <- bk_next k c ;; bk_load_scan f k c1 key ts else Ok c
      | None => Ok c
      end
  end.

Definition bk_load (fuel : nat) (k : bblock) (key : bytes) (ts : N) : result (option bytes * bool) :=
  c <- bk_seek fuel k bc_new key ;;
  c1 <- bk_load_scan (S (S fuel)) k c key ts ;;
  Ok (load_result (bc_kv c1) key).

(* the whole path from the bytes of a sealed block: Block::new, then a cursor program.
   The fuel of the loops is the number of bytes (more than the number of records or restarts). *)
Definition bytes_run (bs : bytes) (prog : list op) : result (list obs) :=
  k <- bblock_new bs ;; Ok (bk_run (length bs) k bc_new prog).
Definition bytes_load (bs : bytes) (key : bytes) (ts : N) : result (option bytes * bool) :=
  k <- bblock_new bs ;; bk_load (length bs) k key ts.
