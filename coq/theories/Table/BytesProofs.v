(* Table/BytesProofs.v — the byte layer is the Wire area's prototk encoding:
   the model's record bytes (ModelWire.encode_entry) are the reference encoding of a KeyValueEntry
   of the declared shape, enc_size_real is their length, unpacking them returns the record; the
   BlockMetadata bytes likewise.  Then: the bytes of a sealed block parse back (Block::new,
   restart_point, extract_key on raw bytes) to what the logical block holds. *)
From Coq Require Import NArith ZArith List Bool Lia.
From Blue Require Import Gen.Const_Table Table.Model Table.ModelSst Table.ModelWire Table.ModelBytes
  Table.Ref Table.OrderProofs Table.BlockBase Table.BuildProofs Table.WireProofs.
From Blue Require Wire.Model Wire.ModelMsg Wire.Spec Wire.ProofsVarint Wire.ProofsScalar Wire.Props_C15.
Import ListNotations.
Open Scope N_scope.

Module WM := Blue.Wire.Model.
Module WG := Blue.Wire.ModelMsg.
Module WS := Blue.Wire.Spec.
Module WPV := Blue.Wire.ProofsVarint.
Module WPS := Blue.Wire.ProofsScalar.
Module WP := Blue.Wire.Props_C15.

(* ---------------------------------------------------------------- varints *)
Lemma varint_fuel_ref : forall f n, varint_fuel f n = WS.ref_varint_fuel f n.
Proof. induction f as [|f IH]; intros n; cbn; [reflexivity|]. destruct (n <? 128); [reflexivity|]. now rewrite IH. Qed.

Lemma varint_ref : forall n, varint n = WS.ref_varint n.
Proof. intros. apply varint_fuel_ref. Qed.

Lemma log2_small : forall x, x < 128 -> N.log2 x / 7 = 0.
Proof.
  intros x H. apply N.div_small. destruct (N.eq_dec x 0) as [->|Hx]; [reflexivity|].
  apply N.log2_lt_pow2; lia.
Qed.

Lemma log2_step : forall x, 128 <= x -> N.log2 x / 7 = N.log2 (x / 128) / 7 + 1.
Proof.
  intros x H. replace (x / 128) with (N.shiftr x 7) by (rewrite N.shiftr_div_pow2; reflexivity).
  rewrite N.log2_shiftr.
  assert (7 <= N.log2 x) by (change 7 with (N.log2 128); now apply N.log2_le_mono).
  replace (N.log2 x) with ((N.log2 x - 7) + 1 * 7) at 1 by lia.
  now rewrite N.div_add by discriminate.
Qed.

Lemma varint_fuel_len : forall f x, (0 < f)%nat -> x < 128 ^ N.of_nat f ->
  len (varint_fuel f x) = varint_size x.
Proof.
  induction f as [|g IH]; intros x Hf Hx; [inversion Hf|]. cbn [varint_fuel]. unfold varint_size.
  destruct (N.ltb_spec x 128) as [Hs|Hl].
  - rewrite (log2_small x Hs). reflexivity.
  - assert (Hg : (0 < g)%nat).
    { destruct g; [|apply Nat.lt_0_succ]. exfalso. change (128 ^ N.of_nat 1) with 128 in Hx. lia. }
    assert (Hq : x / 128 < 128 ^ N.of_nat g).
    { apply N.div_lt_upper_bound; [discriminate|].
      replace (N.of_nat (S g)) with (N.succ (N.of_nat g)) in Hx by lia. now rewrite N.pow_succ_r' in Hx. }
    unfold len in *. cbn [length]. rewrite Nat2N.inj_succ, (IH (x / 128) Hg Hq).
    unfold varint_size. rewrite (log2_step x Hl). lia.
Qed.

Lemma varint_len : forall x, x < WM.W64 -> len (varint x) = varint_size x.
Proof.
  intros x H. apply varint_fuel_len; [repeat constructor|].
  eapply N.lt_trans; [exact H|exact WPV.W64_lt_pow].
Qed.

Lemma v64_sz_varint_size : forall x, x < WM.W64 -> WM.v64_pack_sz x = varint_size x.
Proof.
  intros x H. rewrite <- WPV.v64_pack_len, (WPV.v64_pack_ref x H), <- varint_ref.
  exact (varint_len x H).
Qed.

Lemma varint_bytes_ok : forall x, WM.bytes_ok (varint x).
Proof. intros. rewrite varint_ref. apply WPV.ref_varint_fuel_bytes. Qed.

(* ---------------------------------------------------------------- the record codec *)
Lemma kv_entry_wf : WG.msg_wf kv_entry_shape = true.
Proof. vm_compute. reflexivity. Qed.

Lemma in_range_u64 : forall x, x < WM.W64 -> WM.in_range 0 18446744073709551615 (Z.of_N x) = true.
Proof. intros x H. apply WPS.in_range_true. unfold WM.W64 in H. lia. Qed.

Lemma entry_val_ok : forall be, bentry_ok be -> WG.val_ok kv_entry_shape (entry_val be) = true.
Proof.
  intros be (H1 & H2 & H3 & H4 & H5). unfold entry_val.
  apply WPS.bytes_okb_iff in H3.
  destruct (be_val be) as [v|]; cbn.
  - destruct H5 as (H5 & H6). apply WPS.bytes_okb_iff in H5.
    rewrite (in_range_u64 _ H1), (in_range_u64 _ H2), H3, H5.
    destruct (N.ltb_spec (WM.len (be_frag be)) WM.W64); [|unfold WM.len, len in *; lia].
    destruct (N.ltb_spec (WM.len v) WM.W64); [|unfold WM.len, len in *; lia]. reflexivity.
  - rewrite (in_range_u64 _ H1), (in_range_u64 _ H2), H3.
    destruct (N.ltb_spec (WM.len (be_frag be)) WM.W64); [|unfold WM.len, len in *; lia]. reflexivity.
Qed.

(* the model's bytes of a record ARE the reference prototk encoding of the declared shape *)
Theorem encode_entry_is_ref : forall be, encode_entry be = WS.ref_msg kv_entry_shape (entry_val be).
Proof.
  intros be. unfold encode_entry, entry_body, entry_val. destruct (be_val be) as [v|].
  - match goal with |- _ = ?r =>
      let r' := eval cbn -[WS.ref_varint WS.ref_tag WS.ref_len_delimited] in r in change r with r' end.
    unfold WS.ref_len_delimited.
    change (WS.ref_tag 8 2) with [66]. change (WS.ref_tag 1 0) with [8]. change (WS.ref_tag 2 2) with [18].
    change (WS.ref_tag 3 0) with [24]. change (WS.ref_tag 4 2) with [34].
    rewrite !N2Z.id. repeat rewrite <- varint_ref. rewrite !app_nil_r. repeat rewrite <- app_assoc. reflexivity.
  - match goal with |- _ = ?r =>
      let r' := eval cbn -[WS.ref_varint WS.ref_tag WS.ref_len_delimited] in r in change r with r' end.
    unfold WS.ref_len_delimited.
    change (WS.ref_tag 9 2) with [74]. change (WS.ref_tag 5 0) with [40]. change (WS.ref_tag 6 2) with [50].
    change (WS.ref_tag 7 0) with [56].
    rewrite !N2Z.id. repeat rewrite <- varint_ref. rewrite !app_nil_r. repeat rewrite <- app_assoc. reflexivity.
Qed.

Lemma len_app : forall a b : bytes, len (a ++ b) = len a + len b.
Proof. intros. unfold len. rewrite app_length. lia. Qed.

(* a record whose encoded size still fits a u64 *)
Definition rec_ok (be : bentry) : Prop := bentry_ok be /\ body_size be < WM.W64.

Lemma pack_sz_is_enc_size : forall be, rec_ok be ->
  WG.msg_pack_sz kv_entry_shape (entry_val be) = enc_size_real be.
Proof.
  intros be ((H1 & H2 & H3 & H4 & H5) & Hb). unfold enc_size_real.
  unfold entry_val, WG.msg_pack_sz. unfold body_size in *.
  destruct (be_val be) as [v|].
  - destruct H5 as (_ & H5).
    cbn -[WM.v64_pack_sz WM.tag_v64 N.add N.mul].
    change (WM.v64_pack_sz (WM.tag_v64 8 WM.WLengthDelimited)) with 1.
    change (WM.v64_pack_sz (WM.tag_v64 1 WM.WVarint)) with 1.
    change (WM.v64_pack_sz (WM.tag_v64 2 WM.WLengthDelimited)) with 1.
    change (WM.v64_pack_sz (WM.tag_v64 3 WM.WVarint)) with 1.
    change (WM.v64_pack_sz (WM.tag_v64 4 WM.WLengthDelimited)) with 1.
    rewrite !N2Z.id. change (WM.len (be_frag be)) with (len (be_frag be)). change (WM.len v) with (len v).
    rewrite (v64_sz_varint_size _ H1), (v64_sz_varint_size _ H2), (v64_sz_varint_size _ H4), (v64_sz_varint_size _ H5).
    match goal with |- context [WM.v64_pack_sz ?B] =>
      replace B with (1 + varint_size (be_shared be) + 1 + varint_size (len (be_frag be)) + len (be_frag be) + 1 +
                      varint_size (be_ts be) + (1 + varint_size (len v) + len v)) by lia end.
    rewrite (v64_sz_varint_size _ Hb). lia.
  - cbn -[WM.v64_pack_sz WM.tag_v64 N.add N.mul].
    change (WM.v64_pack_sz (WM.tag_v64 9 WM.WLengthDelimited)) with 1.
    change (WM.v64_pack_sz (WM.tag_v64 5 WM.WVarint)) with 1.
    change (WM.v64_pack_sz (WM.tag_v64 6 WM.WLengthDelimited)) with 1.
    change (WM.v64_pack_sz (WM.tag_v64 7 WM.WVarint)) with 1.
    rewrite !N2Z.id. change (WM.len (be_frag be)) with (len (be_frag be)).
    rewrite (v64_sz_varint_size _ H1), (v64_sz_varint_size _ H2), (v64_sz_varint_size _ H4).
    match goal with |- context [WM.v64_pack_sz ?B] =>
      replace B with (1 + varint_size (be_shared be) + 1 + varint_size (len (be_frag be)) + len (be_frag be) + 1 +
                      varint_size (be_ts be) + 0) by lia end.
    rewrite (v64_sz_varint_size _ Hb). lia.
Qed.

Lemma rec_ok_size_lt : forall be, rec_ok be -> enc_size_real be < WM.W64 -> 
  WG.msg_pack_sz kv_entry_shape (entry_val be) < WM.W64.
Proof. intros be H Hs. now rewrite pack_sz_is_enc_size. Qed.

(* THE RECORD CODEC: size, bytes, and decoding, for every record a builder can make *)
Theorem entry_codec : forall be rest, rec_ok be -> enc_size_real be < WM.W64 -> WM.bytes_ok rest ->
  len (encode_entry be) = enc_size_real be /\
  WM.bytes_ok (encode_entry be) /\
  WG.msg_unpack kv_entry_shape (encode_entry be ++ rest) = WM.Ok (entry_val be, rest) /\
  entry_of_val (entry_val be) = Some be.
Proof.
  intros be rest Hr Hs Hrest. pose proof Hr as (Hok & _).
  pose proof (entry_val_ok be Hok) as Hv. pose proof (rec_ok_size_lt be Hr Hs) as Hsz.
  destruct (WP.C15_message_roundtrip kv_entry_shape (entry_val be) kv_entry_wf Hv Hsz) as (_ & Hl & _).
  rewrite encode_entry_is_ref. split; [|split; [|split]].
  - change (len (WS.ref_msg kv_entry_shape (entry_val be))) with (WM.len (WS.ref_msg kv_entry_shape (entry_val be))).
    rewrite Hl. now apply pack_sz_is_enc_size.
  - rewrite <- encode_entry_is_ref. unfold encode_entry, entry_body.
    destruct Hok as (_ & _ & Hf & _ & Hvv).
    destruct (be_val be) as [v|]; repeat (apply WPV.bytes_ok_app; split); try apply varint_bytes_ok; auto;
      try (apply Forall_cons; [lia|apply Forall_nil]). apply Hvv.
  - apply WP.C15_enum_roundtrip_leaves_rest; auto.
  - unfold entry_val, entry_of_val. destruct be as [s f t [v|]]; cbn; now rewrite !N2Z.id.
Qed.

(* ---------------------------------------------------------------- BlockMetadata *)
Definition meta_bytes (s l crc : N) : bytes := WS.ref_msg block_metadata_shape (metadata_val s l crc).

Lemma block_metadata_wf : WG.msg_wf block_metadata_shape = true.
Proof. vm_compute. reflexivity. Qed.

Lemma meta_enc_real_is_ref : forall s l, meta_enc_real s l = meta_bytes s l 0.
Proof.
  intros s l. unfold meta_enc_real, meta_bytes, metadata_val.
  match goal with |- _ = ?r =>
    let r' := eval cbn -[WS.ref_varint WS.ref_tag WM.le_bytes] in r in change r with r' end.
  change (WS.ref_tag 13 0) with [104]. change (WS.ref_tag 14 0) with [112]. change (WS.ref_tag 15 5) with [125].
  change (WM.le_bytes 4 (Z.to_N (Z.of_N 0))) with [0; 0; 0; 0].
  rewrite !N2Z.id. repeat rewrite <- varint_ref. rewrite !app_nil_r. repeat rewrite <- app_assoc. reflexivity.
Qed.

(* BlockMetadata round-trips through prototk, whatever the checksum *)
Theorem meta_codec : forall s l crc, s < WM.W64 -> l < WM.W64 -> crc < WM.W32 ->
  WG.msg_unpack block_metadata_shape (meta_bytes s l crc) = WM.Ok (metadata_val s l crc, []) /\
  len (meta_bytes s l 0) = meta_len s l.
Proof.
  intros s l crc Hs Hl Hc.
  assert (Hv : forall c, c < WM.W32 -> WG.val_ok block_metadata_shape (metadata_val s l c) = true).
  { intros c Hc'. cbn. rewrite (in_range_u64 _ Hs), (in_range_u64 _ Hl).
    rewrite (WPS.in_range_true 0 4294967295 (Z.of_N c)); [reflexivity|unfold WM.W32 in Hc'; lia]. }
  assert (Hsz : forall c, WG.msg_pack_sz block_metadata_shape (metadata_val s l c) = meta_len s l).
  { intros c. unfold WG.msg_pack_sz, metadata_val. cbn -[WM.v64_pack_sz WM.tag_v64 N.add N.mul].
    change (WM.v64_pack_sz (WM.tag_v64 13 WM.WVarint)) with 1.
    change (WM.v64_pack_sz (WM.tag_v64 14 WM.WVarint)) with 1.
    change (WM.v64_pack_sz (WM.tag_v64 15 WM.WThirtyTwo)) with 1.
    rewrite !N2Z.id, (v64_sz_varint_size _ Hs), (v64_sz_varint_size _ Hl). unfold meta_len. lia. }
  assert (Hlt : meta_len s l < WM.W64).
  { unfold meta_len. pose proof (varint_size_le s ltac:(unfold WM.W64 in Hs; unfold U64_MAX; lia)).
    pose proof (varint_size_le l ltac:(unfold WM.W64 in Hl; unfold U64_MAX; lia)). unfold WM.W64. lia. }
  split.
  - apply (WP.C15_message_roundtrip block_metadata_shape (metadata_val s l crc) block_metadata_wf (Hv crc Hc)).
    now rewrite Hsz.
  - destruct (WP.C15_message_roundtrip block_metadata_shape (metadata_val s l 0) block_metadata_wf
                (Hv 0 ltac:(reflexivity)) ltac:(now rewrite Hsz)) as (_ & Hlen & _).
    unfold meta_bytes. change (len (WS.ref_msg block_metadata_shape (metadata_val s l 0)))
      with (WM.len (WS.ref_msg block_metadata_shape (metadata_val s l 0))). now rewrite Hlen, Hsz.
Qed.

(* ---------------------------------------------------------------- list helpers *)
Lemma skipn_exact : forall {A} (pre suf : list A) n, length pre = n -> skipn n (pre ++ suf) = suf.
Proof. intros A pre suf n <-. now rewrite skipn_app, skipn_all, Nat.sub_diag. Qed.

Lemma firstn_exact : forall {A} (pre suf : list A) n, length pre = n -> firstn n (pre ++ suf) = pre.
Proof. intros A pre suf n <-. rewrite firstn_app, firstn_all, Nat.sub_diag. cbn. apply app_nil_r. Qed.

Lemma Forall_firstn : forall {A} (P : A -> Prop) l n, Forall P l -> Forall P (firstn n l).
Proof.
  intros A P l. induction l as [|x l IH]; intros n H; [rewrite firstn_nil; constructor|].
  destruct n; cbn [firstn]; [constructor|]. inversion H; subst. constructor; auto.
Qed.

Lemma Forall_skipn : forall {A} (P : A -> Prop) l n, Forall P l -> Forall P (skipn n l).
Proof.
  intros A P l. induction l as [|x l IH]; intros n H; [rewrite skipn_nil; constructor|].
  destruct n; cbn [skipn]; [exact H|]. inversion H; subst. auto.
Qed.

Lemma skipn_nth_cons' : forall {A} (l : list A) n x, nth_error l n = Some x -> skipn n l = x :: skipn (S n) l.
Proof.
  induction l as [|a l IH]; intros [|n] x H; cbn [nth_error skipn] in *; try discriminate.
  - now injection H as ->.
  - now apply IH.
Qed.

Lemma get4 : forall (pre : bytes) b0 b1 b2 b3 suf n, len pre = n ->
  WM.get (pre ++ b0 :: b1 :: b2 :: b3 :: suf) n = WM.Ok b0 /\
  WM.get (pre ++ b0 :: b1 :: b2 :: b3 :: suf) (n + 1) = WM.Ok b1 /\
  WM.get (pre ++ b0 :: b1 :: b2 :: b3 :: suf) (n + 2) = WM.Ok b2 /\
  WM.get (pre ++ b0 :: b1 :: b2 :: b3 :: suf) (n + 3) = WM.Ok b3.
Proof.
  intros pre b0 b1 b2 b3 suf n <-. unfold WM.get, len.
  repeat split; rewrite nth_error_app2 by lia.
  - replace (N.to_nat (N.of_nat (length pre)) - length pre)%nat with 0%nat by lia. reflexivity.
  - replace (N.to_nat (N.of_nat (length pre) + 1) - length pre)%nat with 1%nat by lia. reflexivity.
  - replace (N.to_nat (N.of_nat (length pre) + 2) - length pre)%nat with 2%nat by lia. reflexivity.
  - replace (N.to_nat (N.of_nat (length pre) + 3) - length pre)%nat with 3%nat by lia. reflexivity.
Qed.

Lemma le32_le_bytes : forall n, le32 n = WM.le_bytes 4 n.
Proof.
  intros n. unfold le32. cbn [WM.le_bytes]. rewrite !N.div_div by discriminate.
  change (256 * 256) with 65536. change (65536 * 256) with 16777216. reflexivity.
Qed.

Lemma le32_len : forall n, length (le32 n) = 4%nat.
Proof. reflexivity. Qed.

Lemma concat_le32_len : forall rs, length (concat (map le32 rs)) = (4 * length rs)%nat.
Proof. induction rs as [|x rs IH]; cbn [map concat length]; [reflexivity|]. rewrite app_length, IH, le32_len. lia. Qed.

(* ---------------------------------------------------------------- the bytes of a sealed block *)
Definition recs_ok (l : list bentry) : Prop := Forall (fun be => rec_ok be /\ enc_size_real be < WM.W64) l.

Lemma data_len : forall l, recs_ok l -> len (concat (map encode_entry l)) = buf_len enc_size_real l.
Proof.
  induction l as [|be l IH]; intros H; [reflexivity|]. inversion H as [|? ? (Hr & Hs) Hl]; subst.
  cbn [map concat buf_len]. rewrite len_app, (IH Hl).
  destruct (entry_codec be [] Hr Hs (Forall_nil _)) as (-> & _). reflexivity.
Qed.

Lemma data_bytes_ok : forall l, recs_ok l -> WM.bytes_ok (concat (map encode_entry l)).
Proof.
  induction l as [|be l IH]; intros H; [constructor|]. inversion H as [|? ? (Hr & Hs) Hl]; subst.
  cbn [map concat]. apply WPV.bytes_ok_app. split; [|auto].
  now destruct (entry_codec be [] Hr Hs (Forall_nil _)) as (_ & ? & _).
Qed.

Section Layout.
  Variable b : block.
  Hypothesis Hrec : recs_ok (bl_entries b).
  Hypothesis Hbd : bl_boundary b = buf_len enc_size_real (bl_entries b).
  Hypothesis Hrs32 : Forall (fun x => x < WM.W32) (bl_restarts b).
  Hypothesis Hnr32 : num_restarts b < WM.W32.

  Notation bes := (bl_entries b).
  Notation rs := (bl_restarts b).
  Notation nr := (num_restarts b).
  Notation off := (BlockBase.off enc_size_real (bl_entries b)).

  Definition data : bytes := concat (map encode_entry bes).
  Definition head : bytes := data ++ [82] ++ varint (4 * nr).
  Definition the_block : bblock :=
    {| bk_bytes := block_bytes b; bk_boundary := bl_boundary b;
       bk_ridx := bl_boundary b + 1 + varint_size (4 * nr); bk_nr := nr |}.

  Lemma bytes_split : block_bytes b = head ++ concat (map le32 rs) ++ [93] ++ le32 nr.
  Proof. unfold block_bytes, head, data. now rewrite <- !app_assoc. Qed.

  Lemma nr4_lt : 4 * nr < WM.W64.
  Proof. unfold WM.W32, WM.W64 in *. lia. Qed.

  Lemma head_len : len head = bl_boundary b + 1 + varint_size (4 * nr).
  Proof.
    unfold head, data. rewrite !len_app, (data_len _ Hrec), <- Hbd, (varint_len _ nr4_lt).
    change (len [82]) with 1. lia.
  Qed.

  Lemma bytes_len : len (block_bytes b) = bl_boundary b + 1 + varint_size (4 * nr) + 4 * nr + 5.
  Proof.
    assert (Hn : length (block_bytes b) = (length head + 4 * length rs + 5)%nat).
    { rewrite bytes_split, !app_length, concat_le32_len, le32_len. cbn [length]. lia. }
    pose proof head_len as Hh. unfold len, num_restarts in *. rewrite Hn. lia.
  Qed.

  Theorem bblock_new_ok : bblock_new (block_bytes b) = Ok the_block.
  Proof.
    unfold bblock_new. pose proof bytes_len as HL.
    destruct (N.ltb_spec (len (block_bytes b)) 4); [lia|].
    assert (Htail : skipn (N.to_nat (len (block_bytes b) - 4)) (block_bytes b) = le32 nr).
    { assert (Hb : block_bytes b = (head ++ concat (map le32 rs) ++ [93]) ++ le32 nr)
        by (rewrite bytes_split; now rewrite <- !app_assoc).
      pose proof (f_equal (@length N) Hb) as Hl. rewrite app_length, le32_len in Hl.
      set (n := N.to_nat (len (block_bytes b) - 4)). rewrite Hb. apply skipn_exact.
      unfold n, len. lia. }
    rewrite Htail, le32_le_bytes.
    rewrite <- (app_nil_r (WM.le_bytes 4 nr)), (WPS.le_unpack_roundtrip 4 nr []) by exact Hnr32.
    cbn [lift bind fst]. unfold usub.
    destruct (N.leb_spec (1 + 4) (len (block_bytes b))); [|lia]. cbn [bind].
    destruct (N.leb_spec (nr * 4) (len (block_bytes b) - (1 + 4))); [|lia]. cbn [bind].
    replace (nr * 4) with (4 * nr) in * by lia. rewrite (v64_sz_varint_size _ nr4_lt).
    destruct (N.leb_spec (1 + varint_size (4 * nr)) (len (block_bytes b) - (1 + 4) - 4 * nr)); [|lia]. cbn [bind].
    unfold the_block. f_equal. f_equal; lia.
  Qed.

  (* restart_point on raw bytes = restart_point of the logical block, at every index *)
  Lemma restart_point_bytes : forall i, bk_restart_point the_block i = restart_point b i.
  Proof.
    intros i. unfold bk_restart_point, restart_point. cbn [the_block bk_nr bk_bytes bk_ridx].
    destruct (N.leb_spec nr i) as [Hge|Hlt].
    - destruct (nth_error rs (N.to_nat i)) eqn:E; [|reflexivity].
      assert (N.to_nat i < length rs)%nat by (apply nth_error_Some; congruence). unfold num_restarts in Hge. lia.
    - destruct (nth_error rs (N.to_nat i)) as [x|] eqn:E; [|apply nth_error_None in E; unfold num_restarts in Hlt; lia].
      assert (Hx : x < WM.W32) by (rewrite Forall_forall in Hrs32; apply Hrs32; eapply nth_error_In; eauto).
      (* isolate the four bytes of restart i *)
      pose proof (firstn_skipn (N.to_nat i) rs) as Hsplit.
      rewrite (skipn_nth_cons' _ _ _ E) in Hsplit.
      set (pre := head ++ concat (map le32 (firstn (N.to_nat i) rs))).
      assert (Hpre : len pre = bl_boundary b + 1 + varint_size (4 * nr) + i * 4).
      { unfold pre. rewrite len_app, head_len. unfold len at 1. rewrite concat_le32_len, firstn_length.
        assert (N.to_nat i <= length rs)%nat by (unfold num_restarts in Hlt; lia). lia. }
      assert (Hbytes : block_bytes b = pre ++ le32 x ++ (concat (map le32 (skipn (S (N.to_nat i)) rs)) ++ [93] ++ le32 nr)).
      { rewrite bytes_split. unfold pre. rewrite <- Hsplit at 1. rewrite map_app, concat_app. cbn [map concat].
        now rewrite <- !app_assoc. }
      set (b0 := x mod 256). set (b1 := x / 256 mod 256). set (b2 := x / 65536 mod 256). set (b3 := x / 16777216 mod 256).
      set (suf := concat (map le32 (skipn (S (N.to_nat i)) rs)) ++ [93] ++ le32 nr) in *.
      assert (Hbytes' : block_bytes b = pre ++ b0 :: b1 :: b2 :: b3 :: suf) by (rewrite Hbytes; reflexivity).
      destruct (get4 pre b0 b1 b2 b3 suf _ Hpre) as (G0 & G1 & G2 & G3).
      cbn [the_block bk_bytes bk_ridx]. rewrite Hbytes', G0, G1, G2, G3.
      cbn [lift bind]. f_equal.
      change [b0; b1; b2; b3] with (le32 x). rewrite le32_le_bytes. now apply WPS.of_le_le_bytes.
  Qed.
End Layout.

(* ---------------------------------------------------------------- reading a record at an offset *)
Lemma buf_len_split : forall (l : list bentry) n,
  BlockBase.off enc_size_real l n + buf_len enc_size_real (skipn n l) = buf_len enc_size_real l.
Proof.
  intros l n. unfold BlockBase.off. rewrite <- (buf_len_app enc_size_real). now rewrite firstn_skipn.
Qed.

Section Extract.
  Variable b : block.
  Hypothesis Hrec : recs_ok (bl_entries b).
  Hypothesis Hbd : bl_boundary b = buf_len enc_size_real (bl_entries b).
  Hypothesis Hrs32 : Forall (fun x => x < WM.W32) (bl_restarts b).
  Hypothesis Hnr32 : num_restarts b < WM.W32.

  Notation bes := (bl_entries b).
  Notation off := (BlockBase.off enc_size_real (bl_entries b)).
  Notation k := (the_block b).

  Definition valid_off (o : N) : Prop :=
    bl_boundary b <= o \/ exists n be, nth_error bes n = Some be /\ o = off n.

  Lemma off_le_boundary : forall n, off n <= bl_boundary b.
  Proof. intros n. rewrite Hbd. pose proof (buf_len_split bes n). lia. Qed.

  Lemma slice_at : forall n, (n <= length bes)%nat ->
    bk_slice k (off n) = Ok (concat (map encode_entry (skipn n bes))).
  Proof.
    intros n Hn. unfold bk_slice. cbn [the_block bk_boundary bk_bytes].
    pose proof (off_le_boundary n). pose proof (bytes_len b Hrec Hbd) as HL.
    destruct (N.leb_spec (off n) (bl_boundary b)); [|lia].
    destruct (N.leb_spec (bl_boundary b) (len (block_bytes b))); [|lia]. cbn [andb]. f_equal.
    assert (Hsp : block_bytes b = concat (map encode_entry (firstn n bes)) ++
                  (concat (map encode_entry (skipn n bes)) ++
                   [82] ++ varint (4 * num_restarts b) ++ concat (map le32 (bl_restarts b)) ++ [93] ++ le32 (num_restarts b))).
    { unfold block_bytes. rewrite <- (firstn_skipn n bes) at 1. rewrite map_app, concat_app. now rewrite <- !app_assoc. }
    rewrite Hsp.
    assert (Hpre1 : length (concat (map encode_entry (firstn n bes))) = N.to_nat (off n)).
    { pose proof (data_len _ (Forall_firstn _ _ n Hrec)) as D. unfold len, BlockBase.off in *. lia. }
    rewrite (skipn_exact _ _ _ Hpre1). apply firstn_exact.
    pose proof (data_len _ (Forall_skipn _ _ n Hrec)) as D. pose proof (buf_len_split bes n). unfold len in D. lia.
  Qed.

  (* extract_key on raw bytes = extract_key of the logical block, at every record boundary and at
     or after restarts_boundary *)
  Theorem extract_key_bytes : forall ri o key, valid_off o ->
    bk_extract_key k ri o key = extract_key enc_size_real b ri o key.
  Proof.
    intros ri o key [Hge|(n & be & Hn & ->)]; unfold bk_extract_key, extract_key; cbn [the_block bk_boundary].
    - destruct (N.leb_spec (bl_boundary b) o); [reflexivity|lia].
    - assert (Hlt : (n < length bes)%nat) by (apply nth_error_Some; congruence).
      assert (Hoff : off n < bl_boundary b).
      { rewrite Hbd, <- (off_len enc_size_real bes). apply (off_lt enc_size_real enc_size_real_pos); lia. }
      destruct (N.leb_spec (bl_boundary b) (off n)); [lia|].
      rewrite (slice_at n ltac:(lia)). cbn [bind].
      rewrite (skipn_nth_cons' _ _ _ Hn). cbn [map concat].
      pose proof Hrec as Hr. unfold recs_ok in Hr. rewrite Forall_forall in Hr.
      destruct (Hr be (nth_error_In _ _ Hn)) as (Hro & Hsz).
      destruct (entry_codec be (concat (map encode_entry (skipn (S n) bes))) Hro Hsz
                  (data_bytes_ok _ (Forall_skipn _ _ (S n) Hrec))) as (_ & _ & -> & Hev).
      cbn [lift bind fst snd]. rewrite Hev.
      rewrite (entry_at_off enc_size_real enc_size_real_pos _ _ _ Hn).
      pose proof (data_len _ (Forall_skipn _ _ (S n) Hrec)) as D.
      pose proof (buf_len_split bes (S n)) as Hs. unfold usub.
      destruct (N.leb_spec (len (concat (map encode_entry (skipn (S n) bes)))) (bl_boundary b)); [|lia].
      cbn [bind]. do 2 f_equal. lia.
  Qed.

  Lemma next_off_valid : forall ri o key ri' o' no kk t v, valid_off o ->
    extract_key enc_size_real b ri o key = Ok (PAt ri' o' no kk t v) -> valid_off no.
  Proof.
    intros ri o key ri' o' no kk t v [Hge|(n & be & Hn & ->)] H; unfold extract_key in H.
    - destruct (N.leb_spec (bl_boundary b) o); [discriminate|lia].
    - destruct (bl_boundary b <=? off n); [discriminate|].
      rewrite (entry_at_off enc_size_real enc_size_real_pos _ _ _ Hn) in H. injection H as _ _ <- _ _ _.
      destruct (nth_error bes (S n)) as [be'|] eqn:E.
      + right. eauto.
      + left. apply nth_error_None in E. rewrite (off_all enc_size_real bes (S n) E). lia.
  Qed.
End Extract.
