(* Table/AcceptProofs.v — an SstBuilder reached by accepted puts/dels never fails past its
   pre-checks: put/del succeed exactly on the entries that are within the size limits, arrive
   before the table is full and are above the last accepted entry.  (So a rejection is always a
   pre-check failure, which precedes every mutation of the builder.) *)
From Coq Require Import NArith ZArith List Bool Lia.
From Blue Require Import Gen.Const_Table Table.Model Table.ModelBloom Table.ModelSst Table.Ref
  Table.OrderProofs Table.BlockBase Table.BuildProofs Table.CursorProofs Table.DivideProofs
  Table.BloomProofs Table.SstCursorProofs Table.BuildSstProofs.
Import ListNotations.
Open Scope N_scope.

Section Acc.
  Variable enc_size : bentry -> N.
  Hypothesis enc_pos : forall e, 0 < enc_size e.
  Hypothesis enc_bound : size_bounded enc_size.
  Variable meta_enc : N -> N -> bytes.
  Hypothesis meta_bound : forall s l, len (meta_enc s l) <= MAX_VALUE_LEN.
  Variable sip : bytes -> N.
  Variable init : bytes * N.
  Hypothesis init_min : kref_cmp [] U64_MAX (fst init) (snd init) <> Gt.
  Hypothesis init_len : len (fst init) <= MAX_KEY_LEN.
  Hypothesis init_ts : snd init <= U64_MAX.

  Notation sinv := (sinv enc_size meta_enc sip init).
  Notation all_of := BuildSstProofs.all_of.

  Definition index_last (recs : list brec) : bytes * N := last_kt (map (r_entry meta_enc) recs).

  Record sext (recs : list brec) (cur : list entry) : Prop := {
    sx_keylen : forall e, In e (all_of recs cur) -> len (e_key e) <= MAX_KEY_LEN;
    sx_min : forall e, In e (all_of recs cur) -> kref_cmp [] U64_MAX (e_key e) (e_ts e) = Lt;
    sx_ts : forall e, In e (all_of recs cur) -> e_ts e <= U64_MAX;
    sx_index : forall e, In e cur ->
               kref_cmp (fst (index_last recs)) (snd (index_last recs)) (e_key e) (e_ts e) = Lt }.

  Lemma sext_new : sext [] [].
  Proof. constructor; intros e []. Qed.

  (* the last accepted key is short and not below the least KeyRef *)
  Lemma last_props : forall recs cur, sext recs cur ->
    len (fst (last_from init (all_of recs cur))) <= MAX_KEY_LEN /\
    kref_cmp [] U64_MAX (fst (last_from init (all_of recs cur))) (snd (last_from init (all_of recs cur))) <> Gt /\
    snd (last_from init (all_of recs cur)) <= U64_MAX.
  Proof.
    intros recs cur X. unfold last_from. destruct (all_of recs cur) as [|a0 l0] eqn:E; [auto|]. rewrite <- E.
    assert (Hne : all_of recs cur <> []) by (rewrite E; discriminate).
    rewrite (last_kt_nonempty _ Hne). cbn [fst snd].
    assert (Hin : In (last (all_of recs cur) dummy_entry) (all_of recs cur)).
    { destruct (exists_last Hne) as (l' & z & ->). rewrite last_last. apply in_or_app. right. now left. }
    split; [exact (sx_keylen _ _ X _ Hin)|]. split; [rewrite (sx_min _ _ X _ Hin); discriminate|].
    exact (sx_ts _ _ X _ Hin).
  Qed.

  Lemma precheck_ok : forall b e, put_ok (sb_last_key b) (sb_last_ts b) (sb_approx_size enc_size b) e ->
    sb_precheck enc_size b e = Ok tt.
  Proof.
    intros b e (P1 & P2 & P3 & P4). unfold sb_precheck, check_key_len.
    destruct (N.ltb_spec MAX_KEY_LEN (len (e_key e))); [lia|]. cbn [bind].
    assert ((match e_val e with Some v => check_value_len v | None => Ok tt end) = Ok tt) as ->.
    { destruct (e_val e) as [v|]; [|reflexivity]. unfold check_value_len.
      specialize (P2 v eq_refl). destruct (N.ltb_spec MAX_VALUE_LEN (len v)); [lia|reflexivity]. }
    cbn [bind]. unfold check_table_size.
    destruct (N.leb_spec TABLE_FULL_SIZE (sb_approx_size enc_size b)); [lia|]. cbn [bind].
    unfold sb_enforce_sort_order. now rewrite P4.
  Qed.

  Lemma new_block_put_ok : forall o e, len (e_key e) <= MAX_KEY_LEN ->
    (forall v, e_val e = Some v -> len v <= MAX_VALUE_LEN) ->
    kref_cmp [] U64_MAX (e_key e) (e_ts e) = Lt ->
    put_ok (bb_last_key (bb_new o)) (bb_last_ts (bb_new o)) (bb_approx_size enc_size (bb_new o)) e.
  Proof.
    intros o e H1 H2 H3. repeat split; auto.
  Qed.

  (* THE ACCEPTANCE LEMMA *)
  Lemma sb_add_total : forall b recs cur e, sinv b recs cur -> sext recs cur -> bytes_ok (e_key e) ->
    e_ts e <= U64_MAX ->
    put_ok (sb_last_key b) (sb_last_ts b) (sb_approx_size enc_size b) e ->
    exists b1, sb_add enc_size meta_enc sip b e = Ok b1.
  Proof.
    intros b recs cur e (P & B) X Hk Hts Hp. unfold sb_add. rewrite (precheck_ok b e Hp). cbn [bind].
    pose proof Hp as (P1 & P2 & P3 & P4).
    pose proof (sp_last _ _ _ _ _ _ _ P) as Plast.
    destruct (last_props recs cur X) as (Llen & Lmin & Lts). rewrite <- Plast in Llen, Lmin, Lts. cbn [fst snd] in Llen, Lmin, Lts.
    assert (Hmin : kref_cmp [] U64_MAX (e_key e) (e_ts e) = Lt) by (eapply kref_cmp_le_lt_trans; eauto).
    unfold sb_approx_size in P3.
    unfold sb_get_block. destruct (sb_block b) as [bb|] eqn:Eb.
    - destruct B as (I & Hne).
      assert (Hbl : (bb_last_key bb, bb_last_ts bb) = (sb_last_key b, sb_last_ts b)).
      { rewrite (bi_last _ _ _ I), Plast.
        assert (Hne' : all_of recs cur <> []).
        { intros E. apply Hne. unfold BuildSstProofs.all_of in E. now apply app_eq_nil in E as [_ E]. }
        rewrite (last_from_nonempty _ _ Hne'). unfold BuildSstProofs.all_of. symmetry. now apply last_kt_app. }
      injection Hbl as Hbk Hbt.
      destruct (so_tbs (sb_opts b) <? bb_approx_size enc_size bb) eqn:Ecut.
      + (* flush, then a fresh block *)
        unfold sb_flush_block. rewrite Eb.
        set (blk := bb_seal enc_size bb). set (start := sb_written b).
        unfold meta_sanity. cbn [fst snd].
        assert (Hfl : start < start + frame_len (block_len blk)) by (unfold frame_len; lia).
        destruct (N.leb_spec (start + frame_len (block_len blk)) start); [lia|]. cbn [bind].
        destruct (divide_keys_between _ _ _ _ Hk P4) as (d & dt & -> & Hd1 & Hd2 & Hdl & Hdt). cbn [bind fst snd].
        assert (Hidx : exists idx, bb_add enc_size (sb_index b) (d, dt, Some (meta_enc start (start + frame_len (block_len blk)))) = Ok idx).
        { apply (bb_add_total enc_size enc_bound).
          { cbn [e_ts fst snd]. destruct Hdt as [E|E]; rewrite E; [exact Lts|unfold U64_MAX; lia]. }
          repeat split; cbn [e_key e_ts e_val fst snd].
          - unfold len in *. lia.
          - intros v Hv. injection Hv as <-. apply meta_bound.
          - lia.
          - (* the previous dividing key is below the entries of the current block *)
            pose proof (sp_index _ _ _ _ _ _ _ P) as Ii.
            pose proof (bi_last _ _ _ Ii) as Il.
            assert (Hik : bb_last_key (sb_index b) = fst (index_last recs)) by (unfold index_last; now rewrite <- Il).
            assert (Hit : bb_last_ts (sb_index b) = snd (index_last recs)) by (unfold index_last; now rewrite <- Il).
            rewrite Hik, Hit.
            destruct cur as [|e0 cur'] eqn:Ec; [congruence|].
            pose proof (sx_index _ _ X e0 (or_introl eq_refl)) as H0.
            eapply kref_cmp_lt_le_trans; [exact H0|].
            (* e0 <= last accepted <= (d, dt) *)
            assert (Hle : kref_cmp (e_key e0) (e_ts e0) (sb_last_key b) (sb_last_ts b) <> Gt).
            { assert (Hne' : all_of recs (e0 :: cur') <> []).
              { intros E. unfold BuildSstProofs.all_of in E. now apply app_eq_nil in E as [_ E]. }
              assert (Hpair : (sb_last_key b, sb_last_ts b) =
                              (e_key (last (all_of recs (e0 :: cur')) dummy_entry), e_ts (last (all_of recs (e0 :: cur')) dummy_entry)))
                by (rewrite Plast, (last_from_nonempty _ _ Hne'), (last_kt_nonempty _ Hne'); reflexivity).
              injection Hpair as -> ->.
              destruct (sorted_last_max _ e0 (sp_sorted _ _ _ _ _ _ _ P)
                          (in_all_of_cur recs (e0 :: cur') e0 (or_introl eq_refl))) as [E0|L].
              - rewrite <- E0, kref_cmp_refl. discriminate.
              - unfold kref_lt in L. rewrite L. discriminate. }
            destruct (kref_cmp (e_key e0) (e_ts e0) d dt) eqn:C; try discriminate.
            exfalso. rewrite kref_cmp_antisym in C.
            destruct (kref_cmp d dt (e_key e0) (e_ts e0)) eqn:C'; cbn in C; try discriminate.
            apply Hle. rewrite kref_cmp_antisym.
            assert (kref_cmp (sb_last_key b) (sb_last_ts b) (e_key e0) (e_ts e0) = Lt) as ->
              by (eapply kref_cmp_le_lt_trans; eauto).
            reflexivity. }
        destruct Hidx as (idx & ->). cbn [bind].
        unfold sb_start_new_block. cbn [sb_block bind sb_opts].
        destruct (bb_add_total enc_size enc_bound (bb_new (so_block (sb_opts b))) e Hts
                    (new_block_put_ok _ e P1 P2 Hmin)) as (bb1 & ->). cbn [bind]. eauto.
      + (* the current block takes the entry *)
        cbn [bind]. rewrite Eb.
        assert (Hpo : put_ok (bb_last_key bb) (bb_last_ts bb) (bb_approx_size enc_size bb) e).
        { rewrite Hbk, Hbt. repeat split; auto. lia. }
        destruct (bb_add_total enc_size enc_bound bb e Hts Hpo) as (bb1 & ->). cbn [bind]. eauto.
    - unfold sb_start_new_block. rewrite Eb. cbn [bind sb_block sb_opts].
      destruct (bb_add_total enc_size enc_bound (bb_new (so_block (sb_opts b))) e Hts
                  (new_block_put_ok _ e P1 P2 Hmin)) as (bb1 & ->). cbn [bind]. eauto.
  Qed.

  (* the extra invariant is maintained *)
  Lemma sext_step : forall b recs cur e recs1 cur1, sinv b recs cur -> sext recs cur ->
    e_ts e <= U64_MAX ->
    put_ok (sb_last_key b) (sb_last_ts b) (sb_approx_size enc_size b) e ->
    all_of recs1 cur1 = all_of recs cur ++ [e] ->
    ((recs1 = recs /\ cur1 = cur ++ [e]) \/
     (exists r, recs1 = recs ++ [r] /\ cur1 = [e] /\ r_chunk r = cur /\
                kref_cmp (r_key r) (r_ts r) (e_key e) (e_ts e) = Lt /\
                kref_cmp (sb_last_key b) (sb_last_ts b) (r_key r) (r_ts r) <> Gt)) ->
    sext recs1 cur1.
  Proof.
    intros b recs cur e recs1 cur1 (P & B) X Hts (P1 & P2 & P3 & P4) Hall Hshape.
    pose proof (sp_last _ _ _ _ _ _ _ P) as Plast.
    destruct (last_props recs cur X) as (Llen & Lmin & _). rewrite <- Plast in Llen, Lmin. cbn [fst snd] in Llen, Lmin.
    assert (Hmin : kref_cmp [] U64_MAX (e_key e) (e_ts e) = Lt) by (eapply kref_cmp_le_lt_trans; eauto).
    constructor.
    - intros e' He'. rewrite Hall in He'. apply in_app_or in He' as [He'|[<-|[]]]; [exact (sx_keylen _ _ X _ He')|exact P1].
    - intros e' He'. rewrite Hall in He'. apply in_app_or in He' as [He'|[<-|[]]]; [exact (sx_min _ _ X _ He')|exact Hmin].
    - intros e' He'. rewrite Hall in He'. apply in_app_or in He' as [He'|[<-|[]]]; [exact (sx_ts _ _ X _ He')|exact Hts].
    - destruct Hshape as [(-> & ->)|(r & -> & -> & Hr & Hrlt & _)].
      + intros e' He'. apply in_app_or in He' as [He'|[<-|[]]]; [exact (sx_index _ _ X _ He')|].
        destruct cur as [|e0 cur'] eqn:Ec.
        * (* no block yet: no index entry either *)
          destruct (sb_block b) eqn:Eb; [destruct B as (_ & B); congruence|]. destruct B as (_ & ->).
          unfold index_last. cbn [map last_kt fst snd]. exact Hmin.
        * pose proof (sx_index _ _ X e0 (or_introl eq_refl)) as H0.
          eapply kref_cmp_lt_trans; [exact H0|].
          pose proof (sp_sorted _ _ _ _ _ _ _ P) as S.
          assert (S' : sorted (all_of recs (e0 :: cur') ++ [e])).
          { apply sorted_snoc_last; [exact S|]. right.
            assert (Hne' : all_of recs (e0 :: cur') <> []).
            { intros E. unfold BuildSstProofs.all_of in E. now apply app_eq_nil in E as [_ E]. }
            assert (Hpair : (sb_last_key b, sb_last_ts b) =
                            (e_key (last (all_of recs (e0 :: cur')) dummy_entry), e_ts (last (all_of recs (e0 :: cur')) dummy_entry)))
              by (rewrite Plast, (last_from_nonempty _ _ Hne'), (last_kt_nonempty _ Hne'); reflexivity).
            injection Hpair as Hk1 Hk2. unfold kref_lt. rewrite <- Hk1, <- Hk2. exact P4. }
          apply sorted_app in S' as (_ & _ & C). apply (C e0 e); [|now left].
          apply in_all_of_cur. now left.
      + intros e' [<-|[]]. unfold index_last. rewrite map_app. cbn [map].
        rewrite last_kt_snoc. cbn [r_entry e_key e_ts fst snd]. exact Hrlt.
  Qed.

  (* reachable builders: everything sb_add_all accepts keeps both invariants *)
  Lemma sb_add_all_ext : forall es b recs cur b1, sinv b recs cur -> sext recs cur -> keys_ok es -> ts_ok es ->
    sb_add_all enc_size meta_enc sip b es = Ok b1 ->
    exists recs1 cur1, sinv b1 recs1 cur1 /\ sext recs1 cur1.
  Proof.
    induction es as [|e es IH]; intros b recs cur b1 I X Hk Ht H; cbn [sb_add_all] in H.
    - injection H as <-. eauto.
    - destruct (sb_add enc_size meta_enc sip b e) as [b2|] eqn:A; cbn [bind] in H; [|discriminate].
      inversion Hk as [|? ? Hk1 Hk2]; subst. inversion Ht as [|? ? Ht1 Ht2]; subst.
      destruct (sb_add_inv enc_size enc_pos meta_enc sip init _ _ _ _ _ I Hk1 A) as (recs2 & cur2 & I2 & E2 & _ & Hlt & Hsh).
      assert (Hp : put_ok (sb_last_key b) (sb_last_ts b) (sb_approx_size enc_size b) e).
      { unfold sb_add in A. destruct (sb_precheck enc_size b e) as [[]|] eqn:EP; cbn [bind] in A; [|discriminate].
        unfold sb_precheck in EP.
        unfold check_key_len in EP. destruct (N.ltb_spec MAX_KEY_LEN (len (e_key e))); cbn [bind] in EP; [discriminate|].
        assert (Hv : forall v, e_val e = Some v -> len v <= MAX_VALUE_LEN).
        { intros v EV. rewrite EV in EP. unfold check_value_len in EP.
          destruct (N.ltb_spec MAX_VALUE_LEN (len v)); [discriminate|assumption]. }
        destruct (match e_val e with Some v => check_value_len v | None => Ok tt end) as [[]|]; cbn [bind] in EP; [|discriminate].
        unfold check_table_size in EP.
        destruct (N.leb_spec TABLE_FULL_SIZE (sb_approx_size enc_size b)); cbn [bind] in EP; [discriminate|].
        unfold sb_enforce_sort_order in EP.
        destruct (kref_cmp (sb_last_key b) (sb_last_ts b) (e_key e) (e_ts e)) eqn:C; try discriminate.
        repeat split; auto. }
      pose proof (sext_step b recs cur e recs2 cur2 I X Ht1 Hp E2 Hsh) as X2.
      exact (IH _ _ _ _ I2 X2 Hk2 Ht2 H).
  Qed.

  Lemma sb_add_ok_put_ok : forall b e b1, sb_add enc_size meta_enc sip b e = Ok b1 ->
    put_ok (sb_last_key b) (sb_last_ts b) (sb_approx_size enc_size b) e.
  Proof.
    intros b e b1 A. unfold sb_add in A.
    destruct (sb_precheck enc_size b e) as [[]|] eqn:EP; cbn [bind] in A; [|discriminate].
    unfold sb_precheck in EP.
    unfold check_key_len in EP. destruct (N.ltb_spec MAX_KEY_LEN (len (e_key e))); cbn [bind] in EP; [discriminate|].
    assert (Hv : forall v, e_val e = Some v -> len v <= MAX_VALUE_LEN).
    { intros v EV. rewrite EV in EP. unfold check_value_len in EP.
      destruct (N.ltb_spec MAX_VALUE_LEN (len v)); [discriminate|assumption]. }
    destruct (match e_val e with Some v => check_value_len v | None => Ok tt end) as [[]|]; cbn [bind] in EP; [|discriminate].
    unfold check_table_size in EP.
    destruct (N.leb_spec TABLE_FULL_SIZE (sb_approx_size enc_size b)); cbn [bind] in EP; [discriminate|].
    unfold sb_enforce_sort_order in EP.
    destruct (kref_cmp (sb_last_key b) (sb_last_ts b) (e_key e) (e_ts e)) eqn:C; try discriminate.
    repeat split; auto.
  Qed.
End Acc.

(* a fresh SstBuilder and everything it accepts *)
Theorem sst_builder_accepts_iff : forall enc_size meta_enc sip,
  (forall e, 0 < enc_size e) -> size_bounded enc_size ->
  (forall s l, len (meta_enc s l) <= MAX_VALUE_LEN) ->
  forall o es b, keys_ok es -> ts_ok es -> sb_add_all enc_size meta_enc sip (sb_new o) es = Ok b ->
  forall e, bytes_ok (e_key e) -> e_ts e <= U64_MAX ->
  ((exists b1, sb_add enc_size meta_enc sip b e = Ok b1) <->
   put_ok (sb_last_key b) (sb_last_ts b) (sb_approx_size enc_size b) e).
Proof.
  intros enc_size meta_enc sip Hpos Hb Hm o es b Hk Ht H e Hke Hte. split.
  - intros (b1 & A). exact (sb_add_ok_put_ok enc_size meta_enc sip b e b1 A).
  - intros Hp.
    assert (Imin : kref_cmp [] U64_MAX (fst ([] : bytes, U64_MAX)) (snd ([] : bytes, U64_MAX)) <> Gt) by (cbn; discriminate).
    assert (Ilen : len (fst ([] : bytes, U64_MAX)) <= MAX_KEY_LEN) by (cbn; unfold MAX_KEY_LEN; lia).
    assert (Its : snd ([] : bytes, U64_MAX) <= U64_MAX) by (cbn; lia).
    assert (I0 : sinv enc_size meta_enc sip ([], U64_MAX) (sb_new o) [] [])
      by (exact (sinv_new enc_size meta_enc sip ([], U64_MAX) o [] U64_MAX eq_refl)).
    assert (Hx : exists recs cur, sinv enc_size meta_enc sip ([], U64_MAX) b recs cur /\ sext meta_enc recs cur).
    { eapply sb_add_all_ext; eauto. apply sext_new. }
    destruct Hx as (recs & cur & I & X).
    eapply sb_add_total; eauto.
Qed.
