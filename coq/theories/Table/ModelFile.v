(* Table/ModelFile.v — the SST layer over FILE BYTES, following sst/src/lib.rs:
   * Sst::from_file_handle: read the trailing eight bytes (final_block_offset), unpack the
     FinalBlock (Wire.ModelMsg.msg_unpack of the declared shape), the sanity checks on the index
     and filter block positions, load the index block, read the index entries back through the
     block cursor over raw bytes (metadata_from_kvr = prototk's unpack of BlockMetadata), the
     check that every data block lies in front of the index block, load the filter block;
   * Sst::load_block / load_filter_block over file bytes: sanity check, read [start, limit),
     unpack the SstEntry frame, compare crc32c(payload) with the metadata's crc32c, Block::new /
     Filter::try_from on the payload;
   * SstCursor, Sst::load and Sst::metadata over those;
   * sst_bytes: the bytes SstBuilder::seal leaves in the file, for a table of the logical model.
   CRC32C is an uninterpreted function `crc` (Section variable): the builder writes crc(payload),
   the reader compares; no property of it is used.  The setsum digest is `digest` (any function).
   Definitions only. *)
From Coq Require Import NArith ZArith List Bool.
From Blue Require Import Gen.Const_Table Table.Model Table.ModelBloom Table.ModelSst Table.ModelWire Table.ModelBytes.
From Blue Require Wire.Model Wire.ModelMsg Wire.Spec.
Import ListNotations.
Open Scope N_scope.



(* ---------------------------------------------------------------- results of the file layer *)
Inductive ferr :=
| FE (e : err)            (* an error of the block layer / a corruption class of Table/Model.v *)
| FCrc                    (* crc32c_failure *)
| FIo                     (* read_exact_at past the end of the file *)
| FOffsetTooLarge         (* corruption_final_block_offset_too_large *)
| FDataPastIndex.         (* corruption_data_block_runs_past_index_block *)

Inductive fres (A : Type) := FOk (a : A) | FErr (e : ferr).
Arguments FOk {A} a.
Arguments FErr {A} e.

Definition fbind {A B} (r : fres A) (f : A -> fres B) : fres B :=
  match r with FOk a => f a | FErr e => FErr e end.
Notation "x <~ e ;; f" := (fbind e (fun x => f)) (at level 61, e at next level, right associativity).

Definition of_res {A} (r : result A) : fres A := match r with Ok a => FOk a | Err e => FErr (FE e) end.

(* ---------------------------------------------------------------- filter bytes *)
(* Filter::to_bytes: eight little-endian u32 per block *)
Definition fblock_bytes (b : fblock) : bytes := concat (map le32 b).
Definition filter_to_bytes (f : filter) : bytes := concat (map fblock_bytes f).

Fixpoint words_of_bytes (bs : bytes) : list N :=
  match bs with
  | b0 :: b1 :: b2 :: b3 :: r => Wire.Model.of_le_bytes [b0; b1; b2; b3] :: words_of_bytes r
  | _ => []
  end.
Fixpoint blocks_of_words (ws : list N) : filter :=
  match ws with
  | a :: b :: c :: d :: e :: f :: g :: h :: r => [a; b; c; d; e; f; g; h] :: blocks_of_words r
  | _ => []
  end.
(* Filter::try_from(&[u8]) *)
Definition filter_of_bytes (bs : bytes) : fres filter :=
  match bs with
  | [] => FErr (FE ECorruptBadFilter)
  | _ => if (len bs) mod 32 =? 0 then FOk (blocks_of_words (words_of_bytes bs)) else FErr (FE ECorruptBadFilter)
  end.

(* ---------------------------------------------------------------- values of the shapes *)
Definition meta_of_val (v : Wire.ModelMsg.val) : option (N * N * N) :=
  match v with
  | Wire.ModelMsg.VL [Wire.ModelMsg.VZ s; Wire.ModelMsg.VZ l; Wire.ModelMsg.VZ c] => Some (Z.to_N s, Z.to_N l, Z.to_N c)
  | _ => None
  end.

Record ffinal := {
  ff_index : N * N * N; ff_filter : N * N * N;     (* start, limit, crc32c *)
  ff_setsum : bytes; ff_smallest : N; ff_biggest : N; ff_offset : N }.

Definition final_of_val (v : Wire.ModelMsg.val) : option ffinal :=
  match v with
  | Wire.ModelMsg.VL [i; f; Wire.ModelMsg.VB ss; Wire.ModelMsg.VZ sm; Wire.ModelMsg.VZ bg; Wire.ModelMsg.VZ off] =>
      match meta_of_val i, meta_of_val f with
      | Some mi, Some mf =>
          Some {| ff_index := mi; ff_filter := mf; ff_setsum := ss; ff_smallest := Z.to_N sm;
                  ff_biggest := Z.to_N bg; ff_offset := Z.to_N off |}
      | _, _ => None
      end
  | _ => None
  end.

Definition m_start (m : N * N * N) : N := fst (fst m).
Definition m_limit (m : N * N * N) : N := snd (fst m).
Definition m_crc (m : N * N * N) : N := snd m.

Section File.
  Variable crc : bytes -> N.
  Variable sip : bytes -> N.

  (* BlockMetadata::sanity_check *)
  Definition fsanity (m : N * N * N) : fres unit :=
    if m_limit m <=? m_start m then FErr (FE ECorruptMetaStartLimit) else FOk tt.

  (* file.read_exact_at(&mut buf[..amt], pos) *)
  Definition read_at (file : bytes) (pos amt : N) : fres bytes :=
    if pos + amt <=? len file then FOk (firstn (N.to_nat amt) (skipn (N.to_nat pos) file)) else FErr FIo.

  (* the common opening of load_block and load_filter_block: (variant, payload) of the frame *)
  Definition load_frame (file : bytes) (m : N * N * N) : fres (nat * bytes) :=
    _ <~ fsanity m ;;
    buf <~ read_at file (m_start m) (m_limit m - m_start m) ;;
    match Wire.ModelMsg.msg_unpack sst_entry_shape buf with
    | Wire.Model.Ok (Wire.ModelMsg.VV k (Wire.ModelMsg.VB payload), _) =>
        if crc payload =? m_crc m then FOk (k, payload) else FErr FCrc
    | Wire.Model.Ok _ => FErr (FE EUnpack)
    | Wire.Model.Err _ => FErr (FE EUnpack)
    | Wire.Model.Panic => FErr (FE EPanic)
    | Wire.Model.OutOfFuel => FErr (FE EFuel)
    end.

  Definition file_load_block (file : bytes) (m : N * N * N) : fres bblock :=
    r <~ load_frame file m ;;
    match fst r with
    | O => of_res (bblock_new (snd r))                   (* SstEntry::PlainBlock *)
    | _ => FErr (FE ECorruptNotPlain)                    (* FilterBlock / FinalBlock *)
    end.

  Definition file_load_filter (file : bytes) (m : N * N * N) : fres filter :=
    r <~ load_frame file m ;;
    match fst r with
    | S O => filter_of_bytes (snd r)                     (* SstEntry::FilterBlock *)
    | _ => FErr (FE ECorruptNotFilter)
    end.

  (* SstCursor::metadata_from_kvr *)
  Definition fmeta_from_kv (e : entry) : fres (N * N * N) :=
    match e_val e with
    | None => FErr (FE ECorruptMetaNull)
    | Some v =>
        match Wire.ModelMsg.msg_unpack block_metadata_shape v with
        | Wire.Model.Ok (mv, _) => match meta_of_val mv with Some m => FOk m | None => FErr (FE EUnpack) end
        | Wire.Model.Err _ => FErr (FE EUnpack)
        | Wire.Model.Panic => FErr (FE EPanic)
        | Wire.Model.OutOfFuel => FErr (FE EFuel)
        end
    end.

  Definition bfuel (k : bblock) : nat := length (bk_bytes k).

  Fixpoint findex_loop (fuel : nat) (k : bblock) (c : bcursor) (acc : list (bytes * (N * N * N)))
    : fres (list (bytes * (N * N * N))) :=
    match fuel with
    | O => FErr (FE EFuel)
    | S f =>
        match bc_kv c with
        | None => FOk acc
        | Some e =>
            m <~ fmeta_from_kv e ;;
            c1 <~ of_res (bk_next k c) ;;
            findex_loop f k c1 (acc ++ [(e_key e, m)])
        end
    end.

  Definition file_load_index (k : bblock) : fres (list (bytes * (N * N * N))) :=
    c <~ of_res (bk_next k (bc_first bc_new)) ;;
    findex_loop (S (bfuel k)) k c [].

  (* the loop over index_entries in from_file_handle *)
  Fixpoint check_entries (ies : list (bytes * (N * N * N))) (index_start : N) : fres unit :=
    match ies with
    | [] => FOk tt
    | (_, m) :: r =>
        _ <~ fsanity m ;;
        if index_start <? m_limit m then FErr FDataPastIndex else check_entries r index_start
    end.

  Record fsst := {
    f_bytes : bytes;
    f_final : ffinal;
    f_index_block : bblock;
    f_index : list (bytes * (N * N * N));
    f_filter : filter }.

  (* Sst::from_file_handle *)
  Definition file_open (file : bytes) : fres fsst :=
    let file_size := len file in
    if file_size <? 8 then FErr (FE ECorruptFileTooSmall)
    else
      buf <~ read_at file (file_size - 8) 8 ;;
      match Wire.Model.le_unpack 8 buf with
      | Wire.Model.Ok (final_block_offset, _) =>
          if file_size <? final_block_offset then FErr FOffsetTooLarge
          else
            fbuf <~ read_at file final_block_offset (file_size - 8 + 8 - final_block_offset) ;;
            match Wire.ModelMsg.msg_unpack final_block_shape fbuf with
            | Wire.Model.Ok (fv, _) =>
                match final_of_val fv with
                | None => FErr (FE EUnpack)
                | Some fb =>
                    _ <~ fsanity (ff_index fb) ;;
                    _ <~ fsanity (ff_filter fb) ;;
                    if m_start (ff_filter fb) <? m_limit (ff_index fb) then FErr (FE ECorruptIndexPastFilter)
                    else if final_block_offset <? m_limit (ff_filter fb) then FErr (FE ECorruptFilterPastFinal)
                    else
                      ib <~ file_load_block file (ff_index fb) ;;
                      ies <~ file_load_index ib ;;
                      _ <~ check_entries ies (m_start (ff_index fb)) ;;
                      flt <~ file_load_filter file (ff_filter fb) ;;
                      FOk {| f_bytes := file; f_final := fb; f_index_block := ib; f_index := ies; f_filter := flt |}
                end
            | Wire.Model.Err _ => FErr (FE EUnpack)
            | Wire.Model.Panic => FErr (FE EPanic)
            | Wire.Model.OutOfFuel => FErr (FE EFuel)
            end
      | Wire.Model.Err _ => FErr (FE EUnpack)
      | Wire.Model.Panic => FErr (FE EPanic)
      | Wire.Model.OutOfFuel => FErr (FE EFuel)
      end.

  (* ------------------------------------------------------------ SstCursor over the file *)
  Record fcursor := { fc_idx : N; fc_bc : option (bblock * bcursor) }.
  Definition fc_new : fcursor := {| fc_idx := 0; fc_bc := None |}.
  Definition fnindex (t : fsst) : N := N.of_nat (length (f_index t)).
  Definition fc_first (t : fsst) : fcursor := {| fc_idx := 0; fc_bc := None |}.
  Definition fc_last (t : fsst) : fcursor := {| fc_idx := fnindex t; fc_bc := None |}.
  Definition fc_kv (c : fcursor) : option entry :=
    match fc_bc c with Some (_, bc) => bc_kv bc | None => None end.

  Fixpoint fpartition_point (l : list (bytes * (N * N * N))) (key : bytes) : N :=
    match l with
    | [] => 0
    | (k, _) :: r => match lex_cmp k key with Lt => 1 + fpartition_point r key | _ => 0 end
    end.

  Definition fload_block_cursor (t : fsst) (idx : N) : fres (bblock * bcursor) :=
    match nth_error (f_index t) (N.to_nat idx) with
    | None => FErr (FE EPanic)
    | Some (_, m) => k <~ file_load_block (f_bytes t) m ;; FOk (k, bc_new)
    end.

  Definition fc_seek (t : fsst) (c : fcursor) (key : bytes) : fres fcursor :=
    let idx := fpartition_point (f_index t) key in
    if fnindex t <=? idx then FOk (fc_last t)
    else
      bb <~ fload_block_cursor t idx ;;
      bc <~ of_res (bk_seek (bfuel (fst bb)) (fst bb) (snd bb) key) ;;
      match bc_kv bc with
      | Some _ => FOk {| fc_idx := idx; fc_bc := Some (fst bb, bc) |}
      | None =>
          let idx := idx + 1 in
          if fnindex t <=? idx then FOk (fc_last t)
          else bb <~ fload_block_cursor t idx ;;
               bc <~ of_res (bk_seek (bfuel (fst bb)) (fst bb) (snd bb) key) ;;
               FOk {| fc_idx := idx; fc_bc := Some (fst bb, bc) |}
      end.

  Fixpoint fc_next_loop (fuel : nat) (t : fsst) (c : fcursor) : fres fcursor :=
    match fuel with
    | O => FErr (FE EFuel)
    | S f =>
        r <~ (match fc_bc c with
              | Some bb => FOk (Some bb)
              | None =>
                  if fnindex t <=? fc_idx c then FOk None
                  else bb <~ fload_block_cursor t (fc_idx c) ;; FOk (Some (fst bb, bc_first (snd bb)))
              end) ;;
        match r with
        | None => FOk (fc_last t)
        | Some (k, bc) =>
            bc1 <~ of_res (bk_next k bc) ;;
            match bc_kv bc1 with
            | Some _ => FOk {| fc_idx := fc_idx c; fc_bc := Some (k, bc1) |}
            | None => fc_next_loop f t {| fc_idx := fc_idx c + 1; fc_bc := None |}
            end
        end
    end.

  Fixpoint fc_prev_loop (fuel : nat) (t : fsst) (c : fcursor) : fres fcursor :=
    match fuel with
    | O => FErr (FE EFuel)
    | S f =>
        r <~ (match fc_bc c with
              | Some bb => FOk (Some (fc_idx c, bb))
              | None =>
                  if fc_idx c =? 0 then FOk None
                  else bb <~ fload_block_cursor t (fc_idx c - 1) ;;
                       FOk (Some (fc_idx c - 1, (fst bb, bc_last (snd bb))))
              end) ;;
        match r with
        | None => FOk (fc_first t)
        | Some (idx, (k, bc)) =>
            bc1 <~ of_res (bk_prev (bfuel k) k bc) ;;
            match bc_kv bc1 with
            | Some _ => FOk {| fc_idx := idx; fc_bc := Some (k, bc1) |}
            | None => fc_prev_loop f t {| fc_idx := idx; fc_bc := None |}
            end
        end
    end.

  Definition fc_fuel (t : fsst) : nat := S (S (length (f_index t))).
  Definition fc_next (t : fsst) (c : fcursor) : fres fcursor := fc_next_loop (fc_fuel t) t c.
  Definition fc_prev (t : fsst) (c : fcursor) : fres fcursor := fc_prev_loop (fc_fuel t) t c.

  Definition fc_step (t : fsst) (c : fcursor) (o : op) : fres fcursor :=
    match o with
    | OFirst => FOk (fc_first t)
    | OLast => FOk (fc_last t)
    | OSeek k => fc_seek t c k
    | ONext => fc_next t c
    | OPrev => fc_prev t c
    end.

  Definition fobs := fres (option entry).
  Fixpoint fc_run (t : fsst) (c : fcursor) (prog : list op) : list fobs :=
    match prog with
    | [] => []
    | o :: p =>
        match fc_step t c o with
        | FOk c1 => FOk (fc_kv c1) :: fc_run t c1 p
        | FErr e => FErr e :: fc_run t c p
        end
    end.

  (* ------------------------------------------------------------ Sst::load, Sst::metadata *)
  Fixpoint fload_scan (fuel : nat) (t : fsst) (c : fcursor) (key : bytes) (ts : N) : fres fcursor :=
    match fuel with
    | O => FErr (FE EFuel)
    | S f =>
        match fc_kv c with
        | Some e => if kref_lt_target e key ts then c1 <~ fc_next t c ;; fload_scan f t c1 key ts else FOk c
        | None => FOk c
        end
    end.

  Definition fsst_load (t : fsst) (key : bytes) (ts : N) : fres (option bytes * bool) :=
    match filter_check (f_filter t) (defer_insert sip key) with
    | None => FErr (FE EPanic)
    | Some false => FOk (None, false)
    | Some true =>
        c <~ fc_seek t fc_new key ;;
        c1 <~ fload_scan (S (S (length (f_bytes t)))) t c key ts ;;
        FOk (load_result (fc_kv c1) key)
    end.

  Record fmetadata := {
    fm_first : bytes; fm_last : bytes; fm_smallest : N; fm_biggest : N;
    fm_setsum : bytes; fm_file_size : N }.

  Definition fsst_metadata (t : fsst) : fres fmetadata :=
    c1 <~ fc_next t (fc_first t) ;;
    let first_key := match fc_kv c1 with Some e => e_key e | None => [] end in
    c2 <~ fc_prev t (fc_last t) ;;
    let last_key := match fc_kv c2 with Some e => e_key e | None => MAX_KEY end in
    FOk {| fm_first := first_key; fm_last := last_key;
           fm_smallest := ff_smallest (f_final t); fm_biggest := ff_biggest (f_final t);
           fm_setsum := ff_setsum (f_final t); fm_file_size := len (f_bytes t) |}.

  (* from the bytes of a file: open, then run *)
  Definition file_run (file : bytes) (prog : list op) : fres (list fobs) :=
    t <~ file_open file ;; FOk (fc_run t fc_new prog).
  Definition file_load (file : bytes) (key : bytes) (ts : N) : fres (option bytes * bool) :=
    t <~ file_open file ;; fsst_load t key ts.
  Definition file_metadata (file : bytes) : fres fmetadata :=
    t <~ file_open file ;; fsst_metadata t.

  (* ------------------------------------------------------------ what the builder writes *)
  Definition payload_of (fr : frame) : bytes :=
    match fr with FPlain b => block_bytes b | FFilter f => filter_to_bytes f end.

  (* entry.crc32c() of the frame written at [start, limit) *)
  Definition crc_at (fs : frames) (m : N * N) : N :=
    match find_frame fs m with Some fr => crc (payload_of fr) | None => 0 end.

  Definition meta_bytes_crc (s l c : N) : bytes := Wire.Spec.ref_msg block_metadata_shape (metadata_val s l c).

  (* an index record as flush_block packs it: BlockMetadata { start, limit, crc32c } with the
     checksum of the data block (the logical model carries start and limit only) *)
  Definition patch_be (fs : frames) (be : bentry) : bentry :=
    match be_val be with
    | Some v =>
        match meta_dec_real v with
        | Some (s, l) =>
            {| be_shared := be_shared be; be_frag := be_frag be; be_ts := be_ts be;
               be_val := Some (meta_bytes_crc s l (crc_at fs (s, l))) |}
        | None => be
        end
    | None => be
    end.
  Definition patch_block (fs : frames) (b : block) : block :=
    {| bl_entries := map (patch_be fs) (bl_entries b); bl_restarts := bl_restarts b; bl_boundary := bl_boundary b |}.

  Variable digest : list entry -> bytes.     (* Setsum::digest() of the items: 32 bytes *)

  Definition frame_out (fs : frames) (index_start : N) (x : N * N * frame) : bytes :=
    match snd x with
    | FPlain b =>
        Wire.Spec.ref_msg sst_entry_shape
          (Wire.ModelMsg.VV 0 (Wire.ModelMsg.VB (block_bytes (if fst (fst x) =? index_start then patch_block fs b else b))))
    | FFilter f => Wire.Spec.ref_msg sst_entry_shape (Wire.ModelMsg.VV 1 (Wire.ModelMsg.VB (filter_to_bytes f)))
    end.

  Definition final_out (t : sst) : bytes :=
    let fb := t_final t in
    let fs := t_frames t in
    Wire.Spec.ref_msg final_block_shape
      (Wire.ModelMsg.VL [metadata_val (fst (fb_index fb)) (snd (fb_index fb))
                           (crc (block_bytes (patch_block fs (t_index_block t))));
              metadata_val (fst (fb_filter fb)) (snd (fb_filter fb)) (crc (filter_to_bytes (t_filter t)));
              Wire.ModelMsg.VB (digest (fb_setsum fb));
              Wire.ModelMsg.VZ (Z.of_N (fb_smallest fb)); Wire.ModelMsg.VZ (Z.of_N (fb_biggest fb)); Wire.ModelMsg.VZ (Z.of_N (fb_offset fb))]).

  (* the file SstBuilder::seal leaves behind *)
  Definition sst_bytes (t : sst) : bytes :=
    concat (map (frame_out (t_frames t) (fst (fb_index (t_final t)))) (t_frames t)) ++ final_out t.
End File.
