(* Props_C10.v — the property theorems for C10 and nothing else.
   C10: "An SST or block returns exactly what was put in, under every cursor movement".
   `enc_size` is the byte length of one KeyValueEntry record (external: prototk); the theorems hold
   for every positive size function, hence for every byte-level placement of records, restart
   points and block boundaries.  The model is the model of the repaired code (fix: 23addcc,
   a9a83c0, de09506 in /repo). *)
From Coq Require Import NArith ZArith List.
From Blue Require Import Gen.Const_Table Table.Model Table.ModelBloom Table.ModelSst Table.Ref
  Table.BlockBase Table.BuildProofs Table.CursorProofs Table.DivideProofs Table.BloomProofs
  Table.SstCursorProofs Table.BuildSstProofs Table.SstProofs Table.MultiProofs Table.AcceptProofs
  Table.ModelWire Table.WireProofs Table.ModelBytes Table.BytesProofs Table.BlockBytesProofs Table.FileBytesProofs
  Table.ModelFile Table.FileLayoutProofs Gen.Shapes_sst Table.ShapesAgree.
From Blue Require Wire.Model Wire.ModelMsg Wire.Spec Wire.ProofsScalar.
Import ListNotations.

Definition size_ok (enc_size : bentry -> N) : Prop := forall e, (0 < enc_size e)%N.

(* THE CENTRAL THEOREM, block layer.  Whatever sequence a BlockBuilder accepts — under every
   bytes_restart_interval and key_value_pairs_restart_interval, 0 included — is strictly ordered,
   and every finite program of seek_to_first / seek_to_last / seek / next / prev on the sealed
   block observes exactly what the reference cursor over that sequence observes, never an error. *)
Theorem C10_block_cursor_refines : forall enc_size, size_ok enc_size ->
  forall (o : bopts) (es : list entry) (blk : block) (prog : list op),
  build_block enc_size o es = Ok blk ->
  sorted es /\
  bc_run enc_size blk bc_new prog = map (fun x => Ok x) (ref_run es (-1) prog).
Proof.
  intros enc_size Hs o es blk prog H.
  destruct (build_block_wf enc_size Hs o es blk H) as (W & S). split; [exact S|].
  exact (run_sim enc_size Hs blk es W S prog bc_new (-1)%Z (R_new enc_size blk es)).
Qed.

(* timestamped point lookup on a block: the newest version not newer than the timestamp, or its
   tombstone (Block::load) *)
Theorem C10_block_load : forall enc_size, size_ok enc_size ->
  forall o es blk key ts, build_block enc_size o es = Ok blk ->
  bl_load enc_size blk key ts = Ok (load_spec es key ts).
Proof.
  intros enc_size Hs o es blk key ts H.
  destruct (build_block_wf enc_size Hs o es blk H) as (W & S).
  exact (load_correct enc_size Hs blk es W S key ts).
Qed.

(* every way a block builder can refuse a put/del: oversize key, oversize value, table full, not
   above the last accepted entry; the only other failure is the u32 assert, which needs an
   accepted entry (see C10_block_builder_no_panic for its unreachability) *)
Theorem C10_block_builder_rejects : forall enc_size b e x, bb_add enc_size b e = Err x ->
  (x = EKeyTooLarge /\ (MAX_KEY_LEN < len (e_key e))%N) \/
  (x = EValueTooLarge /\ exists v, e_val e = Some v /\ (MAX_VALUE_LEN < len v)%N) \/
  (x = ETableFull /\ (TABLE_FULL_SIZE <= bb_approx_size enc_size b)%N) \/
  (x = ESortOrder /\ kref_cmp (bb_last_key b) (bb_last_ts b) (e_key e) (e_ts e) <> Lt) \/
  (x = EPanic /\ put_ok (bb_last_key b) (bb_last_ts b) (bb_approx_size enc_size b) e).
Proof. exact bb_add_err. Qed.

(* ---------------------------------------------------------------- SST layer *)
(* the BlockMetadata codec (external: prototk) decodes what it encoded *)
Definition codec_ok (meta_enc : N -> N -> bytes) (meta_dec : bytes -> option (N * N)) : Prop :=
  forall s l, meta_dec (meta_enc s l) = Some (s, l).

(* SstCursor: whatever an SstBuilder accepts — every restart interval, every target block size
   (every placement of block boundaries), every bloom size — is strictly ordered, seal succeeds
   in opening the table it wrote, and every finite cursor program observes exactly what the
   reference cursor over the accepted sequence observes (block hopping included), never an error.
   `sip` (SipHash) is any function. *)
Theorem C10_sst_cursor_refines : forall enc_size meta_enc meta_dec sip,
  size_ok enc_size -> codec_ok meta_enc meta_dec ->
  forall (o : sopts) (es : list entry) (t : sst) (prog : list op), keys_ok es ->
  build_sst enc_size meta_enc meta_dec sip o es = Ok t ->
  sorted es /\
  sc_run enc_size t sc_new prog = map (fun x => Ok x) (ref_run es (-1) prog).
Proof.
  intros enc_size meta_enc meta_dec sip Hs Hc o es t prog Hk H. split.
  - exact (proj1 (build_sst_wf enc_size Hs meta_enc meta_dec Hc sip o es t Hk H)).
  - exact (sst_cursor_refines enc_size Hs meta_enc meta_dec Hc sip o es t prog Hk H).
Qed.

(* Sst::load: the newest version not newer than the timestamp, or its tombstone; the bloom filter
   never hides a key that is in the table *)
Theorem C10_sst_load : forall enc_size meta_enc meta_dec sip,
  size_ok enc_size -> codec_ok meta_enc meta_dec ->
  forall o es t key ts, keys_ok es -> build_sst enc_size meta_enc meta_dec sip o es = Ok t ->
  sst_load enc_size sip t key ts = Ok (load_spec es key ts).
Proof.
  intros enc_size meta_enc meta_dec sip Hs Hc o es t key ts Hk H.
  exact (sst_load_ok enc_size Hs meta_enc meta_dec Hc sip o es t key ts Hk H).
Qed.

(* Sst::metadata describes exactly the contents: first key, last key (MAX_KEY for the empty
   table), smallest and biggest timestamp (0, 0 for the empty table), the items of the setsum;
   file_size is the size of the file the builder wrote *)
Theorem C10_sst_metadata_exact : forall enc_size meta_enc meta_dec sip,
  size_ok enc_size -> codec_ok meta_enc meta_dec ->
  forall o es t, keys_ok es -> ts_ok es -> build_sst enc_size meta_enc meta_dec sip o es = Ok t ->
  exists md, sst_metadata enc_size t = Ok md /\
    md_first md = spec_first es /\ md_last md = spec_last es MAX_KEY /\
    md_smallest md = spec_smallest es /\ md_biggest md = spec_biggest es /\
    md_setsum md = es /\ md_file_size md = t_file_size t.
Proof.
  intros enc_size meta_enc meta_dec sip Hs Hc o es t Hk Ht H.
  exact (sst_metadata_exact enc_size Hs meta_enc meta_dec Hc sip o es t Hk Ht H).
Qed.

(* dividing keys: divide_keys never trips an assert and returns a key in [lhs, rhs) *)
Theorem C10_divide_keys_between : forall kl tl kr tr, bytes_ok kr -> kref_cmp kl tl kr tr = Lt ->
  exists d dt, divide_keys kl tl kr tr = Ok (d, dt) /\
               kref_cmp kl tl d dt <> Gt /\ kref_cmp d dt kr tr = Lt /\ (length d <= length kl)%nat /\
               (dt = tl \/ dt = 0%N).
Proof. exact divide_keys_between. Qed.

(* builders reject out-of-order or oversize input (or any input once the table is full) with the
   matching error, from the checks that precede every mutation of the builder *)
Theorem C10_builders_reject : forall enc_size meta_enc sip,
  (forall b e, ~ put_ok (bb_last_key b) (bb_last_ts b) (bb_approx_size enc_size b) e ->
     exists x, bb_add enc_size b e = Err x /\
               (x = EKeyTooLarge \/ x = EValueTooLarge \/ x = ETableFull \/ x = ESortOrder)) /\
  (forall b e, ~ put_ok (sb_last_key b) (sb_last_ts b) (sb_approx_size enc_size b) e ->
     exists x, sb_precheck enc_size b e = Err x /\ sb_add enc_size meta_enc sip b e = Err x /\
               (x = EKeyTooLarge \/ x = EValueTooLarge \/ x = ETableFull \/ x = ESortOrder)).
Proof.
  intros enc_size meta_enc sip. split.
  - exact (bb_add_rejects enc_size).
  - exact (sb_add_rejects enc_size meta_enc sip).
Qed.

(* the bloom filter has no false negatives, for any hash values, and building it never indexes
   out of range *)
Theorem C10_bloom_no_false_negative : forall hashes bits,
  Forall (fun x => (x < W64)%N) hashes ->
  exists f, filter_build hashes bits = Some f /\ f <> [] /\
            forall h, In h hashes -> filter_check f h = Some true.
Proof.
  intros hashes bits H. destruct (bloom_build_total hashes bits H) as (f & E & Hne).
  exists f. split; [exact E|]. split; [exact Hne|]. exact (bloom_no_false_negative hashes bits f E).
Qed.

(* the u32 assert of BlockBuilder::append is unreachable: `size_bounded` says that the records a
   builder makes from entries that passed its checks stay below 4 GiB - 1 GiB (real ones: < 50 KiB) *)
Theorem C10_block_builder_no_panic : forall enc_size, size_bounded enc_size ->
  forall b e, (e_ts e <= U64_MAX)%N -> bb_add enc_size b e <> Err EPanic.
Proof. intros enc_size Hb. exact (bb_add_no_panic enc_size Hb). Qed.

(* ... so a block builder accepts EXACTLY the entries that are within the size limits, arrive
   before the table is full, and are above the last accepted entry (initially: above the least
   KeyRef (empty key, u64::MAX), which is therefore the one entry no builder can store) *)
Theorem C10_block_builder_accepts_iff : forall enc_size, size_bounded enc_size ->
  forall b e, (e_ts e <= U64_MAX)%N ->
  ((exists b1, bb_add enc_size b e = Ok b1) <->
   put_ok (bb_last_key b) (bb_last_ts b) (bb_approx_size enc_size b) e).
Proof.
  intros enc_size Hb b e Hts. split.
  - intros (b1 & H). exact (bb_add_ok enc_size b e b1 H).
  - exact (bb_add_total enc_size Hb b e Hts).
Qed.

(* ... and likewise an SstBuilder, in every state it can reach: put/del succeed EXACTLY on the
   entries that pass the pre-checks (block flushes, dividing keys, index puts never fail), so every
   rejection is a pre-check failure and leaves the builder and the file untouched.  Hypotheses
   on the external sizes: `size_bounded`, and an encoded BlockMetadata fits a value. *)
Theorem C10_sst_builder_accepts_iff : forall enc_size meta_enc sip, size_ok enc_size ->
  size_bounded enc_size -> (forall s l, (len (meta_enc s l) <= MAX_VALUE_LEN)%N) ->
  forall o es b, keys_ok es -> ts_ok es -> sb_add_all enc_size meta_enc sip (sb_new o) es = Ok b ->
  forall e, bytes_ok (e_key e) -> (e_ts e <= U64_MAX)%N ->
  ((exists b1, sb_add enc_size meta_enc sip b e = Ok b1) <->
   put_ok (sb_last_key b) (sb_last_ts b) (sb_approx_size enc_size b) e).
Proof. exact sst_builder_accepts_iff. Qed.

(* SstMultiBuilder: however the accepted input is cut into tables (target file size, split hints,
   table full), the input as a whole is strictly ordered, every table sealed is a well-formed
   table (so its cursor, lookup and metadata are those of its contents, by the theorems above),
   and the concatenation of the tables is exactly the accepted input *)
Theorem C10_multibuilder_concat : forall enc_size meta_enc meta_dec sip,
  size_ok enc_size -> codec_ok meta_enc meta_dec ->
  forall o xs m ts, keys_ok (entries_of xs) ->
  mb_run enc_size meta_enc meta_dec sip (mb_new o) xs = Ok m ->
  mb_seal enc_size meta_enc meta_dec m = Ok ts ->
  sorted (entries_of xs) /\
  exists ess : list (list entry),
    concat ess = entries_of xs /\
    Forall2 (fun t es => exists chunks, table_wf enc_size t chunks /\ concat chunks = es /\
                                        sealed_facts sip t es) ts ess.
Proof.
  intros enc_size meta_enc meta_dec sip Hs Hc o xs m ts Hk Hr Hse.
  destruct (multibuilder_concat enc_size Hs meta_enc meta_dec Hc sip o xs m ts Hk Hr Hse) as (S & ess & F & C).
  split; [exact S|]. exists ess. split; [exact C|exact F].
Qed.

(* a well-formed table (what the previous theorem yields per file) has the cursor of its contents *)
Theorem C10_table_cursor_refines : forall enc_size, size_ok enc_size ->
  forall t chunks prog, table_wf enc_size t chunks ->
  sc_run enc_size t sc_new prog = map (fun x => Ok x) (ref_run (concat chunks) (-1) prog).
Proof.
  intros enc_size Hs t chunks prog W.
  eapply run_simS; eauto. apply RS_new.
Qed.

(* the instance run by the correspondence check satisfies the hypotheses: the prototk record size
   is positive and bounded, the prototk BlockMetadata encoding is short and round-trips on byte
   offsets that fit a u64 *)
Theorem C10_real_instance_ok :
  size_ok enc_size_real /\ size_bounded enc_size_real /\
  (forall s l, (len (meta_enc_real s l) <= MAX_VALUE_LEN)%N) /\
  (forall s l, (s < 2 ^ 64)%N -> (l < 2 ^ 64)%N -> meta_dec_real (meta_enc_real s l) = Some (s, l)).
Proof.
  split; [exact enc_size_real_pos|]. split; [exact enc_size_real_bounded|].
  split; [exact meta_enc_real_short|exact meta_real_roundtrip].
Qed.

(* ---------------------------------------------------------------- the byte layer *)
(* The model's bytes are prototk's bytes.  The shapes of KeyValuePut / KeyValueDel / KeyValueEntry
   (ModelBytes.kv_entry_shape, retyped from the #[prototk(..)] attributes of sst/src/lib.rs) are
   messages of the Wire area's deep embedding (C15); for every record a builder can make
   (u64 fields, byte strings, size below 2^64):
   the model's record bytes are the reference wire encoding of the shape, their length is the size
   the builder computes with (enc_size_real), prototk's unpack of those bytes followed by anything
   returns the record and leaves the rest untouched. *)
Theorem C10_entry_codec : forall be rest, rec_ok be -> (enc_size_real be < Wire.Model.W64)%N ->
  Wire.Model.bytes_ok rest ->
  encode_entry be = Wire.Spec.ref_msg kv_entry_shape (entry_val be) /\
  len (encode_entry be) = enc_size_real be /\
  Wire.ModelMsg.msg_unpack kv_entry_shape (encode_entry be ++ rest) = Wire.Model.Ok (entry_val be, rest) /\
  entry_of_val (entry_val be) = Some be.
Proof.
  intros be rest Hr Hs Hrest. destruct (entry_codec be rest Hr Hs Hrest) as (H1 & _ & H3 & H4).
  split; [apply encode_entry_is_ref|]. split; [exact H1|]. split; [exact H3|exact H4].
Qed.

(* BlockMetadata (the value of an index entry): the model's bytes are the reference encoding with
   a zero checksum field, of the length the builder computes with, and prototk's unpack returns
   start, limit and the checksum, whatever the checksum (CRC32C itself is not modelled) *)
Theorem C10_metadata_codec : forall s l crc,
  (s < Wire.Model.W64)%N -> (l < Wire.Model.W64)%N -> (crc < Wire.Model.W32)%N ->
  meta_enc_real s l = meta_bytes s l 0 /\ len (meta_enc_real s l) = meta_len s l /\
  Wire.ModelMsg.msg_unpack block_metadata_shape (meta_bytes s l crc) = Wire.Model.Ok (metadata_val s l crc, []).
Proof.
  intros s l crc Hs Hl Hc. destruct (meta_codec s l crc Hs Hl Hc) as (H1 & H2).
  split; [apply meta_enc_real_is_ref|]. split; [now rewrite meta_enc_real_is_ref|exact H1].
Qed.

(* THE BLOCK THEOREM ON REAL BYTES.  Take the bytes a BlockBuilder writes for any accepted
   sequence under any options (block_bytes: records, tag 10 + packed restart array, tag 11 +
   num_restarts — compared byte for byte with the implementation's sealed blocks on every run).
   Parse them as the Rust does: Block::new reads the footer, restart_point reads four bytes,
   extract_key runs prototk's KeyValueEntry decoder on bytes[offset..restarts_boundary] and
   computes next_offset from what the decoder left.  Every finite cursor program over those raw
   bytes observes exactly what the reference cursor over the accepted sequence observes. *)
Theorem C10_block_bytes_cursor_refines : forall o es blk prog, entries_wire_ok es ->
  build_block enc_size_real o es = Ok blk ->
  bytes_run (block_bytes blk) prog = Ok (map (fun x => Ok x) (ref_run es (-1) prog)).
Proof. intros o es blk prog He Hb. exact (block_bytes_cursor_refines o es blk He Hb prog). Qed.

Theorem C10_block_bytes_load : forall o es blk key ts, entries_wire_ok es ->
  build_block enc_size_real o es = Ok blk ->
  bytes_load (block_bytes blk) key ts = Ok (load_spec es key ts).
Proof. intros o es blk key ts He Hb. exact (block_bytes_load o es blk He Hb key ts). Qed.

(* the file layer's encodings.  An SstEntry frame (PlainBlock = variant 0, FilterBlock = variant 1)
   is tag, varint length, payload; its length is the frame_len the model lays the file out with and
   prototk's unpack returns the payload and leaves what follows; the payload of a data or index
   frame is a sealed block of block_len bytes; the FinalBlock of the declared shape has final_len
   bytes, decodes to its fields, and ends with the eight bytes of final_block_offset. *)
Theorem C10_file_layout_codecs :
  (forall variant payload rest, (variant < 2)%nat -> Wire.Model.bytes_ok payload ->
     (frame_len (len payload) < Wire.Model.W64)%N -> Wire.Model.bytes_ok rest ->
     frame_bytes variant payload = [if Nat.eqb variant 0 then 82 else 106]%N ++ varint (len payload) ++ payload /\
     len (frame_bytes variant payload) = frame_len (len payload) /\
     Wire.ModelMsg.msg_unpack sst_entry_shape (frame_bytes variant payload ++ rest) =
       Wire.Model.Ok (Wire.ModelMsg.VV variant (Wire.ModelMsg.VB payload), rest)) /\
  (forall o es blk, entries_wire_ok es -> build_block enc_size_real o es = Ok blk ->
     len (block_bytes blk) = block_len blk) /\
  (forall is il ic fs fl fc setsum smallest biggest offset (fb : final_block),
     (is < Wire.Model.W64)%N -> (il < Wire.Model.W64)%N -> (ic < Wire.Model.W32)%N ->
     (fs < Wire.Model.W64)%N -> (fl < Wire.Model.W64)%N -> (fc < Wire.Model.W32)%N ->
     Wire.Model.bytes_ok setsum -> length setsum = 32%nat ->
     (smallest < Wire.Model.W64)%N -> (biggest < Wire.Model.W64)%N -> (offset < Wire.Model.W64)%N ->
     fb_index fb = (is, il) -> fb_filter fb = (fs, fl) -> fb_smallest fb = smallest -> fb_biggest fb = biggest ->
     let bs := final_bytes is il ic fs fl fc setsum smallest biggest offset in
     len bs = final_len fb /\
     Wire.ModelMsg.msg_unpack final_block_shape bs =
       Wire.Model.Ok (final_val is il ic fs fl fc setsum smallest biggest offset, []) /\
     skipn (length bs - 8) bs = Wire.Model.le_bytes 8 offset).
Proof.
  split; [exact frame_codec|]. split; [|exact final_codec].
  intros o es blk He Hb. destruct (built_facts o es blk He Hb) as (_ & _ & Hrec & Hbd & _ & Hnr).
  exact (block_len_is_length blk Hrec Hbd Hnr).
Qed.

(* ---- the SST layer over FILE BYTES (Table/ModelFile.v) ----
   `sst_bytes crc digest t` is the file SstBuilder::seal leaves behind for the table t: the data
   block frames, the index block frame (its BlockMetadata values carrying the checksums of the data
   blocks), the filter frame, the FinalBlock ending in final_block_offset.  `file_run`, `file_load`
   and `file_metadata` start from nothing but those bytes: Sst::from_file_handle (trailing eight
   bytes, FinalBlock unpacked through prototk, the position checks, index block loaded and read
   back, every data block in front of the index block, filter loaded), then SstCursor / Sst::load /
   Sst::metadata with every load_block a read of [start, limit), an SstEntry unpack, a checksum
   comparison and Block::new on the payload, and every cursor movement the byte-level BlockCursor.
   crc32c is ANY function into u32 and the setsum digest ANY function into [u8; 32]: the builder
   writes crc(payload), the reader compares; nothing else about them is used.
   The tables are those built with the real record size and the prototk BlockMetadata codec. *)
Definition crc_u32 (crc : bytes -> N) : Prop := forall bs, (crc bs < Wire.Model.W32)%N.
Definition digest_32 (digest : list entry -> bytes) : Prop :=
  forall es, length (digest es) = 32%nat /\ bytes_ok (digest es).

Theorem C10_file_cursor_refines : forall crc digest sip, crc_u32 crc -> digest_32 digest ->
  forall (o : sopts) (es : list entry) (t : sst) (prog : list op), entries_wire_ok es ->
  build_sst enc_size_real meta_enc_real meta_dec_real sip o es = Ok t ->
  file_run crc (sst_bytes crc digest t) prog = FOk (map (fun x => FOk x) (ref_run es (-1) prog)).
Proof. intros crc digest sip Hc Hd o es t prog. exact (file_cursor_refines crc Hc digest Hd sip o es t prog). Qed.

Theorem C10_file_load : forall crc digest sip, crc_u32 crc -> digest_32 digest ->
  forall o es t key ts, entries_wire_ok es ->
  build_sst enc_size_real meta_enc_real meta_dec_real sip o es = Ok t ->
  file_load crc sip (sst_bytes crc digest t) key ts = FOk (load_spec es key ts).
Proof. intros crc digest sip Hc Hd o es t key ts. exact (file_load_ok crc Hc digest Hd sip o es t key ts). Qed.

(* Sst::metadata of the opened file: first / last key, timestamp range, the digest of exactly the
   items put in, and file_size = the number of bytes of the file (= what the builder accounted) *)
Theorem C10_file_metadata_exact : forall crc digest sip, crc_u32 crc -> digest_32 digest ->
  forall o es t, entries_wire_ok es ->
  build_sst enc_size_real meta_enc_real meta_dec_real sip o es = Ok t ->
  file_metadata crc (sst_bytes crc digest t) =
    FOk {| fm_first := spec_first es; fm_last := spec_last es MAX_KEY;
           fm_smallest := spec_smallest es; fm_biggest := spec_biggest es;
           fm_setsum := digest es; fm_file_size := len (sst_bytes crc digest t) |} /\
  len (sst_bytes crc digest t) = t_file_size t.
Proof. intros crc digest sip Hc Hd o es t. exact (file_metadata_exact crc Hc digest Hd sip o es t). Qed.

(* the message shapes the byte layer is stated over are the ones tools/shapes.py regenerates from
   the #[derive(Message)] attributes of /repo's sst crate on every run *)
Theorem C10_shapes_are_source :
  kv_put_shape = shape_KeyValuePut /\ kv_del_shape = shape_KeyValueDel /\
  kv_entry_shape = shape_KeyValueEntry /\ block_metadata_shape = shape_BlockMetadata /\
  final_block_shape = shape_FinalBlock /\ sst_entry_shape = shape_SstEntry.
Proof. exact shapes_are_source. Qed.

(* ---- non-vacuity: a concrete size function, options and a non-trivial accepted sequence ---- *)
Definition enc_size_example (be : bentry) : N := (3 + len (be_frag be))%N.

Example size_ok_example : size_ok enc_size_example.
Proof. intros e. unfold enc_size_example. destruct (len (be_frag e)); reflexivity. Qed.

Example build_example :
  exists blk,
    build_block enc_size_example {| o_bri := 100; o_kri := 2 |}
      [([97], 5, Some [1]); ([97], 3, None); ([97; 98], 9, Some []); ([98], 0, None)]%N = Ok blk /\
    length (bl_restarts blk) = 2%nat /\ map be_shared (bl_entries blk) = [0; 1; 0; 0]%N.
Proof. eexists. split; [vm_compute; reflexivity|split; reflexivity]. Qed.

(* a BlockMetadata codec with the round-trip property (bytes are unbounded numbers here) *)
Definition meta_enc_example (s l : N) : bytes := [s; l].
Definition meta_dec_example (bs : bytes) : option (N * N) :=
  match bs with [s; l] => Some (s, l) | _ => None end.

Example codec_ok_example : codec_ok meta_enc_example meta_dec_example.
Proof. intros s l. reflexivity. Qed.

(* a table of four data blocks *)
Example build_sst_example :
  exists t,
    build_sst enc_size_example meta_enc_example meta_dec_example (fun k => len k)
      {| so_block := {| o_bri := 100; o_kri := 2 |}; so_tbs := 20; so_tfs := 1000; so_mfs := 1000; so_bits := 10 |}
      [([97], 5, Some [1]); ([97], 3, None); ([97; 98], 9, Some []); ([98], 0, None)]%N = Ok t /\
    length (t_index t) = 4%nat.
Proof. eexists. split; [vm_compute; reflexivity|reflexivity]. Qed.

(* the byte-level statements on a concrete block *)
Example block_bytes_example :
  exists blk,
    build_block enc_size_real {| o_bri := 100; o_kri := 2 |}
      [([97], 5, Some [1]); ([97], 3, None); ([97; 98], 9, Some []); ([98], 0, None)]%N = Ok blk /\
    length (block_bytes blk) = 56%nat /\
    bytes_run (block_bytes blk) [ONext; ONext; OPrev; OSeek [98]%N; OPrev] =
      Ok [Ok (Some ([97], 5, Some [1])); Ok (Some ([97], 3, None)); Ok (Some ([97], 5, Some [1]));
          Ok (Some ([98], 0, None)); Ok (Some ([97; 98], 9, Some []))]%N.
Proof. eexists. split; [vm_compute; reflexivity|]. split; vm_compute; reflexivity. Qed.

(* the file-level statements on a concrete table of four data blocks: 303 bytes *)
Definition crc_example (bs : bytes) : N := (fold_left (fun a b => (a * 31 + b) mod 4294967296) bs 7)%N.
Definition digest_example (es : list entry) : bytes := repeat (len (concat (map e_key es)) mod 256)%N 32.

Example file_bytes_example :
  exists t,
    build_sst enc_size_real meta_enc_real meta_dec_real (fun k => len k)
      {| so_block := {| o_bri := 100; o_kri := 2 |}; so_tbs := 20; so_tfs := 1000; so_mfs := 1000; so_bits := 10 |}
      [([97], 5, Some [1]); ([97], 3, None); ([97; 98], 9, Some []); ([98], 0, None)]%N = Ok t /\
    length (t_index t) = 4%nat /\
    len (sst_bytes crc_example digest_example t) = t_file_size t /\
    file_run crc_example (sst_bytes crc_example digest_example t) [ONext; ONext; OPrev; OSeek [98]%N; OPrev] =
      FOk [FOk (Some ([97], 5, Some [1])); FOk (Some ([97], 3, None)); FOk (Some ([97], 5, Some [1]));
           FOk (Some ([98], 0, None)); FOk (Some ([97; 98], 9, Some []))]%N.
Proof. eexists. split; [vm_compute; reflexivity|]. split; [reflexivity|]. split; vm_compute; reflexivity. Qed.
