(* Table/ModelBloom.v — executable model of sst/src/sbbf.rs (split-block bloom filter).
   Definitions only.  u32 words are N; `as u32` is `mod 2^32`.  The item hash (SipHash-2-4 with the
   fixed KEY) is external code: the functions below take the u64 hash value. *)
From Coq Require Import NArith List Bool.
From Blue Require Import Gen.Const_Table.
Import ListNotations.
Open Scope N_scope.

Definition W32 : N := 4294967296.
Definition W64 : N := 18446744073709551616.

(* Block::mask, one word: `1 << (((x as u64 * SALT[i] as u64) as u32) >> 27)` *)
Definition mask_word (x salt : N) : N := N.shiftl 1 (((x * salt) mod W32) / 134217728).
Definition mask (x : N) : list N := map (mask_word x) SBBF_SALT.

Definition fblock := list N.                         (* [u32; 8] *)
Definition fblock_zero : fblock := map (fun _ => 0) SBBF_SALT.

Fixpoint map2 {A B C} (f : A -> B -> C) (xs : list A) (ys : list B) : list C :=
  match xs, ys with x :: xs', y :: ys' => f x y :: map2 f xs' ys' | _, _ => [] end.

Definition fb_insert (b : fblock) (x : N) : fblock := map2 N.lor b (mask x).
Definition fb_check (b : fblock) (x : N) : bool :=
  forallb (fun p => N.land (fst p) (snd p) =? snd p) (combine b (mask x)).

Definition filter := list fblock.

(* u32 saturating ops *)
Definition sat_add32 (a b : N) : N := N.min (a + b) (W32 - 1).
Definition sat_mul32 (a b : N) : N := N.min (a * b) (W32 - 1).

(* Filter::new(size): ((size.saturating_add(7) >> 3) >> 5) + 1 blocks *)
Definition filter_nblocks (size : N) : N := (sat_add32 size 7 / 8) / 32 + 1.
Definition filter_new (size : N) : filter := repeat fblock_zero (N.to_nat (filter_nblocks size)).

(* do_hashing: (((x >> 32) * blocks.len()) >> 32, x as u32) *)
Definition do_hashing (f : filter) (x : N) : N * N :=
  (((x / W32) * N.of_nat (length f)) / W32, x mod W32).

Fixpoint update_nth {A} (l : list A) (i : nat) (g : A -> A) : list A :=
  match l, i with
  | [], _ => []
  | a :: r, O => g a :: r
  | a :: r, S j => a :: update_nth r j g
  end.

(* deferred_insert; `self.blocks[block_idx]` out of range would panic: None *)
Definition filter_insert (f : filter) (x : N) : option filter :=
  let '(i, x32) := do_hashing f x in
  if i <? N.of_nat (length f) then Some (update_nth f (N.to_nat i) (fun b => fb_insert b x32)) else None.

Definition filter_check (f : filter) (x : N) : option bool :=
  let '(i, x32) := do_hashing f x in
  match nth_error f (N.to_nat i) with Some b => Some (fb_check b x32) | None => None end.

Fixpoint filter_insert_all (f : filter) (xs : list N) : option filter :=
  match xs with
  | [] => Some f
  | x :: r => match filter_insert f x with Some f1 => filter_insert_all f1 r | None => None end
  end.

(* to_bytes: 32 bytes per block *)
Definition filter_bytes_len (f : filter) : N := 32 * N.of_nat (length f).

(* the filter SstBuilder::seal builds from the deferred hashes: Filter::new((n as u32) sat* bits) *)
Definition filter_build (hashes : list N) (bits : N) : option filter :=
  filter_insert_all (filter_new (sat_mul32 (N.of_nat (length hashes) mod W32) bits)) hashes.
