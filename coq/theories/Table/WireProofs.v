(* Table/WireProofs.v — the byte-layer instance satisfies the hypotheses of the theorems: the real
   record size is positive, and the real BlockMetadata codec round-trips on the u64 range. *)
From Coq Require Import NArith ZArith List Bool Lia.
From Blue Require Import Gen.Const_Table Table.Model Table.ModelSst Table.ModelWire Table.BuildProofs.
Import ListNotations.
Open Scope N_scope.

Lemma enc_size_real_pos : forall e, 0 < enc_size_real e.
Proof. intros e. unfold enc_size_real. lia. Qed.

Lemma varint_rt_fuel : forall f n rest, (0 < f)%nat -> n < 128 ^ N.of_nat f ->
  varint_dec f (varint_fuel f n ++ rest) = Some (n, rest).
Proof.
  induction f as [|g IH]; intros n rest Hf Hn; [inversion Hf|]. cbn [varint_fuel].
  destruct (N.ltb_spec n 128) as [Hs|Hl].
  - cbn [app varint_dec]. destruct (N.ltb_spec n 128); [reflexivity|lia].
  - cbn [app varint_dec].
    pose proof (N.div_mod n 128 ltac:(discriminate)) as Hdm.
    remember (n mod 128) as r eqn:Er. remember (n / 128) as q eqn:Eq.
    destruct (N.ltb_spec (r + 128) 128); [lia|].
    assert (Hg : (0 < g)%nat).
    { destruct g; [|apply Nat.lt_0_succ]. exfalso. change (128 ^ N.of_nat 1) with 128 in Hn. lia. }
    assert (Hq : q < 128 ^ N.of_nat g).
    { subst q. apply N.div_lt_upper_bound; [discriminate|].
      replace (N.of_nat (S g)) with (N.succ (N.of_nat g)) in Hn by lia. now rewrite N.pow_succ_r' in Hn. }
    rewrite (IH q rest Hg Hq). f_equal. f_equal. lia.
Qed.

Lemma varint_rt : forall n rest, n < 2 ^ 64 -> varint_dec 10 (varint n ++ rest) = Some (n, rest).
Proof.
  intros n rest H. unfold varint. apply varint_rt_fuel; [repeat constructor|].
  eapply N.lt_trans; [exact H|]. reflexivity.
Qed.

(* the real BlockMetadata codec, on byte offsets that fit a u64 *)
Theorem meta_real_roundtrip : forall s l, s < 2 ^ 64 -> l < 2 ^ 64 ->
  meta_dec_real (meta_enc_real s l) = Some (s, l).
Proof.
  intros s l Hs Hl. unfold meta_enc_real, meta_dec_real. cbn [app].
  rewrite (varint_rt s _ Hs). cbn [app].
  rewrite (varint_rt l _ Hl). reflexivity.
Qed.

(* ---------------------------------------------------------------- size bounds of the instance *)
Lemma varint_size_le : forall x, x <= U64_MAX -> varint_size x <= 10.
Proof.
  intros x H. unfold varint_size.
  assert (N.log2 x <= 63).
  { change 63 with (N.log2 U64_MAX). now apply N.log2_le_mono. }
  assert (N.log2 x / 7 <= 9).
  { change 9 with (63 / 7). apply N.div_le_mono; [discriminate|assumption]. }
  lia.
Qed.

Theorem enc_size_real_bounded : size_bounded enc_size_real.
Proof.
  intros be Hf Hv Hs Ht. unfold enc_size_real, body_size.
  assert (U1 : MAX_KEY_LEN <= U64_MAX) by (unfold MAX_KEY_LEN, U64_MAX; lia).
  pose proof (varint_size_le (be_shared be) ltac:(lia)) as V1.
  pose proof (varint_size_le (len (be_frag be)) ltac:(lia)) as V2.
  pose proof (varint_size_le (be_ts be) Ht) as V3.
  assert (Hval : match be_val be with Some v => 1 + varint_size (len v) + len v | None => 0 end <= 1 + 10 + MAX_VALUE_LEN).
  { destruct (be_val be) as [v|]; [|lia]. specialize (Hv v eq_refl).
    pose proof (varint_size_le (len v) ltac:(unfold MAX_VALUE_LEN, U64_MAX in *; lia)). lia. }
  set (val := match be_val be with Some v => 1 + varint_size (len v) + len v | None => 0 end) in *.
  set (body := 1 + varint_size (be_shared be) + 1 + varint_size (len (be_frag be)) + len (be_frag be) + 1
               + varint_size (be_ts be) + val).
  assert (Hbody : body <= 49196) by (unfold body; unfold MAX_KEY_LEN, MAX_VALUE_LEN in *; lia).
  pose proof (varint_size_le body ltac:(unfold U64_MAX; lia)) as V4.
  unfold U32_MAX, TABLE_FULL_SIZE. lia.
Qed.

Lemma varint_fuel_length : forall f n, (length (varint_fuel f n) <= f)%nat.
Proof.
  induction f as [|g IH]; intros n; cbn [varint_fuel length]; [lia|].
  destruct (n <? 128); cbn [length]; [lia|]. specialize (IH (n / 128)). lia.
Qed.

Theorem meta_enc_real_short : forall s l, len (meta_enc_real s l) <= MAX_VALUE_LEN.
Proof.
  intros s l. unfold meta_enc_real, len. rewrite !app_length. cbn [length].
  pose proof (varint_fuel_length 10 s). pose proof (varint_fuel_length 10 l). unfold varint.
  unfold MAX_VALUE_LEN. lia.
Qed.
