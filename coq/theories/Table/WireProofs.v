(* Table/WireProofs.v — the byte-layer instance satisfies the hypotheses of the theorems: the real
   record size is positive, and the real BlockMetadata codec round-trips on the u64 range. *)
From Coq Require Import NArith ZArith List Bool Lia.
From Blue Require Import Table.Model Table.ModelSst Table.ModelWire.
Import ListNotations.
Open Scope N_scope.

Lemma enc_size_real_pos : forall e, 0 < enc_size_real e.
Proof. intros e. unfold enc_size_real. lia. Qed.

Lemma varint_rt_fuel : forall f n rest, (0 < f)%nat -> n < 128 ^ N.of_nat f ->
  varint_dec f (varint_fuel f n ++ rest) = Some (n, rest).
Proof.
  induction f as [|g IH]; intros n rest Hf Hn; [inversion Hf|]. cbn [varint_fuel].
  destruct (N.ltb_spec n 128) as [Hs|Hl].
  - cbn [app varint_dec]. destruct (N.ltb_spec n 128); [reflexivity|lia].
  - cbn [app varint_dec].
    pose proof (N.div_mod n 128 ltac:(discriminate)) as Hdm.
    remember (n mod 128) as r eqn:Er. remember (n / 128) as q eqn:Eq.
    destruct (N.ltb_spec (r + 128) 128); [lia|].
    assert (Hg : (0 < g)%nat).
    { destruct g; [|apply Nat.lt_0_succ]. exfalso. change (128 ^ N.of_nat 1) with 128 in Hn. lia. }
    assert (Hq : q < 128 ^ N.of_nat g).
    { subst q. apply N.div_lt_upper_bound; [discriminate|].
      replace (N.of_nat (S g)) with (N.succ (N.of_nat g)) in Hn by lia. now rewrite N.pow_succ_r' in Hn. }
    rewrite (IH q rest Hg Hq). f_equal. f_equal. lia.
Qed.

Lemma varint_rt : forall n rest, n < 2 ^ 64 -> varint_dec 10 (varint n ++ rest) = Some (n, rest).
Proof.
  intros n rest H. unfold varint. apply varint_rt_fuel; [repeat constructor|].
  eapply N.lt_trans; [exact H|]. reflexivity.
Qed.

(* the real BlockMetadata codec, on byte offsets that fit a u64 *)
Theorem meta_real_roundtrip : forall s l, s < 2 ^ 64 -> l < 2 ^ 64 ->
  meta_dec_real (meta_enc_real s l) = Some (s, l).
Proof.
  intros s l Hs Hl. unfold meta_enc_real, meta_dec_real. cbn [app].
  rewrite (varint_rt s _ Hs). cbn [app].
  rewrite (varint_rt l _ Hl). reflexivity.
Qed.
