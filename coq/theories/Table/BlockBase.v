(* Table/BlockBase.v — offsets of records in a block buffer, `entry_at`, prefix decompression
   (`decode`), and the well-formedness predicate of a block; basic lemmas. *)
From Coq Require Import NArith ZArith List Bool Lia.
From Blue Require Import Gen.Const_Table Table.Model Table.Ref Table.OrderProofs.
Import ListNotations.
Open Scope N_scope.

Arguments N.add : simpl never.
Arguments N.sub : simpl never.
Arguments N.mul : simpl never.
Arguments N.div : simpl never.
Arguments N.leb : simpl never.
Arguments N.ltb : simpl never.
Arguments N.eqb : simpl never.

(* the full key of a record given the previous full key *)
Definition full_key (prev : bytes) (be : bentry) : bytes :=
  firstn (N.to_nat (be_shared be)) prev ++ be_frag be.
Definition dec_entry (prev : bytes) (be : bentry) : entry := (full_key prev be, be_ts be, be_val be).

(* prefix decompression of a whole buffer *)
Fixpoint decode (prev : bytes) (bes : list bentry) : list entry :=
  match bes with
  | [] => []
  | be :: r => dec_entry prev be :: decode (full_key prev be) r
  end.

(* the key before index i of a decoded list (prev for i = 0) *)
Definition key_before (es : list entry) (prev : bytes) (i : nat) : bytes :=
  match i with
  | O => prev
  | S j => match nth_error es j with Some e => e_key e | None => [] end
  end.

Definition last_key (prev : bytes) (es : list entry) : bytes := key_before es prev (length es).

Lemma decode_length : forall bes prev, length (decode prev bes) = length bes.
Proof. induction bes as [|be r IH]; intros prev; cbn [decode length]; [reflexivity|]. now rewrite IH. Qed.

Lemma decode_nth : forall bes prev i be, nth_error bes i = Some be ->
  nth_error (decode prev bes) i = Some (dec_entry (key_before (decode prev bes) prev i) be).
Proof.
  induction bes as [|b0 r IH]; intros prev i be H; [destruct i; discriminate|].
  destruct i as [|i]; cbn [nth_error decode] in *.
  - injection H as ->. reflexivity.
  - rewrite (IH _ _ _ H). f_equal. f_equal.
    destruct i as [|i]; cbn [key_before nth_error]; reflexivity.
Qed.

Lemma decode_app : forall bes prev be,
  decode prev (bes ++ [be]) = decode prev bes ++ [dec_entry (last_key prev (decode prev bes)) be].
Proof.
  induction bes as [|b0 r IH]; intros prev be; cbn [decode app]; [reflexivity|].
  rewrite IH. f_equal. f_equal. f_equal. unfold last_key. cbn [length key_before].
  destruct (decode (full_key prev b0) r) as [|e0 l] eqn:E; cbn [length key_before nth_error]; [reflexivity|].
  reflexivity.
Qed.

Lemma last_key_snoc : forall prev es e, last_key prev (es ++ [e]) = e_key e.
Proof.
  intros. unfold last_key. rewrite app_length. cbn [length]. rewrite Nat.add_1_r. cbn [key_before].
  rewrite nth_error_app2 by lia. now rewrite Nat.sub_diag.
Qed.

Section Off.
  Variable enc_size : bentry -> N.
  Hypothesis enc_pos : forall e, 0 < enc_size e.

  Notation buf_len := (buf_len enc_size).
  Notation entry_at := (entry_at enc_size).

  (* byte offset of record i *)
  Definition off (bes : list bentry) (i : nat) : N := buf_len (firstn i bes).

  Lemma buf_len_app : forall a b, buf_len (a ++ b) = buf_len a + buf_len b.
  Proof. induction a as [|x a IH]; intros b; cbn [buf_len app]; [lia|]. rewrite IH. lia. Qed.

  Lemma off_0 : forall bes, off bes 0 = 0.
  Proof. reflexivity. Qed.

  Lemma off_all : forall bes i, (length bes <= i)%nat -> off bes i = buf_len bes.
  Proof. intros. unfold off. now rewrite firstn_all2. Qed.

  Lemma off_S : forall bes i e, nth_error bes i = Some e -> off bes (S i) = off bes i + enc_size e.
  Proof.
    induction bes as [|b0 r IH]; intros i e H; [destruct i; discriminate|].
    unfold off in *. destruct i as [|i]; cbn [nth_error firstn buf_len] in *.
    - injection H as ->. lia.
    - rewrite (IH _ _ H). lia.
  Qed.

  Lemma off_le : forall bes i j, (i <= j)%nat -> off bes i <= off bes j.
  Proof.
    unfold off. induction bes as [|b0 r IH]; intros i j H.
    - rewrite !firstn_nil. lia.
    - destruct i as [|i]; destruct j as [|j]; cbn [firstn Model.buf_len]; try lia.
      specialize (IH i j ltac:(lia)). lia.
  Qed.

  Lemma off_lt : forall bes i j, (i < j)%nat -> (j <= length bes)%nat -> off bes i < off bes j.
  Proof.
    intros bes i j Hij Hj.
    destruct (nth_error bes i) as [e|] eqn:E.
    - pose proof (off_S _ _ _ E) as HS. pose proof (enc_pos e).
      pose proof (off_le bes (S i) j ltac:(lia)). lia.
    - apply nth_error_None in E. lia.
  Qed.

  Lemma off_inj : forall bes i j, (i <= length bes)%nat -> (j <= length bes)%nat ->
    off bes i = off bes j -> i = j.
  Proof.
    intros bes i j Hi Hj H. destruct (Nat.lt_trichotomy i j) as [L|[E|L]]; [|exact E|].
    - pose proof (off_lt bes i j L Hj). lia.
    - pose proof (off_lt bes j i L Hi). lia.
  Qed.

  Lemma off_len : forall bes, off bes (length bes) = buf_len bes.
  Proof. intros. now apply off_all. Qed.

  Lemma off_app_l : forall bes x i, (i <= length bes)%nat -> off (bes ++ x) i = off bes i.
  Proof. intros. unfold off. rewrite firstn_app. replace (i - length bes)%nat with O by lia.
    cbn [firstn]. now rewrite app_nil_r. Qed.

  Lemma off_pos : forall bes i, (0 < i)%nat -> (i <= length bes)%nat -> 0 < off bes i.
  Proof. intros. pose proof (off_lt bes 0 i ltac:(lia) ltac:(lia)). rewrite off_0 in *. lia. Qed.

  (* unpacking at the offset of record i yields record i *)
  Lemma entry_at_off_gen : forall bes cur i e, nth_error bes i = Some e ->
    entry_at bes cur (cur + off bes i) = Some (e, cur + off bes (S i)).
  Proof.
    induction bes as [|b0 r IH]; intros cur i e H; [destruct i; discriminate|].
    destruct i as [|i]; cbn [nth_error Model.entry_at] in *.
    - injection H as ->. rewrite off_0, N.add_0_r, N.eqb_refl. f_equal. f_equal.
      unfold off. cbn [firstn Model.buf_len]. lia.
    - assert (Hp : 0 < off (b0 :: r) (S i)).
      { apply off_pos; [lia|]. cbn [length]. assert (i < length r)%nat by (apply nth_error_Some; congruence). lia. }
      destruct (N.eqb_spec cur (cur + off (b0 :: r) (S i))) as [Heq|_]; [lia|].
      specialize (IH (cur + enc_size b0) i e H).
      replace (cur + off (b0 :: r) (S i)) with (cur + enc_size b0 + off r i)
        by (unfold off; cbn [firstn Model.buf_len]; lia).
      rewrite IH. f_equal. f_equal. unfold off. cbn [firstn Model.buf_len]. lia.
  Qed.

  Lemma entry_at_off : forall bes i e, nth_error bes i = Some e ->
    entry_at bes 0 (off bes i) = Some (e, off bes (S i)).
  Proof. intros. pose proof (entry_at_off_gen bes 0 i e H) as G. now rewrite !N.add_0_l in G. Qed.
End Off.

(* ---------------------------------------------------------------- well-formed blocks *)
Section Wf.
  Variable enc_size : bentry -> N.

  Definition is_restart (bes : list bentry) (x : N) : Prop :=
    exists i be, nth_error bes i = Some be /\ off enc_size bes i = x /\ be_shared be = 0.

  (* what BlockBuilder establishes and BlockCursor relies on *)
  Record block_wf (b : block) (es : list entry) : Prop := {
    wf_decode : decode [] (bl_entries b) = es;
    wf_boundary : bl_boundary b = buf_len enc_size (bl_entries b);
    wf_r0 : nth_error (bl_restarts b) 0 = Some 0;
    wf_rsorted : forall i j x y, nth_error (bl_restarts b) i = Some x ->
                 nth_error (bl_restarts b) j = Some y -> (i < j)%nat -> x < y;
    wf_rentry : forall r x, nth_error (bl_restarts b) r = Some x ->
                bl_entries b <> [] -> is_restart (bl_entries b) x;
    wf_rempty : bl_entries b = [] -> bl_restarts b = [0] }.
End Wf.
