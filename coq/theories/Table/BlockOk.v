(* Table/BlockOk.v — `block_ok blk es`: a sealed block whose bytes read back (block_wf, records
   within the u64 / byte-string bounds, offsets and the restart count within u32), and what that
   gives the lockstep of BytesCursorProofs.v.  Generalises BlockBytesProofs.built_facts /
   lock_premises from "built by build_block" to "any block with these facts" (the data blocks and
   the index block of a table). *)
From Coq Require Import NArith ZArith List Bool Lia.
From Blue Require Import Gen.Const_Table Table.Model Table.ModelSst Table.ModelWire Table.ModelBytes
  Table.Ref Table.OrderProofs Table.BlockBase Table.BuildProofs Table.CursorProofs Table.WireProofs
  Table.BytesCursorProofs Table.BytesProofs Table.BlockBytesProofs.
Import ListNotations.
Open Scope N_scope.

Definition block_ok (blk : block) (es : list entry) : Prop :=
  block_wf enc_size_real blk es /\ recs_ok (bl_entries blk) /\
  bl_boundary blk = buf_len enc_size_real (bl_entries blk) /\
  Forall (fun x => x < WM.W32) (bl_restarts blk) /\ num_restarts blk < WM.W32.

(* from what the builder invariants give: sizes below u32::MAX *)
Lemma block_ok_of_bounds : forall blk es, block_wf enc_size_real blk es -> recs_ok (bl_entries blk) ->
  bl_boundary blk = buf_len enc_size_real (bl_entries blk) ->
  buf_len enc_size_real (bl_entries blk) <= U32_MAX ->
  Forall (fun x => x <= buf_len enc_size_real (bl_entries blk)) (bl_restarts blk) ->
  block_ok blk es.
Proof.
  intros blk es W Ir Hbd Il Irs. split; [exact W|]. split; [exact Ir|]. split; [exact Hbd|].
  assert (Hlt : forall i x, nth_error (bl_restarts blk) i = Some x -> x <= U32_MAX).
  { intros i x Hx. rewrite Forall_forall in Irs. pose proof (Irs x (nth_error_In _ _ Hx)). cbn in H. lia. }
  split.
  - apply Forall_forall. intros x Hx. apply In_nth_error in Hx as (i & Hi).
    pose proof (Hlt i x Hi). unfold U32_MAX, WM.W32 in *. lia.
  - unfold num_restarts.
    assert (Hcase : bl_entries blk = [] \/ bl_entries blk <> [])
      by (destruct (bl_entries blk); [left; reflexivity|right; discriminate]).
    destruct Hcase as [Eb|Hne].
    + rewrite (wf_rempty _ _ _ W Eb). reflexivity.
    + destruct (length (bl_restarts blk)) as [|m] eqn:En; [reflexivity|].
      destruct (nth_error (bl_restarts blk) m) as [x|] eqn:Ex; [|apply nth_error_None in Ex; lia].
      pose proof (increasing_ge_index _ (wf_rsorted _ _ _ W) m x Ex) as Hge.
      destruct (wf_rentry _ _ _ W m x Ex Hne) as (i & be & Hi & Ho & _).
      assert (i < length (bl_entries blk))%nat by (apply nth_error_Some; congruence).
      pose proof (off_lt enc_size_real enc_size_real_pos (bl_entries blk) i (length (bl_entries blk)) H ltac:(lia)) as Hol.
      rewrite off_len in Hol. unfold U32_MAX, WM.W32 in *. lia.
Qed.

Lemma block_ok_premises : forall blk es, block_ok blk es ->
  bblock_new (block_bytes blk) = Ok (the_block blk) /\
  (forall i, bk_restart_point (the_block blk) i = restart_point blk i) /\
  (forall ri o key, valid_off blk o -> bk_extract_key (the_block blk) ri o key = extract_key enc_size_real blk ri o key) /\
  (forall i x, nth_error (bl_restarts blk) i = Some x -> valid_off blk x) /\
  (forall ri o key ri' o' no kk t v, valid_off blk o ->
     extract_key enc_size_real blk ri o key = Ok (PAt ri' o' no kk t v) -> valid_off blk no) /\
  (length (bl_entries blk) <= length (block_bytes blk))%nat /\
  (length (bl_restarts blk) <= length (block_bytes blk))%nat /\
  len (block_bytes blk) = block_len blk.
Proof.
  intros blk es (W & Hrec & Hbd & Hrs & Hnr).
  pose proof (bytes_len blk Hrec Hbd Hnr) as HL. pose proof (buf_len_ge_length (bl_entries blk)) as HE.
  split; [exact (bblock_new_ok blk Hrec Hbd Hnr)|].
  split; [exact (restart_point_bytes blk Hrec Hbd Hrs Hnr)|]. split; [eapply extract_key_bytes; eauto|].
  split.
  { intros i x Hx.
    assert (Hcase : bl_entries blk = [] \/ bl_entries blk <> [])
      by (destruct (bl_entries blk); [left; reflexivity|right; discriminate]).
    destruct Hcase as [Eb|Hne].
    - left. rewrite (wf_rempty _ _ _ W Eb) in Hx. destruct i as [|[|i]]; cbn in Hx; try discriminate.
      injection Hx as <-. rewrite Hbd, Eb. cbn. lia.
    - destruct (wf_rentry _ _ _ W i x Hx Hne) as (n & be & Hn & Ho & _).
      right. exists n, be. split; [exact Hn|now rewrite <- Ho]. }
  split; [eapply next_off_valid; eauto|].
  split; [unfold len, num_restarts in *; lia|]. split; [unfold len, num_restarts in *; lia|].
  rewrite HL. unfold block_len. lia.
Qed.

(* per-operation lockstep for a block that is block_ok: the fuel is the number of bytes *)
Section Ops.
  Variables (blk : block) (es : list entry).
  Hypothesis OK : block_ok blk es.
  Notation k := (the_block blk).
  Notation fuel := (length (block_bytes blk)).
  Notation VV := (V (valid_off blk)).

  Lemma ok_next : forall c c1, VV c -> bc_next enc_size_real blk c = Ok c1 -> bk_next k c = Ok c1 /\ VV c1.
  Proof.
    destruct (block_ok_premises blk es OK) as (_ & RP & EX & RV & EA & Hfe & Hfr & _).
    exact (next_lock enc_size_real blk k (valid_off blk) eq_refl eq_refl RP EX RV EA).
  Qed.

  Lemma ok_prev : forall c c1, VV c -> bc_prev enc_size_real blk c = Ok c1 -> bk_prev fuel k c = Ok c1 /\ VV c1.
  Proof.
    destruct (block_ok_premises blk es OK) as (_ & RP & EX & RV & EA & Hfe & Hfr & _).
    exact (prev_lock enc_size_real blk k fuel (valid_off blk) eq_refl eq_refl RP EX RV EA Hfe Hfr).
  Qed.

  Lemma ok_seek : forall c key c1, VV c -> bc_seek enc_size_real blk c key = Ok c1 -> bk_seek fuel k c key = Ok c1 /\ VV c1.
  Proof.
    destruct (block_ok_premises blk es OK) as (_ & RP & EX & RV & EA & Hfe & Hfr & _).
    exact (seek_lock enc_size_real blk k fuel (valid_off blk) eq_refl eq_refl RP EX RV EA Hfe Hfr).
  Qed.
End Ops.
