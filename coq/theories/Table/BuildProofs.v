(* Table/BuildProofs.v — BlockBuilder: the invariant that put/del maintain, what seal yields
   (a well-formed block whose decompression is exactly the accepted sequence), which inputs are
   accepted and which rejected. *)
From Coq Require Import NArith ZArith List Bool Lia.
From Blue Require Import Gen.Const_Table Table.Model Table.Ref Table.OrderProofs Table.BlockBase.
Import ListNotations.
Open Scope N_scope.

(* ---------------------------------------------------------------- prefix sharing *)
Lemma common_prefix_firstn : forall a b,
  firstn (common_prefix a b) a = firstn (common_prefix a b) b.
Proof.
  induction a as [|x a IH]; intros [|y b]; cbn [common_prefix firstn]; try reflexivity.
  destruct (N.eqb_spec x y) as [->|_]; cbn [firstn]; [now rewrite IH|reflexivity].
Qed.

Lemma share_restore : forall last key,
  firstn (common_prefix last key) last ++ skipn (common_prefix last key) key = key.
Proof. intros. rewrite common_prefix_firstn. apply firstn_skipn. Qed.

Lemma snoc_cases : forall {A} (l : list A), l = [] \/ exists l' e, l = l' ++ [e].
Proof.
  intros A l. destruct l as [|x l]; [now left|right].
  destruct (exists_last (l:=x :: l) ltac:(discriminate)) as (l' & e & E). eauto.
Qed.

(* ---------------------------------------------------------------- last entry *)
Definition dummy_entry : entry := ([], U64_MAX, None).
Definition last_kt (l : list entry) : bytes * N :=
  match l with [] => ([], U64_MAX) | _ => (e_key (last l dummy_entry), e_ts (last l dummy_entry)) end.

Lemma last_kt_snoc : forall l e, last_kt (l ++ [e]) = (e_key e, e_ts e).
Proof.
  intros. unfold last_kt. rewrite last_last. destruct (l ++ [e]) eqn:E; [|reflexivity].
  now apply app_eq_nil in E as [_ E].
Qed.

Lemma last_kt_app : forall pre l, l <> [] -> last_kt (pre ++ l) = last_kt l.
Proof.
  intros pre l H. destruct (snoc_cases l) as [->|(l' & e & ->)]; [congruence|].
  now rewrite app_assoc, !last_kt_snoc.
Qed.

Lemma sorted_last_max : forall l a, sorted l -> In a l ->
  a = last l dummy_entry \/ kref_lt a (last l dummy_entry).
Proof.
  induction l as [|x l IH]; intros a S H; [destruct H|].
  destruct S as (F & S). destruct l as [|y l].
  - destruct H as [<-|[]]. now left.
  - change (last (x :: y :: l) dummy_entry) with (last (y :: l) dummy_entry).
    destruct H as [<-|H].
    + right. rewrite Forall_forall in F. apply F.
      destruct (exists_last (l:=y :: l) ltac:(discriminate)) as (l' & z & E). rewrite E, last_last.
      apply in_or_app. right. now left.
    + now apply IH.
Qed.

Lemma sorted_snoc_last : forall l e, sorted l ->
  (l = [] \/ kref_lt (last l dummy_entry) e) -> sorted (l ++ [e]).
Proof.
  intros l e S H. apply sorted_snoc; [exact S|]. intros a Ha.
  destruct H as [->|H]; [destruct Ha|].
  destruct (sorted_last_max l a S Ha) as [->|L]; [exact H|].
  unfold kref_lt in *. eapply kref_cmp_lt_trans; eauto.
Qed.

Lemma sorted_snoc_inv : forall l e, sorted (l ++ [e]) ->
  sorted l /\ (l = [] \/ kref_lt (last l dummy_entry) e).
Proof.
  intros l e S. apply sorted_app in S as (S1 & _ & C). split; [exact S1|].
  destruct l as [|x l]; [now left|right]. apply C; [|now left].
  destruct (exists_last (l:=x :: l) ltac:(discriminate)) as (l' & z & E). rewrite E, last_last.
  apply in_or_app. right. now left.
Qed.

Section Build.
  Variable enc_size : bentry -> N.
  Hypothesis enc_pos : forall e, 0 < enc_size e.

  Notation buf_len := (buf_len enc_size).
  Notation off := (off enc_size).
  Notation is_restart := (is_restart enc_size).

  (* ------------------------------------------------------------ the builder invariant *)
  Record binv (b : bbuilder) (es : list entry) : Prop := {
    bi_decode : decode [] (bb_buf b) = es;
    bi_last : (bb_last_key b, bb_last_ts b) = last_kt es;
    bi_sorted : sorted es;
    bi_r0 : nth_error (bb_restarts b) 0 = Some 0;
    bi_rsorted : forall i j x y, nth_error (bb_restarts b) i = Some x ->
                 nth_error (bb_restarts b) j = Some y -> (i < j)%nat -> x < y;
    bi_rentry : forall r x, nth_error (bb_restarts b) r = Some x -> bb_buf b <> [] ->
                is_restart (bb_buf b) x;
    bi_rempty : bb_buf b = [] -> bb_restarts b = [0] /\ bb_pairs_since b = 0 }.

  Lemma binv_new : forall o, binv (bb_new o) [].
  Proof.
    intros o. constructor; cbn; auto.
    - intros i j x y Hi Hj Hij. destruct i; destruct j; cbn in *; try lia;
        try (destruct j; discriminate); destruct i; discriminate.
    - intros r x _ H. congruence.
  Qed.

  Lemma last_key_last_kt : forall es, last_key [] es = fst (last_kt es).
  Proof.
    intros es. destruct (snoc_cases es) as [->|(l & e & ->)]; [reflexivity|].
    now rewrite last_key_snoc, last_kt_snoc.
  Qed.

  Lemma is_restart_app : forall buf x be, is_restart buf x -> is_restart (buf ++ [be]) x.
  Proof.
    intros buf x be (i & e & Hn & Ho & Hs). exists i, e. repeat split; auto.
    - rewrite nth_error_app1; [exact Hn|]. apply nth_error_Some. congruence.
    - rewrite off_app_l; [exact Ho|]. assert (i < length buf)%nat by (apply nth_error_Some; congruence). lia.
  Qed.

  Lemma is_restart_lt : forall buf x, is_restart buf x -> x < buf_len buf.
  Proof.
    intros buf x (i & e & Hn & Ho & _). subst x.
    assert (i < length buf)%nat by (apply nth_error_Some; congruence).
    rewrite <- (off_len enc_size buf). apply off_lt; [exact enc_pos|lia|lia].
  Qed.

  (* one accepted put / del *)
  Lemma bb_add_inv : forall b es e b1, binv b es -> bb_add enc_size b e = Ok b1 ->
    binv b1 (es ++ [e]) /\ bb_opts b1 = bb_opts b.
  Proof.
    intros b es e b1 I H. unfold bb_add in H.
    destruct (check_key_len (e_key e)) as [[]|] eqn:C1; cbn [bind] in H; [|discriminate].
    destruct (match e_val e with Some v => check_value_len v | None => Ok tt end) as [[]|] eqn:C2;
      cbn [bind] in H; [|discriminate].
    destruct (check_table_size (bb_approx_size enc_size b)) as [[]|] eqn:C3; cbn [bind] in H; [|discriminate].
    unfold bb_enforce_sort_order in H.
    destruct (kref_cmp (bb_last_key b) (bb_last_ts b) (e_key e) (e_ts e)) eqn:Cmp; cbn [bind] in H; try discriminate.
    destruct I as [Idec Ilast Isort Ir0 Irs Ire Iem].
    assert (Hsorted : sorted (es ++ [e])).
    { apply sorted_snoc_last; [exact Isort|]. destruct es as [|e0 es']; [now left|right].
      assert (Hk : bb_last_key b = e_key (last (e0 :: es') dummy_entry))
        by (change (bb_last_key b) with (fst (bb_last_key b, bb_last_ts b)); rewrite Ilast; reflexivity).
      assert (Ht : bb_last_ts b = e_ts (last (e0 :: es') dummy_entry))
        by (change (bb_last_ts b) with (snd (bb_last_key b, bb_last_ts b)); rewrite Ilast; reflexivity).
      unfold kref_lt. rewrite <- Hk, <- Ht. exact Cmp. }
    assert (Hlk : bb_last_key b = last_key [] es).
    { rewrite last_key_last_kt, <- Ilast. reflexivity. }
    unfold compute_key_frag in H.
    destruct (should_restart b) eqn:SR.
    - (* a restart point is opened *)
      unfold bb_append in H; cbn [bb_buf bb_opts bb_last_key bb_last_ts bb_restarts bb_bytes_since bb_pairs_since be_shared be_frag be_ts be_val] in H.
      destruct (buf_len (bb_buf b) + _ <=? U32_MAX); [|discriminate]. injection H as <-.
      split; [|reflexivity].
      assert (Hne : bb_buf b <> []).
      { intros E. apply Iem in E as (_ & E). unfold should_restart in SR. rewrite E in SR. discriminate. }
      constructor; cbn [bb_buf bb_last_key bb_last_ts bb_restarts bb_pairs_since].
      + rewrite decode_app, Idec. f_equal. unfold dec_entry, full_key. cbn.
        destruct e as [[k t] v]. reflexivity.
      + rewrite last_kt_snoc. cbn. reflexivity.
      + exact Hsorted.
      + rewrite nth_error_app1; [exact Ir0|]. apply nth_error_Some. congruence.
      + intros i j x y Hi Hj Hij.
        assert (Hlen : (j < length (bb_restarts b ++ [buf_len (bb_buf b)]))%nat) by (apply nth_error_Some; congruence).
        rewrite app_length in Hlen. cbn [length] in Hlen.
        rewrite nth_error_app1 in Hi by lia.
        destruct (Nat.eq_dec j (length (bb_restarts b))) as [->|Hj'].
        * rewrite nth_error_app2, Nat.sub_diag in Hj by lia. injection Hj as <-.
          apply is_restart_lt. eapply Ire; eauto.
        * rewrite nth_error_app1 in Hj by lia. eapply Irs; eauto.
      + intros r x Hr _.
        destruct (Nat.lt_ge_cases r (length (bb_restarts b))) as [L|G].
        * rewrite nth_error_app1 in Hr by lia. apply is_restart_app. eapply Ire; eauto.
        * assert (r = length (bb_restarts b)).
          { assert (r < length (bb_restarts b ++ [buf_len (bb_buf b)]))%nat by (apply nth_error_Some; congruence).
            rewrite app_length in H. cbn [length] in H. lia. }
          subst r. rewrite nth_error_app2, Nat.sub_diag in Hr by lia. injection Hr as <-.
          eexists (length (bb_buf b)), _. repeat split.
          -- rewrite nth_error_app2, Nat.sub_diag by lia. reflexivity.
          -- rewrite off_app_l by lia. apply off_len.
          -- reflexivity.
      + intros E. now apply app_eq_nil in E as [_ E].
    - (* within the current interval: share the prefix with the last key *)
      unfold bb_append in H; cbn [bb_buf bb_opts bb_last_key bb_last_ts bb_restarts bb_bytes_since bb_pairs_since be_shared be_frag be_ts be_val] in H.
      destruct (buf_len (bb_buf b) + _ <=? U32_MAX); [|discriminate]. injection H as <-.
      split; [|reflexivity].
      assert (Hfull : firstn (N.to_nat (N.of_nat (common_prefix (bb_last_key b) (e_key e)))) (bb_last_key b)
                      ++ skipn (common_prefix (bb_last_key b) (e_key e)) (e_key e) = e_key e).
      { rewrite Nat2N.id. apply share_restore. }
      constructor; cbn [bb_buf bb_last_key bb_last_ts bb_restarts bb_pairs_since].
      + rewrite decode_app, Idec. f_equal. unfold dec_entry, full_key. cbn [be_shared be_frag be_ts be_val].
        rewrite <- Hlk, Hfull. destruct e as [[k t] v]. reflexivity.
      + rewrite last_kt_snoc, Hfull. reflexivity.
      + exact Hsorted.
      + exact Ir0.
      + exact Irs.
      + intros r x Hr _. destruct (bb_buf b) as [|b0 buf'] eqn:EB.
        * (* first record of the block: restart 0, shared = 0 *)
          destruct (Iem eq_refl) as (ER & _). rewrite ER in Hr.
          destruct r as [|r]; [|destruct r; discriminate]. injection Hr as <-.
          exists O, {| be_shared := N.of_nat (common_prefix (bb_last_key b) (e_key e));
                       be_frag := skipn (common_prefix (bb_last_key b) (e_key e)) (e_key e);
                       be_ts := e_ts e; be_val := e_val e |}.
          repeat split. cbn [be_shared].
          rewrite Hlk. rewrite <- Idec. cbn [decode]. unfold last_key. cbn. reflexivity.
        * apply is_restart_app. eapply Ire; eauto. discriminate.
      + intros E. now apply app_eq_nil in E as [_ E].
  Qed.

  Lemma bb_add_all_inv : forall es b pre b1, binv b pre -> bb_add_all enc_size b es = Ok b1 ->
    binv b1 (pre ++ es) /\ bb_opts b1 = bb_opts b.
  Proof.
    induction es as [|e es IH]; intros b pre b1 I H; cbn [bb_add_all] in H.
    - injection H as <-. rewrite app_nil_r. auto.
    - destruct (bb_add enc_size b e) as [b2|] eqn:A; cbn [bind] in H; [|discriminate].
      destruct (bb_add_inv _ _ _ _ I A) as (I2 & O2).
      destruct (IH _ _ _ I2 H) as (I3 & O3). rewrite <- app_assoc in I3. split; [exact I3|congruence].
  Qed.

  Lemma binv_seal : forall b es, binv b es -> block_wf enc_size (bb_seal enc_size b) es.
  Proof.
    intros b es [Idec Ilast Isort Ir0 Irs Ire Iem]. constructor; cbn [bb_seal bl_entries bl_restarts bl_boundary]; auto.
    intros E. now destruct (Iem E).
  Qed.

  (* THE BUILDER THEOREM: what build_block accepts is strictly sorted, and the sealed block is a
     well-formed compression of exactly that sequence *)
  Theorem build_block_wf : forall o es blk, build_block enc_size o es = Ok blk ->
    block_wf enc_size blk es /\ sorted es.
  Proof.
    intros o es blk H. unfold build_block in H.
    destruct (bb_add_all enc_size (bb_new o) es) as [b|] eqn:A; cbn [bind] in H; [|discriminate].
    injection H as <-. destruct (bb_add_all_inv _ _ [] _ (binv_new o) A) as (I & _). cbn [app] in I.
    split; [now apply binv_seal|apply (bi_sorted _ _ I)].
  Qed.

  (* ------------------------------------------------------------ rejections *)
  (* every way put/del can fail, and each leaves the builder untouched (the model's bb_feed keeps
     the old builder: every failing check precedes the first mutation in the Rust) *)
  Definition put_ok (last_k : bytes) (last_t : N) (approx : N) (e : entry) : Prop :=
    len (e_key e) <= MAX_KEY_LEN /\
    (forall v, e_val e = Some v -> len v <= MAX_VALUE_LEN) /\
    approx < TABLE_FULL_SIZE /\
    kref_cmp last_k last_t (e_key e) (e_ts e) = Lt.

  Lemma bb_add_err : forall b e x, bb_add enc_size b e = Err x ->
    (x = EKeyTooLarge /\ MAX_KEY_LEN < len (e_key e)) \/
    (x = EValueTooLarge /\ exists v, e_val e = Some v /\ MAX_VALUE_LEN < len v) \/
    (x = ETableFull /\ TABLE_FULL_SIZE <= bb_approx_size enc_size b) \/
    (x = ESortOrder /\ kref_cmp (bb_last_key b) (bb_last_ts b) (e_key e) (e_ts e) <> Lt) \/
    (x = EPanic /\ put_ok (bb_last_key b) (bb_last_ts b) (bb_approx_size enc_size b) e).
  Proof.
    intros b e x H. unfold bb_add in H.
    unfold check_key_len in H. destruct (N.ltb_spec MAX_KEY_LEN (len (e_key e))) as [L1|L1]; cbn [bind] in H.
    { injection H as <-. now left. }
    destruct (e_val e) as [v|] eqn:EV.
    - unfold check_value_len in H. destruct (N.ltb_spec MAX_VALUE_LEN (len v)) as [L2|L2]; cbn [bind] in H.
      { injection H as <-. right; left. split; [reflexivity|]. now exists v. }
      unfold check_table_size in H.
      destruct (N.leb_spec TABLE_FULL_SIZE (bb_approx_size enc_size b)) as [L3|L3]; cbn [bind] in H.
      { injection H as <-. right; right; left. auto. }
      unfold bb_enforce_sort_order in H.
      destruct (kref_cmp (bb_last_key b) (bb_last_ts b) (e_key e) (e_ts e)) eqn:Cmp; cbn [bind] in H;
        try (injection H as <-; right; right; right; left; split; [reflexivity|congruence]).
      right; right; right; right.
      destruct (compute_key_frag enc_size b (e_key e)) as [[b1 sh] fr]. unfold bb_append in H.
      destruct (_ <=? U32_MAX); [discriminate|]. injection H as <-. split; [reflexivity|].
      repeat split; auto. intros v' Hv. rewrite EV in Hv. injection Hv as <-. exact L2.
    - cbn [bind] in H. unfold check_table_size in H.
      destruct (N.leb_spec TABLE_FULL_SIZE (bb_approx_size enc_size b)) as [L3|L3]; cbn [bind] in H.
      { injection H as <-. right; right; left. auto. }
      unfold bb_enforce_sort_order in H.
      destruct (kref_cmp (bb_last_key b) (bb_last_ts b) (e_key e) (e_ts e)) eqn:Cmp; cbn [bind] in H;
        try (injection H as <-; right; right; right; left; split; [reflexivity|congruence]).
      right; right; right; right.
      destruct (compute_key_frag enc_size b (e_key e)) as [[b1 sh] fr]. unfold bb_append in H.
      destruct (_ <=? U32_MAX); [discriminate|]. injection H as <-. split; [reflexivity|].
      repeat split; auto. intros v' Hv. congruence.
  Qed.

  Lemma bb_add_ok : forall b e b1, bb_add enc_size b e = Ok b1 ->
    put_ok (bb_last_key b) (bb_last_ts b) (bb_approx_size enc_size b) e.
  Proof.
    intros b e b1 H. unfold bb_add in H.
    unfold check_key_len in H. destruct (N.ltb_spec MAX_KEY_LEN (len (e_key e))) as [L1|L1]; cbn [bind] in H; [discriminate|].
    assert (Hv : forall v, e_val e = Some v -> len v <= MAX_VALUE_LEN).
    { intros v EV. rewrite EV in H. unfold check_value_len in H.
      destruct (N.ltb_spec MAX_VALUE_LEN (len v)); [discriminate|assumption]. }
    destruct (match e_val e with Some v => check_value_len v | None => Ok tt end) as [[]|]; cbn [bind] in H; [|discriminate].
    unfold check_table_size in H.
    destruct (N.leb_spec TABLE_FULL_SIZE (bb_approx_size enc_size b)) as [L3|L3]; cbn [bind] in H; [discriminate|].
    unfold bb_enforce_sort_order in H.
    destruct (kref_cmp (bb_last_key b) (bb_last_ts b) (e_key e) (e_ts e)) eqn:Cmp; cbn [bind] in H; try discriminate.
    repeat split; auto.
  Qed.

  (* the u32 assert in append is unreachable when the records the builder makes from entries
     that passed its checks are not absurdly large (the real ones are below 50 KiB) *)
  Definition size_bounded : Prop :=
    forall be, len (be_frag be) <= MAX_KEY_LEN -> (forall v, be_val be = Some v -> len v <= MAX_VALUE_LEN) ->
               be_shared be <= MAX_KEY_LEN -> be_ts be <= U64_MAX ->
               enc_size be <= U32_MAX - TABLE_FULL_SIZE.

  Lemma common_prefix_le_r : forall a b, (common_prefix a b <= length b)%nat.
  Proof.
    induction a as [|x a IH]; intros [|y b]; cbn [common_prefix length]; try lia.
    destruct (x =? y); [specialize (IH b)|]; lia.
  Qed.

  Lemma bb_add_no_panic : size_bounded ->
    forall b e, e_ts e <= U64_MAX -> bb_add enc_size b e <> Err EPanic.
  Proof.
    intros Hb b e Hts H. unfold bb_add in H.
    unfold check_key_len in H. destruct (N.ltb_spec MAX_KEY_LEN (len (e_key e))) as [|L1]; cbn [bind] in H; [discriminate|].
    assert (Hv : forall v, e_val e = Some v -> len v <= MAX_VALUE_LEN).
    { intros v EV. rewrite EV in H. unfold check_value_len in H.
      destruct (N.ltb_spec MAX_VALUE_LEN (len v)); [cbn [bind] in H; discriminate|assumption]. }
    destruct (match e_val e with Some v => check_value_len v | None => Ok tt end) as [[]|x] eqn:C2; cbn [bind] in H.
    2:{ destruct (e_val e); [|discriminate]. unfold check_value_len in C2. destruct (_ <? _); congruence. }
    unfold check_table_size in H.
    destruct (N.leb_spec TABLE_FULL_SIZE (bb_approx_size enc_size b)) as [L3|L3]; cbn [bind] in H; [discriminate|].
    unfold bb_enforce_sort_order in H.
    destruct (kref_cmp (bb_last_key b) (bb_last_ts b) (e_key e) (e_ts e)); cbn [bind] in H; try discriminate.
    unfold bb_approx_size in L3.
    unfold compute_key_frag in H. destruct (should_restart b); unfold bb_append in H; cbn [bb_buf] in H;
      match type of H with context [?x + enc_size ?be <=? U32_MAX] =>
        assert (Hbe : enc_size be <= U32_MAX - TABLE_FULL_SIZE);
        [apply Hb; cbn [be_frag be_val be_shared be_ts]; auto|
         destruct (N.leb_spec (x + enc_size be) U32_MAX); [discriminate|unfold U32_MAX, TABLE_FULL_SIZE in *; lia]] end.
    - unfold MAX_KEY_LEN. lia.
    - unfold len in *. rewrite skipn_length. lia.
    - pose proof (common_prefix_le_r (bb_last_key b) (e_key e)). unfold len in *. lia.
  Qed.

  Lemma bb_add_total : size_bounded ->
    forall b e, e_ts e <= U64_MAX -> put_ok (bb_last_key b) (bb_last_ts b) (bb_approx_size enc_size b) e ->
    exists b1, bb_add enc_size b e = Ok b1.
  Proof.
    intros Hb b e Hts Hp. destruct (bb_add enc_size b e) as [b1|x] eqn:A; [eauto|exfalso].
    destruct Hp as (P1 & P2 & P3 & P4).
    destruct (bb_add_err b e x A) as [(_&L)|[(_&v&Ev&L)|[(_&L)|[(_&L)|(->&_)]]]].
    - apply N.lt_nge in L. contradiction.
    - specialize (P2 v Ev). apply N.lt_nge in L. contradiction.
    - apply N.lt_nge in P3. contradiction.
    - contradiction.
    - exact (bb_add_no_panic Hb b e Hts A).
  Qed.
End Build.
