(* Table/OrderProofs.v — lex_cmp ([u8]::cmp) and kref_cmp (KeyRef::cmp) are total orders. *)
From Coq Require Import NArith ZArith List Bool Lia.
From Blue Require Import Table.Model Table.Ref.
Import ListNotations.
Open Scope N_scope.

Lemma lex_cmp_refl : forall a, lex_cmp a a = Eq.
Proof. induction a as [|x a IH]; cbn [lex_cmp]; [reflexivity|]. now rewrite N.compare_refl. Qed.

Lemma lex_cmp_eq : forall a b, lex_cmp a b = Eq -> a = b.
Proof.
  induction a as [|x a IH]; intros [|y b] H; cbn [lex_cmp] in H; try discriminate; [reflexivity|].
  destruct (x ?= y) eqn:E; try discriminate.
  apply N.compare_eq in E. subst. f_equal. now apply IH.
Qed.

Lemma lex_cmp_antisym : forall a b, lex_cmp b a = CompOpp (lex_cmp a b).
Proof.
  induction a as [|x a IH]; intros [|y b]; cbn [lex_cmp]; try reflexivity.
  rewrite (N.compare_antisym x y). destruct (x ?= y); cbn [CompOpp]; [apply IH|reflexivity|reflexivity].
Qed.

Lemma lex_cmp_lt_trans : forall a b c, lex_cmp a b = Lt -> lex_cmp b c = Lt -> lex_cmp a c = Lt.
Proof.
  induction a as [|x a IH]; intros [|y b] [|z c] H1 H2; cbn [lex_cmp] in *; try discriminate; try reflexivity.
  destruct (x ?= y) eqn:E1; try discriminate; destruct (y ?= z) eqn:E2; try discriminate.
  - apply N.compare_eq in E1, E2. subst. rewrite N.compare_refl. eapply IH; eauto.
  - apply N.compare_eq in E1. subst. now rewrite E2.
  - apply N.compare_eq in E2. subst. now rewrite E1.
  - rewrite N.compare_lt_iff in *. assert (x < z) by lia. apply N.compare_lt_iff in H. now rewrite H.
Qed.

Lemma lex_cmp_gt_lt : forall a b, lex_cmp a b = Gt <-> lex_cmp b a = Lt.
Proof. intros a b. rewrite (lex_cmp_antisym a b). destruct (lex_cmp a b); cbn; split; congruence. Qed.

(* non-strict order on keys *)
Definition lex_le (a b : bytes) : Prop := lex_cmp a b <> Gt.

Lemma lex_le_refl : forall a, lex_le a a.
Proof. intros a. unfold lex_le. now rewrite lex_cmp_refl. Qed.

Lemma lex_le_lt_trans : forall a b c, lex_le a b -> lex_cmp b c = Lt -> lex_cmp a c = Lt.
Proof.
  intros a b c H1 H2. unfold lex_le in H1. destruct (lex_cmp a b) eqn:E; try congruence.
  - apply lex_cmp_eq in E. now subst.
  - eapply lex_cmp_lt_trans; eauto.
Qed.

Lemma lex_lt_le_trans : forall a b c, lex_cmp a b = Lt -> lex_le b c -> lex_cmp a c = Lt.
Proof.
  intros a b c H1 H2. unfold lex_le in H2. destruct (lex_cmp b c) eqn:E; try congruence.
  - apply lex_cmp_eq in E. now subst.
  - eapply lex_cmp_lt_trans; eauto.
Qed.

Lemma lex_le_trans : forall a b c, lex_le a b -> lex_le b c -> lex_le a c.
Proof.
  intros a b c H1 H2. unfold lex_le in *. destruct (lex_cmp b c) eqn:E; try congruence.
  - apply lex_cmp_eq in E. now subst.
  - rewrite (lex_le_lt_trans a b c H1 E). discriminate.
Qed.

Lemma lex_not_lt_le : forall a b, lex_cmp a b <> Lt -> lex_le b a.
Proof.
  intros a b H. unfold lex_le. rewrite (lex_cmp_antisym a b). destruct (lex_cmp a b); cbn; congruence.
Qed.

Lemma lex_lt_not_le : forall a b, lex_cmp a b = Lt -> ~ lex_le b a.
Proof. intros a b H L. apply L. now apply lex_cmp_gt_lt. Qed.

Lemma bytes_eqb_eq : forall a b, bytes_eqb a b = true <-> a = b.
Proof.
  intros a b. unfold bytes_eqb. split.
  - destruct (lex_cmp a b) eqn:E; try discriminate. intros _. now apply lex_cmp_eq.
  - intros ->. now rewrite lex_cmp_refl.
Qed.

(* ---------------------------------------------------------------- KeyRef order *)
Lemma kref_cmp_refl : forall k t, kref_cmp k t k t = Eq.
Proof. intros. unfold kref_cmp. rewrite lex_cmp_refl, N.compare_refl. reflexivity. Qed.

Lemma kref_cmp_eq : forall k1 t1 k2 t2, kref_cmp k1 t1 k2 t2 = Eq -> k1 = k2 /\ t1 = t2.
Proof.
  intros k1 t1 k2 t2 H. unfold kref_cmp in H. destruct (lex_cmp k1 k2) eqn:E; try discriminate.
  apply lex_cmp_eq in E. split; [exact E|]. destruct (t1 ?= t2) eqn:E2; try discriminate.
  now apply N.compare_eq in E2.
Qed.

Lemma kref_cmp_antisym : forall k1 t1 k2 t2, kref_cmp k2 t2 k1 t1 = CompOpp (kref_cmp k1 t1 k2 t2).
Proof.
  intros. unfold kref_cmp. rewrite (lex_cmp_antisym k1 k2).
  destruct (lex_cmp k1 k2); cbn [CompOpp]; try reflexivity.
  rewrite (N.compare_antisym t1 t2). now destruct (t1 ?= t2).
Qed.

Lemma kref_lt_key_le : forall k1 t1 k2 t2, kref_cmp k1 t1 k2 t2 = Lt -> lex_le k1 k2.
Proof.
  intros k1 t1 k2 t2 H. unfold kref_cmp in H. unfold lex_le. destruct (lex_cmp k1 k2); congruence.
Qed.

Lemma kref_cmp_lt_trans : forall k1 t1 k2 t2 k3 t3,
  kref_cmp k1 t1 k2 t2 = Lt -> kref_cmp k2 t2 k3 t3 = Lt -> kref_cmp k1 t1 k3 t3 = Lt.
Proof.
  intros k1 t1 k2 t2 k3 t3 H1 H2. unfold kref_cmp in *.
  destruct (lex_cmp k1 k2) eqn:E1; try discriminate; destruct (lex_cmp k2 k3) eqn:E2; try discriminate.
  - apply lex_cmp_eq in E1, E2. subst. rewrite lex_cmp_refl.
    destruct (t1 ?= t2) eqn:C1; try discriminate; destruct (t2 ?= t3) eqn:C2; try discriminate.
    rewrite N.compare_gt_iff in *. assert (t3 < t1) by lia.
    apply N.compare_gt_iff in H. now rewrite H.
  - apply lex_cmp_eq in E1. subst. now rewrite E2.
  - apply lex_cmp_eq in E2. subst. now rewrite E1.
  - now rewrite (lex_cmp_lt_trans _ _ _ E1 E2).
Qed.

Lemma kref_cmp_le_lt_trans : forall k1 t1 k2 t2 k3 t3,
  kref_cmp k1 t1 k2 t2 <> Gt -> kref_cmp k2 t2 k3 t3 = Lt -> kref_cmp k1 t1 k3 t3 = Lt.
Proof.
  intros k1 t1 k2 t2 k3 t3 H1 H2. destruct (kref_cmp k1 t1 k2 t2) eqn:E; try congruence.
  - apply kref_cmp_eq in E. destruct E; now subst.
  - eapply kref_cmp_lt_trans; eauto.
Qed.

Lemma kref_cmp_lt_le_trans : forall k1 t1 k2 t2 k3 t3,
  kref_cmp k1 t1 k2 t2 = Lt -> kref_cmp k2 t2 k3 t3 <> Gt -> kref_cmp k1 t1 k3 t3 = Lt.
Proof.
  intros k1 t1 k2 t2 k3 t3 H1 H2. destruct (kref_cmp k2 t2 k3 t3) eqn:E; try congruence.
  - apply kref_cmp_eq in E. destruct E; now subst.
  - eapply kref_cmp_lt_trans; eauto.
Qed.

(* the least KeyRef: (empty key, u64::MAX) is below every other (k, t) with t <= u64::MAX *)
Lemma kref_min : forall k t, t <= U64_MAX -> (k, t) <> ([], U64_MAX) -> kref_cmp [] U64_MAX k t = Lt.
Proof.
  intros k t Ht Hne. unfold kref_cmp. destruct k as [|x k]; cbn [lex_cmp]; [|reflexivity].
  destruct (U64_MAX ?= t) eqn:E; cbn [CompOpp].
  - apply N.compare_eq in E. subst. congruence.
  - rewrite N.compare_lt_iff in E. exfalso. lia.
  - reflexivity.
Qed.

(* ---------------------------------------------------------------- sorted lists *)
Lemma sorted_app : forall l1 l2, sorted (l1 ++ l2) <->
  sorted l1 /\ sorted l2 /\ (forall a b, In a l1 -> In b l2 -> kref_lt a b).
Proof.
  induction l1 as [|x l1 IH]; intros l2; cbn [sorted app].
  - split; [intros H; repeat split; auto; intros a b []|tauto].
  - rewrite IH. rewrite Forall_app. split.
    + intros ((F1 & F2) & S1 & S2 & C). repeat split; auto.
      intros a b [<-|Ha] Hb; [rewrite Forall_forall in F2; now apply F2|now apply C].
    + intros ((F1 & S1) & S2 & C). repeat split; auto.
      * apply Forall_forall. intros b Hb. apply C; [now left|exact Hb].
      * intros a b Ha Hb. apply C; [now right|exact Hb].
Qed.

Lemma sorted_nth_lt : forall l i j a b, sorted l -> (i < j)%nat ->
  nth_error l i = Some a -> nth_error l j = Some b -> kref_lt a b.
Proof.
  induction l as [|x l IH]; intros i j a b S Hij Ha Hb; [destruct i; discriminate|].
  destruct S as (F & S). destruct j as [|j]; [lia|]. cbn [nth_error] in Hb.
  destruct i as [|i]; cbn [nth_error] in Ha.
  - injection Ha as <-. rewrite Forall_forall in F. apply F. eapply nth_error_In; eauto.
  - apply (IH i j a b S); [lia|exact Ha|exact Hb].
Qed.

Lemma sorted_nth_key_le : forall l i j a b, sorted l -> (i <= j)%nat ->
  nth_error l i = Some a -> nth_error l j = Some b -> lex_le (e_key a) (e_key b).
Proof.
  intros l i j a b S Hij Ha Hb. destruct (Nat.eq_dec i j) as [->|Hne].
  - rewrite Ha in Hb. injection Hb as <-. apply lex_le_refl.
  - eapply kref_lt_key_le. eapply (sorted_nth_lt l i j a b); eauto. lia.
Qed.

Lemma sorted_snoc : forall l e, sorted l ->
  (forall a, In a l -> kref_lt a e) -> sorted (l ++ [e]).
Proof.
  intros l e S H. apply sorted_app. split; [exact S|]. split; [cbn; auto|].
  intros a b Ha [<-|[]]. now apply H.
Qed.
