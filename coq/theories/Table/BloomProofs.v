(* Table/BloomProofs.v — the split-block bloom filter has no false negatives, for any hash
   function, any size and any number of insertions; building it never indexes out of range. *)
From Coq Require Import NArith Arith List Bool Lia.
From Blue Require Import Gen.Const_Table Table.ModelBloom.
Import ListNotations.
Open Scope N_scope.

Lemma land_lor_self : forall w m, N.land (N.lor w m) m = m.
Proof.
  intros w m. apply N.bits_inj. intros n. rewrite N.land_spec, N.lor_spec.
  destruct (N.testbit w n), (N.testbit m n); reflexivity.
Qed.

Lemma land_lor_mono : forall w y m, N.land w m = m -> N.land (N.lor w y) m = m.
Proof.
  intros w y m H. apply N.bits_inj. intros n.
  assert (Hn : N.testbit (N.land w m) n = N.testbit m n) by now rewrite H.
  rewrite N.land_spec in Hn. rewrite N.land_spec, N.lor_spec.
  destruct (N.testbit w n), (N.testbit y n), (N.testbit m n); cbn in *; congruence.
Qed.

Definition covers (p : N * N) : bool := N.land (fst p) (snd p) =? snd p.

Lemma check_after_insert : forall b m, forallb covers (combine (map2 N.lor b m) m) = true.
Proof.
  induction b as [|w b IH]; intros [|x m]; cbn [map2 combine forallb]; try reflexivity.
  unfold covers at 1. cbn [fst snd]. rewrite land_lor_self, N.eqb_refl. apply IH.
Qed.

Lemma check_mono : forall b m m', forallb covers (combine b m) = true ->
  forallb covers (combine (map2 N.lor b m') m) = true.
Proof.
  induction b as [|w b IH]; intros m m' H; [reflexivity|].
  destruct m' as [|y m']; [reflexivity|]. destruct m as [|x m]; [reflexivity|].
  cbn [map2 combine forallb] in *. apply andb_true_iff in H as (H1 & H2).
  apply andb_true_iff. split; [|now apply IH].
  unfold covers in *. cbn [fst snd] in *. apply N.eqb_eq in H1. apply N.eqb_eq. now apply land_lor_mono.
Qed.

Lemma fb_check_insert : forall b x, fb_check (fb_insert b x) x = true.
Proof. intros. apply check_after_insert. Qed.

Lemma fb_check_mono : forall b x y, fb_check b x = true -> fb_check (fb_insert b y) x = true.
Proof. intros b x y H. now apply check_mono. Qed.

Lemma update_nth_length : forall {A} (l : list A) i g, length (update_nth l i g) = length l.
Proof. induction l as [|a l IH]; intros [|i] g; cbn [update_nth length]; auto. Qed.

Lemma update_nth_same : forall {A} (l : list A) i g a, nth_error l i = Some a ->
  nth_error (update_nth l i g) i = Some (g a).
Proof.
  induction l as [|a0 l IH]; intros [|i] g a H; cbn [update_nth nth_error] in *; try discriminate.
  - now injection H as ->.
  - now apply IH.
Qed.

Lemma update_nth_other : forall {A} (l : list A) i j g, i <> j ->
  nth_error (update_nth l i g) j = nth_error l j.
Proof.
  induction l as [|a0 l IH]; intros [|i] [|j] g H; cbn [update_nth nth_error]; try reflexivity; try congruence.
  apply IH. congruence.
Qed.

Lemma insert_props : forall f x f', filter_insert f x = Some f' ->
  length f' = length f /\
  filter_check f' x = Some true /\
  (forall y, filter_check f y = Some true -> filter_check f' y = Some true).
Proof.
  intros f x f' H. unfold filter_insert, do_hashing in H.
  set (i := x / W32 * N.of_nat (length f) / W32) in *.
  destruct (N.ltb_spec i (N.of_nat (length f))) as [Hi|Hi]; [|discriminate]. injection H as <-.
  assert (Hlen : length (update_nth f (N.to_nat i) (fun b => fb_insert b (x mod W32))) = length f)
    by apply update_nth_length.
  split; [exact Hlen|].
  destruct (nth_error f (N.to_nat i)) as [b0|] eqn:E; [|apply nth_error_None in E; lia].
  split.
  - unfold filter_check, do_hashing. rewrite Hlen. fold i.
    rewrite (update_nth_same _ _ _ _ E). now rewrite fb_check_insert.
  - intros y Hy. unfold filter_check, do_hashing in *. rewrite Hlen.
    set (j := y / W32 * N.of_nat (length f) / W32) in *.
    destruct (Nat.eq_dec (N.to_nat i) (N.to_nat j)) as [Eij|Nij].
    + rewrite <- Eij in *. rewrite E in Hy. rewrite (update_nth_same _ _ _ _ E).
      injection Hy as Hy. now rewrite fb_check_mono.
    + now rewrite update_nth_other.
Qed.

Theorem insert_all_props : forall xs f f', filter_insert_all f xs = Some f' ->
  length f' = length f /\
  (forall y, filter_check f y = Some true -> filter_check f' y = Some true) /\
  (forall x, In x xs -> filter_check f' x = Some true).
Proof.
  induction xs as [|x xs IH]; intros f f' H; cbn [filter_insert_all] in H.
  - injection H as <-. repeat split; auto. intros x [].
  - destruct (filter_insert f x) as [f1|] eqn:E; [|discriminate].
    destruct (insert_props _ _ _ E) as (L1 & C1 & M1). destruct (IH _ _ H) as (L2 & M2 & A2).
    split; [congruence|]. split; [auto|]. intros y [<-|Hy]; auto.
Qed.

(* for u64 hashes, insertion never indexes out of range (the assert in do_hashing holds) *)
Lemma insert_total : forall f x, f <> [] -> x < W64 -> exists f', filter_insert f x = Some f'.
Proof.
  intros f x Hf Hx. unfold filter_insert, do_hashing.
  assert (Hn : 0 < N.of_nat (length f)) by (destruct f; [congruence|cbn [length]; lia]).
  assert (Hq : x / W32 < W32) by (apply N.div_lt_upper_bound; [discriminate|exact Hx]).
  assert (Hi : x / W32 * N.of_nat (length f) / W32 < N.of_nat (length f)).
  { apply N.div_lt_upper_bound; [discriminate|]. apply N.mul_lt_mono_pos_r; assumption. }
  destruct (N.ltb_spec (x / W32 * N.of_nat (length f) / W32) (N.of_nat (length f))); [eauto|lia].
Qed.

Lemma insert_all_total : forall xs f, f <> [] -> Forall (fun x => x < W64) xs ->
  exists f', filter_insert_all f xs = Some f'.
Proof.
  induction xs as [|x xs IH]; intros f Hf Hx; cbn [filter_insert_all]; [eauto|].
  inversion Hx as [|? ? Hx1 Hx2]; subst.
  destruct (insert_total f x Hf Hx1) as (f1 & E). rewrite E.
  apply IH; [|exact Hx2]. destruct (insert_props _ _ _ E) as (L & _). intros ->. destruct f; [congruence|discriminate].
Qed.

Lemma filter_new_nonempty : forall size, filter_new size <> [].
Proof.
  intros size. unfold filter_new, filter_nblocks.
  generalize (sat_add32 size 7 / 8 / 32). intros q.
  destruct (N.to_nat (q + 1)) eqn:E; [lia|]. discriminate.
Qed.

(* THE BLOOM THEOREM: every key whose hash was handed to the builder passes the filter of the
   sealed table, whatever the hash values, however many keys, whatever bloom_filter_bits *)
Theorem bloom_no_false_negative : forall hashes bits f, filter_build hashes bits = Some f ->
  forall h, In h hashes -> filter_check f h = Some true.
Proof.
  intros hashes bits f H h Hh. unfold filter_build in H.
  destruct (insert_all_props _ _ _ H) as (_ & _ & A). now apply A.
Qed.

Theorem bloom_build_total : forall hashes bits, Forall (fun x => x < W64) hashes ->
  exists f, filter_build hashes bits = Some f /\ f <> [].
Proof.
  intros hashes bits H. unfold filter_build.
  destruct (insert_all_total hashes _ (filter_new_nonempty (sat_mul32 (N.of_nat (length hashes) mod W32) bits)) H) as (f & E).
  exists f. split; [exact E|]. destruct (insert_all_props _ _ _ E) as (L & _).
  intros ->. pose proof (filter_new_nonempty (sat_mul32 (N.of_nat (length hashes) mod W32) bits)) as Hn.
  destruct (filter_new _); [congruence|discriminate].
Qed.
