(* Table/ShapesAgree.v — the message shapes retyped in Table/ModelBytes.v ARE the shapes that
   tools/shapes.py regenerates from the #[derive(Message)] / #[prototk(..)] attributes of
   /repo's sst crate on every run (Gen/Shapes_sst.v): an edit of a field number or a field type in
   the source makes one of these `reflexivity`s fail, which breaks the build of the C10 cone. *)
From Blue Require Import Gen.Shapes_sst Table.ModelBytes.

Lemma kv_put_shape_is_source : kv_put_shape = shape_KeyValuePut. Proof. reflexivity. Qed.
Lemma kv_del_shape_is_source : kv_del_shape = shape_KeyValueDel. Proof. reflexivity. Qed.
Lemma kv_entry_shape_is_source : kv_entry_shape = shape_KeyValueEntry. Proof. reflexivity. Qed.
Lemma block_metadata_shape_is_source : block_metadata_shape = shape_BlockMetadata. Proof. reflexivity. Qed.
Lemma final_block_shape_is_source : final_block_shape = shape_FinalBlock. Proof. reflexivity. Qed.
Lemma sst_entry_shape_is_source : sst_entry_shape = shape_SstEntry. Proof. reflexivity. Qed.

Lemma shapes_are_source :
  kv_put_shape = shape_KeyValuePut /\ kv_del_shape = shape_KeyValueDel /\
  kv_entry_shape = shape_KeyValueEntry /\ block_metadata_shape = shape_BlockMetadata /\
  final_block_shape = shape_FinalBlock /\ sst_entry_shape = shape_SstEntry.
Proof. repeat split. Qed.
