(* Table/BuildSstProofs.v — SstBuilder: the invariant maintained by put/del (data blocks written
   so far, index entries with dividing keys, current block), and what seal + from_file_handle
   yield: a well-formed table (SstCursorProofs.table_wf) over exactly the accepted sequence. *)
From Coq Require Import NArith ZArith List Bool Lia.
From Blue Require Import Gen.Const_Table Table.Model Table.ModelBloom Table.ModelSst Table.Ref
  Table.OrderProofs Table.BlockBase Table.BuildProofs Table.CursorProofs Table.DivideProofs
  Table.BloomProofs Table.SstCursorProofs.
Import ListNotations.
Open Scope N_scope.

(* timestamps seen *)
Definition ts_min (l : list entry) : N := fold_left (fun a e => if e_ts e <? a then e_ts e else a) l U64_MAX.
Definition ts_max (l : list entry) : N := fold_left (fun a e => if a <? e_ts e then e_ts e else a) l 0.

Lemma ts_min_snoc : forall l e, ts_min (l ++ [e]) = (if e_ts e <? ts_min l then e_ts e else ts_min l).
Proof. intros. unfold ts_min. now rewrite fold_left_app. Qed.
Lemma ts_max_snoc : forall l e, ts_max (l ++ [e]) = (if ts_max l <? e_ts e then e_ts e else ts_max l).
Proof. intros. unfold ts_max. now rewrite fold_left_app. Qed.

Section BS.
  Variable enc_size : bentry -> N.
  Hypothesis enc_pos : forall e, 0 < enc_size e.
  Variable meta_enc : N -> N -> bytes.
  Variable meta_dec : bytes -> option (N * N).
  Hypothesis meta_rt : forall s l, meta_dec (meta_enc s l) = Some (s, l).
  Variable sip : bytes -> N.

  (* one flushed data block: dividing key, byte range, the sealed block, its entries *)
  Record brec := { r_key : bytes; r_ts : N; r_start : N; r_limit : N; r_blk : block; r_chunk : list entry }.
  Definition r_entry (r : brec) : entry := (r_key r, r_ts r, Some (meta_enc (r_start r) (r_limit r))).
  Definition r_frame (r : brec) : N * N * frame := (r_start r, r_limit r, FPlain (r_blk r)).
  Definition r_index (r : brec) : bytes * (N * N) := (r_key r, (r_start r, r_limit r)).
  Definition chunks_of (recs : list brec) : list (list entry) := map r_chunk recs.

  Fixpoint recs_ok (recs : list brec) (tail : list entry) (lo : N) : Prop :=
    match recs with
    | [] => True
    | r :: rest =>
        block_wf enc_size (r_blk r) (r_chunk r) /\ r_chunk r <> [] /\
        lo <= r_start r /\ r_start r < r_limit r /\
        (forall e, In e (r_chunk r) -> lex_le (e_key e) (r_key r)) /\
        (forall e, In e (concat (chunks_of rest) ++ tail) -> lex_le (r_key r) (e_key e)) /\
        recs_ok rest tail (r_limit r)
    end.

  Fixpoint recs_end (recs : list brec) (lo : N) : N :=
    match recs with [] => lo | r :: rest => recs_end rest (r_limit r) end.

  Lemma recs_end_ge : forall recs tail lo, recs_ok recs tail lo -> lo <= recs_end recs lo.
  Proof.
    induction recs as [|r rest IH]; intros tail lo H; cbn [recs_end]; [lia|].
    destruct H as (_ & _ & H1 & H2 & _ & _ & H3). specialize (IH _ _ H3). lia.
  Qed.

  Lemma recs_start_ge : forall recs tail lo r, recs_ok recs tail lo -> In r recs -> lo <= r_start r.
  Proof.
    induction recs as [|r0 rest IH]; intros tail lo r H Hin; [destruct Hin|].
    destruct H as (_ & _ & H1 & H2 & _ & _ & H3). destruct Hin as [<-|Hin]; [exact H1|].
    specialize (IH _ _ _ H3 Hin). lia.
  Qed.

  Lemma recs_limit_le : forall recs tail lo r, recs_ok recs tail lo -> In r recs -> r_limit r <= recs_end recs lo.
  Proof.
    induction recs as [|r0 rest IH]; intros tail lo r H Hin; [destruct Hin|]. cbn [recs_end].
    destruct H as (_ & _ & H1 & H2 & _ & _ & H3). destruct Hin as [<-|Hin].
    - apply (recs_end_ge _ _ _ H3).
    - now apply (IH tail).
  Qed.

  Lemma recs_end_app : forall recs r lo, recs_end (recs ++ [r]) lo = r_limit r.
  Proof. induction recs as [|r0 rest IH]; intros r lo; cbn [app recs_end]; [reflexivity|apply IH]. Qed.

  (* the dividing keys are below every later entry, in particular below the tail *)
  Lemma recs_keys_le : forall recs tail lo r e, recs_ok recs tail lo -> In r recs -> In e tail ->
    lex_le (r_key r) (e_key e).
  Proof.
    induction recs as [|r0 rest IH]; intros tail lo r e H Hr He; [destruct Hr|].
    destruct H as (_ & _ & _ & _ & _ & Hhi & H3). destruct Hr as [<-|Hr].
    - apply Hhi. apply in_or_app. now right.
    - eapply IH; eauto.
  Qed.

  Lemma recs_ok_tail_snoc : forall recs tail lo e, recs_ok recs tail lo ->
    (forall r, In r recs -> lex_le (r_key r) (e_key e)) -> recs_ok recs (tail ++ [e]) lo.
  Proof.
    induction recs as [|r0 rest IH]; intros tail lo e H Hle; [exact I|].
    destruct H as (H0 & Hn & H1 & H2 & Hlo & Hhi & H3). cbn [recs_ok].
    split; [exact H0|]. split; [exact Hn|]. split; [exact H1|]. split; [exact H2|]. split; [exact Hlo|]. split.
    - intros e' He'. rewrite app_assoc in He'. apply in_app_or in He' as [He'|[<-|[]]].
      + now apply Hhi.
      + apply Hle. now left.
    - apply IH; [exact H3|]. intros r Hr. apply Hle. now right.
  Qed.

  Lemma chunks_of_app : forall a b, chunks_of (a ++ b) = chunks_of a ++ chunks_of b.
  Proof. intros. unfold chunks_of. apply map_app. Qed.

  (* flushing the tail as a new block *)
  Lemma recs_ok_flush : forall recs tail lo r, recs_ok recs tail lo ->
    r_chunk r = tail -> block_wf enc_size (r_blk r) tail -> tail <> [] ->
    recs_end recs lo <= r_start r -> r_start r < r_limit r ->
    (forall e, In e tail -> lex_le (e_key e) (r_key r)) ->
    recs_ok (recs ++ [r]) [] lo.
  Proof.
    induction recs as [|r0 rest IH]; intros tail lo r H Hc Hw Hn Hs Hl Hlo.
    - cbn [app recs_ok recs_end] in *. rewrite Hc.
      split; [exact Hw|]. split; [exact Hn|]. split; [exact Hs|]. split; [exact Hl|]. split; [exact Hlo|].
      split; [intros e []|exact I].
    - destruct H as (H0 & Hn0 & H1 & H2 & Hlo0 & Hhi0 & H3). cbn [app recs_ok recs_end] in *.
      split; [exact H0|]. split; [exact Hn0|]. split; [exact H1|]. split; [exact H2|]. split; [exact Hlo0|]. split.
      + intros e He. rewrite app_nil_r, chunks_of_app, concat_app in He. cbn [chunks_of map concat] in He.
        rewrite app_nil_r, Hc in He. now apply Hhi0.
      + eapply IH; eauto.
  Qed.

  Lemma recs_nth : forall recs tail lo j r, recs_ok recs tail lo -> nth_error recs j = Some r ->
    block_wf enc_size (r_blk r) (r_chunk r) /\ r_chunk r <> [] /\ r_start r < r_limit r /\
    (forall e, In e (r_chunk r) -> lex_le (e_key e) (r_key r)) /\
    (forall j' r' e, (j < j')%nat -> nth_error recs j' = Some r' -> In e (r_chunk r') -> lex_le (r_key r) (e_key e)).
  Proof.
    induction recs as [|r0 rest IH]; intros tail lo j r H Hj; [destruct j; discriminate|].
    destruct H as (H0 & Hn0 & H1 & H2 & Hlo0 & Hhi0 & H3).
    destruct j as [|j]; cbn [nth_error] in Hj.
    - injection Hj as <-. split; [exact H0|]. split; [exact Hn0|]. split; [exact H2|]. split; [exact Hlo0|].
      intros j' r' e Hj' Hr' He. destruct j' as [|j']; [lia|].
      cbn [nth_error] in Hr'. apply Hhi0. apply in_or_app. left.
      apply in_concat. exists (r_chunk r'). split; [|exact He]. unfold chunks_of. apply in_map.
      eapply nth_error_In; eauto.
    - destruct (IH _ _ _ _ H3 Hj) as (A & B & C & D & E).
      split; [exact A|]. split; [exact B|]. split; [exact C|]. split; [exact D|].
      intros j' r' e Hj' Hr' He. destruct j' as [|j']; [lia|]. cbn [nth_error] in Hr'.
      apply (E j' r' e); [lia|exact Hr'|exact He].
  Qed.

  (* reading a data block back from the frames *)
  Lemma find_frame_rec : forall recs tail lo extra j r, recs_ok recs tail lo -> nth_error recs j = Some r ->
    find_frame (map r_frame recs ++ extra) (r_start r, r_limit r) = Some (FPlain (r_blk r)).
  Proof.
    induction recs as [|r0 rest IH]; intros tail lo extra j r H Hj; [destruct j; discriminate|].
    pose proof H as (H0 & Hn0 & H1 & H2 & Hlo0 & Hhi0 & H3).
    destruct j as [|j]; cbn [nth_error] in Hj.
    - injection Hj as <-. unfold find_frame. cbn [map app find r_frame fst snd]. now rewrite !N.eqb_refl.
    - pose proof (recs_start_ge _ _ _ r H3 (nth_error_In _ _ Hj)) as Hge.
      destruct (recs_nth _ _ _ _ _ H3 Hj) as (_ & _ & Hsl & _).
      unfold find_frame in *. cbn [map app find r_frame fst snd].
      destruct (N.eqb_spec (r_limit r0) (r_limit r)) as [E|_]; [lia|]. rewrite andb_false_r.
      exact (IH tail _ extra j r H3 Hj).
  Qed.

  Lemma find_frame_skip : forall recs tail lo extra m, recs_ok recs tail lo ->
    recs_end recs lo < snd m -> find_frame (map r_frame recs ++ extra) m = find_frame extra m.
  Proof.
    induction recs as [|r0 rest IH]; intros tail lo extra m H Hm; [reflexivity|].
    pose proof H as (H0 & Hn0 & H1 & H2 & Hlo0 & Hhi0 & H3). cbn [recs_end] in Hm.
    pose proof (recs_end_ge _ _ _ H3).
    unfold find_frame in *. cbn [map app find r_frame fst snd].
    destruct (N.eqb_spec (r_limit r0) (snd m)) as [E|_]; [lia|]. rewrite andb_false_r.
    exact (IH tail _ extra m H3 Hm).
  Qed.

  (* ------------------------------------------------------------ the SstBuilder invariant *)
  Definition all_of (recs : list brec) (cur : list entry) : list entry := concat (chunks_of recs) ++ cur.

  (* the builder's `last` when nothing has been accepted yet: (empty key, u64::MAX) for a fresh
     SstBuilder, the last key of the previous table for one started by the multi-builder *)
  Variable init : bytes * N.

  Definition last_from (l : list entry) : bytes * N := match l with [] => init | _ => last_kt l end.

  Lemma last_from_snoc : forall l e, last_from (l ++ [e]) = (e_key e, e_ts e).
  Proof. intros. unfold last_from. rewrite last_kt_snoc. destruct l; reflexivity. Qed.

  Lemma last_from_nonempty : forall l, l <> [] -> last_from l = last_kt l.
  Proof. intros [|a l] H; [congruence|reflexivity]. Qed.

  (* everything except the current block *)
  Record spre (b : sbuilder) (recs : list brec) (cur : list entry) : Prop := {
    sp_last : (sb_last_key b, sb_last_ts b) = last_from (all_of recs cur);
    sp_sorted : sorted (all_of recs cur);
    sp_keys : keys_ok (all_of recs cur);
    sp_recs : recs_ok recs cur 0;
    sp_written : sb_written b = recs_end recs 0;
    sp_frames : sb_frames b = map r_frame recs;
    sp_index : binv enc_size (sb_index b) (map r_entry recs);
    sp_filter : sb_filter b = map (fun e => defer_insert sip (e_key e)) (all_of recs cur);
    sp_setsum : sb_setsum b = all_of recs cur;
    sp_small : sb_smallest b = ts_min (all_of recs cur);
    sp_big : sb_biggest b = ts_max (all_of recs cur) }.

  Definition sinv (b : sbuilder) (recs : list brec) (cur : list entry) : Prop :=
    spre b recs cur /\
    match sb_block b with
    | Some bb => binv enc_size bb cur /\ cur <> []
    | None => cur = [] /\ recs = []
    end.

  Lemma last_kt_nonempty : forall l, l <> [] ->
    last_kt l = (e_key (last l dummy_entry), e_ts (last l dummy_entry)).
  Proof. intros [|a l] H; [congruence|reflexivity]. Qed.

  Lemma kref_le_key_le : forall k1 t1 k2 t2, kref_cmp k1 t1 k2 t2 <> Gt -> lex_le k1 k2.
  Proof.
    intros k1 t1 k2 t2 H. unfold kref_cmp in H. unfold lex_le. destruct (lex_cmp k1 k2); congruence.
  Qed.

  Lemma all_of_flush : forall recs r cur, r_chunk r = cur -> all_of (recs ++ [r]) [] = all_of recs cur.
  Proof.
    intros recs r cur H. unfold all_of. rewrite chunks_of_app, concat_app. cbn [chunks_of map concat].
    now rewrite !app_nil_r, H.
  Qed.

  Lemma in_all_of_cur : forall recs cur e, In e cur -> In e (all_of recs cur).
  Proof. intros. unfold all_of. apply in_or_app. now right. Qed.

  (* flush_block *)
  Lemma flush_inv : forall b recs cur bb key ts b2, spre b recs cur -> sb_block b = Some bb ->
    binv enc_size bb cur -> cur <> [] -> bytes_ok key ->
    sb_flush_block enc_size meta_enc b key ts = Ok b2 ->
    kref_cmp (sb_last_key b) (sb_last_ts b) key ts = Lt ->
    exists r, r_chunk r = cur /\ spre b2 (recs ++ [r]) [] /\ sb_block b2 = None /\ sb_opts b2 = sb_opts b /\
              kref_cmp (r_key r) (r_ts r) key ts = Lt /\
              kref_cmp (sb_last_key b) (sb_last_ts b) (r_key r) (r_ts r) <> Gt.
  Proof.
    intros b recs cur bb key ts b2 P Hb I Hne Hk H Hlt. unfold sb_flush_block in H. rewrite Hb in H.
    set (blk := bb_seal enc_size bb) in *. set (start := sb_written b) in *.
    set (limit := start + frame_len (block_len blk)) in *.
    unfold meta_sanity in H. cbn [fst snd] in H.
    destruct (N.leb_spec limit start) as [|Hsl]; cbn [bind] in H; [discriminate|].
    destruct (divide_keys_between _ _ _ _ Hk Hlt) as (d & dt & Hd & Hd1 & Hd2 & _).
    rewrite Hd in H. cbn [bind fst snd] in H.
    destruct (bb_add enc_size (sb_index b) (d, dt, Some (meta_enc start limit))) as [idx|] eqn:EA; cbn [bind] in H; [|discriminate].
    injection H as <-.
    destruct P as [Plast Psorted Pkeys Precs Pwritten Pframes Pindex Pfilter Psetsum Psmall Pbig].
    set (r := {| r_key := d; r_ts := dt; r_start := start; r_limit := limit; r_blk := blk; r_chunk := cur |}).
    exists r. split; [reflexivity|].
    assert (Hall : all_of (recs ++ [r]) [] = all_of recs cur) by (apply all_of_flush; reflexivity).
    assert (Hlastall : last_from (all_of recs cur) = last_kt (all_of recs cur)).
    { unfold last_from. destruct (all_of recs cur) eqn:E; [|reflexivity].
      exfalso. apply Hne. unfold all_of in E. now apply app_eq_nil in E as [_ E]. }
    split; [|cbn [sb_block sb_opts r_key r_ts r]; repeat split; auto].
    constructor; cbn [sb_last_key sb_last_ts sb_written sb_frames sb_index sb_filter sb_setsum sb_smallest sb_biggest];
      rewrite ?Hall; auto.
    - (* recs_ok *)
      apply (recs_ok_flush recs cur 0 r Precs eq_refl); cbn [r_blk r_start r_limit r_key r]; auto.
      + now apply binv_seal.
      + unfold start. rewrite Pwritten. lia.
      + intros e0 He0.
        pose proof (kref_le_key_le _ _ _ _ Hd1) as Hle.
        rewrite Hlastall in Plast.
        assert (Hk0 : lex_le (e_key e0) (sb_last_key b)).
        { change (sb_last_key b) with (fst (sb_last_key b, sb_last_ts b)). rewrite Plast.
          assert (Hne' : all_of recs cur <> []).
          { intros E. apply Hne. unfold all_of in E. now apply app_eq_nil in E as [_ E]. }
          rewrite (last_kt_nonempty _ Hne'). cbn [fst].
          destruct (sorted_last_max _ e0 Psorted (in_all_of_cur recs cur e0 He0)) as [->|L].
          - apply lex_le_refl.
          - unfold kref_lt in L. now apply kref_lt_key_le in L. }
        eapply lex_le_trans; eauto.
    - unfold r. cbn [recs_end]. now rewrite recs_end_app.
    - rewrite map_app. cbn [map r_frame r_start r_limit r_blk r]. now rewrite Pframes.
    - rewrite map_app. cbn [map r_entry r_key r_ts r_start r_limit r].
      exact (proj1 (bb_add_inv enc_size enc_pos _ _ _ _ Pindex EA)).
  Qed.

  (* the tail of put / del: the block builder takes the entry, the SstBuilder records it *)
  Lemma finish_inv : forall b recs cur bb e bb1, spre b recs cur -> sb_block b = Some bb ->
    binv enc_size bb cur -> bb_add enc_size bb e = Ok bb1 ->
    sorted (all_of recs cur ++ [e]) -> bytes_ok (e_key e) ->
    (forall r, In r recs -> lex_le (r_key r) (e_key e)) ->
    sinv {| sb_opts := sb_opts b; sb_last_key := e_key e; sb_last_ts := e_ts e;
            sb_block := Some bb1; sb_block_start := sb_block_start b;
            sb_written := sb_written b; sb_index := sb_index b;
            sb_filter := sb_filter b ++ [defer_insert sip (e_key e)];
            sb_setsum := sb_setsum b ++ [e];
            sb_smallest := (if e_ts e <? sb_smallest b then e_ts e else sb_smallest b);
            sb_biggest := (if sb_biggest b <? e_ts e then e_ts e else sb_biggest b);
            sb_frames := sb_frames b |} recs (cur ++ [e]).
  Proof.
    intros b recs cur bb e bb1 P Hb I HA Hs Hk Hle.
    destruct P as [Plast Psorted Pkeys Precs Pwritten Pframes Pindex Pfilter Psetsum Psmall Pbig].
    assert (Hall : all_of recs (cur ++ [e]) = all_of recs cur ++ [e]) by (unfold all_of; now rewrite app_assoc).
    split.
    - constructor; cbn [sb_last_key sb_last_ts sb_written sb_frames sb_index sb_filter sb_setsum sb_smallest sb_biggest];
        rewrite ?Hall; auto.
      + now rewrite last_from_snoc.
      + unfold keys_ok. apply Forall_app. split; [exact Pkeys|]. constructor; [exact Hk|constructor].
      + now apply recs_ok_tail_snoc.
      + rewrite map_app, Pfilter. reflexivity.
      + now rewrite Psetsum.
      + now rewrite ts_min_snoc, Psmall.
      + now rewrite ts_max_snoc, Pbig.
    - cbn [sb_block]. split; [exact (proj1 (bb_add_inv enc_size enc_pos _ _ _ _ I HA))|].
      intros E. now apply app_eq_nil in E as [_ E].
  Qed.

  Lemma start_new_block_ok : forall b, sb_block b = None ->
    exists b1, sb_start_new_block b = Ok b1 /\ sb_block b1 = Some (bb_new (so_block (sb_opts b))) /\
      sb_opts b1 = sb_opts b /\ sb_last_key b1 = sb_last_key b /\ sb_last_ts b1 = sb_last_ts b /\
      sb_written b1 = sb_written b /\ sb_index b1 = sb_index b /\ sb_filter b1 = sb_filter b /\
      sb_setsum b1 = sb_setsum b /\ sb_smallest b1 = sb_smallest b /\ sb_biggest b1 = sb_biggest b /\
      sb_frames b1 = sb_frames b.
  Proof. intros b H. unfold sb_start_new_block. rewrite H. eexists. split; [reflexivity|]. cbn. repeat split. Qed.

  Lemma spre_transfer : forall b b1 recs cur, spre b recs cur ->
    sb_last_key b1 = sb_last_key b -> sb_last_ts b1 = sb_last_ts b ->
    sb_written b1 = sb_written b -> sb_index b1 = sb_index b -> sb_filter b1 = sb_filter b ->
    sb_setsum b1 = sb_setsum b -> sb_smallest b1 = sb_smallest b -> sb_biggest b1 = sb_biggest b ->
    sb_frames b1 = sb_frames b -> spre b1 recs cur.
  Proof.
    intros b b1 recs cur [] E1 E2 E3 E4 E5 E6 E7 E8 E9.
    constructor; rewrite ?E1, ?E2, ?E3, ?E4, ?E5, ?E6, ?E7, ?E8, ?E9; auto.
  Qed.

  (* one accepted put / del of the SstBuilder *)
  Lemma sb_add_inv : forall b recs cur e b1, sinv b recs cur -> bytes_ok (e_key e) ->
    sb_add enc_size meta_enc sip b e = Ok b1 ->
    exists recs1 cur1, sinv b1 recs1 cur1 /\ all_of recs1 cur1 = all_of recs cur ++ [e] /\
                       sb_opts b1 = sb_opts b /\
                       kref_cmp (fst (last_from (all_of recs cur))) (snd (last_from (all_of recs cur))) (e_key e) (e_ts e) = Lt /\
                       ((recs1 = recs /\ cur1 = cur ++ [e]) \/
                        (exists r, recs1 = recs ++ [r] /\ cur1 = [e] /\ r_chunk r = cur /\
                                   kref_cmp (r_key r) (r_ts r) (e_key e) (e_ts e) = Lt /\
                                   kref_cmp (sb_last_key b) (sb_last_ts b) (r_key r) (r_ts r) <> Gt)).
  Proof.
    intros b recs cur e b1 (P & B) Hk H. unfold sb_add in H.
    destruct (sb_precheck enc_size b e) as [[]|] eqn:EP; cbn [bind] in H; [|discriminate].
    assert (Hlt : kref_cmp (sb_last_key b) (sb_last_ts b) (e_key e) (e_ts e) = Lt).
    { unfold sb_precheck in EP.
      destruct (check_key_len (e_key e)) as [[]|]; cbn [bind] in EP; [|discriminate].
      destruct (match e_val e with Some v => check_value_len v | None => Ok tt end) as [[]|]; cbn [bind] in EP; [|discriminate].
      destruct (check_table_size (sb_approx_size enc_size b)) as [[]|]; cbn [bind] in EP; [|discriminate].
      unfold sb_enforce_sort_order in EP.
      destruct (kref_cmp (sb_last_key b) (sb_last_ts b) (e_key e) (e_ts e)); try discriminate. reflexivity. }
    pose proof (sp_last _ _ _ P) as Plast.
    assert (Hlt' : kref_cmp (fst (last_from (all_of recs cur))) (snd (last_from (all_of recs cur))) (e_key e) (e_ts e) = Lt)
      by (rewrite <- Plast; exact Hlt).
    assert (Hsorted : sorted (all_of recs cur ++ [e])).
    { apply sorted_snoc_last; [apply (sp_sorted _ _ _ P)|].
      destruct (all_of recs cur) as [|a0 l0] eqn:E; [now left|right].
      unfold last_from, last_kt in Hlt'. cbn [fst snd] in Hlt'. exact Hlt'. }
    (* entries of the current block are below e, hence every dividing key is *)
    assert (Hcur_le : forall e0, In e0 cur -> lex_le (e_key e0) (e_key e)).
    { intros e0 He0. apply sorted_app in Hsorted as (_ & _ & C).
      apply (kref_lt_key_le _ (e_ts e0) _ (e_ts e)). apply (C e0 e); [now apply in_all_of_cur|now left]. }
    destruct (sb_get_block enc_size meta_enc b (e_key e) (e_ts e)) as [b'|] eqn:EG; cbn [bind] in H; [|discriminate].
    unfold sb_get_block in EG.
    destruct (sb_block b) as [bb|] eqn:Eb.
    - destruct B as (I & Hne).
      destruct (so_tbs (sb_opts b) <? bb_approx_size enc_size bb) eqn:Ecut.
      + (* flush the current block, start a new one *)
        destruct (sb_flush_block enc_size meta_enc b (e_key e) (e_ts e)) as [b2|] eqn:EF; cbn [bind] in EG; [|discriminate].
        destruct (flush_inv b recs cur bb _ _ b2 P Eb I Hne Hk EF Hlt) as (r & Hr & P2 & Hb2 & Ho2 & Hrlt & Hrle).
        destruct (start_new_block_ok b2 Hb2) as (b3 & E3 & Hb3 & Ho3 & F1 & F2 & F3 & F4 & F5 & F6 & F7 & F8 & F9).
        rewrite E3 in EG. injection EG as <-. rewrite Hb3 in H.
        destruct (bb_add enc_size (bb_new (so_block (sb_opts b2))) e) as [bb1|] eqn:EA; cbn [bind] in H; [|discriminate].
        injection H as <-.
        pose proof (spre_transfer b2 b3 _ _ P2 F1 F2 F3 F4 F5 F6 F7 F8 F9) as P3.
        exists (recs ++ [r]), ([] ++ [e]). split; [|split; [|split; [|split]]].
        * apply (finish_inv b3 (recs ++ [r]) [] _ e bb1 P3 Hb3 (binv_new enc_size _) EA); auto.
          -- now rewrite (all_of_flush recs r cur Hr).
          -- intros r' Hr'. apply in_app_or in Hr' as [Hr'|[<-|[]]].
             ++ destruct cur as [|e0 cur'] eqn:Ec; [congruence|].
                eapply lex_le_trans; [apply (recs_keys_le recs (e0 :: cur') 0 r' e0 (sp_recs _ _ _ P) Hr'); now left|].
                apply Hcur_le. now left.
             ++ now apply kref_lt_key_le in Hrlt.
        * unfold all_of at 1. rewrite app_assoc. fold (all_of (recs ++ [r]) []).
          now rewrite (all_of_flush recs r cur Hr).
        * cbn [sb_opts]. congruence.
        * exact Hlt'.
        * right. exists r. repeat split; auto.
      + (* the entry goes to the current block *)
        injection EG as <-. rewrite Eb in H.
        destruct (bb_add enc_size bb e) as [bb1|] eqn:EA; cbn [bind] in H; [|discriminate].
        injection H as <-. exists recs, (cur ++ [e]). split; [|split; [|split; [|split]]].
        * apply (finish_inv b recs cur bb e bb1 P Eb I EA); auto.
          intros r' Hr'. destruct cur as [|e0 cur'] eqn:Ec; [congruence|].
          eapply lex_le_trans; [apply (recs_keys_le recs (e0 :: cur') 0 r' e0 (sp_recs _ _ _ P) Hr'); now left|].
          apply Hcur_le. now left.
        * unfold all_of. now rewrite app_assoc.
        * reflexivity.
        * exact Hlt'.
        * left. auto.
    - (* the very first entry: no block yet *)
      destruct B as (-> & ->).
      destruct (start_new_block_ok b Eb) as (b3 & E3 & Hb3 & Ho3 & F1 & F2 & F3 & F4 & F5 & F6 & F7 & F8 & F9).
      rewrite E3 in EG. injection EG as <-. rewrite Hb3 in H.
      destruct (bb_add enc_size (bb_new (so_block (sb_opts b))) e) as [bb1|] eqn:EA; cbn [bind] in H; [|discriminate].
      injection H as <-.
      pose proof (spre_transfer b b3 _ _ P F1 F2 F3 F4 F5 F6 F7 F8 F9) as P3.
      exists [], ([] ++ [e]). split; [|split; [|split; [|split]]].
      + apply (finish_inv b3 [] [] _ e bb1 P3 Hb3 (binv_new enc_size _) EA); auto. intros r' [].
      + reflexivity.
      + cbn [sb_opts]. congruence.
      + exact Hlt'.
      + left. auto.
  Qed.

  Lemma sb_add_all_inv : forall es b recs cur b1, sinv b recs cur -> keys_ok es ->
    sb_add_all enc_size meta_enc sip b es = Ok b1 ->
    exists recs1 cur1, sinv b1 recs1 cur1 /\ all_of recs1 cur1 = all_of recs cur ++ es /\ sb_opts b1 = sb_opts b.
  Proof.
    induction es as [|e es IH]; intros b recs cur b1 I Hk H; cbn [sb_add_all] in H.
    - injection H as <-. exists recs, cur. rewrite app_nil_r. auto.
    - destruct (sb_add enc_size meta_enc sip b e) as [b2|] eqn:A; cbn [bind] in H; [|discriminate].
      inversion Hk as [|? ? Hk1 Hk2]; subst.
      destruct (sb_add_inv _ _ _ _ _ I Hk1 A) as (recs2 & cur2 & I2 & E2 & O2 & _).
      destruct (IH _ _ _ _ I2 Hk2 H) as (recs3 & cur3 & I3 & E3 & O3).
      exists recs3, cur3. split; [exact I3|]. split; [|congruence]. rewrite E3, E2, <- app_assoc. reflexivity.
  Qed.

  (* ------------------------------------------------------------ reading the index back *)
  Lemma skipn_nth_cons : forall {A} (l : list A) n x, nth_error l n = Some x -> skipn n l = x :: skipn (S n) l.
  Proof.
    induction l as [|a l IH]; intros [|n] x H; cbn [nth_error skipn] in *; try discriminate.
    - now injection H as ->.
    - now apply IH.
  Qed.

  Lemma index_loop_ok : forall recs iblk, block_wf enc_size iblk (map r_entry recs) ->
    forall k fuel c n acc, R enc_size iblk (map r_entry recs) c (Z.of_nat n) -> (n + k = length recs)%nat ->
    (k < fuel)%nat ->
    index_loop enc_size meta_dec fuel iblk c acc = Ok (acc ++ map r_index (skipn n recs)).
  Proof.
    intros recs iblk W. induction k as [|k IH]; intros fuel c n acc HR Hn Hf; (destruct fuel as [|f]; [lia|]);
      cbn [index_loop]; rewrite (R_kv _ _ _ _ _ HR); unfold ref_kv, zlen; rewrite map_length.
    - destruct (Z.ltb_spec (Z.of_nat n) (Z.of_nat (length recs))); [lia|]. rewrite andb_false_r.
      rewrite skipn_all2 by lia. cbn [map]. now rewrite app_nil_r.
    - destruct (Z.leb_spec 0 (Z.of_nat n)); [|lia].
      destruct (Z.ltb_spec (Z.of_nat n) (Z.of_nat (length recs))); [|lia]. cbn [andb]. rewrite Nat2Z.id.
      destruct (nth_error recs n) as [r|] eqn:Er; [|apply nth_error_None in Er; lia].
      rewrite (map_nth_error r_entry _ _ Er). unfold metadata_from_kv. cbn [r_entry e_val e_key fst snd].
      rewrite meta_rt. cbn [bind].
      destruct (next_sim enc_size enc_pos iblk _ W c _ HR) as (c1 & -> & R1). cbn [bind].
      replace (Z.min (Z.of_nat n + 1) (zlen (map r_entry recs))) with (Z.of_nat (S n)) in R1
        by (unfold zlen; rewrite map_length; lia).
      rewrite (IH f c1 (S n) _ R1) by lia.
      rewrite (skipn_nth_cons _ _ _ Er). cbn [map r_index]. now rewrite <- app_assoc.
  Qed.

  Lemma load_index_ok : forall recs iblk, block_wf enc_size iblk (map r_entry recs) ->
    length (bl_entries iblk) = length recs ->
    load_index_entries enc_size meta_dec iblk = Ok (map r_index recs).
  Proof.
    intros recs iblk W Hl. unfold load_index_entries.
    destruct (next_sim enc_size enc_pos iblk _ W (bc_first bc_new) (-1)
                (R_first enc_size iblk _ bc_new (-1) (R_new enc_size iblk _))) as (c1 & -> & R1). cbn [bind].
    destruct recs as [|r0 recs'] eqn:Er.
    - replace (Z.min (-1 + 1) (zlen (map r_entry []))) with (Z.of_nat 0) in R1 by reflexivity.
      rewrite (index_loop_ok [] iblk W 0 _ c1 0 [] R1); auto. rewrite Hl. cbn. lia.
    - replace (Z.min (-1 + 1) (zlen (map r_entry (r0 :: recs')))) with (Z.of_nat 0) in R1
        by (unfold zlen; cbn [map length]; lia).
      rewrite (index_loop_ok (r0 :: recs') iblk W (length (r0 :: recs')) _ c1 0 [] R1); auto. rewrite Hl. lia.
  Qed.

  (* ------------------------------------------------------------ seal *)
  (* what the sealed table says about itself *)
  Record sealed_facts (t : sst) (all : list entry) : Prop := {
    sf_setsum : fb_setsum (t_final t) = all;
    sf_small : fb_smallest (t_final t) = (if ts_max all <? ts_min all then 0 else ts_min all);
    sf_big : fb_biggest (t_final t) = (if ts_max all <? ts_min all then 0 else ts_max all);
    sf_filter : forall e, In e all -> filter_check (t_filter t) (defer_insert sip (e_key e)) = Some true;
    sf_size : t_file_size t = fb_offset (t_final t) + final_len (t_final t);
    sf_filter_ne : t_filter t <> [];
    sf_fuel : (length all + 2 <= load_fuel t)%nat }.

  Lemma frames_fuel : forall recs tail lo extra, recs_ok recs tail lo ->
    (length (concat (chunks_of recs)) <=
     fold_right (fun (x : N * N * frame) acc => match snd x with FPlain b => (length (bl_entries b) + acc)%nat | _ => acc end)
                O (map r_frame recs ++ extra))%nat.
  Proof.
    induction recs as [|r0 rest IH]; intros tail lo extra H; cbn [chunks_of map concat app fold_right length]; [lia|].
    destruct H as (H0 & _ & _ & _ & _ & _ & H3). cbn [r_frame snd]. rewrite app_length.
    specialize (IH tail _ extra H3). unfold chunks_of in IH.
    assert (length (bl_entries (r_blk r0)) = length (r_chunk r0)).
    { rewrite <- (wf_decode _ _ _ H0). now rewrite decode_length. }
    lia.
  Qed.

  Theorem sb_seal_wf : forall b recs cur t, sinv b recs cur ->
    sb_seal enc_size meta_enc meta_dec b = Ok t ->
    exists recs1, table_wf enc_size t (chunks_of recs1) /\ concat (chunks_of recs1) = all_of recs cur /\
                  sealed_facts t (all_of recs cur).
  Proof.
    intros b recs cur t (P & B) H. unfold sb_seal in H.
    (* after the final flush: nothing pending *)
    assert (Hflush : exists b1 recs1,
      (match sb_block b with
       | Some _ => let '(k, t0) := minimal_successor_key (sb_last_key b) (sb_last_ts b) in
                   sb_flush_block enc_size meta_enc b k t0
       | None => Ok b end) = Ok b1 /\ spre b1 recs1 [] /\ all_of recs1 [] = all_of recs cur /\ sb_opts b1 = sb_opts b).
    { destruct (sb_block b) as [bb|] eqn:Eb.
      - destruct B as (I & Hne).
        destruct (minimal_successor_key (sb_last_key b) (sb_last_ts b)) as [k t0] eqn:Em.
        destruct (sb_flush_block enc_size meta_enc b k t0) as [b1|] eqn:EF; cbn [bind] in H; [|discriminate].
        assert (Hk : bytes_ok k).
        { replace k with (fst (minimal_successor_key (sb_last_key b) (sb_last_ts b))) by now rewrite Em.
          apply minimal_successor_bytes_ok.
          change (sb_last_key b) with (fst (sb_last_key b, sb_last_ts b)). rewrite (sp_last _ _ _ P).
          assert (Hne' : all_of recs cur <> []).
          { intros E. apply Hne. unfold all_of in E. now apply app_eq_nil in E as [_ E]. }
          rewrite (last_from_nonempty _ Hne'), (last_kt_nonempty _ Hne'). cbn [fst].
          pose proof (sp_keys _ _ _ P) as K. unfold keys_ok in K. rewrite Forall_forall in K. apply K.
          destruct (exists_last Hne') as (l' & z & ->). rewrite last_last. apply in_or_app. right. now left. }
        assert (Hlt : kref_cmp (sb_last_key b) (sb_last_ts b) k t0 = Lt).
        { pose proof (minimal_successor_gt (sb_last_key b) (sb_last_ts b)) as G. now rewrite Em in G. }
        destruct (flush_inv b recs cur bb k t0 b1 P Eb I Hne Hk EF Hlt) as (r & Hr & P2 & Hb2 & Ho2 & _ & _).
        exists b1, (recs ++ [r]). split; [reflexivity|]. split; [exact P2|]. split; [|exact Ho2].
        now apply all_of_flush.
      - destruct B as (-> & ->). exists b, []. split; [reflexivity|]. split; [exact P|]. split; reflexivity. }
    destruct Hflush as (b1 & recs1 & E1 & P1 & Hall & Ho1). rewrite E1 in H. cbn [bind] in H.
    destruct P1 as [Plast Psorted Pkeys Precs Pwritten Pframes Pindex Pfilter Psetsum Psmall Pbig].
    rewrite Hall in *.
    set (iblk := bb_seal enc_size (sb_index b1)) in *.
    set (istart := sb_written b1) in *. set (ilimit := istart + frame_len (block_len iblk)) in *.
    destruct (filter_build (sb_filter b1) (so_bits (sb_opts b1))) as [flt|] eqn:EFl; [|discriminate].
    set (flimit := ilimit + frame_len (filter_bytes_len flt)) in *.
    destruct (if sb_biggest b1 <? sb_smallest b1 then (0, 0) else (sb_smallest b1, sb_biggest b1)) as [sm bg] eqn:Ets.
    unfold sst_open in H. cbn [fb_index fb_filter fb_offset] in H.
    unfold meta_sanity in H. cbn [fst snd] in H.
    destruct (N.leb_spec ilimit istart) as [|Hil]; cbn [bind] in H; [discriminate|].
    destruct (N.leb_spec flimit ilimit) as [|Hfl]; cbn [bind] in H; [discriminate|].
    destruct (ilimit <? ilimit); [discriminate|]. destruct (flimit <? flimit); [discriminate|].
    (* the index block is read back *)
    assert (Wi : block_wf enc_size iblk (map r_entry recs1)) by (apply binv_seal; exact Pindex).
    unfold load_block in H at 1. unfold meta_sanity in H. cbn [fst snd] in H.
    destruct (N.leb_spec ilimit istart); [lia|]. cbn [bind] in H.
    rewrite Pframes in H.
    rewrite (find_frame_skip recs1 [] 0 _ (istart, ilimit) Precs) in H by (cbn [snd]; unfold istart in *; rewrite Pwritten in *; lia).
    unfold find_frame in H at 1. cbn [find fst snd] in H. rewrite !N.eqb_refl in H. cbn [andb snd bind] in H.
    assert (Hlen : length (bl_entries iblk) = length recs1).
    { rewrite <- (map_length r_entry recs1), <- (wf_decode _ _ _ Wi). now rewrite decode_length. }
    rewrite (load_index_ok recs1 iblk Wi Hlen) in H. cbn [bind] in H.
    (* the filter block is read back *)
    unfold load_filter_block in H. unfold meta_sanity in H. cbn [fst snd] in H.
    destruct (N.leb_spec flimit ilimit); [lia|]. cbn [bind] in H.
    rewrite (find_frame_skip recs1 [] 0 _ (ilimit, flimit) Precs) in H by (cbn [snd]; unfold istart in *; rewrite Pwritten in *; lia).
    unfold find_frame in H. cbn [find fst snd] in H.
    destruct (N.eqb_spec istart ilimit); [lia|]. cbn [andb] in H. rewrite !N.eqb_refl in H. cbn [andb snd] in H.
    destruct flt as [|f0 flt'] eqn:Eflt; [discriminate|]. injection H as <-.
    exists recs1. split; [|split].
    - (* table_wf *)
      constructor; cbn [t_index t_frames].
      + unfold chunks_of. now rewrite !map_length.
      + intros j d m chunk Hi Hc. unfold chunks_of in Hc.
        destruct (nth_error recs1 j) as [r|] eqn:Er; [|rewrite (proj2 (nth_error_None _ _)) in Hi; [discriminate|rewrite map_length; now apply nth_error_None]].
        rewrite (map_nth_error r_index _ _ Er) in Hi. injection Hi as <- <-.
        rewrite (map_nth_error r_chunk _ _ Er) in Hc. injection Hc as <-.
        destruct (recs_nth _ _ _ _ _ Precs Er) as (Wr & Nr & Sr & _).
        exists (r_blk r). split; [|split; [exact Wr|exact Nr]].
        unfold load_block, meta_sanity. cbn [fst snd]. destruct (N.leb_spec (r_limit r) (r_start r)); [lia|]. cbn [bind].
        now rewrite (find_frame_rec recs1 [] 0 _ j r Precs Er).
      + unfold all_of in Hall. rewrite app_nil_r in Hall. rewrite Hall. exact Psorted.
      + intros j d m chunk e Hi Hc He. unfold chunks_of in Hc.
        destruct (nth_error recs1 j) as [r|] eqn:Er; [|rewrite (proj2 (nth_error_None _ _)) in Hi; [discriminate|rewrite map_length; now apply nth_error_None]].
        rewrite (map_nth_error r_index _ _ Er) in Hi. injection Hi as <- <-.
        rewrite (map_nth_error r_chunk _ _ Er) in Hc. injection Hc as <-.
        destruct (recs_nth _ _ _ _ _ Precs Er) as (_ & _ & _ & Lo & _). now apply Lo.
      + intros j j' d m chunk' e Hi Hjj Hc He. unfold chunks_of in Hc.
        destruct (nth_error recs1 j) as [r|] eqn:Er; [|rewrite (proj2 (nth_error_None _ _)) in Hi; [discriminate|rewrite map_length; now apply nth_error_None]].
        rewrite (map_nth_error r_index _ _ Er) in Hi. injection Hi as <- <-.
        destruct (nth_error recs1 j') as [r'|] eqn:Er'; [|rewrite (proj2 (nth_error_None _ _)) in Hc; [discriminate|rewrite map_length; now apply nth_error_None]].
        rewrite (map_nth_error r_chunk _ _ Er') in Hc. injection Hc as <-.
        destruct (recs_nth _ _ _ _ _ Precs Er) as (_ & _ & _ & _ & Hi'). exact (Hi' j' r' e Hjj Er' He).
    - unfold all_of in Hall. now rewrite app_nil_r in Hall.
    - constructor; cbn [t_final t_filter t_file_size fb_setsum fb_smallest fb_biggest fb_offset].
      + exact Psetsum.
      + rewrite Psmall, Pbig in Ets. destruct (ts_max (all_of recs cur) <? ts_min (all_of recs cur)); now injection Ets as <- <-.
      + rewrite Psmall, Pbig in Ets. destruct (ts_max (all_of recs cur) <? ts_min (all_of recs cur)); now injection Ets as <- <-.
      + intros e He. apply (bloom_no_false_negative _ _ _ EFl). rewrite Pfilter. exact (in_map (fun e0 => defer_insert sip (e_key e0)) _ e He).
      + reflexivity.
      + discriminate.
      + unfold load_fuel. cbn [t_frames].
        pose proof (frames_fuel recs1 [] 0 [(istart, ilimit, FPlain iblk); (ilimit, flimit, FFilter (f0 :: flt'))] Precs) as Hf.
        assert (Hl : length (concat (chunks_of recs1)) = length (all_of recs cur))
          by (rewrite <- Hall; unfold all_of; now rewrite app_nil_r).
        lia.
  Qed.

  Lemma sinv_new : forall o k t, init = (k, t) -> sinv (sb_new_from o k t) [] [].
  Proof.
    intros o k t Hi. split; [|cbn; auto]. constructor; cbn; auto.
    - constructor.
    - apply binv_new.
  Qed.
End BS.
