(* Table/SstCursorProofs.v — SstCursor / Sst::load / Sst::metadata over a well-formed table
   (index entries with dividing keys, one well-formed non-empty block per entry) simulate the
   reference cursor over the concatenation of the blocks. *)
From Coq Require Import NArith ZArith List Bool Lia.
From Blue Require Import Gen.Const_Table Table.Model Table.ModelBloom Table.ModelSst Table.Ref
  Table.OrderProofs Table.BlockBase Table.CursorProofs.
Import ListNotations.
Open Scope N_scope.

Lemma sorted_concat_nth : forall (chunks : list (list entry)) j chunk,
  sorted (concat chunks) -> nth_error chunks j = Some chunk -> sorted chunk.
Proof.
  induction chunks as [|c0 r IH]; intros j chunk S H; [destruct j; discriminate|].
  cbn [concat] in S. apply sorted_app in S as (S1 & S2 & _).
  destruct j as [|j]; cbn [nth_error] in H; [injection H as <-; exact S1|eauto].
Qed.

Lemma filter_all_true : forall {A} (f : A -> bool) l, (forall x, In x l -> f x = true) -> List.filter f l = l.
Proof.
  intros A f. induction l as [|x l IH]; intros H; cbn [List.filter]; [reflexivity|].
  rewrite (H x (or_introl eq_refl)). f_equal. apply IH. intros y Hy. apply H. now right.
Qed.

Lemma filter_all_false : forall {A} (f : A -> bool) l, (forall x, In x l -> f x = false) -> List.filter f l = [].
Proof.
  intros A f. induction l as [|x l IH]; intros H; cbn [List.filter]; [reflexivity|].
  rewrite (H x (or_introl eq_refl)). apply IH. intros y Hy. apply H. now right.
Qed.

Lemma filter_len_le : forall {A} (f : A -> bool) l, (length (List.filter f l) <= length l)%nat.
Proof. intros A f. induction l as [|x l IH]; cbn [List.filter length]; [lia|]. destruct (f x); cbn [length]; lia. Qed.

Lemma in_concat_firstn : forall (l : list (list entry)) n e, In e (concat (firstn n l)) ->
  exists j c, (j < n)%nat /\ nth_error l j = Some c /\ In e c.
Proof.
  induction l as [|x l IH]; intros n e H; [rewrite firstn_nil in H; destruct H|].
  destruct n as [|n]; [destruct H|]. cbn [firstn concat] in H. apply in_app_or in H as [H|H].
  - exists 0%nat, x. repeat split; auto; lia.
  - destruct (IH n e H) as (j & c & Hj & Hc & He). exists (S j), c. repeat split; auto; lia.
Qed.

Lemma in_concat_skipn : forall (l : list (list entry)) n e, In e (concat (skipn n l)) ->
  exists j c, (n <= j)%nat /\ nth_error l j = Some c /\ In e c.
Proof.
  induction l as [|x l IH]; intros n e H; [rewrite skipn_nil in H; destruct H|].
  destruct n as [|n].
  - cbn [skipn concat] in H. apply in_app_or in H as [H|H].
    + exists 0%nat, x. repeat split; auto.
    + destruct (IH 0%nat e H) as (j & c & Hj & Hc & He). exists (S j), c. repeat split; auto; lia.
  - cbn [skipn] in H. destruct (IH n e H) as (j & c & Hj & Hc & He). exists (S j), c. repeat split; auto; lia.
Qed.

Lemma partition_point_spec : forall (l : list (bytes * (N * N))) key, exists idx,
  partition_point l key = N.of_nat idx /\ (idx <= length l)%nat /\
  (forall j d m, (j < idx)%nat -> nth_error l j = Some (d, m) -> lex_cmp d key = Lt) /\
  (forall d m, nth_error l idx = Some (d, m) -> lex_cmp d key <> Lt).
Proof.
  induction l as [|[d0 m0] l IH]; intros key; cbn [partition_point].
  - exists 0%nat. repeat split; auto; try (intros; lia). intros d m H. destruct d; discriminate.
  - destruct (lex_cmp d0 key) eqn:C.
    + exists 0%nat. repeat split; auto; try (cbn; lia); try (intros; lia).
      intros d m H. injection H as <- <-. congruence.
    + destruct (IH key) as (idx & E & Hl & Hlo & Hhi). exists (S idx). rewrite E. repeat split; try (cbn [length]; lia).
      * intros j d m Hj Hn. destruct j as [|j]; cbn [nth_error] in Hn; [injection Hn as <- <-; exact C|].
        apply (Hlo j d m); [lia|exact Hn].
      * intros d m Hn. cbn [nth_error] in Hn. eauto.
    + exists 0%nat. repeat split; auto; try (cbn; lia); try (intros; lia).
      intros d m H. injection H as <- <-. congruence.
Qed.

Section SC.
  Variable enc_size : bentry -> N.
  Hypothesis enc_pos : forall e, 0 < enc_size e.
  Variable t : sst.
  Variable chunks : list (list entry).

  Notation es := (concat chunks).
  Notation nb := (length chunks).

  (* what SstBuilder::seal + Sst::from_file_handle establish (BuildSstProofs.v) *)
  Record table_wf : Prop := {
    tw_len : length (t_index t) = length chunks;
    tw_block : forall j d m chunk, nth_error (t_index t) j = Some (d, m) -> nth_error chunks j = Some chunk ->
               exists blk, load_block (t_frames t) m = Ok blk /\ block_wf enc_size blk chunk /\ chunk <> [];
    tw_sorted : sorted es;
    (* dividing keys: every key of block j is <= d_j, every key of a later block is >= d_j *)
    tw_div_lo : forall j d m chunk e, nth_error (t_index t) j = Some (d, m) -> nth_error chunks j = Some chunk ->
                In e chunk -> lex_le (e_key e) d;
    tw_div_hi : forall j j' d m chunk' e, nth_error (t_index t) j = Some (d, m) -> (j < j')%nat ->
                nth_error chunks j' = Some chunk' -> In e chunk' -> lex_le d (e_key e) }.

  Hypothesis TW : table_wf.

  Definition start (j : nat) : nat := length (concat (firstn j chunks)).

  Lemma start_0 : start 0 = 0%nat.
  Proof. reflexivity. Qed.

  Lemma concat_firstn_S : forall (l : list (list entry)) j c, nth_error l j = Some c ->
    concat (firstn (S j) l) = concat (firstn j l) ++ c.
  Proof.
    induction l as [|x l IH]; intros j c H; [destruct j; discriminate|].
    destruct j as [|j]; cbn [nth_error firstn concat] in *.
    - injection H as ->. now rewrite app_nil_r.
    - rewrite (IH j c H). now rewrite app_assoc.
  Qed.

  Lemma start_S : forall j chunk, nth_error chunks j = Some chunk -> start (S j) = (start j + length chunk)%nat.
  Proof. intros. unfold start. rewrite (concat_firstn_S _ _ _ H), app_length. reflexivity. Qed.

  Lemma start_all : start nb = length es.
  Proof. unfold start. now rewrite firstn_all. Qed.

  Lemma concat_split : forall (l : list (list entry)) j c, nth_error l j = Some c ->
    concat l = concat (firstn j l) ++ c ++ concat (skipn (S j) l).
  Proof.
    induction l as [|x l IH]; intros j c H; [destruct j; discriminate|].
    destruct j as [|j]; cbn [nth_error firstn skipn concat] in *.
    - injection H as ->. reflexivity.
    - rewrite (IH j c H) at 1. now rewrite app_assoc.
  Qed.

  Lemma nth_in_chunk : forall j chunk p, nth_error chunks j = Some chunk -> (p < length chunk)%nat ->
    nth_error es (start j + p) = nth_error chunk p.
  Proof.
    intros j chunk p H Hp. rewrite (concat_split _ _ _ H). unfold start.
    rewrite nth_error_app2 by lia. replace (_ + p - _)%nat with p by lia.
    now rewrite nth_error_app1 by lia.
  Qed.

  Lemma start_le : forall j chunk, nth_error chunks j = Some chunk -> (start j + length chunk <= length es)%nat.
  Proof.
    intros j chunk H. rewrite (concat_split _ _ _ H). rewrite !app_length. unfold start. lia.
  Qed.

  Lemma block_at : forall j, (j < nb)%nat -> exists d m chunk blk,
    nth_error (t_index t) j = Some (d, m) /\ nth_error chunks j = Some chunk /\
    load_block (t_frames t) m = Ok blk /\ block_wf enc_size blk chunk /\ chunk <> [] /\ sorted chunk.
  Proof.
    intros j Hj.
    destruct (nth_error (t_index t) j) as [[d m]|] eqn:Ei; [|apply nth_error_None in Ei; rewrite (tw_len TW) in Ei; lia].
    destruct (nth_error chunks j) as [chunk|] eqn:Ec; [|apply nth_error_None in Ec; lia].
    destruct (tw_block TW j d m chunk Ei Ec) as (blk & L & W & Hn0).
    exists d, m, chunk, blk. split; [reflexivity|]. split; [reflexivity|]. split; [exact L|]. split; [exact W|].
    split; [exact Hn0|]. eapply sorted_concat_nth; [apply (tw_sorted TW)|exact Ec].
  Qed.

  Lemma nindex_eq : nindex t = N.of_nat nb.
  Proof. unfold nindex. now rewrite (tw_len TW). Qed.

  Lemma load_cursor : forall j d m blk, nth_error (t_index t) j = Some (d, m) ->
    load_block (t_frames t) m = Ok blk -> load_block_cursor t (N.of_nat j) = Ok (blk, bc_new).
  Proof. intros j d m blk H L. unfold load_block_cursor. rewrite Nat2N.id, H, L. reflexivity. Qed.

  (* ------------------------------------------------------------ the simulation relation *)
  Definition RS (c : scursor) (i : Z) : Prop :=
    match sc_bc c with
    | None => (sc_idx c = 0 /\ i = (-1)%Z) \/ (sc_idx c = N.of_nat nb /\ i = zlen es)
    | Some (blk, bc) =>
        exists j chunk p d m, sc_idx c = N.of_nat j /\ nth_error chunks j = Some chunk /\
          nth_error (t_index t) j = Some (d, m) /\ load_block (t_frames t) m = Ok blk /\
          R enc_size blk chunk bc (Z.of_nat p) /\ (p < length chunk)%nat /\ i = Z.of_nat (start j + p)
    end.

  Lemma RS_at : forall j chunk p d m blk bc i, nth_error chunks j = Some chunk ->
    nth_error (t_index t) j = Some (d, m) -> load_block (t_frames t) m = Ok blk ->
    R enc_size blk chunk bc (Z.of_nat p) -> (p < length chunk)%nat -> i = Z.of_nat (start j + p) ->
    RS {| sc_idx := N.of_nat j; sc_bc := Some (blk, bc) |} i.
  Proof.
    intros j chunk p d m blk bc i Hc Hi L HR Hp ->. unfold RS. cbn [sc_bc sc_idx].
    exists j, chunk, p, d, m. split; [reflexivity|]. split; [exact Hc|]. split; [exact Hi|].
    split; [exact L|]. split; [exact HR|]. split; [exact Hp|reflexivity].
  Qed.

  Lemma RS_kv : forall c i, RS c i -> sc_kv c = ref_kv es i.
  Proof.
    intros c i H. unfold RS, sc_kv in *. destruct (sc_bc c) as [[blk bc]|].
    - destruct H as (j & chunk & p & d & m & _ & Hc & Hi & L & HR & Hp & ->).
      destruct (tw_block TW j d m chunk Hi Hc) as (blk' & L' & W & _). rewrite L in L'. injection L' as <-.
      rewrite (R_kv enc_size blk chunk bc _ HR). unfold ref_kv, zlen.
      pose proof (start_le j chunk Hc).
      destruct (Z.leb_spec 0 (Z.of_nat p)); [|lia].
      destruct (Z.ltb_spec (Z.of_nat p) (Z.of_nat (length chunk))); [|lia].
      destruct (Z.leb_spec 0 (Z.of_nat (start j + p))); [|lia].
      destruct (Z.ltb_spec (Z.of_nat (start j + p)) (Z.of_nat (length es))); [|lia].
      cbn [andb]. rewrite !Nat2Z.id. symmetry. now apply nth_in_chunk.
    - unfold ref_kv, zlen. destruct H as [(_ & ->)|(_ & ->)]; [reflexivity|].
      unfold zlen. destruct (Z.ltb_spec (Z.of_nat (length es)) (Z.of_nat (length es))); [lia|].
      now rewrite andb_false_r.
  Qed.

  Lemma RS_first : RS (sc_first t) (-1).
  Proof. unfold RS. cbn. now left. Qed.

  Lemma RS_last : RS (sc_last t) (zlen es).
  Proof. unfold RS. cbn. right. split; [now rewrite (tw_len TW)|reflexivity]. Qed.

  Lemma RS_new : RS sc_new (-1).
  Proof. unfold RS. cbn. now left. Qed.

  (* ------------------------------------------------------------ next *)
  Lemma next_from_none : forall fuel j, (j <= nb)%nat -> (0 < fuel)%nat ->
    exists c1, sc_next_loop enc_size fuel t {| sc_idx := N.of_nat j; sc_bc := None |} = Ok c1 /\
               RS c1 (Z.of_nat (start j)).
  Proof.
    intros fuel j Hj Hf. destruct fuel as [|f]; [lia|]. cbn [sc_next_loop sc_bc sc_idx].
    rewrite nindex_eq. destruct (N.leb_spec (N.of_nat nb) (N.of_nat j)) as [Hge|Hlt].
    - cbn [bind]. exists (sc_last t). split; [reflexivity|].
      assert (j = nb) by lia. subst j. rewrite start_all. apply RS_last.
    - destruct (block_at j ltac:(lia)) as (d & m & chunk & blk & Hi & Hc & L & W & Hne & _).
      rewrite (load_cursor j d m blk Hi L). cbn [bind fst snd].
      destruct (next_sim enc_size enc_pos blk chunk W (bc_first bc_new) (-1)
                  (R_first enc_size blk chunk bc_new (-1) (R_new enc_size blk chunk))) as (bc1 & -> & R1).
      cbn [bind].
      assert (Hlen : (0 < length chunk)%nat) by (destruct chunk; [congruence|cbn; lia]).
      replace (Z.min (-1 + 1) (zlen chunk)) with (Z.of_nat 0) in R1 by (unfold zlen; lia).
      rewrite (R_kv enc_size blk chunk bc1 _ R1). unfold ref_kv, zlen.
      destruct (Z.ltb_spec (Z.of_nat 0) (Z.of_nat (length chunk))); [|lia].
      cbn [Z.leb andb Z.of_nat Z.to_nat].
      destruct (nth_error chunk 0) as [e0|] eqn:E0; [|apply nth_error_None in E0; lia].
      eexists. split; [reflexivity|]. apply (RS_at j chunk 0%nat d m blk bc1); auto; try (f_equal; lia).
  Qed.

  Lemma next_simS : forall c i, RS c i ->
    exists c1, sc_next enc_size t c = Ok c1 /\ RS c1 (Z.min (i + 1) (zlen es)).
  Proof.
    intros c i H. unfold sc_next, sc_fuel. remember (S (length (t_index t))) as f eqn:Ef.
    unfold RS in H. destruct c as [idx obc]. cbn [sc_bc sc_idx] in H.
    destruct obc as [[blk bc]|].
    - destruct H as (j & chunk & p & d & m & -> & Hc & Hi & L & HR & Hp & ->).
      destruct (tw_block TW j d m chunk Hi Hc) as (blk' & L' & W & Hne). rewrite L in L'. injection L' as <-.
      cbn [sc_next_loop sc_bc sc_idx bind].
      destruct (next_sim enc_size enc_pos blk chunk W bc _ HR) as (bc1 & -> & R1). cbn [bind].
      rewrite (R_kv enc_size blk chunk bc1 _ R1).
      pose proof (start_le j chunk Hc) as Hle.
      destruct (Nat.lt_ge_cases (S p) (length chunk)) as [Hin|Hout].
      + replace (Z.min (Z.of_nat p + 1) (zlen chunk)) with (Z.of_nat (S p)) in * by (unfold zlen; lia).
        unfold ref_kv, zlen. destruct (Z.leb_spec 0 (Z.of_nat (S p))); [|lia].
        destruct (Z.ltb_spec (Z.of_nat (S p)) (Z.of_nat (length chunk))); [|lia].
        cbn [andb]. rewrite Nat2Z.id.
        destruct (nth_error chunk (S p)) as [e1|] eqn:E1; [|apply nth_error_None in E1; lia].
        eexists. split; [reflexivity|]. apply (RS_at j chunk (S p) d m blk bc1); auto; try (unfold zlen; lia).
      + replace (Z.min (Z.of_nat p + 1) (zlen chunk)) with (zlen chunk) in * by (unfold zlen; lia).
        unfold ref_kv. destruct (Z.ltb_spec (zlen chunk) (zlen chunk)); [lia|]. rewrite andb_false_r.
        assert (Hj : (j < nb)%nat) by (apply nth_error_Some; congruence).
        replace (N.of_nat j + 1) with (N.of_nat (S j)) by lia.
        destruct (next_from_none f (S j) ltac:(lia) ltac:(lia)) as (c1 & -> & R2).
        exists c1. split; [reflexivity|]. rewrite (start_S j chunk Hc) in R2.
        replace (Z.min (Z.of_nat (start j + p) + 1) (zlen es)) with (Z.of_nat (start j + length chunk)); [exact R2|].
        unfold zlen. lia.
    - destruct H as [(-> & ->)|(-> & ->)].
      + destruct (next_from_none (S f) 0 ltac:(lia) ltac:(lia)) as (c1 & H1 & R1).
        exists c1. split; [exact H1|]. rewrite start_0 in R1.
        replace (Z.min (-1 + 1) (zlen es)) with (Z.of_nat 0) by (unfold zlen; lia). exact R1.
      + destruct (next_from_none (S f) nb ltac:(lia) ltac:(lia)) as (c1 & H1 & R1).
        exists c1. split; [exact H1|]. rewrite start_all in R1.
        replace (Z.min (zlen es + 1) (zlen es)) with (Z.of_nat (length es)) by (unfold zlen; lia). exact R1.
  Qed.

  (* ------------------------------------------------------------ prev *)
  Lemma prev_from_none : forall fuel j, (j <= nb)%nat -> (0 < fuel)%nat ->
    exists c1, sc_prev_loop enc_size fuel t {| sc_idx := N.of_nat j; sc_bc := None |} = Ok c1 /\
               RS c1 (Z.of_nat (start j) - 1).
  Proof.
    intros fuel j Hj Hf. destruct fuel as [|f]; [lia|]. cbn [sc_prev_loop sc_bc sc_idx].
    destruct (N.eqb_spec (N.of_nat j) 0) as [E0|NE].
    - cbn [bind]. exists (sc_first t). split; [reflexivity|].
      assert (j = 0)%nat by lia. subst j. rewrite start_0. apply RS_first.
    - destruct j as [|j]; [lia|]. replace (N.of_nat (S j) - 1) with (N.of_nat j) by lia.
      destruct (block_at j ltac:(lia)) as (d & m & chunk & blk & Hi & Hc & L & W & Hne & _).
      rewrite (load_cursor j d m blk Hi L). cbn [bind fst snd].
      destruct (prev_sim enc_size enc_pos blk chunk W (bc_last bc_new) _
                  (R_last enc_size blk chunk bc_new (-1) (R_new enc_size blk chunk))) as (bc1 & -> & R1).
      cbn [bind].
      assert (Hlen : (0 < length chunk)%nat) by (destruct chunk; [congruence|cbn; lia]).
      replace (Z.max (zlen chunk - 1) (-1)) with (Z.of_nat (length chunk - 1)) in R1 by (unfold zlen; lia).
      rewrite (R_kv enc_size blk chunk bc1 _ R1). unfold ref_kv, zlen.
      destruct (Z.leb_spec 0 (Z.of_nat (length chunk - 1))); [|lia].
      destruct (Z.ltb_spec (Z.of_nat (length chunk - 1)) (Z.of_nat (length chunk))); [|lia].
      cbn [andb]. rewrite Nat2Z.id.
      destruct (nth_error chunk (length chunk - 1)) as [e0|] eqn:E0; [|apply nth_error_None in E0; lia].
      eexists. split; [reflexivity|]. apply (RS_at j chunk (length chunk - 1)%nat d m blk bc1); auto; try lia;
        try (rewrite (start_S j chunk Hc); lia).
  Qed.

  Lemma prev_simS : forall c i, RS c i ->
    exists c1, sc_prev enc_size t c = Ok c1 /\ RS c1 (Z.max (i - 1) (-1)).
  Proof.
    intros c i H. unfold sc_prev, sc_fuel. remember (S (length (t_index t))) as f eqn:Ef.
    unfold RS in H. destruct c as [idx obc]. cbn [sc_bc sc_idx] in H.
    destruct obc as [[blk bc]|].
    - destruct H as (j & chunk & p & d & m & -> & Hc & Hi & L & HR & Hp & ->).
      destruct (tw_block TW j d m chunk Hi Hc) as (blk' & L' & W & Hne). rewrite L in L'. injection L' as <-.
      cbn [sc_prev_loop sc_bc sc_idx bind].
      destruct (prev_sim enc_size enc_pos blk chunk W bc _ HR) as (bc1 & -> & R1). cbn [bind].
      rewrite (R_kv enc_size blk chunk bc1 _ R1).
      destruct p as [|p].
      + replace (Z.max (Z.of_nat 0 - 1) (-1)) with (-1)%Z in * by lia.
        cbn [ref_kv Z.leb andb].
        assert (Hj : (j < nb)%nat) by (apply nth_error_Some; congruence).
        destruct (prev_from_none f j ltac:(lia) ltac:(lia)) as (c1 & -> & R2).
        exists c1. split; [reflexivity|].
        replace (Z.max (Z.of_nat (start j + 0) - 1) (-1)) with (Z.of_nat (start j) - 1)%Z by lia. exact R2.
      + replace (Z.max (Z.of_nat (S p) - 1) (-1)) with (Z.of_nat p) in * by lia.
        unfold ref_kv, zlen. destruct (Z.leb_spec 0 (Z.of_nat p)); [|lia].
        destruct (Z.ltb_spec (Z.of_nat p) (Z.of_nat (length chunk))); [|lia].
        cbn [andb]. rewrite Nat2Z.id.
        destruct (nth_error chunk p) as [e1|] eqn:E1; [|apply nth_error_None in E1; lia].
        eexists. split; [reflexivity|]. apply (RS_at j chunk p d m blk bc1); auto; lia.
    - destruct H as [(-> & ->)|(-> & ->)].
      + destruct (prev_from_none (S f) 0 ltac:(lia) ltac:(lia)) as (c1 & H1 & R1).
        exists c1. split; [exact H1|]. rewrite start_0 in R1. exact R1.
      + destruct (prev_from_none (S f) nb ltac:(lia) ltac:(lia)) as (c1 & H1 & R1).
        exists c1. split; [exact H1|]. rewrite start_all in R1.
        replace (Z.max (zlen es - 1) (-1)) with (Z.of_nat (length es) - 1)%Z by (unfold zlen; lia). exact R1.
  Qed.

  (* ------------------------------------------------------------ seek *)
  Definition count (k : bytes) (l : list entry) : nat := length (List.filter (key_below k) l).

  Lemma ref_seek_count : forall l k, ref_seek l k = Z.of_nat (count k l).
  Proof. reflexivity. Qed.

  (* if every block before idx lies below k and every block after idx does not, the global seek
     index is the start of block idx plus the local seek index *)
  Lemma seek_count : forall k idx chunk,
    nth_error chunks idx = Some chunk ->
    (forall j c e, (j < idx)%nat -> nth_error chunks j = Some c -> In e c -> key_below k e = true) ->
    (forall j c e, (idx < j)%nat -> nth_error chunks j = Some c -> In e c -> key_below k e = false) ->
    count k es = (start idx + count k chunk)%nat.
  Proof.
    intros k idx chunk Hc Hlo Hhi. unfold count. rewrite (concat_split _ _ _ Hc).
    rewrite !filter_app, !app_length.
    rewrite (filter_all_true (key_below k) (concat (firstn idx chunks))).
    - rewrite (filter_all_false (key_below k) (concat (skipn (S idx) chunks))).
      + cbn [length]. unfold start. lia.
      + intros e He. destruct (in_concat_skipn _ _ _ He) as (j & c & Hj & Hcj & Hin). eapply Hhi; eauto.
    - intros e He. destruct (in_concat_firstn _ _ _ He) as (j & c & Hj & Hcj & Hin). eapply Hlo; eauto.
  Qed.

  Lemma count_all : forall k,
    (forall j c e, nth_error chunks j = Some c -> In e c -> key_below k e = true) -> count k es = length es.
  Proof.
    intros k H. unfold count. rewrite filter_all_true; [reflexivity|].
    intros e He. rewrite <- (firstn_all chunks) in He.
    destruct (in_concat_firstn _ _ _ He) as (j & c & _ & Hc & Hin). eauto.
  Qed.

  Lemma seek_simS : forall c key, exists c1, sc_seek enc_size t c key = Ok c1 /\ RS c1 (ref_seek es key).
  Proof.
    intros c key. unfold sc_seek.
    destruct (partition_point_spec (t_index t) key) as (idx & -> & Hidx & Plo & Phi).
    rewrite nindex_eq, ref_seek_count. rewrite (tw_len TW) in Hidx.
    (* blocks before idx are entirely below key *)
    assert (Blo : forall j c e, (j < idx)%nat -> nth_error chunks j = Some c -> In e c -> key_below key e = true).
    { intros j c0 e Hj Hc He.
      destruct (nth_error (t_index t) j) as [[d m]|] eqn:Ei; [|apply nth_error_None in Ei; rewrite (tw_len TW) in Ei; lia].
      unfold key_below. rewrite (lex_le_lt_trans _ _ _ (tw_div_lo TW j d m c0 e Ei Hc He) (Plo j d m Hj Ei)). reflexivity. }
    destruct (N.leb_spec (N.of_nat nb) (N.of_nat idx)) as [Hge|Hlt].
    - (* every block is below key *)
      exists (sc_last t). split; [reflexivity|]. assert (idx = nb) by lia. subst idx.
      rewrite count_all; [apply RS_last|]. intros j c0 e Hc He. apply (Blo j c0 e); [|exact Hc|exact He].
      apply nth_error_Some. congruence.
    - destruct (block_at idx ltac:(lia)) as (d & m & chunk & blk & Hi & Hc & L & W & Hne & Sc).
      pose proof (Phi d m Hi) as Hd.
      (* blocks after idx hold no key below key *)
      assert (Bhi : forall j c e, (idx < j)%nat -> nth_error chunks j = Some c -> In e c -> key_below key e = false).
      { intros j c0 e Hj Hcj He. unfold key_below.
        pose proof (tw_div_hi TW idx j d m c0 e Hi Hj Hcj He) as Le.
        destruct (lex_cmp (e_key e) key) eqn:C; try reflexivity. exfalso. apply Hd.
        eapply lex_le_lt_trans; eauto. }
      rewrite (seek_count key idx chunk Hc Blo Bhi).
      rewrite (load_cursor idx d m blk Hi L). cbn [bind fst snd].
      destruct (seek_sim_strong enc_size enc_pos blk chunk W Sc bc_new _ key (R_new enc_size blk chunk))
        as (bc1 & p & -> & R1 & Hp & _ & Ep). cbn [bind].
      rewrite ref_seek_count in Ep. apply Nat2Z.inj in Ep. rewrite Ep. clear Ep.
      rewrite (R_kv enc_size blk chunk bc1 _ R1). unfold ref_kv, zlen.
      destruct (Z.leb_spec 0 (Z.of_nat p)); [|lia]. cbn [andb].
      destruct (Z.ltb_spec (Z.of_nat p) (Z.of_nat (length chunk))) as [Hin|Hout].
      + rewrite Nat2Z.id. destruct (nth_error chunk p) as [e1|] eqn:E1; [|apply nth_error_None in E1; lia].
        eexists. split; [reflexivity|]. apply (RS_at idx chunk p d m blk bc1); auto; try lia.
      + assert (p = length chunk) by lia. subst p.
        replace (N.of_nat idx + 1) with (N.of_nat (S idx)) by lia.
        rewrite <- (start_S idx chunk Hc).
        destruct (N.leb_spec (N.of_nat nb) (N.of_nat (S idx))) as [Hge2|Hlt2].
        * exists (sc_last t). split; [reflexivity|]. assert (S idx = nb) by lia.
          rewrite H0, start_all. apply RS_last.
        * destruct (block_at (S idx) ltac:(lia)) as (d' & m' & chunk' & blk' & Hi' & Hc' & L' & W' & Hne' & Sc').
          rewrite (load_cursor (S idx) d' m' blk' Hi' L'). cbn [bind fst snd].
          destruct (seek_sim_strong enc_size enc_pos blk' chunk' W' Sc' bc_new _ key (R_new enc_size blk' chunk'))
            as (bc2 & p' & -> & R2 & Hp' & _ & Ep'). cbn [bind].
          assert (p' = 0)%nat.
          { rewrite ref_seek_count in Ep'. apply Nat2Z.inj in Ep'. rewrite <- Ep'. unfold count.
            rewrite filter_all_false; [reflexivity|]. intros e He. apply (Bhi (S idx) chunk' e); auto. }
          subst p'. eexists. split; [reflexivity|].
          assert (0 < length chunk')%nat by (destruct chunk'; [congruence|cbn; lia]).
          apply (RS_at (S idx) chunk' 0%nat d' m' blk' bc2); auto; try (f_equal; lia).
  Qed.

  (* ------------------------------------------------------------ whole programs *)
  Lemma step_simS : forall c i o, RS c i ->
    exists c1, sc_step enc_size t c o = Ok c1 /\ RS c1 (ref_step es i o).
  Proof.
    intros c i o HR. destruct o as [| |k| |]; cbn [sc_step ref_step].
    - eexists. split; [reflexivity|]. apply RS_first.
    - eexists. split; [reflexivity|]. apply RS_last.
    - exact (seek_simS c k).
    - exact (next_simS c i HR).
    - exact (prev_simS c i HR).
  Qed.

  Theorem run_simS : forall prog c i, RS c i ->
    sc_run enc_size t c prog = map (fun x => Ok x) (ref_run es i prog).
  Proof.
    induction prog as [|o prog IH]; intros c i HR; cbn [sc_run ref_run map]; [reflexivity|].
    destruct (step_simS c i o HR) as (c1 & -> & R1). rewrite (RS_kv c1 _ R1). f_equal. now apply IH.
  Qed.

  (* ------------------------------------------------------------ Sst::load *)
  Lemma sst_load_scan_ok : forall fuel c n key ts, RS c (Z.of_nat n) -> (n <= length es)%nat ->
    (length es - n < fuel)%nat ->
    (forall j e, (j < n)%nat -> nth_error es j = Some e -> kref_lt_target e key ts = true) ->
    exists c1 p, sst_load_scan enc_size fuel t c key ts = Ok c1 /\ RS c1 (Z.of_nat p) /\ (p <= length es)%nat /\
      (forall j e, (j < p)%nat -> nth_error es j = Some e -> kref_lt_target e key ts = true) /\
      (forall e, nth_error es p = Some e -> kref_lt_target e key ts = false).
  Proof.
    induction fuel as [|f IH]; intros c n key ts HR Hn Hf B; [lia|]. cbn [sst_load_scan].
    rewrite (RS_kv c _ HR). unfold ref_kv, zlen.
    destruct (Z.leb_spec 0 (Z.of_nat n)); [|lia]. cbn [andb].
    destruct (Z.ltb_spec (Z.of_nat n) (Z.of_nat (length es))) as [Hlt|Hge].
    - rewrite Nat2Z.id. destruct (nth_error es n) as [e|] eqn:En; [|apply nth_error_None in En; lia].
      destruct (kref_lt_target e key ts) eqn:K.
      + destruct (next_simS c _ HR) as (c1 & -> & R1). cbn [bind].
        replace (Z.min (Z.of_nat n + 1) (zlen es)) with (Z.of_nat (S n)) in R1 by (unfold zlen; lia).
        apply (IH c1 (S n) key ts R1); try lia.
        intros j e' Hj He'. destruct (Nat.eq_dec j n) as [->|Hne].
        * rewrite En in He'. injection He' as <-. exact K.
        * apply (B j e'); [lia|exact He'].
      + exists c, n. split; [reflexivity|]. split; [exact HR|]. split; [exact Hn|]. split; [exact B|].
        intros e' He'. rewrite En in He'. injection He' as <-. exact K.
    - exists c, n. split; [reflexivity|]. split; [exact HR|]. split; [exact Hn|]. split; [exact B|].
      intros e' He'. assert (n < length es)%nat by (apply nth_error_Some; congruence). lia.
  Qed.

  Lemma filter_check_total : forall (f : filter) x, f <> [] -> x < W64 -> exists bo, filter_check f x = Some bo.
  Proof.
    intros f x Hf Hx. unfold filter_check, do_hashing.
    assert (Hn : 0 < N.of_nat (length f)) by (destruct f; [congruence|cbn [length]; lia]).
    assert (Hq : x / W32 < W32) by (apply N.div_lt_upper_bound; [discriminate|exact Hx]).
    assert (Hi : x / W32 * N.of_nat (length f) / W32 < N.of_nat (length f)).
    { apply N.div_lt_upper_bound; [discriminate|]. apply N.mul_lt_mono_pos_r; assumption. }
    destruct (nth_error f (N.to_nat (x / W32 * N.of_nat (length f) / W32))) eqn:E; [eauto|].
    apply nth_error_None in E. lia.
  Qed.

  Theorem sst_load_correct : forall sip key ts,
    (forall e, In e es -> filter_check (t_filter t) (defer_insert sip (e_key e)) = Some true) ->
    t_filter t <> [] -> (length es + 2 <= load_fuel t)%nat ->
    sst_load enc_size sip t key ts = Ok (load_spec es key ts).
  Proof.
    intros sip key ts Hflt Hne Hfuel. unfold sst_load.
    assert (Hx : defer_insert sip key < W64) by (unfold defer_insert; apply N.mod_lt; discriminate).
    destruct (filter_check_total (t_filter t) _ Hne Hx) as (bo & Ebo). rewrite Ebo. destruct bo.
    - destruct (seek_simS sc_new key) as (c1 & -> & R1). cbn [bind].
      rewrite ref_seek_count in R1.
      assert (K0 : forall j e, (j < count key es)%nat -> nth_error es j = Some e -> kref_lt_target e key ts = true).
      { intros j e Hj He. unfold kref_lt_target, kref_cmp.
        now rewrite (below_prefix es key (tw_sorted TW) j e Hj He). }
      assert (Hc : (count key es <= length es)%nat) by (unfold count; apply filter_len_le).
      destruct (sst_load_scan_ok (load_fuel t) c1 (count key es) key ts R1 Hc ltac:(lia) K0)
        as (c2 & p & -> & R2 & Hp & K & G). cbn [bind]. f_equal.
      rewrite (RS_kv c2 _ R2). exact (load_spec_at es key ts p (tw_sorted TW) Hp K G).
    - (* the filter says no: then no entry has this key *)
      f_equal. unfold load_spec. rewrite find_all_false; [reflexivity|].
      intros j x Hx'. destruct (bytes_eqb (e_key x) key) eqn:Hk; [|reflexivity]. exfalso.
      apply bytes_eqb_eq in Hk. pose proof (Hflt x (nth_error_In _ _ Hx')) as Hf. rewrite Hk in Hf.
      congruence.
  Qed.

  (* ------------------------------------------------------------ Sst::metadata *)
  Theorem sst_metadata_ok : exists md, sst_metadata enc_size t = Ok md /\
    md_first md = match nth_error es 0 with Some e => e_key e | None => [] end /\
    md_last md = match nth_error es (length es - 1) with Some e => e_key e | None => MAX_KEY end /\
    md_smallest md = fb_smallest (t_final t) /\ md_biggest md = fb_biggest (t_final t) /\
    md_setsum md = fb_setsum (t_final t) /\ md_file_size md = t_file_size t.
  Proof.
    unfold sst_metadata.
    destruct (next_simS (sc_first t) _ RS_first) as (c1 & -> & R1). cbn [bind].
    destruct (prev_simS (sc_last t) _ RS_last) as (c2 & -> & R2). cbn [bind].
    eexists. split; [reflexivity|]. cbn [md_first md_last md_smallest md_biggest md_setsum md_file_size].
    rewrite (RS_kv c1 _ R1), (RS_kv c2 _ R2). unfold ref_kv, zlen.
    destruct (length es) as [|n] eqn:El.
    - apply length_zero_iff_nil in El. rewrite El. cbn. repeat split.
    - replace (Z.min (-1 + 1) (Z.of_nat (S n))) with 0%Z by lia.
      replace (Z.max (Z.of_nat (S n) - 1) (-1)) with (Z.of_nat n) by lia.
      destruct (Z.ltb_spec 0 (Z.of_nat (S n))); [|lia].
      destruct (Z.leb_spec 0 (Z.of_nat n)); [|lia].
      destruct (Z.ltb_spec (Z.of_nat n) (Z.of_nat (S n))); [|lia].
      cbn [Z.leb andb Z.to_nat]. rewrite Nat2Z.id. replace (S n - 1)%nat with n by lia.
      repeat split.
  Qed.
End SC.
