(* Table/BlockBytesProofs.v — the block theorems at the level of real bytes: the bytes a
   BlockBuilder writes (the model's block_bytes, compared byte for byte with the implementation on
   every run), read back by Block::new and BlockCursor over raw bytes with prototk's decoder,
   give the reference cursor's observations and the reference lookup. *)
From Coq Require Import NArith ZArith List Bool Lia.
From Blue Require Import Gen.Const_Table Table.Model Table.ModelSst Table.ModelWire Table.ModelBytes
  Table.Ref Table.OrderProofs Table.BlockBase Table.BuildProofs Table.CursorProofs Table.WireProofs
  Table.BytesCursorProofs Table.BytesProofs.
Import ListNotations.
Open Scope N_scope.

(* entries as the Rust types them: byte strings and a u64 timestamp *)
Definition entry_wire_ok (e : entry) : Prop :=
  bytes_ok (e_key e) /\ e_ts e < WM.W64 /\ match e_val e with Some v => bytes_ok v | None => True end.
Definition entries_wire_ok (es : list entry) : Prop := Forall entry_wire_ok es.

Lemma buf_len_ge_length : forall l, N.of_nat (length l) <= buf_len enc_size_real l.
Proof.
  induction l as [|be l IH]; cbn [length buf_len]; [lia|]. pose proof (enc_size_real_pos be). lia.
Qed.

Lemma skipn_bytes_ok : forall n (l : bytes), bytes_ok l -> bytes_ok (skipn n l).
Proof. intros n l H. unfold bytes_ok in *. now apply Forall_skipn. Qed.

(* the record put/del appends *)
Lemma bb_add_record : forall b e b1, bb_add enc_size_real b e = Ok b1 ->
  exists be, bb_buf b1 = bb_buf b ++ [be] /\ be_ts be = e_ts e /\ be_val be = e_val e /\
    (exists s, be_frag be = skipn s (e_key e)) /\ be_shared be <= len (e_key e) /\
    len (e_key e) <= MAX_KEY_LEN /\ (forall v, e_val e = Some v -> len v <= MAX_VALUE_LEN) /\
    buf_len enc_size_real (bb_buf b) + enc_size_real be <= U32_MAX /\
    (bb_restarts b1 = bb_restarts b \/ bb_restarts b1 = bb_restarts b ++ [buf_len enc_size_real (bb_buf b)]).
Proof.
  intros b e b1 H. pose proof (bb_add_ok enc_size_real b e b1 H) as (P1 & P2 & _ & _).
  unfold bb_add in H.
  destruct (check_key_len (e_key e)) as [[]|]; cbn [bind] in H; [|discriminate].
  destruct (match e_val e with Some v => check_value_len v | None => Ok tt end) as [[]|]; cbn [bind] in H; [|discriminate].
  destruct (check_table_size (bb_approx_size enc_size_real b)) as [[]|]; cbn [bind] in H; [|discriminate].
  destruct (bb_enforce_sort_order b (e_key e) (e_ts e)) as [[]|]; cbn [bind] in H; [|discriminate].
  unfold compute_key_frag in H. destruct (should_restart b); unfold bb_append in H;
    cbn [bb_buf bb_restarts be_shared be_frag be_ts be_val] in H;
    match type of H with context [?x + enc_size_real ?be <=? U32_MAX] =>
      destruct (N.leb_spec (x + enc_size_real be) U32_MAX); [|discriminate]; injection H as <-; exists be end;
    cbn [bb_buf bb_restarts be_shared be_frag be_ts be_val]; repeat split; auto.
  - exists 0%nat. reflexivity.
  - lia.
  - eauto.
  - pose proof (common_prefix_le_r (bb_last_key b) (e_key e)). unfold len. lia.
Qed.

Lemma record_ok : forall e be, entry_wire_ok e -> be_ts be = e_ts e -> be_val be = e_val e ->
  (exists s, be_frag be = skipn s (e_key e)) -> be_shared be <= len (e_key e) ->
  len (e_key e) <= MAX_KEY_LEN -> (forall v, e_val e = Some v -> len v <= MAX_VALUE_LEN) ->
  rec_ok be /\ enc_size_real be < WM.W64.
Proof.
  intros e be (Hk & Ht & Hv) Ets Eval (s & Efr) Hsh Hkl Hvl.
  assert (Hfl : len (be_frag be) <= MAX_KEY_LEN).
  { rewrite Efr. unfold len in *. rewrite skipn_length. lia. }
  assert (Hvl' : forall v, be_val be = Some v -> len v <= MAX_VALUE_LEN) by (intros v E; apply Hvl; congruence).
  assert (Hb : enc_size_real be <= U32_MAX - TABLE_FULL_SIZE).
  { apply enc_size_real_bounded; auto; [lia|rewrite Ets; unfold WM.W64 in Ht; unfold U64_MAX; lia]. }
  assert (Hlt : enc_size_real be < WM.W64) by (unfold U32_MAX, TABLE_FULL_SIZE, WM.W64 in *; lia).
  split; [|exact Hlt]. split.
  - unfold bentry_ok. rewrite Ets, Eval. repeat split; auto.
    + unfold MAX_KEY_LEN, WM.W64 in *. lia.
    + rewrite Efr. now apply skipn_bytes_ok.
    + unfold MAX_KEY_LEN, WM.W64 in *. lia.
    + destruct (e_val e) as [v|]; [|exact I]. split; [exact Hv|].
      specialize (Hvl v eq_refl). unfold MAX_VALUE_LEN, WM.W64 in *. lia.
  - unfold enc_size_real in Hlt. lia.
Qed.

Record binv2 (b : bbuilder) : Prop := {
  b2_recs : recs_ok (bb_buf b);
  b2_len : buf_len enc_size_real (bb_buf b) <= U32_MAX;
  b2_rs : Forall (fun x => x <= buf_len enc_size_real (bb_buf b)) (bb_restarts b) }.

Lemma binv2_new : forall o, binv2 (bb_new o).
Proof. intros o. constructor; cbn; [constructor|unfold U32_MAX; lia|constructor; [lia|constructor]]. Qed.

Lemma binv2_add : forall b e b1, binv2 b -> entry_wire_ok e -> bb_add enc_size_real b e = Ok b1 -> binv2 b1.
Proof.
  intros b e b1 [Ir Il Irs] He H.
  destruct (bb_add_record b e b1 H) as (be & Eb & Ets & Eval & Efr & Hsh & Hkl & Hvl & Hu & Hrs).
  destruct (record_ok e be He Ets Eval Efr Hsh Hkl Hvl) as (Hro & Hsz).
  assert (Hlen : buf_len enc_size_real (bb_buf b1) = buf_len enc_size_real (bb_buf b) + enc_size_real be).
  { rewrite Eb, (buf_len_app enc_size_real). cbn [buf_len]. lia. }
  constructor.
  - rewrite Eb. apply Forall_app. split; [exact Ir|]. constructor; [auto|constructor].
  - lia.
  - rewrite Hlen. destruct Hrs as [->| ->].
    + eapply Forall_impl; [|exact Irs]. intros x Hx. cbn in Hx. lia.
    + apply Forall_app. split; [eapply Forall_impl; [|exact Irs]; intros x Hx; cbn in Hx; lia|].
      constructor; [lia|constructor].
Qed.

Lemma binv2_add_all : forall es b b1, binv2 b -> entries_wire_ok es -> bb_add_all enc_size_real b es = Ok b1 -> binv2 b1.
Proof.
  induction es as [|e es IH]; intros b b1 I He H; cbn [bb_add_all] in H.
  - now injection H as <-.
  - destruct (bb_add enc_size_real b e) as [b2|] eqn:A; cbn [bind] in H; [|discriminate].
    inversion He as [|? ? He1 He2]; subst. exact (IH b2 b1 (binv2_add b e b2 I He1 A) He2 H).
Qed.

(* a strictly increasing list of numbers is pointwise at least the index *)
Lemma increasing_ge_index : forall (rs : list N),
  (forall i j x y, nth_error rs i = Some x -> nth_error rs j = Some y -> (i < j)%nat -> x < y) ->
  forall i x, nth_error rs i = Some x -> N.of_nat i <= x.
Proof.
  intros rs Hs. induction i as [|i IH]; intros x Hx; [lia|].
  destruct (nth_error rs i) as [x'|] eqn:E.
  - specialize (IH x' eq_refl). pose proof (Hs i (S i) x' x E Hx ltac:(lia)). lia.
  - apply nth_error_None in E. assert (S i < length rs)%nat by (apply nth_error_Some; congruence). lia.
Qed.

Section Final.
  Variables (o : bopts) (es : list entry) (blk : block).
  Hypothesis Hes : entries_wire_ok es.
  Hypothesis Hbuild : build_block enc_size_real o es = Ok blk.

  Lemma built_facts :
    block_wf enc_size_real blk es /\ sorted es /\ recs_ok (bl_entries blk) /\
    bl_boundary blk = buf_len enc_size_real (bl_entries blk) /\
    Forall (fun x => x < WM.W32) (bl_restarts blk) /\ num_restarts blk < WM.W32.
  Proof.
    destruct (build_block_wf enc_size_real enc_size_real_pos o es blk Hbuild) as (W & S).
    unfold build_block in Hbuild.
    destruct (bb_add_all enc_size_real (bb_new o) es) as [bb|] eqn:A; cbn [bind] in Hbuild; [|discriminate].
    injection Hbuild as <-. destruct (binv2_add_all _ _ _ (binv2_new o) Hes A) as [Ir Il Irs].
    cbn [bb_seal bl_entries bl_restarts bl_boundary] in *.
    split; [exact W|]. split; [exact S|]. split; [exact Ir|]. split; [reflexivity|].
    (* every restart point is below the boundary unless the block is empty *)
    assert (Hlt : forall i x, nth_error (bb_restarts bb) i = Some x -> x <= U32_MAX).
    { intros i x Hx. rewrite Forall_forall in Irs. pose proof (Irs x (nth_error_In _ _ Hx)). cbn in H. lia. }
    split.
    - apply Forall_forall. intros x Hx. apply In_nth_error in Hx as (i & Hi).
      pose proof (Hlt i x Hi). unfold U32_MAX, WM.W32 in *. lia.
    - unfold num_restarts. cbn [bb_seal bl_restarts].
      destruct (bb_buf bb) as [|be0 buf'] eqn:Eb.
      + pose proof (wf_rempty _ _ _ W Eb) as Hre. cbn [bb_seal bl_restarts] in Hre. rewrite Hre. reflexivity.
      + (* strictly increasing, all below the boundary: at most boundary many *)
        set (n := length (bb_restarts bb)).
        destruct n as [|m] eqn:En; [reflexivity|].
        destruct (nth_error (bb_restarts bb) m) as [x|] eqn:Ex; [|apply nth_error_None in Ex; lia].
        pose proof (increasing_ge_index _ (wf_rsorted _ _ _ W) m x Ex) as Hge.
        destruct (wf_rentry _ _ _ W m x Ex ltac:(unfold bb_seal; cbn [bl_entries]; rewrite Eb; discriminate)) as (i & be & Hi & Ho & _).
        unfold bb_seal in Hi, Ho. cbn [bl_entries] in Hi, Ho. rewrite Eb in Hi, Ho.
        assert (i < length (be0 :: buf'))%nat by (apply nth_error_Some; congruence).
        pose proof (off_lt enc_size_real enc_size_real_pos (be0 :: buf') i (length (be0 :: buf')) H ltac:(lia)) as Hol.
        rewrite off_len in Hol. unfold U32_MAX, WM.W32 in *. lia.
  Qed.

  Lemma lock_premises :
    block_wf enc_size_real blk es /\ sorted es /\
    bblock_new (block_bytes blk) = Ok (the_block blk) /\
    (forall i, bk_restart_point (the_block blk) i = restart_point blk i) /\
    (forall ri o key, valid_off blk o -> bk_extract_key (the_block blk) ri o key = extract_key enc_size_real blk ri o key) /\
    (forall i x, nth_error (bl_restarts blk) i = Some x -> valid_off blk x) /\
    (forall ri o key ri' o' no kk t v, valid_off blk o ->
       extract_key enc_size_real blk ri o key = Ok (PAt ri' o' no kk t v) -> valid_off blk no) /\
    (length (bl_entries blk) <= length (block_bytes blk))%nat /\
    (length (bl_restarts blk) <= length (block_bytes blk))%nat.
  Proof.
    destruct built_facts as (W & S & Hrec & Hbd & Hrs & Hnr).
    pose proof (bytes_len blk Hrec Hbd Hnr) as HL. pose proof (buf_len_ge_length (bl_entries blk)) as HE.
    split; [exact W|]. split; [exact S|]. split; [exact (bblock_new_ok blk Hrec Hbd Hnr)|].
    split; [exact (restart_point_bytes blk Hrec Hbd Hrs Hnr)|]. split; [eapply extract_key_bytes; eauto|].
    split.
    { intros i x Hx.
      assert (Hcase : bl_entries blk = [] \/ bl_entries blk <> [])
        by (destruct (bl_entries blk); [left; reflexivity|right; discriminate]).
      destruct Hcase as [Eb|Hne].
      - left. rewrite (wf_rempty _ _ _ W Eb) in Hx. destruct i as [|[|i]]; cbn in Hx; try discriminate.
        injection Hx as <-. rewrite Hbd, Eb. cbn. lia.
      - destruct (wf_rentry _ _ _ W i x Hx Hne) as (n & be & Hn & Ho & _).
        right. exists n, be. split; [exact Hn|now rewrite <- Ho]. }
    split; [eapply next_off_valid; eauto|]. unfold len, num_restarts in *. split; lia.
  Qed.

  (* THE BYTE-LEVEL BLOCK THEOREM *)
  Theorem block_bytes_cursor_refines : forall prog,
    bytes_run (block_bytes blk) prog = Ok (map (fun x => Ok x) (ref_run es (-1) prog)).
  Proof.
    intros prog. destruct lock_premises as (W & S & Hnew & RP & EX & RV & EA & Hfe & Hfr).
    unfold bytes_run. rewrite Hnew. cbn [bind]. f_equal.
    apply (run_lock enc_size_real blk (the_block blk) (length (block_bytes blk)) (valid_off blk)
             eq_refl eq_refl RP EX RV EA Hfe Hfr prog bc_new _ (V_new _)).
    exact (run_sim enc_size_real enc_size_real_pos blk es W S prog bc_new (-1)%Z (R_new enc_size_real blk es)).
  Qed.

  Theorem block_bytes_load : forall key ts,
    bytes_load (block_bytes blk) key ts = Ok (load_spec es key ts).
  Proof.
    intros key ts. destruct lock_premises as (W & S & Hnew & RP & EX & RV & EA & Hfe & Hfr).
    unfold bytes_load. rewrite Hnew. cbn [bind].
    apply (load_lock enc_size_real blk (the_block blk) (length (block_bytes blk)) (valid_off blk)
             eq_refl eq_refl RP EX RV EA Hfe Hfr).
    exact (load_correct enc_size_real enc_size_real_pos blk es W S key ts).
  Qed.
End Final.
