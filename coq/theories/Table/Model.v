(* Table/Model.v — executable model of sst/src/block.rs (BlockBuilder, Block, BlockCursor) and of
   the key order of sst/src/lib.rs (KeyRef::cmp).  Definitions only.

   Logical layer: a block's byte buffer is the sequence of its KeyValueEntry records; the byte
   length of a record is `enc_size` (a Section variable; Table/ModelWire.v gives the real prototk
   size and the real bytes).  Offsets, restart points, `restarts_boundary`, `next_offset` are the
   same numbers as in the Rust; "unpack the record at byte offset o" is `entry_at`, which fails
   (EUnpack) when o is not the first byte of a record.

   The model is the model of the REPAIRED code (fix: commits 23addcc — empty block — and
   a9a83c0 — restart interval 0 — in /repo); both repaired lines are marked [fix]. *)
From Coq Require Import NArith List Bool.
From Blue Require Import Gen.Const_Table.
Import ListNotations.
Open Scope N_scope.

Definition bytes := list N.
Definition U64_MAX : N := 18446744073709551615.
Definition U32_MAX : N := 4294967295.

(* ---------------------------------------------------------------- order *)
(* <[u8] as Ord>::cmp *)
Fixpoint lex_cmp (a b : bytes) : comparison :=
  match a, b with
  | [], [] => Eq
  | [], _ :: _ => Lt
  | _ :: _, [] => Gt
  | x :: a', y :: b' => match x ?= y with Eq => lex_cmp a' b' | c => c end
  end.

(* KeyRef::cmp: key ascending, then timestamp DESCENDING *)
Definition kref_cmp (k1 : bytes) (t1 : N) (k2 : bytes) (t2 : N) : comparison :=
  match lex_cmp k1 k2 with Eq => CompOpp (t1 ?= t2) | c => c end.

Definition bytes_eqb (a b : bytes) : bool := match lex_cmp a b with Eq => true | _ => false end.

(* a key-value pair: value None = tombstone *)
Definition entry : Type := (bytes * N * option bytes)%type.
Definition e_key (e : entry) : bytes := fst (fst e).
Definition e_ts (e : entry) : N := snd (fst e).
Definition e_val (e : entry) : option bytes := snd e.

Definition len (b : bytes) : N := N.of_nat (length b).

(* ---------------------------------------------------------------- results *)
Inductive err :=
| EKeyTooLarge | EValueTooLarge | ETableFull | ESortOrder
| ELogicRestartIdx | ECorruptOffsetBoundary | ECorruptZeroRestarts | ECorruptNoKvp
| ECorruptBinSearch | ELogicNegRestart | ELogicNextNotPositioned | EUnpack
| ECorruptMetaNull | ECorruptMetaStartLimit | ECorruptIndexPastFilter | ECorruptFilterPastFinal
| ECorruptFileTooSmall | ECorruptNotPlain | ECorruptNotFilter | ECorruptBadFilter
| ELogicFlushNone | ELogicStartSome
| EPanic | EFuel.

Inductive result (A : Type) := Ok (a : A) | Err (e : err).
Arguments Ok {A} a.
Arguments Err {A} e.

Definition bind {A B} (r : result A) (f : A -> result B) : result B :=
  match r with Ok a => f a | Err e => Err e end.
Notation "x <- e ;; f" := (bind e (fun x => f)) (at level 61, e at next level, right associativity).

(* ---------------------------------------------------------------- records of a block *)
(* KeyValueEntry::{Put,Del}: shared, key_frag, timestamp, value (None = Del) *)
Record bentry := { be_shared : N; be_frag : bytes; be_ts : N; be_val : option bytes }.

Record bopts := { o_bri : N (* bytes_restart_interval *); o_kri : N (* key_value_pairs_restart_interval *) }.

Section Sized.
  Variable enc_size : bentry -> N.     (* stack_pack(KeyValueEntry).pack_sz() *)

  Fixpoint buf_len (buf : list bentry) : N :=
    match buf with [] => 0 | e :: r => enc_size e + buf_len r end.

  (* ------------------------------------------------------------ BlockBuilder *)
  Record bbuilder := {
    bb_opts : bopts;
    bb_buf : list bentry;            (* buffer, record by record *)
    bb_last_key : bytes;
    bb_last_ts : N;
    bb_restarts : list N;            (* restarts: Vec<u32>, in push order *)
    bb_bytes_since : N;
    bb_pairs_since : N }.

  Definition bb_new (o : bopts) : bbuilder :=
    {| bb_opts := o; bb_buf := []; bb_last_key := []; bb_last_ts := U64_MAX; bb_restarts := [0];
       bb_bytes_since := 0; bb_pairs_since := 0 |}.

  (* [fix] a9a83c0: the conjunct `key_value_pairs_since_restart > 0` *)
  Definition should_restart (b : bbuilder) : bool :=
    (0 <? bb_pairs_since b) &&
    ((o_bri (bb_opts b) <=? bb_bytes_since b) || (o_kri (bb_opts b) <=? bb_pairs_since b)).

  Fixpoint common_prefix (a b : bytes) : nat :=
    match a, b with
    | x :: a', y :: b' => if x =? y then S (common_prefix a' b') else O
    | _, _ => O
    end.

  (* compute_key_frag: (builder', shared, key_frag) *)
  Definition compute_key_frag (b : bbuilder) (key : bytes) : bbuilder * nat * bytes :=
    if should_restart b then
      ({| bb_opts := bb_opts b; bb_buf := bb_buf b; bb_last_key := bb_last_key b;
          bb_last_ts := bb_last_ts b; bb_restarts := bb_restarts b ++ [buf_len (bb_buf b)];
          bb_bytes_since := 0; bb_pairs_since := 0 |}, O, key)
    else
      let s := common_prefix (bb_last_key b) key in (b, s, skipn s key).

  (* append; the assert on u32::MAX is the explicit EPanic *)
  Definition bb_append (b : bbuilder) (be : bentry) : result bbuilder :=
    if buf_len (bb_buf b) + enc_size be <=? U32_MAX then
      Ok {| bb_opts := bb_opts b; bb_buf := bb_buf b ++ [be];
            bb_last_key := firstn (N.to_nat (be_shared be)) (bb_last_key b) ++ be_frag be;
            bb_last_ts := be_ts be; bb_restarts := bb_restarts b;
            bb_bytes_since := bb_bytes_since b + enc_size be;
            bb_pairs_since := bb_pairs_since b + 1 |}
    else Err EPanic.

  Definition bb_enforce_sort_order (b : bbuilder) (key : bytes) (ts : N) : result unit :=
    match kref_cmp (bb_last_key b) (bb_last_ts b) key ts with Lt => Ok tt | _ => Err ESortOrder end.

  Definition bb_approx_size (b : bbuilder) : N :=
    buf_len (bb_buf b) + 16 + N.of_nat (length (bb_restarts b)) * 4.

  Definition check_key_len (key : bytes) : result unit :=
    if MAX_KEY_LEN <? len key then Err EKeyTooLarge else Ok tt.
  Definition check_value_len (v : bytes) : result unit :=
    if MAX_VALUE_LEN <? len v then Err EValueTooLarge else Ok tt.
  Definition check_table_size (sz : N) : result unit :=
    if TABLE_FULL_SIZE <=? sz then Err ETableFull else Ok tt.

  (* Builder::put / Builder::del in one function: value None = del (del skips check_value_len) *)
  Definition bb_add (b : bbuilder) (e : entry) : result bbuilder :=
    _ <- check_key_len (e_key e) ;;
    _ <- match e_val e with Some v => check_value_len v | None => Ok tt end ;;
    _ <- check_table_size (bb_approx_size b) ;;
    _ <- bb_enforce_sort_order b (e_key e) (e_ts e) ;;
    let '(b1, shared, frag) := compute_key_frag b (e_key e) in
    bb_append b1 {| be_shared := N.of_nat shared; be_frag := frag; be_ts := e_ts e; be_val := e_val e |}.

  (* ------------------------------------------------------------ Block *)
  Record block := {
    bl_entries : list bentry;        (* bytes[0 .. restarts_boundary) record by record *)
    bl_restarts : list N;            (* the restart array *)
    bl_boundary : N }.               (* restarts_boundary *)

  Definition num_restarts (b : block) : N := N.of_nat (length (bl_restarts b)).

  (* seal + Block::new (which recomputes restarts_boundary from the footer: the buffer length) *)
  Definition bb_seal (b : bbuilder) : block :=
    {| bl_entries := bb_buf b; bl_restarts := bb_restarts b; bl_boundary := buf_len (bb_buf b) |}.

  (* ------------------------------------------------------------ BlockCursor *)
  Inductive pos :=
  | PFirst | PLast
  | PAt (ri off noff : N) (key : bytes) (ts : N) (val : option bytes).

  Record bcursor := { bc_pos : pos; bc_cache : option (N * list pos) }.
  Definition bc_new : bcursor := {| bc_pos := PFirst; bc_cache := None |}.
  Definition set_pos (c : bcursor) (p : pos) : bcursor := {| bc_pos := p; bc_cache := bc_cache c |}.

  Definition bc_kv (c : bcursor) : option entry :=
    match bc_pos c with PAt _ _ _ k t v => Some (k, t, v) | _ => None end.

  (* unpack the record that starts at byte `off` of a buffer whose first record starts at `cur` *)
  Fixpoint entry_at (es : list bentry) (cur off : N) : option (bentry * N) :=
    match es with
    | [] => None
    | e :: r => if cur =? off then Some (e, cur + enc_size e) else entry_at r (cur + enc_size e) off
    end.

  (* Block::restart_point (assert!(restart_idx < num_restarts)) *)
  Definition restart_point (b : block) (i : N) : result N :=
    match nth_error (bl_restarts b) (N.to_nat i) with Some x => Ok x | None => Err EPanic end.

  Definition extract_key (b : block) (ri off : N) (key : bytes) : result pos :=
    if bl_boundary b <=? off then Ok PLast
    else match entry_at (bl_entries b) 0 off with
         | None => Err EUnpack
         | Some (be, noff) =>
             Ok (PAt ri off noff (firstn (N.to_nat (be_shared be)) key ++ be_frag be) (be_ts be) (be_val be))
         end.

  Definition pos_key (p : pos) : bytes := match p with PAt _ _ _ k _ _ => k | _ => [] end.

  Definition seek_restart (b : block) (c : bcursor) (ri : N) : result bcursor :=
    if num_restarts b <=? ri then Err ELogicRestartIdx
    else off <- restart_point b ri ;;
         if bl_boundary b <=? off then Err ECorruptOffsetBoundary
         else p <- extract_key b ri off (pos_key (bc_pos c)) ;; Ok (set_pos c p).

  Definition bc_next (b : block) (c : bcursor) : result bcursor :=
    match bc_pos c with
    | PFirst =>
        (* [fix] 23addcc: an empty block *)
        if bl_boundary b =? 0 then Ok (set_pos c PLast) else seek_restart b c 0
    | PLast => Ok c
    | PAt ri off noff key ts val =>
        if bl_boundary b <=? noff then Ok (set_pos c PLast)
        else
          jump <- (if ri + 1 <? num_restarts b
                   then rp <- restart_point b (ri + 1) ;; Ok (rp <=? noff) else Ok false) ;;
          if jump then seek_restart b c (ri + 1)
          else p <- extract_key b ri noff key ;; Ok (set_pos c p)
    end.

  Fixpoint cache_loop (fuel : nat) (b : block) (ri off limit : N) (key : bytes) (acc : list pos)
    : result (list pos) :=
    match fuel with
    | O => Err EFuel
    | S f =>
        if off <? limit then
          p <- extract_key b ri off key ;;
          match p with
          | PAt _ _ noff k _ _ => cache_loop f b ri noff limit k (acc ++ [p])
          | _ => Ok acc
          end
        else Ok acc
    end.

  Definition cache_restart (b : block) (c : bcursor) (ri : N) : result bcursor :=
    let hit := match bc_cache c with Some (r, _) => r =? ri | None => false end in
    if hit then Ok c
    else off <- restart_point b ri ;;
         limit <- (if ri + 1 <? num_restarts b then restart_point b (ri + 1) else Ok (bl_boundary b)) ;;
         ps <- cache_loop (S (length (bl_entries b))) b ri off limit [] [] ;;
         Ok {| bc_pos := bc_pos c; bc_cache := Some (ri, ps) |}.

  Definition pos_noff_is (target : N) (p : pos) : bool :=
    match p with PAt _ _ noff _ _ _ => noff =? target | _ => false end.

  Definition next_offset (b : block) (c : bcursor) : N :=
    match bc_pos c with PFirst => 0 | PLast => bl_boundary b | PAt _ _ noff _ _ _ => noff end.

  Fixpoint prev_scan (fuel : nat) (b : block) (c : bcursor) (target : N) : result bcursor :=
    match fuel with
    | O => Err EFuel
    | S f => if next_offset b c <? target then c1 <- bc_next b c ;; prev_scan f b c1 target else Ok c
    end.

  Definition bc_prev (b : block) (c : bcursor) : result bcursor :=
    match bc_pos c with
    | PFirst => Ok c
    | p =>
        let target := match p with PAt _ off _ _ _ _ => off | _ => bl_boundary b end in
        if target =? 0 then Ok (set_pos c PFirst)
        else
          let cur_ri := match p with PAt ri _ _ _ _ _ => ri | _ => num_restarts b end in
          back <- (if num_restarts b <=? cur_ri then Ok true
                   else rp <- restart_point b cur_ri ;; Ok (target <=? rp)) ;;
          ri <- (if back then (if cur_ri =? 0 then Err ELogicNegRestart else Ok (cur_ri - 1))
                 else Ok cur_ri) ;;
          c1 <- cache_restart b c ri ;;
          match (match bc_cache c1 with
                 | Some (_, ps) => find (pos_noff_is target) (rev ps)
                 | None => None end) with
          | Some q => Ok (set_pos c1 q)
          | None => c2 <- seek_restart b c1 ri ;; prev_scan (S (length (bl_entries b))) b c2 target
          end
    end.

  (* binary search over the restart points: (cursor, left, right) *)
  Fixpoint bsearch (fuel : nat) (b : block) (c : bcursor) (key : bytes) (lo hi : N)
    : result (bcursor * N * N) :=
    match fuel with
    | O => Err EFuel
    | S f =>
        if lo <? hi then
          let mid := lo + (hi - lo + 1) / 2 in
          c1 <- seek_restart b c mid ;;
          match bc_pos c1 with
          | PAt _ _ _ k _ _ =>
              match lex_cmp key k with
              | Gt => bsearch f b c1 key mid hi
              | _ => bsearch f b c1 key lo (mid - 1)
              end
          | _ => Err ECorruptNoKvp
          end
        else Ok (c, lo, hi)
    end.

  Fixpoint seek_scan (fuel : nat) (b : block) (c : bcursor) (key : bytes) : result bcursor :=
    match fuel with
    | O => Err EFuel
    | S f =>
        match bc_pos c with
        | PAt _ _ _ k _ _ =>
            match lex_cmp key k with
            | Gt => c1 <- bc_next b c ;; seek_scan f b c1 key
            | _ => Ok c
            end
        | _ => Ok c
        end
    end.

  Definition bc_seek (b : block) (c : bcursor) (key : bytes) : result bcursor :=
    if num_restarts b =? 0 then Err ECorruptZeroRestarts
    else if bl_boundary b =? 0 then Ok (set_pos c PLast)       (* [fix] 23addcc *)
    else
      r <- bsearch (S (length (bl_restarts b))) b c key 0 (num_restarts b - 1) ;;
      let '(c1, lo, hi) := r in
      if negb (lo =? hi) then Err ECorruptBinSearch
      else c2 <- seek_restart b c1 lo ;;
           match bc_pos c2 with
           | PAt _ _ _ _ _ _ => seek_scan (S (S (length (bl_entries b)))) b c2 key
           | _ => Err ECorruptNoKvp
           end.

  Definition bc_first (c : bcursor) : bcursor := set_pos c PFirst.
  Definition bc_last (c : bcursor) : bcursor := set_pos c PLast.

  (* the loop shared by Block::load and Sst::load: advance while key() < (key, ts) *)
  Definition kref_lt_target (e : entry) (key : bytes) (ts : N) : bool :=
    match kref_cmp (e_key e) (e_ts e) key ts with Lt => true | _ => false end.

  Fixpoint load_scan (fuel : nat) (b : block) (c : bcursor) (key : bytes) (ts : N) : result bcursor :=
    match fuel with
    | O => Err EFuel
    | S f =>
        match bc_kv c with
        | Some e => if kref_lt_target e key ts then c1 <- bc_next b c ;; load_scan f b c1 key ts else Ok c
        | None => Ok c
        end
    end.

  (* load: (value, is_tombstone) *)
  Definition load_result (kv : option entry) (key : bytes) : option bytes * bool :=
    match kv with
    | Some e => if bytes_eqb (e_key e) key
                then (e_val e, match e_val e with None => true | Some _ => false end)
                else (None, false)
    | None => (None, false)
    end.

  Definition bl_load (b : block) (key : bytes) (ts : N) : result (option bytes * bool) :=
    c <- bc_seek b bc_new key ;;
    c1 <- load_scan (S (S (length (bl_entries b)))) b c key ts ;;
    Ok (load_result (bc_kv c1) key).

  (* ------------------------------------------------------------ building a whole block *)
  (* feed entries; a rejected entry leaves the builder as it was and is reported *)
  Fixpoint bb_feed (b : bbuilder) (es : list entry) (i : nat) : bbuilder * list (nat * err) :=
    match es with
    | [] => (b, [])
    | e :: r =>
        match bb_add b e with
        | Ok b1 => bb_feed b1 r (S i)
        | Err x => let '(b2, rej) := bb_feed b r (S i) in (b2, (i, x) :: rej)
        end
    end.

  (* all entries must be accepted *)
  Fixpoint bb_add_all (b : bbuilder) (es : list entry) : result bbuilder :=
    match es with
    | [] => Ok b
    | e :: r => b1 <- bb_add b e ;; bb_add_all b1 r
    end.

  Definition build_block (o : bopts) (es : list entry) : result block :=
    b <- bb_add_all (bb_new o) es ;; Ok (bb_seal b).
End Sized.

(* ---------------------------------------------------------------- cursor programs *)
Inductive op := OFirst | OLast | OSeek (k : bytes) | ONext | OPrev.

(* an observation: key_value() after the call, or the error the call returned *)
Definition obs := result (option entry).

Section RunBlock.
  Variable enc_size : bentry -> N.
  Definition bc_step (b : block) (c : bcursor) (o : op) : result bcursor :=
    match o with
    | OFirst => Ok (bc_first c)
    | OLast => Ok (bc_last c)
    | OSeek k => bc_seek enc_size b c k
    | ONext => bc_next enc_size b c
    | OPrev => bc_prev enc_size b c
    end.

  (* on an error the cursor is kept as it was (the theorems show no error occurs) *)
  Fixpoint bc_run (b : block) (c : bcursor) (prog : list op) : list obs :=
    match prog with
    | [] => []
    | o :: p =>
        match bc_step b c o with
        | Ok c1 => Ok (bc_kv c1) :: bc_run b c1 p
        | Err e => Err e :: bc_run b c p
        end
    end.
End RunBlock.
