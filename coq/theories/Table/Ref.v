(* Table/Ref.v — the specification side: the reference cursor over a list of entries
   (sst/src/reference.rs ReferenceCursor: an index in [-1, len]), the reference point lookup, and
   what "strictly ordered" means.  Definitions only.
   (The Cursor area of C11 did not exist when this was written; this is the same reference cursor,
   kept minimal and local to the Table area.) *)
From Coq Require Import NArith ZArith List Bool.
From Blue Require Import Table.Model.
Import ListNotations.

Definition kref_lt (a b : entry) : Prop := kref_cmp (e_key a) (e_ts a) (e_key b) (e_ts b) = Lt.

(* strictly ordered by KeyRef: every entry is less than every later one *)
Fixpoint sorted (l : list entry) : Prop :=
  match l with [] => True | a :: r => Forall (kref_lt a) r /\ sorted r end.

Open Scope Z_scope.

Definition zlen (l : list entry) : Z := Z.of_nat (length l).

Definition ref_kv (l : list entry) (i : Z) : option entry :=
  if (0 <=? i) && (i <? zlen l) then nth_error l (Z.to_nat i) else None.

(* seek(k): the number of entries whose key is below k = the index of the first entry whose key
   is at least k (ReferenceCursor::seek binary-searches for (k, u64::MAX), the least KeyRef of k) *)
Definition key_below (k : bytes) (e : entry) : bool :=
  match lex_cmp (e_key e) k with Lt => true | _ => false end.
Definition ref_seek (l : list entry) (k : bytes) : Z := Z.of_nat (length (filter (key_below k) l)).

Definition ref_step (l : list entry) (i : Z) (o : op) : Z :=
  match o with
  | OFirst => -1
  | OLast => zlen l
  | OSeek k => ref_seek l k
  | ONext => Z.min (i + 1) (zlen l)
  | OPrev => Z.max (i - 1) (-1)
  end.

Fixpoint ref_run (l : list entry) (i : Z) (prog : list op) : list (option entry) :=
  match prog with
  | [] => []
  | o :: p => let j := ref_step l i o in ref_kv l j :: ref_run l j p
  end.

(* point lookup at a timestamp: the first entry (newest first) of that key with timestamp <= ts *)
Definition load_spec (l : list entry) (k : bytes) (ts : N) : option bytes * bool :=
  match find (fun e => bytes_eqb (e_key e) k && (e_ts e <=? ts)%N) l with
  | Some e => (e_val e, match e_val e with None => true | Some _ => false end)
  | None => (None, false)
  end.

(* bytes are numbers below 256 (side condition where u8 arithmetic matters: divide_keys) *)
Definition bytes_ok (b : bytes) : Prop := Forall (fun x => (x < 256)%N) b.
Definition keys_ok (l : list entry) : Prop := Forall (fun e => bytes_ok (e_key e)) l.

(* what the metadata of a table holding l must say *)
Definition spec_first (l : list entry) : bytes := match l with e :: _ => e_key e | [] => [] end.
Definition spec_last (l : list entry) (dflt : bytes) : bytes :=
  match l with [] => dflt | e :: r => e_key (last r e) end.
Definition spec_smallest (l : list entry) : N :=
  match l with [] => 0%N | e :: r => fold_left N.min (map e_ts r) (e_ts e) end.
Definition spec_biggest (l : list entry) : N :=
  match l with [] => 0%N | e :: r => fold_left N.max (map e_ts r) (e_ts e) end.
Definition ts_ok (l : list entry) : Prop := Forall (fun e => (e_ts e <= U64_MAX)%N) l.
