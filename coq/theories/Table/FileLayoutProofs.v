(* Table/FileLayoutProofs.v — the bytes SstBuilder::seal leaves in the file (`sst_bytes`), and what
   Sst::from_file_handle (`file_open`) makes of them: every frame lies at its [start, limit), the
   final block is found through the trailing eight bytes, the index block (with the checksums of
   the data blocks patched in, as flush_block writes them) reads back as the index entries, the
   checksums agree, the filter round-trips.  This delivers the hypotheses of FileCursorProofs.v;
   the theorems over file bytes follow.
   crc32c is any function into u32, the setsum digest any function into [u8; 32]. *)
From Coq Require Import NArith ZArith List Bool Lia.
From Blue Require Import Gen.Const_Table Table.Model Table.ModelBloom Table.ModelSst Table.ModelWire
  Table.ModelBytes Table.ModelFile Table.Ref Table.OrderProofs Table.BlockBase Table.BuildProofs
  Table.CursorProofs Table.WireProofs Table.BuildSstProofs Table.SstProofs Table.BytesCursorProofs
  Table.BytesProofs Table.BlockBytesProofs Table.BlockOk Table.FilterBytesProofs Table.FileBytesProofs
  Table.FileBuildProofs Table.FileCursorProofs.
From Blue Require Wire.Model Wire.ModelMsg Wire.Spec Wire.ProofsVarint Wire.ProofsScalar Wire.Props_C15.
Import ListNotations.
Open Scope N_scope.

(* ---------------------------------------------------------------- reading a slice *)
Lemma read_at_mid : forall (pre mid post : bytes) p a, len pre = p -> len mid = a ->
  read_at (pre ++ mid ++ post) p a = FOk mid.
Proof.
  intros pre mid post p a <- <-. unfold read_at. rewrite !len_app.
  destruct (N.leb_spec (len pre + len mid) (len pre + (len mid + len post))); [|lia].
  unfold len. rewrite !Nat2N.id. rewrite (skipn_exact pre _ _ eq_refl). now rewrite (firstn_exact mid post _ eq_refl).
Qed.

(* ---------------------------------------------------------------- BlockMetadata bytes *)
Lemma meta_bytes_explicit : forall s l c,
  meta_bytes s l c = [104] ++ varint s ++ [112] ++ varint l ++ [125] ++ WM.le_bytes 4 c.
Proof.
  intros s l c. unfold meta_bytes, metadata_val.
  match goal with |- ?r = _ =>
    let r' := eval cbn -[WS.ref_varint WS.ref_tag WM.le_bytes] in r in change r with r' end.
  change (WS.ref_tag 13 0) with [104]. change (WS.ref_tag 14 0) with [112]. change (WS.ref_tag 15 5) with [125].
  rewrite !N2Z.id. repeat rewrite <- varint_ref. rewrite !app_nil_r. repeat rewrite <- app_assoc. reflexivity.
Qed.

Lemma meta_bytes_len : forall s l c, s < WM.W64 -> l < WM.W64 -> len (meta_bytes s l c) = meta_len s l.
Proof.
  intros s l c Hs Hl. rewrite meta_bytes_explicit, !len_app, (varint_len s Hs), (varint_len l Hl).
  unfold meta_len, len. rewrite WPS.le_bytes_len. cbn [length]. lia.
Qed.

Lemma meta_bytes_ok : forall s l c, bytes_ok (meta_bytes s l c).
Proof.
  intros s l c. rewrite meta_bytes_explicit.
  repeat (apply WPV.bytes_ok_app; split); try apply varint_bytes_ok; try apply WPS.le_bytes_ok;
    (constructor; [lia|constructor]).
Qed.

Lemma meta_of_metadata_val : forall s l c, meta_of_val (metadata_val s l c) = Some (s, l, c).
Proof. intros. unfold meta_of_val, metadata_val. now rewrite !N2Z.id. Qed.

Lemma fmeta_of_bytes : forall k t s l c, s < WM.W64 -> l < WM.W64 -> c < WM.W32 ->
  fmeta_from_kv (k, t, Some (meta_bytes s l c)) = FOk (s, l, c).
Proof.
  intros k t s l c Hs Hl Hc. unfold fmeta_from_kv. cbn [e_val fst snd].
  rewrite (proj1 (meta_codec s l c Hs Hl Hc)). now rewrite meta_of_metadata_val.
Qed.

(* ---------------------------------------------------------------- blocks *)
Lemma block_bytes_ok : forall blk, recs_ok (bl_entries blk) -> bytes_ok (block_bytes blk).
Proof.
  intros blk H. unfold block_bytes.
  assert (Hc : forall rs, bytes_ok (concat (map le32 rs))).
  { induction rs as [|w b IHb]; [constructor|]. cbn [map concat]. apply WPV.bytes_ok_app. split; [|exact IHb].
    rewrite le32_le_bytes. apply WPS.le_bytes_ok. }
  repeat (apply WPV.bytes_ok_app; split); try apply varint_bytes_ok; try apply Hc; try (now apply data_bytes_ok);
    try (rewrite le32_le_bytes; apply WPS.le_bytes_ok); (constructor; [lia|constructor]).
Qed.

(* a map over the records that keeps sizes and prefix lengths keeps the block readable *)
Lemma buf_len_map : forall (f : bentry -> bentry) l,
  Forall (fun be => enc_size_real (f be) = enc_size_real be) l ->
  buf_len enc_size_real (map f l) = buf_len enc_size_real l.
Proof.
  induction l as [|be l IH]; intros H; [reflexivity|]. inversion H; subst. cbn [map buf_len].
  rewrite IH by assumption. congruence.
Qed.

Lemma off_map : forall (f : bentry -> bentry) l i,
  Forall (fun be => enc_size_real (f be) = enc_size_real be) l ->
  off enc_size_real (map f l) i = off enc_size_real l i.
Proof.
  intros f l i H. unfold off. rewrite firstn_map. apply buf_len_map. now apply Forall_firstn.
Qed.

Definition map_block (f : bentry -> bentry) (blk : block) : block :=
  {| bl_entries := map f (bl_entries blk); bl_restarts := bl_restarts blk; bl_boundary := bl_boundary blk |}.

Lemma block_ok_map : forall f blk es, block_ok blk es ->
  Forall (fun be => enc_size_real (f be) = enc_size_real be /\ be_shared (f be) = be_shared be /\
                    rec_ok (f be)) (bl_entries blk) ->
  block_ok (map_block f blk) (decode [] (map f (bl_entries blk))) /\ block_len (map_block f blk) = block_len blk.
Proof.
  intros f blk es (W & Hrec & Hbd & Hrs & Hnr) Hf.
  assert (He : Forall (fun be => enc_size_real (f be) = enc_size_real be) (bl_entries blk)).
  { eapply Forall_impl; [|exact Hf]. cbn. tauto. }
  split; [|reflexivity].
  split; [|split; [|split; [|split]]]; cbn [map_block bl_entries bl_restarts bl_boundary]; auto.
  - destruct W as [Wd Wb W0 Ws Wr We]. constructor; cbn [map_block bl_entries bl_restarts bl_boundary]; auto.
    + now rewrite buf_len_map.
    + intros r x Hx Hne. destruct (Wr r x Hx) as (i & be & Hi & Ho & Hsh).
      { intros E. apply Hne. now rewrite E. }
      exists i, (f be). split; [now apply map_nth_error|]. split; [now rewrite off_map|].
      rewrite Forall_forall in Hf. destruct (Hf be (nth_error_In _ _ Hi)) as (_ & -> & _). exact Hsh.
    + intros E. apply We. destruct (bl_entries blk); [reflexivity|discriminate].
  - unfold recs_ok in *. rewrite Forall_forall in *. intros be' Hin. apply in_map_iff in Hin as (be & <- & Hin).
    destruct (Hf be Hin) as (E1 & _ & R). destruct (Hrec be Hin) as (_ & S). split; [exact R|]. now rewrite E1.
  - now rewrite buf_len_map.
Qed.

(* ---------------------------------------------------------------- the patched index block *)
Section Patch.
  Variable crc : bytes -> N.
  Hypothesis Hcrc : forall bs, crc bs < WM.W32.
  Variable fs : frames.

  Definition cmeta (m : N * N) : N * N * N := (fst m, snd m, crc_at crc fs m).
  Definition pval (s l : N) : bytes := meta_bytes s l (crc_at crc fs (s, l)).

  Lemma crc_at_lt : forall m, crc_at crc fs m < WM.W32.
  Proof. intros m. unfold crc_at. destruct (find_frame fs m); [apply Hcrc|reflexivity]. Qed.

  Definition be_rel (be : bentry) (x : N * N * frame) : Prop :=
    be_val be = Some (meta_enc_real (fst (fst x)) (snd (fst x))).
  Definition x_bound (x : N * N * frame) : Prop := fst (fst x) < WM.W64 /\ snd (fst x) < WM.W64.

  Lemma be_rel_of_idx : forall bes prev D, Forall2 idx_rel (decode prev bes) D -> Forall2 be_rel bes D.
  Proof.
    induction bes as [|be r IH]; intros prev D H; cbn [decode] in H; inversion H; subst; constructor.
    - assumption.
    - eapply IH; eauto.
  Qed.

  Lemma patch_be_at : forall be x, be_rel be x -> x_bound x ->
    patch_be crc fs be = {| be_shared := be_shared be; be_frag := be_frag be; be_ts := be_ts be;
                            be_val := Some (pval (fst (fst x)) (snd (fst x))) |}.
  Proof.
    intros be x R (Hs & Hl). unfold patch_be. rewrite R, (meta_real_roundtrip _ _ Hs Hl). reflexivity.
  Qed.

  Lemma patch_be_good : forall be x, be_rel be x -> x_bound x -> rec_ok be ->
    enc_size_real (patch_be crc fs be) = enc_size_real be /\
    be_shared (patch_be crc fs be) = be_shared be /\ rec_ok (patch_be crc fs be).
  Proof.
    intros be x R B (Hok & Hsz). rewrite (patch_be_at be x R B). destruct B as (Hs & Hl).
    assert (Hlen : len (pval (fst (fst x)) (snd (fst x))) = len (meta_enc_real (fst (fst x)) (snd (fst x)))).
    { unfold pval. rewrite meta_enc_real_is_ref, !meta_bytes_len; auto. }
    assert (Hb : body_size {| be_shared := be_shared be; be_frag := be_frag be; be_ts := be_ts be;
                              be_val := Some (pval (fst (fst x)) (snd (fst x))) |} = body_size be).
    { unfold body_size. cbn [be_shared be_frag be_ts be_val]. rewrite R, Hlen. reflexivity. }
    split; [unfold enc_size_real; now rewrite Hb|]. split; [reflexivity|].
    split; [|now rewrite Hb].
    destruct Hok as (A & B & C & D & E). unfold bentry_ok. cbn [be_shared be_frag be_ts be_val].
    repeat (split; [assumption|]). split; [apply meta_bytes_ok|].
    rewrite Hlen. rewrite R in E. apply E.
  Qed.

  Lemma patch_all_good : forall bes D, Forall2 be_rel bes D -> Forall x_bound D -> recs_ok bes ->
    Forall (fun be => enc_size_real (patch_be crc fs be) = enc_size_real be /\
                      be_shared (patch_be crc fs be) = be_shared be /\ rec_ok (patch_be crc fs be)) bes.
  Proof.
    intros bes D H. induction H as [|be x bes D R H IH]; intros HB HR; constructor;
      inversion HB; inversion HR; subst.
    - eapply patch_be_good; eauto. tauto.
    - now apply IH.
  Qed.

  (* what the reader finds in the patched block: the keys, and BlockMetadata with the checksums *)
  Lemma patched_decode : forall bes D, Forall2 be_rel bes D -> Forall x_bound D -> forall prev,
    Forall2 (fun e o => fst o = e_key e /\ fmeta_from_kv e = FOk (snd o))
      (decode prev (map (patch_be crc fs) bes))
      (map (fun x => (fst x, cmeta (snd x))) (idx_of (decode prev bes) D)).
  Proof.
    intros bes D H. induction H as [|be x bes D R H IH]; intros HB prev; [constructor|].
    inversion HB as [|? ? Bx HB']; subst. cbn [map decode]. unfold idx_of. cbn [combine map]. fold (idx_of (decode (full_key prev be) bes) D).
    rewrite (patch_be_at be x R Bx).
    assert (Ek : full_key prev {| be_shared := be_shared be; be_frag := be_frag be; be_ts := be_ts be;
                                  be_val := Some (pval (fst (fst x)) (snd (fst x))) |} = full_key prev be) by reflexivity.
    rewrite Ek. constructor; [|now apply IH].
    cbn [fst snd]. split; [reflexivity|]. unfold dec_entry. rewrite Ek. cbn [be_ts be_val].
    destruct Bx as (Hs & Hl). unfold pval, cmeta. cbn [fst snd]. apply fmeta_of_bytes; auto. apply crc_at_lt.
  Qed.
End Patch.

(* ---------------------------------------------------------------- reading the index back *)
Lemma Forall2_nth : forall {A B} (P : A -> B -> Prop) l1 l2 n a, Forall2 P l1 l2 -> nth_error l1 n = Some a ->
  exists b, nth_error l2 n = Some b /\ P a b.
Proof.
  intros A B P l1 l2 n a H. revert n. induction H as [|x y l1 l2 Hxy H IH]; intros [|n] Hn; cbn [nth_error] in *; try discriminate.
  - injection Hn as <-. eauto.
  - eauto.
Qed.

Lemma Forall2_len : forall {A B} (P : A -> B -> Prop) l1 l2, Forall2 P l1 l2 -> length l1 = length l2.
Proof. intros A B P l1 l2 H. induction H; cbn [length]; congruence. Qed.

Lemma findex_loop_ok : forall blk es out, block_ok blk es ->
  Forall2 (fun e (o : bytes * (N * N * N)) => fst o = e_key e /\ fmeta_from_kv e = FOk (snd o)) es out ->
  forall k fuel c n acc, R enc_size_real blk es c (Z.of_nat n) -> V (valid_off blk) c ->
  (n + k = length es)%nat -> (k < fuel)%nat ->
  findex_loop fuel (the_block blk) c acc = FOk (acc ++ skipn n out).
Proof.
  intros blk es out OK HF. pose proof (Forall2_len _ _ _ HF) as HL.
  induction k as [|k IH]; intros fuel c n acc HR HV Hn Hf; (destruct fuel as [|f]; [lia|]);
    cbn [findex_loop]; rewrite (R_kv _ _ _ _ _ HR); unfold ref_kv, zlen.
  - destruct (Z.ltb_spec (Z.of_nat n) (Z.of_nat (length es))); [lia|]. rewrite andb_false_r.
    rewrite skipn_all2 by lia. now rewrite app_nil_r.
  - destruct (Z.leb_spec 0 (Z.of_nat n)); [|lia].
    destruct (Z.ltb_spec (Z.of_nat n) (Z.of_nat (length es))); [|lia]. cbn [andb]. rewrite Nat2Z.id.
    destruct (nth_error es n) as [e|] eqn:Ee; [|apply nth_error_None in Ee; lia].
    destruct (Forall2_nth _ _ _ _ _ HF Ee) as (o & Ho & Hk & Hm). rewrite Hm. cbn [fbind].
    destruct (next_sim enc_size_real enc_size_real_pos blk _ (proj1 OK) c _ HR) as (c1 & Hc1 & R1).
    destruct (ok_next blk es OK c c1 HV Hc1) as (Hb1 & V1). rewrite Hb1. cbn [of_res fbind].
    replace (Z.min (Z.of_nat n + 1) (zlen es)) with (Z.of_nat (S n)) in R1 by (unfold zlen; lia).
    rewrite (IH f c1 (S n) _ R1 V1) by lia.
    rewrite (skipn_nth_cons' _ _ _ Ho). rewrite <- app_assoc. cbn [app]. rewrite <- Hk. now destruct o.
Qed.

(* ---------------------------------------------------------------- frames in the file *)
Lemma frames_ok_split : forall D1 x D2 lo hi, frames_ok (D1 ++ x :: D2) lo hi ->
  frames_ok D1 lo (fst (fst x)) /\ frames_ok (x :: D2) (fst (fst x)) hi.
Proof.
  induction D1 as [|y D1 IH]; intros x D2 lo hi H; cbn [app frames_ok] in *.
  - destruct H as (H1 & H2 & H3). split; [now symmetry|]. split; [reflexivity|]. split; [|exact H3].
    destruct H2 as (blk & es & A & B & C & E). exists blk, es. rewrite H1. auto.
  - destruct H as (H1 & H2 & H3). destruct (IH _ _ _ _ H3) as (A & B). auto.
Qed.

Lemma find_in_frames : forall D lo hi x (r : frames), frames_ok D lo hi -> In x D ->
  find_frame (D ++ r) (fst (fst x), snd (fst x)) = Some (snd x).
Proof.
  induction D as [|y D IH]; intros lo hi x r H Hin; [destruct Hin|]. cbn [frames_ok] in H.
  destruct H as (H1 & (blk & es & E & OK & H2 & Hs) & H3).
  destruct Hin as [<-|Hin].
  - unfold find_frame. cbn [app find fst snd]. now rewrite !N.eqb_refl.
  - destruct (frames_ok_in _ _ _ _ H3 Hin) as (A & _). pose proof (frame_len_pos (block_len blk)).
    unfold find_frame. cbn [app find fst snd].
    destruct (N.eqb_spec (fst (fst y)) (fst (fst x))) as [E1|_]; [lia|]. cbn [andb].
    exact (IH _ _ x r H3 Hin).
Qed.

Lemma plain_frame : forall blk es, block_ok blk es -> frame_len (block_len blk) < P36 ->
  len (frame_bytes 0 (block_bytes blk)) = frame_len (block_len blk) /\
  WG.msg_unpack sst_entry_shape (frame_bytes 0 (block_bytes blk)) = WM.Ok (WG.VV 0 (WG.VB (block_bytes blk)), []) /\
  bblock_new (block_bytes blk) = Ok (the_block blk).
Proof.
  intros blk es OK Hs. destruct (block_ok_premises blk es OK) as (Hnew & _ & _ & _ & _ & _ & _ & HL).
  destruct (frame_codec 0 (block_bytes blk) [] ltac:(lia) (block_bytes_ok blk (proj1 (proj2 OK)))
              ltac:(rewrite HL; unfold P36, WM.W64 in *; lia) (Forall_nil _)) as (_ & A & B).
  rewrite app_nil_r in B. rewrite HL in A. auto.
Qed.

Lemma filter_frame : forall flt, filter_ok flt -> frame_len (filter_bytes_len flt) < P36 ->
  len (frame_bytes 1 (filter_to_bytes flt)) = frame_len (filter_bytes_len flt) /\
  WG.msg_unpack sst_entry_shape (frame_bytes 1 (filter_to_bytes flt)) = WM.Ok (WG.VV 1 (WG.VB (filter_to_bytes flt)), []).
Proof.
  intros flt OK Hs. pose proof (filter_bytes_length flt OK) as HL.
  destruct (frame_codec 1 (filter_to_bytes flt) [] ltac:(lia) (filter_bytes_ok flt)
              ltac:(rewrite HL; unfold P36, WM.W64 in *; lia) (Forall_nil _)) as (_ & A & B).
  rewrite app_nil_r in B. rewrite HL in A. auto.
Qed.

Section Load.
  Variable crc : bytes -> N.

  Lemma load_plain : forall file pre post blk es s l c, block_ok blk es -> frame_len (block_len blk) < P36 ->
    file = pre ++ frame_bytes 0 (block_bytes blk) ++ post -> len pre = s -> l = s + frame_len (block_len blk) ->
    c = crc (block_bytes blk) ->
    file_load_block crc file (s, l, c) = FOk (the_block blk).
  Proof.
    intros file pre post blk es s l c OK Hs -> Hp -> ->.
    destruct (plain_frame blk es OK Hs) as (A & B & C). pose proof (frame_len_pos (block_len blk)).
    unfold file_load_block, load_frame, fsanity, m_start, m_limit, m_crc. cbn [fst snd].
    destruct (N.leb_spec (s + frame_len (block_len blk)) s); [lia|]. cbn [fbind].
    rewrite (read_at_mid pre _ post s (s + frame_len (block_len blk) - s) Hp ltac:(rewrite A; lia)). cbn [fbind].
    rewrite B, N.eqb_refl. cbn [fbind fst snd]. now rewrite C.
  Qed.

  Lemma load_filter : forall file pre post flt s l c, filter_ok flt -> flt <> [] -> frame_len (filter_bytes_len flt) < P36 ->
    file = pre ++ frame_bytes 1 (filter_to_bytes flt) ++ post -> len pre = s -> l = s + frame_len (filter_bytes_len flt) ->
    c = crc (filter_to_bytes flt) ->
    file_load_filter crc file (s, l, c) = FOk flt.
  Proof.
    intros file pre post flt s l c OK Hne Hs -> Hp -> ->.
    destruct (filter_frame flt OK Hs) as (A & B). pose proof (frame_len_pos (filter_bytes_len flt)).
    unfold file_load_filter, load_frame, fsanity, m_start, m_limit, m_crc. cbn [fst snd].
    destruct (N.leb_spec (s + frame_len (filter_bytes_len flt)) s); [lia|]. cbn [fbind].
    rewrite (read_at_mid pre _ post s (s + frame_len (filter_bytes_len flt) - s) Hp ltac:(rewrite A; lia)). cbn [fbind].
    rewrite B, N.eqb_refl. cbn [fbind fst snd]. now apply filter_roundtrip.
  Qed.
End Load.

(* ---------------------------------------------------------------- the sealed file *)
Section Open.
  Variable crc : bytes -> N.
  Hypothesis Hcrc : forall bs, crc bs < WM.W32.
  Variable digest : list entry -> bytes.
  Hypothesis Hdig : forall es, length (digest es) = 32%nat /\ bytes_ok (digest es).
  Variable t : sst.
  Variables (D : frames) (ies : list entry) (iblk : block) (flt : filter) (is_ il fl : N).
  Hypothesis S_frames : t_frames t = D ++ [(is_, il, FPlain iblk); (il, fl, FFilter flt)].
  Hypothesis S_D : frames_ok D 0 is_.
  Hypothesis S_iblk : block_ok iblk ies.
  Hypothesis S_rel : Forall2 idx_rel ies D.
  Hypothesis S_il : il = is_ + frame_len (block_len iblk).
  Hypothesis S_fl : fl = il + frame_len (filter_bytes_len flt).
  Hypothesis S_is : is_ < P42.
  Hypothesis S_ilen : frame_len (block_len iblk) < P36.
  Hypothesis S_flen : frame_len (filter_bytes_len flt) < P36.
  Hypothesis S_fbi : fb_index (t_final t) = (is_, il).
  Hypothesis S_fbf : fb_filter (t_final t) = (il, fl).
  Hypothesis S_fbo : fb_offset (t_final t) = fl.
  Hypothesis S_ib : t_index_block t = iblk.
  Hypothesis S_flt : t_filter t = flt.
  Hypothesis S_fok : filter_ok flt.
  Hypothesis S_fne : flt <> [].
  Hypothesis S_idx : t_index t = idx_of ies D.
  Hypothesis S_sm : fb_smallest (t_final t) < WM.W64.
  Hypothesis S_bg : fb_biggest (t_final t) < WM.W64.

  Let fs := t_frames t.
  Let fo := frame_out crc fs is_.
  Let pblk := map_block (patch_be crc fs) iblk.
  Let ci := crc (block_bytes pblk).
  Let cf := crc (filter_to_bytes flt).
  Let BD := concat (map fo D).
  Let BI := frame_bytes 0 (block_bytes pblk).
  Let BF := frame_bytes 1 (filter_to_bytes flt).
  Let FB := final_bytes is_ il ci il fl cf (digest (fb_setsum (t_final t)))
                        (fb_smallest (t_final t)) (fb_biggest (t_final t)) fl.
  Let file := sst_bytes crc digest t.

  Lemma D_facts : forall x, In x D ->
    x_bound x /\ fst (fst x) <> is_ /\ fst (fst x) < snd (fst x) /\ snd (fst x) <= is_ /\
    exists blk es, snd x = FPlain blk /\ block_ok blk es /\
                   snd (fst x) = fst (fst x) + frame_len (block_len blk) /\ frame_len (block_len blk) < P36.
  Proof.
    intros x Hx. destruct (frames_ok_in _ _ _ _ S_D Hx) as (A & B & blk & es & E & OK & C & Hs).
    pose proof (frame_len_pos (block_len blk)).
    split; [unfold x_bound, P42, WM.W64 in *; lia|]. split; [lia|]. split; [lia|]. split; [exact B|].
    exists blk, es. auto.
  Qed.

  Lemma D_bound : Forall x_bound D.
  Proof. apply Forall_forall. intros x Hx. exact (proj1 (D_facts x Hx)). Qed.

  Lemma bes_rel : Forall2 be_rel (bl_entries iblk) D.
  Proof.
    apply (be_rel_of_idx _ []). destruct S_iblk as ([Wd _ _ _ _ _] & _). now rewrite Wd.
  Qed.

  Lemma pblk_ok : block_ok pblk (decode [] (map (patch_be crc fs) (bl_entries iblk))) /\
                  block_len pblk = block_len iblk.
  Proof.
    apply (block_ok_map _ _ ies S_iblk).
    apply (patch_all_good crc fs _ D bes_rel D_bound). exact (proj1 (proj2 S_iblk)).
  Qed.

  (* the bytes of each part *)
  Lemma fo_data : forall x, In x D -> exists blk es, snd x = FPlain blk /\ block_ok blk es /\
    fo x = frame_bytes 0 (block_bytes blk) /\ len (fo x) = snd (fst x) - fst (fst x) /\
    snd (fst x) = fst (fst x) + frame_len (block_len blk) /\ frame_len (block_len blk) < P36.
  Proof.
    intros x Hx. destruct (D_facts x Hx) as (_ & Hne & _ & _ & blk & es & E & OK & C & Hs).
    exists blk, es. split; [exact E|]. split; [exact OK|].
    assert (Efo : fo x = frame_bytes 0 (block_bytes blk)).
    { unfold fo, frame_out. rewrite E. destruct (N.eqb_spec (fst (fst x)) is_); [contradiction|reflexivity]. }
    split; [exact Efo|]. split; [|auto]. rewrite Efo, (proj1 (plain_frame blk es OK Hs)). lia.
  Qed.

  Lemma data_len : forall D' lo hi, frames_ok D' lo hi -> (forall x, In x D' -> In x D) ->
    len (concat (map fo D')) + lo = hi.
  Proof.
    induction D' as [|x D' IH]; intros lo hi H Hsub; cbn [frames_ok map concat] in *; [now subst|].
    destruct H as (H1 & _ & H3). rewrite len_app.
    destruct (fo_data x (Hsub x (or_introl eq_refl))) as (blk & es & _ & _ & _ & L & C & _).
    specialize (IH _ _ H3 (fun y Hy => Hsub y (or_intror Hy))). pose proof (frame_len_pos (block_len blk)). lia.
  Qed.

  Lemma BD_len : len BD = is_.
  Proof. pose proof (data_len D 0 is_ S_D (fun x H => H)). unfold BD. lia. Qed.

  Lemma BI_facts : len BI = il - is_ /\ il = is_ + frame_len (block_len pblk) /\ frame_len (block_len pblk) < P36.
  Proof.
    destruct pblk_ok as (OK & EL). rewrite EL.
    split; [|auto]. unfold BI. rewrite (proj1 (plain_frame pblk _ OK ltac:(now rewrite EL))), EL. lia.
  Qed.

  Lemma BF_len : len BF = fl - il.
  Proof. unfold BF. rewrite (proj1 (filter_frame flt S_fok S_flen)). lia. Qed.

  Lemma offsets_small : is_ < WM.W64 /\ il < WM.W64 /\ fl < WM.W64.
  Proof. unfold P42, P36, WM.W64 in *. lia. Qed.

  Lemma FB_facts :
    len FB = final_len (t_final t) /\
    WG.msg_unpack final_block_shape FB =
      WM.Ok (final_val is_ il ci il fl cf (digest (fb_setsum (t_final t)))
                       (fb_smallest (t_final t)) (fb_biggest (t_final t)) fl, []) /\
    skipn (length FB - 8) FB = WM.le_bytes 8 fl.
  Proof.
    destruct offsets_small as (A & B & C). destruct (Hdig (fb_setsum (t_final t))) as (L & K).
    exact (final_codec is_ il ci il fl cf _ _ _ fl (t_final t) A B (Hcrc _) B C (Hcrc _) K L S_sm S_bg C
             S_fbi S_fbf eq_refl eq_refl).
  Qed.

  Lemma file_eq : file = BD ++ BI ++ BF ++ FB.
  Proof.
    unfold file, sst_bytes. rewrite S_fbi. cbn [fst]. fold fs. fold fo.
    assert (E : map fo fs = map fo D ++ [BI; BF]).
    { assert (Ei : fo (is_, il, FPlain iblk) = BI) by (unfold fo, frame_out; cbn [snd fst]; now rewrite N.eqb_refl).
      assert (Ef : fo (il, fl, FFilter flt) = BF) by reflexivity.
      unfold fs. rewrite S_frames, map_app. cbn [map]. now rewrite Ei, Ef. }
    rewrite E, concat_app. cbn [concat]. rewrite app_nil_r, <- !app_assoc. do 3 f_equal.
    unfold final_out, FB, final_bytes, final_val. rewrite S_fbi, S_fbf, S_fbo, S_ib, S_flt. reflexivity.
  Qed.

  Lemma file_len : len file = fl + final_len (t_final t).
  Proof.
    rewrite file_eq, !len_app, BD_len, (proj1 BI_facts), BF_len, (proj1 FB_facts).
    pose proof (frame_len_pos (block_len iblk)). pose proof (frame_len_pos (filter_bytes_len flt)). lia.
  Qed.

  (* loading a data block by its index entry *)
  Lemma load_data : forall x blk, In x D -> snd x = FPlain blk ->
    file_load_block crc file (cmeta crc fs (fst (fst x), snd (fst x))) = FOk (the_block blk) /\
    exists es, block_ok blk es.
  Proof.
    intros x blk Hx E. destruct (fo_data x Hx) as (blk' & es & E' & OK & Efo & L & C & Hs).
    rewrite E in E'. injection E' as <-. split; [|eauto].
    destruct (in_split _ _ Hx) as (D1 & D2 & ED).
    assert (H1 : frames_ok D1 0 (fst (fst x))) by (rewrite ED in S_D; exact (proj1 (frames_ok_split _ _ _ _ _ S_D))).
    assert (Hsub : forall y, In y D1 -> In y D) by (intros y Hy; rewrite ED; apply in_or_app; now left).
    pose proof (data_len D1 0 _ H1 Hsub) as L1.
    unfold cmeta. cbn [fst snd].
    apply (load_plain crc file (concat (map fo D1)) (concat (map fo D2) ++ BI ++ BF ++ FB) blk es); auto.
    - rewrite file_eq. unfold BD. rewrite ED, map_app, concat_app. cbn [map concat]. rewrite Efo, <- !app_assoc. reflexivity.
    - lia.
    - unfold crc_at. unfold fs. rewrite S_frames.
      rewrite (find_in_frames D 0 is_ x _ S_D Hx), E. reflexivity.
  Qed.

  (* the index entries the reader gets *)
  Definition fidx : list (bytes * (N * N * N)) := map (fun x => (fst x, cmeta crc fs (snd x))) (t_index t).

  Lemma index_readback : file_load_index (the_block pblk) = FOk fidx.
  Proof.
    destruct pblk_ok as (OK & _). set (es' := decode [] (map (patch_be crc fs) (bl_entries iblk))) in *.
    pose proof (patched_decode crc Hcrc fs _ _ bes_rel D_bound []) as HF. fold es' in HF.
    assert (Ed : decode [] (bl_entries iblk) = ies) by (destruct S_iblk as ([Wd _ _ _ _ _] & _); exact Wd).
    rewrite Ed, <- S_idx in HF. fold fidx in HF.
    unfold file_load_index.
    destruct (next_sim enc_size_real enc_size_real_pos pblk _ (proj1 OK) (bc_first bc_new) (-1)
                (R_first enc_size_real pblk _ bc_new (-1) (R_new enc_size_real pblk _))) as (c1 & Hc1 & R1).
    assert (V0 : V (valid_off pblk) (bc_first bc_new)) by (apply V_set_pos; [apply V_new|exact I]).
    destruct (ok_next pblk es' OK _ c1 V0 Hc1) as (Hb1 & V1). rewrite Hb1. cbn [of_res fbind].
    assert (R0 : R enc_size_real pblk es' c1 (Z.of_nat 0)).
    { replace (Z.of_nat 0) with (Z.min (-1 + 1) (zlen es')); [exact R1|]. unfold zlen. lia. }
    rewrite (findex_loop_ok pblk es' fidx OK HF (length es') _ c1 0 [] R0 V1 eq_refl); [reflexivity|].
    unfold bfuel. cbn [the_block bk_bytes].
    destruct (block_ok_premises pblk es' OK) as (_ & _ & _ & _ & _ & Hfe & _).
    unfold es'. rewrite decode_length.
    change (bl_entries pblk) with (map (patch_be crc fs) (bl_entries iblk)) in Hfe. lia.
  Qed.

  Lemma fidx_checked : check_entries fidx is_ = FOk tt.
  Proof.
    unfold fidx. rewrite S_idx. unfold idx_of.
    assert (H : forall l : list (entry * (N * N * frame)), (forall p, In p l -> In (snd p) D) ->
      check_entries (map (fun x => (fst x, cmeta crc fs (snd x)))
        (map (fun p => (e_key (fst p), (fst (fst (snd p)), snd (fst (snd p))))) l)) is_ = FOk tt).
    { induction l as [|p l IH]; intros Hl; [reflexivity|]. cbn [map check_entries fst snd].
      destruct (D_facts (snd p) (Hl p (or_introl eq_refl))) as (_ & _ & A & B & _).
      unfold fsanity, cmeta, m_start, m_limit. cbn [fst snd].
      destruct (N.leb_spec (snd (fst (snd p))) (fst (fst (snd p)))); [lia|]. cbn [fbind].
      destruct (N.ltb_spec is_ (snd (fst (snd p)))); [lia|]. apply IH. intros q Hq. apply Hl. now right. }
    apply H. intros p Hp. destruct p as [e x]. apply in_combine_r in Hp. exact Hp.
  Qed.

  Definition opened : fsst :=
    {| f_bytes := file;
       f_final := {| ff_index := (is_, il, ci); ff_filter := (il, fl, cf);
                     ff_setsum := digest (fb_setsum (t_final t));
                     ff_smallest := fb_smallest (t_final t); ff_biggest := fb_biggest (t_final t);
                     ff_offset := fl |};
       f_index_block := the_block pblk; f_index := fidx; f_filter := flt |}.

  Theorem file_open_ok : file_open crc file = FOk opened.
  Proof.
    destruct offsets_small as (Ois & Oil & Ofl). destruct FB_facts as (FL & FU & FS).
    destruct BI_facts as (BIl & Eil & Bis). pose proof BD_len as BDl. pose proof BF_len as BFl.
    pose proof file_len as HL. pose proof file_eq as HE.
    pose proof (frame_len_pos (block_len iblk)) as Hp1. pose proof (frame_len_pos (filter_bytes_len flt)) as Hp2.
    assert (F10 : 10 <= final_len (t_final t)) by (unfold final_len; lia).
    unfold file_open. rewrite HL.
    destruct (N.ltb_spec (fl + final_len (t_final t)) 8); [lia|].
    (* the trailing eight bytes *)
    set (k := (length FB - 8)%nat).
    assert (Hk : N.of_nat k = final_len (t_final t) - 8) by (unfold k, len in *; lia).
    assert (Hsplit : FB = firstn k FB ++ WM.le_bytes 8 fl) by (rewrite <- FS; symmetry; apply firstn_skipn).
    assert (E8 : file = (BD ++ BI ++ BF ++ firstn k FB) ++ WM.le_bytes 8 fl ++ []).
    { rewrite HE, app_nil_r, <- !app_assoc. do 3 f_equal. exact Hsplit. }
    assert (L8 : len (BD ++ BI ++ BF ++ firstn k FB) = fl + final_len (t_final t) - 8).
    { rewrite !len_app, BDl, BIl, BFl. unfold len at 1. rewrite firstn_length, Nat.min_l by (unfold k; lia). lia. }
    rewrite E8 at 1. rewrite (read_at_mid _ (WM.le_bytes 8 fl) [] _ 8 L8) by (unfold len; now rewrite WPS.le_bytes_len).
    cbn [fbind].
    pose proof (WPS.le_unpack_roundtrip 8 fl [] ltac:(unfold WM.W64 in Ofl; change (256 ^ N.of_nat 8) with 18446744073709551616; lia)) as LU.
    rewrite app_nil_r in LU. rewrite LU.
    destruct (N.ltb_spec (fl + final_len (t_final t)) fl); [lia|].
    (* the final block *)
    assert (EF : file = (BD ++ BI ++ BF) ++ FB ++ []) by (rewrite HE, app_nil_r, <- !app_assoc; reflexivity).
    rewrite EF at 1.
    rewrite (read_at_mid _ FB [] fl (fl + final_len (t_final t) - 8 + 8 - fl))
      by (rewrite ?len_app, ?BDl, ?BIl, ?BFl, ?FL; lia).
    cbn [fbind]. rewrite FU. unfold final_of_val, final_val. rewrite !meta_of_metadata_val, !N2Z.id.
    unfold fsanity, m_start, m_limit, m_crc. cbn [ff_index ff_filter fst snd].
    destruct (N.leb_spec il is_); [lia|]. cbn [fbind]. destruct (N.leb_spec fl il); [lia|]. cbn [fbind].
    destruct (N.ltb_spec il il); [lia|]. destruct (N.ltb_spec fl fl); [lia|].
    (* the index block *)
    destruct pblk_ok as (POK & PL).
    rewrite (load_plain crc file BD (BF ++ FB) pblk _ is_ il ci POK Bis HE BDl Eil eq_refl). cbn [fbind].
    rewrite index_readback. cbn [fbind]. rewrite fidx_checked. cbn [fbind].
    rewrite (load_filter crc file (BD ++ BI) FB flt il fl cf S_fok S_fne S_flen
               ltac:(rewrite HE, <- !app_assoc; reflexivity) ltac:(rewrite len_app, BDl, BIl; lia) S_fl eq_refl).
    reflexivity.
  Qed.

  (* what FileCursorProofs asks for *)
  Lemma opened_idx : f_index opened = map (fun x => (fst x, (fst (snd x), snd (snd x), crc_at crc fs (snd x)))) (t_index t).
  Proof. reflexivity. Qed.

  Lemma opened_blk : forall j d m blk, nth_error (t_index t) j = Some (d, m) ->
    load_block (t_frames t) m = Ok blk ->
    file_load_block crc (f_bytes opened) (fst m, snd m, crc_at crc fs m) = FOk (the_block blk) /\
    exists es, block_ok blk es.
  Proof.
    intros j d m blk Hj Hl. rewrite S_idx in Hj. unfold idx_of in Hj.
    apply nth_error_In in Hj. apply in_map_iff in Hj as ((e & x) & Ep & Hp). apply in_combine_r in Hp.
    cbn [fst snd] in Ep. injection Ep as _ <-.
    unfold load_block in Hl. destruct (meta_sanity (fst (fst x), snd (fst x))); cbn [bind] in Hl; [|discriminate].
    fold fs in Hl. unfold fs in Hl. rewrite S_frames in Hl. rewrite (find_in_frames D 0 is_ x _ S_D Hp) in Hl.
    destruct (snd x) as [b|f] eqn:Ex; [|discriminate]. injection Hl as <-.
    exact (load_data x b Hp Ex).
  Qed.

  Lemma opened_fuel : (load_fuel t <= S (S (length (f_bytes opened))))%nat.
  Proof.
    unfold load_fuel. cbn [opened f_bytes]. do 2 apply le_n_S. rewrite file_eq, S_frames.
    assert (H : forall D', (forall x, In x D' -> In x D) -> forall (r : frames) rest,
      (fold_right (fun (x : N * N * frame) acc => match snd x with FPlain b => (length (bl_entries b) + acc)%nat | _ => acc end) O r
         <= length rest)%nat ->
      (fold_right (fun (x : N * N * frame) acc => match snd x with FPlain b => (length (bl_entries b) + acc)%nat | _ => acc end) O (D' ++ r)
         <= length (concat (map fo D') ++ rest))%nat).
    { induction D' as [|x D' IH]; intros Hsub r rest Hr; [exact Hr|]. cbn [app fold_right map concat].
      destruct (fo_data x (Hsub x (or_introl eq_refl))) as (blk & es & E & OK & Efo & _).
      rewrite E, <- app_assoc, app_length.
      specialize (IH (fun y Hy => Hsub y (or_intror Hy)) r rest Hr).
      destruct (block_ok_premises blk es OK) as (_ & _ & _ & _ & _ & Hfe & _).
      destruct (plain_frame blk es OK ltac:(destruct (fo_data x (Hsub x (or_introl eq_refl))) as (b2 & e2 & E2 & _ & _ & _ & _ & S2); rewrite E in E2; injection E2 as <-; exact S2)) as (A & _).
      assert (length (block_bytes blk) <= length (fo x))%nat.
      { rewrite Efo. destruct (frame_codec 0 (block_bytes blk) [] ltac:(lia) (block_bytes_ok blk (proj1 (proj2 OK)))) as (Eb & _).
        - unfold frame_len. rewrite (proj2 (proj2 (proj2 (proj2 (proj2 (proj2 (proj2 (block_ok_premises blk es OK)))))))).
          destruct (fo_data x (Hsub x (or_introl eq_refl))) as (b2 & e2 & E2 & _ & _ & _ & _ & S2). rewrite E in E2. injection E2 as <-.
          unfold frame_len, P36, WM.W64 in *. lia.
        - constructor.
        - rewrite Eb, !app_length. lia. }
      lia. }
    unfold BD. apply (H D (fun x Hx => Hx)). cbn [fold_right snd].
    destruct S_iblk as (_ & _ & _ & _ & _). rewrite !app_length.
    destruct pblk_ok as (POK & _). destruct (block_ok_premises pblk _ POK) as (_ & _ & _ & _ & _ & Hfe & _).
    cbn [map_block bl_entries] in Hfe. unfold pblk in Hfe at 1. cbn [map_block bl_entries] in Hfe. rewrite map_length in Hfe.
    assert (length (block_bytes pblk) <= length BI)%nat.
    { unfold BI. destruct (frame_codec 0 (block_bytes pblk) [] ltac:(lia) (block_bytes_ok pblk (proj1 (proj2 POK)))) as (Eb & _).
      - rewrite (proj2 (proj2 (proj2 (proj2 (proj2 (proj2 (proj2 (block_ok_premises pblk _ POK)))))))).
        destruct BI_facts as (_ & _ & B). unfold P36, WM.W64 in *. lia.
      - constructor.
      - rewrite Eb, !app_length. lia. }
    lia.
  Qed.

  (* ------------------------------------------------------------ over the file bytes *)
  Hypothesis S_size : t_file_size t = fl + final_len (t_final t).
  Variable sip : bytes -> N.
  Let cm := crc_at crc fs.

  Lemma opened_idx' : f_index opened = map (fun x => (fst x, fmeta cm (snd x))) (t_index t).
  Proof. reflexivity. Qed.

  Lemma opened_blk' : forall j d m blk, nth_error (t_index t) j = Some (d, m) ->
    load_block (t_frames t) m = Ok blk ->
    file_load_block crc (f_bytes opened) (fmeta cm m) = FOk (the_block blk) /\ exists es, block_ok blk es.
  Proof. exact opened_blk. Qed.

  Theorem opened_run : forall prog l, sc_run enc_size_real t sc_new prog = map (fun x => Ok x) l ->
    file_run crc file prog = FOk (map (fun x => FOk x) l).
  Proof.
    intros prog l H. unfold file_run. rewrite file_open_ok. cbn [fbind]. f_equal. rewrite <- to_f_new.
    exact (run_lockS crc t opened cm opened_idx' opened_blk' prog sc_new l I H).
  Qed.

  Theorem opened_load : forall key ts r, sst_load enc_size_real sip t key ts = Ok r ->
    file_load crc sip file key ts = FOk r.
  Proof.
    intros key ts r H. unfold file_load. rewrite file_open_ok. cbn [fbind].
    apply (load_lockS crc sip t opened cm opened_idx' opened_blk'); auto.
    exact opened_fuel.
  Qed.

  Theorem opened_metadata : forall md, sst_metadata enc_size_real t = Ok md ->
    file_metadata crc file =
    FOk {| fm_first := md_first md; fm_last := md_last md;
           fm_smallest := fb_smallest (t_final t); fm_biggest := fb_biggest (t_final t);
           fm_setsum := digest (fb_setsum (t_final t)); fm_file_size := t_file_size t |}.
  Proof.
    intros md H. unfold file_metadata. rewrite file_open_ok. cbn [fbind].
    rewrite (metadata_lockS crc t opened cm opened_idx' opened_blk' md H).
    cbn [opened f_final f_bytes ff_smallest ff_biggest ff_setsum]. now rewrite file_len, <- S_size.
  Qed.
End Open.

(* ---------------------------------------------------------------- the theorems over file bytes *)
Lemma ts_min_le : forall (l : list entry) a, fold_left (fun a e => if e_ts e <? a then e_ts e else a) l a <= a.
Proof.
  induction l as [|e l IH]; intros a; cbn [fold_left]; [lia|].
  specialize (IH (if e_ts e <? a then e_ts e else a)). destruct (N.ltb_spec (e_ts e) a); lia.
Qed.

Lemma ts_max_le : forall (l : list entry) a M, a <= M -> Forall (fun e => e_ts e <= M) l ->
  fold_left (fun a e => if a <? e_ts e then e_ts e else a) l a <= M.
Proof.
  induction l as [|e l IH]; intros a M Ha H; cbn [fold_left]; [lia|]. inversion H; subst.
  apply IH; [|assumption]. destruct (N.ltb_spec a (e_ts e)); lia.
Qed.

Lemma wire_keys_ok : forall es, entries_wire_ok es -> keys_ok es.
Proof. intros es H. eapply Forall_impl; [|exact H]. intros e (K & _). exact K. Qed.

Lemma wire_ts_ok : forall es, entries_wire_ok es -> ts_ok es.
Proof. intros es H. eapply Forall_impl; [|exact H]. intros e (_ & T & _). unfold WM.W64, U64_MAX in *. lia. Qed.

Lemma sealed_ts_small : forall sip t es, sealed_facts sip t es -> ts_ok es ->
  fb_smallest (t_final t) < WM.W64 /\ fb_biggest (t_final t) < WM.W64.
Proof.
  intros sip t es [_ Hs Hb _ _ _ _] Hts. rewrite Hs, Hb.
  pose proof (ts_min_le es U64_MAX) as A. fold (ts_min es) in A.
  pose proof (ts_max_le es 0 U64_MAX ltac:(unfold U64_MAX; lia) Hts) as B. fold (ts_max es) in B.
  destruct (ts_max es <? ts_min es); unfold WM.W64, U64_MAX in *; lia.
Qed.

Section Final.
  Variable crc : bytes -> N.
  Hypothesis Hcrc : forall bs, crc bs < WM.W32.
  Variable digest : list entry -> bytes.
  Hypothesis Hdig : forall es, length (digest es) = 32%nat /\ bytes_ok (digest es).
  Variable sip : bytes -> N.

  Lemma built_T : forall o es t, entries_wire_ok es ->
    build_sst enc_size_real meta_enc_real meta_dec_real sip o es = Ok t ->
    exists b, sb_add_all enc_size_real meta_enc_real sip (sb_new o) es = Ok b /\ fin2 b /\ sb_written b < P41 /\
              sb_seal enc_size_real meta_enc_real meta_dec_real b = Ok t /\
              build_sst enc_size_real meta_enc_T meta_dec_T sip o es = Ok t.
  Proof.
    intros o es t Hw H. unfold build_sst in *.
    destruct (sb_add_all enc_size_real meta_enc_real sip (sb_new o) es) as [b|] eqn:Ea; cbn [bind] in H; [|discriminate].
    destruct (sb_add_all_fin2 sip es (sb_new o) b (fin2_new o) ltac:(cbn; unfold P41; lia) Hw Ea) as (F & W & ET).
    exists b. split; [reflexivity|]. split; [exact F|]. split; [exact W|]. split; [exact H|].
    rewrite ET. cbn [bind]. exact (proj1 (sb_seal_shape b t F W H)).
  Qed.

  Theorem file_cursor_refines : forall o es t prog, entries_wire_ok es ->
    build_sst enc_size_real meta_enc_real meta_dec_real sip o es = Ok t ->
    file_run crc (sst_bytes crc digest t) prog = FOk (map (fun x => FOk x) (ref_run es (-1) prog)).
  Proof.
    intros o es t prog Hw Hb. destruct (built_T o es t Hw Hb) as (b & _ & F & W & Hs & HT).
    destruct (sb_seal_shape b t F W Hs) as (_ & D & ies & iblk & flt & is_ & il & fl & S).
    pose proof (sst_cursor_refines enc_size_real enc_size_real_pos meta_enc_T meta_dec_T codec_T_ok sip o es t prog
                  (wire_keys_ok es Hw) HT) as Hrun.
    destruct (build_sst_wf enc_size_real enc_size_real_pos meta_enc_T meta_dec_T codec_T_ok sip o es t
                (wire_keys_ok es Hw) HT) as (_ & chunks & _ & _ & SF).
    destruct (sealed_ts_small sip t es SF (wire_ts_ok es Hw)) as (Hsm & Hbg).
    decompose [and] S.
    eapply (opened_run crc Hcrc digest Hdig t D ies iblk flt is_ il fl); eassumption.
  Qed.

  Theorem file_load_ok : forall o es t key ts, entries_wire_ok es ->
    build_sst enc_size_real meta_enc_real meta_dec_real sip o es = Ok t ->
    file_load crc sip (sst_bytes crc digest t) key ts = FOk (load_spec es key ts).
  Proof.
    intros o es t key ts Hw Hb. destruct (built_T o es t Hw Hb) as (b & _ & F & W & Hs & HT).
    destruct (sb_seal_shape b t F W Hs) as (_ & D & ies & iblk & flt & is_ & il & fl & S).
    pose proof (sst_load_ok enc_size_real enc_size_real_pos meta_enc_T meta_dec_T codec_T_ok sip o es t key ts
                  (wire_keys_ok es Hw) HT) as Hrun.
    destruct (build_sst_wf enc_size_real enc_size_real_pos meta_enc_T meta_dec_T codec_T_ok sip o es t
                (wire_keys_ok es Hw) HT) as (_ & chunks & _ & _ & SF).
    destruct (sealed_ts_small sip t es SF (wire_ts_ok es Hw)) as (Hsm & Hbg).
    decompose [and] S.
    eapply (opened_load crc Hcrc digest Hdig t D ies iblk flt is_ il fl); eassumption.
  Qed.

  Theorem file_metadata_exact : forall o es t, entries_wire_ok es ->
    build_sst enc_size_real meta_enc_real meta_dec_real sip o es = Ok t ->
    file_metadata crc (sst_bytes crc digest t) =
    FOk {| fm_first := spec_first es; fm_last := spec_last es MAX_KEY;
           fm_smallest := spec_smallest es; fm_biggest := spec_biggest es;
           fm_setsum := digest es; fm_file_size := len (sst_bytes crc digest t) |} /\
    len (sst_bytes crc digest t) = t_file_size t.
  Proof.
    intros o es t Hw Hb. destruct (built_T o es t Hw Hb) as (b & _ & F & W & Hs & HT).
    destruct (sb_seal_shape b t F W Hs) as (_ & D & ies & iblk & flt & is_ & il & fl & S).
    destruct (sst_metadata_exact enc_size_real enc_size_real_pos meta_enc_T meta_dec_T codec_T_ok sip o es t
                (wire_keys_ok es Hw) (wire_ts_ok es Hw) HT) as (md & Hmd & M1 & M2 & M3 & M4 & M5 & M6).
    destruct (build_sst_wf enc_size_real enc_size_real_pos meta_enc_T meta_dec_T codec_T_ok sip o es t
                (wire_keys_ok es Hw) HT) as (_ & chunks & _ & _ & SF).
    destruct (sealed_ts_small sip t es SF (wire_ts_ok es Hw)) as (Hsm & Hbg).
    decompose [and] S.
    assert (HL : len (sst_bytes crc digest t) = t_file_size t).
    { match goal with H : t_file_size t = _ |- _ => rewrite H end.
      eapply (file_len crc Hcrc digest Hdig t D ies iblk flt is_ il fl); eassumption. }
    split; [|exact HL].
    rewrite (opened_metadata crc Hcrc digest Hdig t D ies iblk flt is_ il fl
               ltac:(eassumption) ltac:(eassumption) ltac:(eassumption) ltac:(eassumption) ltac:(eassumption)
               ltac:(eassumption) ltac:(eassumption) ltac:(eassumption) ltac:(eassumption) ltac:(eassumption)
               ltac:(eassumption) ltac:(eassumption) ltac:(eassumption) ltac:(eassumption) ltac:(eassumption)
               ltac:(eassumption) ltac:(eassumption) ltac:(eassumption) ltac:(eassumption) ltac:(eassumption) md Hmd).
    unfold sst_metadata in Hmd.
    destruct (sc_next enc_size_real t (sc_first t)); cbn [bind] in Hmd; [|discriminate].
    destruct (sc_prev enc_size_real t (sc_last t)); cbn [bind] in Hmd; [|discriminate].
    injection Hmd as <-. cbn [md_first md_last md_smallest md_biggest md_setsum md_file_size] in *.
    rewrite M1, M2, M3, M4, M5, HL. reflexivity.
  Qed.
End Final.
