(* Table/FileCursorProofs.v — second lockstep layer: wherever SstCursor / Sst::load /
   Sst::metadata of the logical table (Table/ModelSst.v) succeed, the same operations over the
   parsed FILE (Table/ModelFile.v) return the same thing, provided the parsed file agrees with
   the logical table on the index entries and on every block the index names (which
   FileLayoutProofs.v establishes for the bytes a builder writes). *)
From Coq Require Import NArith ZArith List Bool Lia.
From Blue Require Import Gen.Const_Table Table.Model Table.ModelBloom Table.ModelSst Table.ModelWire
  Table.ModelBytes Table.ModelFile Table.Ref Table.BlockBase Table.BytesCursorProofs Table.BytesProofs
  Table.BlockOk.
Import ListNotations.
Open Scope N_scope.

Section FileLock.
  Variable crc : bytes -> N.
  Variable sip : bytes -> N.
  Variable t : sst.
  Variable F : fsst.
  Variable cm : N * N -> N.       (* the checksum the index carries for the block at (start, limit) *)

  Definition fmeta (m : N * N) : N * N * N := (fst m, snd m, cm m).

  Hypothesis H_idx : f_index F = map (fun x => (fst x, fmeta (snd x))) (t_index t).
  Hypothesis H_blk : forall j d m blk, nth_error (t_index t) j = Some (d, m) ->
    load_block (t_frames t) m = Ok blk ->
    file_load_block crc (f_bytes F) (fmeta m) = FOk (the_block blk) /\ exists es, block_ok blk es.
  Hypothesis H_flt : f_filter F = t_filter t.
  Hypothesis H_fuel : (load_fuel t <= S (S (length (f_bytes F))))%nat.

  Definition to_f (c : scursor) : fcursor :=
    {| fc_idx := sc_idx c;
       fc_bc := match sc_bc c with Some (blk, bc) => Some (the_block blk, bc) | None => None end |}.

  Definition FI (c : scursor) : Prop :=
    match sc_bc c with
    | Some (blk, bc) => (exists es, block_ok blk es) /\ V (valid_off blk) bc
    | None => True
    end.

  Lemma FI_none : forall i, FI {| sc_idx := i; sc_bc := None |}.
  Proof. intros i. exact I. Qed.

  Lemma nindex_eq : fnindex F = nindex t.
  Proof. unfold fnindex, nindex. now rewrite H_idx, map_length. Qed.

  Lemma partition_map : forall (l : list (bytes * (N * N))) key,
    fpartition_point (map (fun x => (fst x, fmeta (snd x))) l) key = partition_point l key.
  Proof.
    induction l as [|[k m] l IH]; intros key; cbn [map fpartition_point partition_point fst snd]; [reflexivity|].
    destruct (lex_cmp k key); try reflexivity. f_equal. apply IH.
  Qed.

  Lemma partition_eq : forall key, fpartition_point (f_index F) key = partition_point (t_index t) key.
  Proof. intros key. rewrite H_idx. apply partition_map. Qed.

  Lemma to_f_first : to_f (sc_first t) = fc_first F.
  Proof. reflexivity. Qed.
  Lemma to_f_last : to_f (sc_last t) = fc_last F.
  Proof. unfold to_f, sc_last, fc_last. cbn. now rewrite nindex_eq. Qed.
  Lemma to_f_new : to_f sc_new = fc_new.
  Proof. reflexivity. Qed.

  Lemma kv_eq : forall c, fc_kv (to_f c) = sc_kv c.
  Proof. intros c. unfold fc_kv, sc_kv, to_f. cbn. destruct (sc_bc c) as [[blk bc]|]; reflexivity. Qed.

  Lemma load_cursor_lock : forall idx blk bc, load_block_cursor t idx = Ok (blk, bc) ->
    fload_block_cursor crc F idx = FOk (the_block blk, bc) /\ (exists es, block_ok blk es) /\ bc = bc_new.
  Proof.
    intros idx blk bc H. unfold load_block_cursor in H. unfold fload_block_cursor.
    rewrite H_idx, nth_error_map.
    destruct (nth_error (t_index t) (N.to_nat idx)) as [[d m]|] eqn:E; [|discriminate]. cbn [option_map fst snd].
    destruct (load_block (t_frames t) m) as [b|] eqn:L; cbn [bind] in H; [|discriminate].
    injection H as <- <-. destruct (H_blk _ d m b E L) as (-> & Hok). cbn [fbind]. auto.
  Qed.

  Lemma V_first : forall blk c, V (valid_off blk) c -> V (valid_off blk) (bc_first c).
  Proof. intros blk c H. apply V_set_pos; [exact H|exact I]. Qed.
  Lemma V_last : forall blk c, V (valid_off blk) c -> V (valid_off blk) (bc_last c).
  Proof. intros blk c H. apply V_set_pos; [exact H|exact I]. Qed.

  (* ------------------------------------------------------------ seek *)
  Lemma seek_lockS : forall c key c1, sc_seek enc_size_real t c key = Ok c1 ->
    fc_seek crc F (to_f c) key = FOk (to_f c1) /\ FI c1.
  Proof.
    intros c key c1 H. unfold sc_seek in H. unfold fc_seek. rewrite partition_eq, nindex_eq.
    destruct (nindex t <=? partition_point (t_index t) key).
    - injection H as <-. rewrite to_f_last. split; [reflexivity|exact I].
    - destruct (load_block_cursor t (partition_point (t_index t) key)) as [[blk bc]|] eqn:EL; cbn [bind] in H; [|discriminate].
      destruct (load_cursor_lock _ _ _ EL) as (-> & (es & OK) & ->). cbn [fbind fst snd] in *.
      destruct (bc_seek enc_size_real blk bc_new key) as [bc1|] eqn:ES; cbn [bind] in H; [|discriminate].
      destruct (ok_seek blk es OK _ _ _ (V_new _) ES) as (HS & V1).
      change (bfuel (the_block blk)) with (length (block_bytes blk)). rewrite HS. cbn [of_res fbind].
      destruct (bc_kv bc1) eqn:EK.
      + injection H as <-. split; [reflexivity|]. unfold FI. cbn. eauto.
      + destruct (nindex t <=? partition_point (t_index t) key + 1).
        * injection H as <-. rewrite to_f_last. split; [reflexivity|exact I].
        * destruct (load_block_cursor t (partition_point (t_index t) key + 1)) as [[blk2 bc2]|] eqn:EL2; cbn [bind] in H; [|discriminate].
          destruct (load_cursor_lock _ _ _ EL2) as (-> & (es2 & OK2) & ->). cbn [fbind fst snd] in *.
          destruct (bc_seek enc_size_real blk2 bc_new key) as [bc3|] eqn:ES2; cbn [bind] in H; [|discriminate].
          destruct (ok_seek blk2 es2 OK2 _ _ _ (V_new _) ES2) as (HS2 & V2).
          change (bfuel (the_block blk2)) with (length (block_bytes blk2)). rewrite HS2. cbn [of_res fbind].
          injection H as <-. split; [reflexivity|]. unfold FI. cbn. eauto.
  Qed.

  (* ------------------------------------------------------------ next / prev *)
  Lemma next_loop_lock : forall fuel c c1, FI c -> sc_next_loop enc_size_real fuel t c = Ok c1 ->
    fc_next_loop crc fuel F (to_f c) = FOk (to_f c1) /\ FI c1.
  Proof.
    induction fuel as [|f IH]; intros c c1 HI H; cbn [sc_next_loop] in H; [discriminate|].
    cbn [fc_next_loop]. change (fc_idx (to_f c)) with (sc_idx c).
    change (fc_bc (to_f c)) with (match sc_bc c with Some (blk, bc) => Some (the_block blk, bc) | None => None end).
    destruct (sc_bc c) as [[blk bc]|] eqn:EB.
    - cbn [bind fbind] in *. unfold FI in HI. rewrite EB in HI. destruct HI as ((es & OK) & HV).
      destruct (bc_next enc_size_real blk bc) as [bc1|] eqn:EN; cbn [bind] in H; [|discriminate].
      destruct (ok_next blk es OK _ _ HV EN) as (HN & V1). rewrite HN. cbn [of_res fbind].
      destruct (bc_kv bc1) eqn:EK.
      + injection H as <-. split; [reflexivity|]. unfold FI. cbn. eauto.
      + destruct (IH _ _ (FI_none _) H) as (H2 & I2). split; [exact H2|exact I2].
    - rewrite nindex_eq. destruct (nindex t <=? sc_idx c).
      + cbn [bind fbind] in *. injection H as <-. rewrite to_f_last. split; [reflexivity|exact I].
      + destruct (load_block_cursor t (sc_idx c)) as [[blk bc]|] eqn:EL; cbn [bind] in H; [|discriminate].
        destruct (load_cursor_lock _ _ _ EL) as (-> & (es & OK) & ->). cbn [fbind fst snd] in *.
        destruct (bc_next enc_size_real blk (bc_first bc_new)) as [bc1|] eqn:EN; cbn [bind] in H; [|discriminate].
        destruct (ok_next blk es OK _ _ (V_first _ _ (V_new _)) EN) as (HN & V1). rewrite HN. cbn [of_res fbind].
        destruct (bc_kv bc1) eqn:EK.
        * injection H as <-. split; [reflexivity|]. unfold FI. cbn. eauto.
        * destruct (IH _ _ (FI_none _) H) as (H2 & I2). split; [exact H2|exact I2].
  Qed.

  Lemma prev_loop_lock : forall fuel c c1, FI c -> sc_prev_loop enc_size_real fuel t c = Ok c1 ->
    fc_prev_loop crc fuel F (to_f c) = FOk (to_f c1) /\ FI c1.
  Proof.
    induction fuel as [|f IH]; intros c c1 HI H; cbn [sc_prev_loop] in H; [discriminate|].
    cbn [fc_prev_loop]. change (fc_idx (to_f c)) with (sc_idx c).
    change (fc_bc (to_f c)) with (match sc_bc c with Some (blk, bc) => Some (the_block blk, bc) | None => None end).
    destruct (sc_bc c) as [[blk bc]|] eqn:EB.
    - cbn [bind fbind] in *. unfold FI in HI. rewrite EB in HI. destruct HI as ((es & OK) & HV).
      destruct (bc_prev enc_size_real blk bc) as [bc1|] eqn:EN; cbn [bind] in H; [|discriminate].
      destruct (ok_prev blk es OK _ _ HV EN) as (HN & V1).
      change (bfuel (the_block blk)) with (length (block_bytes blk)). rewrite HN. cbn [of_res fbind].
      destruct (bc_kv bc1) eqn:EK.
      + injection H as <-. split; [reflexivity|]. unfold FI. cbn. eauto.
      + destruct (IH _ _ (FI_none _) H) as (H2 & I2). split; [exact H2|exact I2].
    - destruct (sc_idx c =? 0).
      + cbn [bind fbind] in *. injection H as <-. split; [reflexivity|exact I].
      + destruct (load_block_cursor t (sc_idx c - 1)) as [[blk bc]|] eqn:EL; cbn [bind] in H; [|discriminate].
        destruct (load_cursor_lock _ _ _ EL) as (-> & (es & OK) & ->). cbn [fbind fst snd] in *.
        destruct (bc_prev enc_size_real blk (bc_last bc_new)) as [bc1|] eqn:EN; cbn [bind] in H; [|discriminate].
        destruct (ok_prev blk es OK _ _ (V_last _ _ (V_new _)) EN) as (HN & V1).
        change (bfuel (the_block blk)) with (length (block_bytes blk)). rewrite HN. cbn [of_res fbind].
        destruct (bc_kv bc1) eqn:EK.
        * injection H as <-. split; [reflexivity|]. unfold FI. cbn. eauto.
        * destruct (IH _ _ (FI_none _) H) as (H2 & I2). split; [exact H2|exact I2].
  Qed.

  Lemma fuel_eq : fc_fuel F = sc_fuel t.
  Proof. unfold fc_fuel, sc_fuel. now rewrite H_idx, map_length. Qed.

  Lemma step_lockS : forall c o c1, FI c -> sc_step enc_size_real t c o = Ok c1 ->
    fc_step crc F (to_f c) o = FOk (to_f c1) /\ FI c1.
  Proof.
    intros c o c1 HI H. destruct o as [| |key| |]; cbn [sc_step fc_step] in *.
    - injection H as <-. split; [reflexivity|exact I].
    - injection H as <-. rewrite to_f_last. split; [reflexivity|exact I].
    - now apply seek_lockS.
    - unfold fc_next. rewrite fuel_eq. now apply next_loop_lock.
    - unfold fc_prev. rewrite fuel_eq. now apply prev_loop_lock.
  Qed.

  Theorem run_lockS : forall prog c l, FI c -> sc_run enc_size_real t c prog = map (fun x => Ok x) l ->
    fc_run crc F (to_f c) prog = map (fun x => FOk x) l.
  Proof.
    induction prog as [|o prog IH]; intros c l HI H; cbn [sc_run fc_run] in *.
    - destruct l; [reflexivity|discriminate].
    - destruct (sc_step enc_size_real t c o) as [c1|e] eqn:ES.
      + destruct (step_lockS _ _ _ HI ES) as (-> & I1).
        destruct l as [|x l]; cbn [map] in H; [discriminate|]. injection H as Hx Hl.
        cbn [map]. rewrite kv_eq, Hx. f_equal. now apply IH.
      + destruct l as [|x l]; cbn [map] in H; discriminate.
  Qed.

  (* ------------------------------------------------------------ load *)
  Lemma load_scan_lockS : forall f c key ts c1, FI c -> sst_load_scan enc_size_real f t c key ts = Ok c1 ->
    forall f', (f <= f')%nat -> fload_scan crc f' F (to_f c) key ts = FOk (to_f c1) /\ FI c1.
  Proof.
    induction f as [|f IH]; intros c key ts c1 HI H f' Hf; cbn [sst_load_scan] in H; [discriminate|].
    destruct f' as [|f']; [lia|]. cbn [fload_scan]. rewrite kv_eq.
    destruct (sc_kv c) as [e|]; [|injection H as <-; auto].
    destruct (kref_lt_target e key ts); [|injection H as <-; auto].
    destruct (sc_next enc_size_real t c) as [c2|] eqn:EN; cbn [bind] in H; [|discriminate].
    unfold sc_next in EN. destruct (next_loop_lock _ _ _ HI EN) as (HN & I2).
    unfold fc_next. rewrite fuel_eq, HN. cbn [fbind]. apply (IH _ _ _ _ I2 H). lia.
  Qed.

  Theorem load_lockS : forall key ts r, sst_load enc_size_real sip t key ts = Ok r ->
    fsst_load crc sip F key ts = FOk r.
  Proof.
    intros key ts r H. unfold sst_load in H. unfold fsst_load. rewrite H_flt.
    destruct (filter_check (t_filter t) (defer_insert sip key)) as [[|]|]; [| |discriminate].
    - destruct (sc_seek enc_size_real t sc_new key) as [c|] eqn:ES; cbn [bind] in H; [|discriminate].
      destruct (seek_lockS _ _ _ ES) as (HS & I1). rewrite <- to_f_new, HS. cbn [fbind].
      destruct (sst_load_scan enc_size_real (load_fuel t) t c key ts) as [c1|] eqn:EL; cbn [bind] in H; [|discriminate].
      destruct (load_scan_lockS _ _ _ _ _ I1 EL _ H_fuel) as (-> & _). cbn [fbind]. rewrite kv_eq.
      injection H as <-. reflexivity.
    - injection H as <-. reflexivity.
  Qed.

  (* ------------------------------------------------------------ metadata *)
  Theorem metadata_lockS : forall md, sst_metadata enc_size_real t = Ok md ->
    fsst_metadata crc F = FOk {| fm_first := md_first md; fm_last := md_last md;
                                 fm_smallest := ff_smallest (f_final F); fm_biggest := ff_biggest (f_final F);
                                 fm_setsum := ff_setsum (f_final F); fm_file_size := len (f_bytes F) |}.
  Proof.
    intros md H. unfold sst_metadata in H. unfold fsst_metadata.
    destruct (sc_next enc_size_real t (sc_first t)) as [c1|] eqn:E1; cbn [bind] in H; [|discriminate].
    unfold sc_next in E1. destruct (next_loop_lock _ (sc_first t) _ (FI_none _) E1) as (H1 & _).
    unfold fc_next. rewrite fuel_eq, <- to_f_first, H1. cbn [fbind].
    destruct (sc_prev enc_size_real t (sc_last t)) as [c2|] eqn:E2; cbn [bind] in H; [|discriminate].
    unfold sc_prev in E2. destruct (prev_loop_lock _ (sc_last t) _ (FI_none _) E2) as (H2 & _).
    unfold fc_prev. rewrite fuel_eq, <- to_f_last, H2. cbn [fbind]. rewrite !kv_eq.
    injection H as <-. reflexivity.
  Qed.
End FileLock.
