(* Table/DivideProofs.v — divide_keys returns a key in [lhs, rhs) and never trips one of its
   asserts; minimal_successor_key is a strict successor. *)
From Coq Require Import NArith ZArith List Bool Lia.
From Blue Require Import Gen.Const_Table Table.Model Table.ModelBloom Table.ModelSst Table.Ref
  Table.OrderProofs Table.BuildProofs.
Import ListNotations.
Open Scope N_scope.

Lemma lex_cmp_app_prefix : forall p a b, lex_cmp (p ++ a) (p ++ b) = lex_cmp a b.
Proof. induction p as [|x p IH]; intros a b; cbn [app lex_cmp]; [reflexivity|]. now rewrite N.compare_refl. Qed.

Lemma common_prefix_le : forall a b, (common_prefix a b <= Nat.min (length a) (length b))%nat.
Proof.
  induction a as [|x a IH]; intros [|y b]; cbn [common_prefix length]; try lia.
  destruct (x =? y); [specialize (IH b)|]; lia.
Qed.

Lemma common_prefix_stop : forall a b x y, nth_error a (common_prefix a b) = Some x ->
  nth_error b (common_prefix a b) = Some y -> x <> y.
Proof.
  induction a as [|x0 a IH]; intros [|y0 b] x y Ha Hb; cbn [common_prefix] in *; try discriminate.
  destruct (N.eqb_spec x0 y0) as [->|Hne]; cbn [nth_error] in *.
  - eapply IH; eauto.
  - injection Ha as <-. injection Hb as <-. exact Hne.
Qed.

Lemma nth_split_at : forall (a : bytes) s x, nth_error a s = Some x -> a = firstn s a ++ x :: skipn (S s) a.
Proof.
  induction a as [|x0 a IH]; intros [|s] x H; cbn [nth_error firstn skipn app] in *; try discriminate.
  - now injection H as ->.
  - f_equal. now apply IH.
Qed.

Ltac same_branch :=
  match goal with
  | Hlt : kref_cmp ?kl ?tl ?kr ?tr = Lt |- _ =>
      exists kl, tl; rewrite ?kref_cmp_refl; repeat split; auto; try discriminate
  end.

Theorem divide_keys_between : forall kl tl kr tr, bytes_ok kr -> kref_cmp kl tl kr tr = Lt ->
  exists d dt, divide_keys kl tl kr tr = Ok (d, dt) /\
               kref_cmp kl tl d dt <> Gt /\ kref_cmp d dt kr tr = Lt /\ (length d <= length kl)%nat /\
               (dt = tl \/ dt = 0).
Proof.
  intros kl tl kr tr Hb Hlt. unfold divide_keys. rewrite Hlt.
  set (s := common_prefix kl kr).
  pose proof (common_prefix_le kl kr) as Hs. fold s in Hs.
  destruct (Nat.ltb_spec s (Nat.min (length kl) (length kr))) as [Hin|Hout]; [|same_branch].
  destruct (nth_error kl s) as [x|] eqn:Ex; [|apply nth_error_None in Ex; lia].
  destruct (nth_error kr s) as [y|] eqn:Ey; [|apply nth_error_None in Ey; lia].
  pose proof (common_prefix_stop kl kr x y Ex Ey) as Hne.
  pose proof (nth_split_at kl s x Ex) as Skl. pose proof (nth_split_at kr s y Ey) as Skr.
  assert (Hp : firstn s kr = firstn s kl) by (symmetry; apply common_prefix_firstn).
  rewrite Hp in Skr.
  (* the keys differ first at position s, so x < y *)
  assert (Hxy : x < y).
  { unfold kref_cmp in Hlt. rewrite Skl, Skr, lex_cmp_app_prefix in Hlt. cbn [lex_cmp] in Hlt.
    destruct (x ?= y) eqn:C.
    - apply N.compare_eq in C. congruence.
    - now apply N.compare_lt_iff.
    - discriminate. }
  assert (Hy : y < 256).
  { unfold bytes_ok in Hb. rewrite Forall_forall in Hb. apply Hb. eapply nth_error_In; eauto. }
  destruct (N.ltb_spec 255 (x + 1)); [lia|].
  destruct (N.ltb_spec (x + 1) y) as [Hgap|Hnogap]; [|same_branch].
  destruct (N.ltb_spec x 255); [|lia].
  exists (firstn s kl ++ [x + 1]), 0.
  assert (C1 : lex_cmp kl (firstn s kl ++ [x + 1]) = Lt).
  { rewrite Skl at 1. rewrite lex_cmp_app_prefix. cbn [lex_cmp].
    assert (E : (x ?= x + 1) = Lt) by (apply N.compare_lt_iff; lia). now rewrite E. }
  assert (C2 : lex_cmp (firstn s kl ++ [x + 1]) kr = Lt).
  { rewrite Skr at 1. rewrite lex_cmp_app_prefix. cbn [lex_cmp].
    assert (E : (x + 1 ?= y) = Lt) by (apply N.compare_lt_iff; lia). now rewrite E. }
  unfold kref_cmp. rewrite C1, C2. repeat split; try discriminate; auto.
  rewrite app_length, firstn_length. cbn [length]. lia.
Qed.

Lemma minimal_successor_gt : forall k t,
  kref_cmp k t (fst (minimal_successor_key k t)) (snd (minimal_successor_key k t)) = Lt.
Proof.
  intros k t. unfold minimal_successor_key. destruct (N.eqb_spec t 0) as [->|Hne]; cbn [fst snd].
  - unfold kref_cmp. assert (E : lex_cmp k (k ++ [0]) = Lt).
    { rewrite <- (app_nil_r k) at 1. rewrite lex_cmp_app_prefix. reflexivity. }
    now rewrite E.
  - unfold kref_cmp. rewrite lex_cmp_refl.
    assert (E : (t ?= t - 1) = Gt) by (apply N.compare_gt_iff; lia). now rewrite E.
Qed.

Lemma minimal_successor_bytes_ok : forall k t, bytes_ok k -> bytes_ok (fst (minimal_successor_key k t)).
Proof.
  intros k t H. unfold minimal_successor_key. destruct (t =? 0); cbn [fst]; [|exact H].
  apply Forall_app. split; [exact H|]. constructor; [lia|constructor].
Qed.
