(* Table/InstFile.v — the executable file-level instance run by the correspondence check: the
   byte-level reader of Table/ModelFile.v (Sst::from_file_handle, SstCursor, Sst::load,
   Sst::metadata over FILE BYTES) on the bytes of a file the implementation wrote, and the writer
   (`sst_bytes`) on the inputs of the case.  crc32c is a parameter (the driver passes a native
   CRC-32C), the setsum digest is an input of the case.  Definitions only. *)
From Coq Require Import NArith List Bool.
From Blue Require Import Gen.Const_Table Table.Model Table.ModelBloom Table.ModelSst Table.ModelWire
  Table.ModelBytes Table.ModelFile Table.Inst.
Import ListNotations.
Open Scope N_scope.

Inductive fout := FoKv (o : option entry) | FoErr (e : ferr) | FoGet (v : option bytes) (tomb : bool).

Section WithCrc.
  Variable crc : bytes -> N.
  Variable tbl : list (bytes * N).
  Let sip := sip_of tbl.

  Fixpoint file_prog (F : fsst) (c : fcursor) (prog : list cop) : list fout :=
    match prog with
    | [] => []
    | COp o :: p =>
        match fc_step crc F c o with
        | FOk c1 => FoKv (fc_kv c1) :: file_prog F c1 p
        | FErr e => FoErr e :: file_prog F c p
        end
    | CGet k ts :: p =>
        (match fsst_load crc sip F k ts with
         | FOk (v, tomb) => FoGet v tomb
         | FErr e => FoErr e end) :: file_prog F c p
    end.

  Record file_case_result := {
    fr_meta : fres fmetadata;          (* FErr: from_file_handle or metadata() failed *)
    fr_outs : list fout;
    fr_written : option bytes }.       (* what the model's builder leaves in the file *)

  Definition run_file_case (file : bytes) (prog : list cop) (o : sopts) (es : list entry) (dg : bytes)
    : file_case_result :=
    let written :=
      let '(sb, _) := sb_feed enc_size_real meta_enc_real sip (sb_new o) es O in
      match sb_seal enc_size_real meta_enc_real meta_dec_real sb with
      | Ok t => Some (sst_bytes crc (fun _ => dg) t)
      | Err _ => None
      end in
    match file_open crc file with
    | FErr e => {| fr_meta := FErr e; fr_outs := []; fr_written := written |}
    | FOk F => {| fr_meta := fsst_metadata crc F; fr_outs := file_prog F fc_new prog; fr_written := written |}
    end.
End WithCrc.
