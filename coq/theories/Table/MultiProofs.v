(* Table/MultiProofs.v — SstMultiBuilder: however the input is cut into tables (target file size,
   split hints, table full), every table it seals is well formed and the concatenation of the
   tables is exactly the accepted input, which is strictly ordered as a whole. *)
From Coq Require Import NArith ZArith List Bool Lia.
From Blue Require Import Gen.Const_Table Table.Model Table.ModelBloom Table.ModelSst Table.Ref
  Table.OrderProofs Table.BlockBase Table.BuildProofs Table.CursorProofs Table.DivideProofs
  Table.BloomProofs Table.SstCursorProofs Table.BuildSstProofs.
Import ListNotations.
Open Scope N_scope.

Definition entries_of (xs : list minput) : list entry :=
  flat_map (fun x => match x with MEntry e => [e] | MHint => [] end) xs.

Section Multi.
  Variable enc_size : bentry -> N.
  Hypothesis enc_pos : forall e, 0 < enc_size e.
  Variable meta_enc : N -> N -> bytes.
  Variable meta_dec : bytes -> option (N * N).
  Hypothesis meta_rt : forall s l, meta_dec (meta_enc s l) = Some (s, l).
  Variable sip : bytes -> N.

  (* a sealed table holding exactly es *)
  Definition file_ok (t : sst) (es : list entry) : Prop :=
    exists chunks, table_wf enc_size t chunks /\ concat chunks = es /\ sealed_facts sip t es.

  Definition builder_ok (m : mbuilder) (b : sbuilder) (cur_all : list entry) : Prop :=
    exists recs cur, sinv enc_size meta_enc sip (mb_last_key m, mb_last_ts m) b recs cur /\ all_of recs cur = cur_all.

  Record minv (m : mbuilder) (done : list (list entry)) (cur_all : list entry) : Prop := {
    mi_done : Forall2 file_ok (mb_done m) done;
    mi_last : (mb_last_key m, mb_last_ts m) = last_kt (concat done);
    mi_cur : match mb_cur m with Some b => builder_ok m b cur_all | None => cur_all = [] end;
    mi_sorted : sorted (concat done ++ cur_all);
    mi_keys : keys_ok (concat done ++ cur_all) }.

  Lemma minv_new : forall o, minv (mb_new o) [] [].
  Proof. intros o. constructor; cbn; auto. constructor. Qed.

  Lemma last_from_app : forall pre l, last_from (last_kt pre) l = last_kt (pre ++ l).
  Proof.
    intros pre l. unfold last_from. destruct l as [|a l]; [now rewrite app_nil_r|].
    symmetry. apply last_kt_app. discriminate.
  Qed.

  Lemma seal_builder_inv : forall m done cur_all m1, minv m done cur_all ->
    mb_seal_builder enc_size meta_enc meta_dec m = Ok m1 ->
    exists done1, minv m1 done1 [] /\ concat done1 = concat done ++ cur_all /\ mb_cur m1 = None /\ mb_opts m1 = mb_opts m.
  Proof.
    intros m done cur_all m1 [Idone Ilast Icur Isort Ikeys] H. unfold mb_seal_builder in H.
    destruct (mb_cur m) as [b|] eqn:Ec.
    - destruct (sb_seal enc_size meta_enc meta_dec b) as [t|] eqn:Es; cbn [bind] in H; [|discriminate].
      injection H as <-. destruct Icur as (recs & cur & I & <-).
      destruct (sb_seal_wf enc_size enc_pos meta_enc meta_dec meta_rt sip _ b recs cur t I Es) as (recs1 & W & C & F).
      exists (done ++ [all_of recs cur]). split; [|split; [|split; reflexivity]].
      + constructor; cbn [mb_done mb_last_key mb_last_ts mb_cur].
        * apply Forall2_app; [exact Idone|]. constructor; [|constructor]. exists (chunks_of recs1). auto.
        * destruct I as (P & _). rewrite (sp_last _ _ _ _ _ _ _ P), Ilast, last_from_app.
          now rewrite concat_app, (app_nil_r (all_of recs cur ++ [])) || (rewrite concat_app; cbn [concat]; now rewrite app_nil_r).
        * reflexivity.
        * rewrite app_nil_r, concat_app. cbn [concat]. now rewrite app_nil_r.
        * rewrite app_nil_r, concat_app. cbn [concat]. now rewrite app_nil_r.
      + rewrite concat_app. cbn [concat]. now rewrite app_nil_r.
    - injection H as <-. subst cur_all. exists done. split; [|split; [now rewrite app_nil_r|split; [exact Ec|reflexivity]]].
      constructor; auto. now rewrite Ec.
  Qed.

  Lemma split_hint_inv : forall m done cur_all m1, minv m done cur_all ->
    mb_split_hint enc_size meta_enc meta_dec m = Ok m1 ->
    exists done1 cur1, minv m1 done1 cur1 /\ concat done1 ++ cur1 = concat done ++ cur_all /\ mb_opts m1 = mb_opts m.
  Proof.
    intros m done cur_all m1 I H. unfold mb_split_hint in H.
    destruct (mb_cur m) as [b|] eqn:Ec.
    - destruct ((TABLE_FULL_SIZE <=? sb_approx_size enc_size b) || (so_mfs (mb_opts m) <=? sb_approx_size enc_size b)).
      + destruct (seal_builder_inv m done cur_all m1 I H) as (done1 & I1 & C1 & _ & O1).
        exists done1, []. split; [exact I1|]. split; [now rewrite app_nil_r|exact O1].
      + injection H as <-. exists done, cur_all. auto.
    - injection H as <-. exists done, cur_all. auto.
  Qed.

  (* get_builder: the builder handed out continues the accepted sequence *)
  Lemma get_builder_inv : forall m done cur_all g, minv m done cur_all ->
    mb_get_builder enc_size meta_enc meta_dec m = Ok g ->
    exists done1 cur1, concat done1 ++ cur1 = concat done ++ cur_all /\ mb_opts (fst g) = mb_opts m /\
      Forall2 file_ok (mb_done (fst g)) done1 /\
      (mb_last_key (fst g), mb_last_ts (fst g)) = last_kt (concat done1) /\
      builder_ok (fst g) (snd g) cur1 /\
      sorted (concat done1 ++ cur1) /\ keys_ok (concat done1 ++ cur1).
  Proof.
    intros m done cur_all g I H. unfold mb_get_builder in H.
    assert (Hfresh : forall m1 done1, minv m1 done1 [] ->
              builder_ok m1 (sb_new_from (mb_opts m1) (mb_last_key m1) (mb_last_ts m1)) []).
    { intros m1 done1 I1. exists [], []. split; [|reflexivity]. now apply sinv_new. }
    destruct (mb_cur m) as [b|] eqn:Ec.
    - destruct ((TABLE_FULL_SIZE <=? sb_approx_size enc_size b) || (so_tfs (mb_opts m) <=? sb_approx_size enc_size b)).
      + destruct (mb_seal_builder enc_size meta_enc meta_dec m) as [m1|] eqn:Es; cbn [bind] in H; [|discriminate].
        injection H as <-. cbn [fst snd].
        destruct (seal_builder_inv m done cur_all m1 I Es) as (done1 & I1 & C1 & N1 & O1).
        exists done1, []. split; [now rewrite app_nil_r|]. split; [exact O1|].
        destruct I1 as [D1 L1 _ S1 K1]. repeat split; auto.
        apply (Hfresh m1 done1). constructor; auto. now rewrite N1.
      + injection H as <-. cbn [fst snd]. exists done, cur_all.
        destruct I as [D L C S K]. rewrite Ec in C. repeat split; auto.
    - injection H as <-. cbn [fst snd]. exists done, cur_all.
      pose proof I as [D L C S K]. rewrite Ec in C. subst cur_all. repeat split; auto.
      apply (Hfresh m done). exact I.
  Qed.

  Lemma mb_run_inv : forall xs m done cur_all m1, minv m done cur_all -> keys_ok (entries_of xs) ->
    mb_run enc_size meta_enc meta_dec sip m xs = Ok m1 ->
    exists done1 cur1, minv m1 done1 cur1 /\ concat done1 ++ cur1 = (concat done ++ cur_all) ++ entries_of xs.
  Proof.
    induction xs as [|x xs IH]; intros m done cur_all m1 I Hk H; cbn [mb_run] in H.
    - injection H as <-. exists done, cur_all. split; [exact I|]. cbn [entries_of flat_map]. now rewrite app_nil_r.
    - destruct x as [e|].
      + destruct (mb_get_builder enc_size meta_enc meta_dec m) as [g|] eqn:Eg; cbn [bind] in H; [|discriminate].
        destruct (sb_add enc_size meta_enc sip (snd g) e) as [b1|] eqn:Ea; cbn [bind] in H; [|discriminate].
        cbn [entries_of flat_map app] in Hk. inversion Hk as [|? ? Hk1 Hk2]; subst.
        destruct (get_builder_inv m done cur_all g I Eg) as (done1 & cur1 & C1 & O1 & D1 & L1 & (recs & cur & I1 & A1) & S1 & K1).
        destruct (sb_add_inv enc_size enc_pos meta_enc sip _ _ _ _ _ _ I1 Hk1 Ea) as (recs2 & cur2 & I2 & A2 & _ & Hlt & _).
        assert (I' : minv (mb_with_cur (fst g) b1) done1 (cur1 ++ [e])).
        { constructor; cbn [mb_with_cur mb_done mb_last_key mb_last_ts mb_cur]; auto.
          - exists recs2, cur2. split; [exact I2|]. now rewrite A2, A1.
          - rewrite app_assoc. apply sorted_snoc_last; [exact S1|].
            rewrite A1, L1, last_from_app in Hlt.
            destruct (concat done1 ++ cur1) as [|a0 l0] eqn:E; [now left|right].
            unfold last_kt in Hlt. cbn [fst snd] in Hlt. exact Hlt.
          - rewrite app_assoc. unfold keys_ok. apply Forall_app. split; [exact K1|]. constructor; [exact Hk1|constructor]. }
        destruct (IH _ _ _ _ I' Hk2 H) as (done2 & cur2' & I2' & C2).
        exists done2, cur2'. split; [exact I2'|]. rewrite C2. cbn [entries_of flat_map app].
        rewrite app_assoc, C1. now rewrite <- !app_assoc.
      + destruct (mb_split_hint enc_size meta_enc meta_dec m) as [m2|] eqn:Eh; cbn [bind] in H; [|discriminate].
        destruct (split_hint_inv m done cur_all m2 I Eh) as (done1 & cur1 & I1 & C1 & _).
        destruct (IH _ _ _ _ I1 Hk H) as (done2 & cur2 & I2 & C2).
        exists done2, cur2. split; [exact I2|]. rewrite C2, C1. reflexivity.
  Qed.

  (* THE MULTI-BUILDER THEOREM *)
  Theorem multibuilder_concat : forall o xs m ts, keys_ok (entries_of xs) ->
    mb_run enc_size meta_enc meta_dec sip (mb_new o) xs = Ok m ->
    mb_seal enc_size meta_enc meta_dec m = Ok ts ->
    sorted (entries_of xs) /\
    exists ess, Forall2 file_ok ts ess /\ concat ess = entries_of xs.
  Proof.
    intros o xs m ts Hk Hr Hs.
    destruct (mb_run_inv xs _ [] [] m (minv_new o) Hk Hr) as (done & cur_all & I & C). cbn [concat app] in C.
    pose proof I as [D L Cu S K]. split; [now rewrite <- C|].
    unfold mb_seal in Hs. destruct (mb_cur m) as [b|] eqn:Ec.
    - destruct (sb_seal enc_size meta_enc meta_dec b) as [t|] eqn:Es; cbn [bind] in Hs; [|discriminate].
      injection Hs as <-. destruct Cu as (recs & cur & I1 & <-).
      destruct (sb_seal_wf enc_size enc_pos meta_enc meta_dec meta_rt sip _ b recs cur t I1 Es) as (recs1 & W & C1 & F).
      exists (done ++ [all_of recs cur]). split.
      + apply Forall2_app; [exact D|]. constructor; [|constructor]. exists (chunks_of recs1). auto.
      + rewrite concat_app. cbn [concat]. now rewrite app_nil_r.
    - injection Hs as <-. subst cur_all. exists done. split; [exact D|]. now rewrite app_nil_r in C.
  Qed.
End Multi.
