(* Table/Inst.v — the executable instance run by the correspondence check: the model functions at
   the real record size / BlockMetadata codec, whole cases (build, seal, cursor program, lookups).
   Definitions only. *)
From Coq Require Import NArith List Bool.
From Blue Require Import Gen.Const_Table Table.Model Table.ModelBloom Table.ModelSst Table.ModelWire.
Import ListNotations.
Open Scope N_scope.

Inductive cop := COp (o : op) | CGet (k : bytes) (ts : N).
Inductive cout :=
| OutKv (o : option entry) | OutErr (e : err) | OutGet (v : option bytes) (tomb : bool).

(* ---------------------------------------------------------------- block cases *)
Fixpoint block_prog (b : block) (c : bcursor) (prog : list cop) : list cout :=
  match prog with
  | [] => []
  | COp o :: p =>
      match bc_step enc_size_real b c o with
      | Ok c1 => OutKv (bc_kv c1) :: block_prog b c1 p
      | Err e => OutErr e :: block_prog b c p
      end
  | CGet k ts :: p =>
      (match bl_load enc_size_real b k ts with
       | Ok (v, tomb) => OutGet v tomb
       | Err e => OutErr e end) :: block_prog b c p
  end.

Record block_case_result := {
  br_rej : list (nat * err); br_bytes : bytes; br_outs : list cout }.

Definition run_block_case (o : bopts) (es : list entry) (prog : list cop) : block_case_result :=
  let '(bb, rej) := bb_feed enc_size_real (bb_new o) es O in
  let blk := bb_seal enc_size_real bb in
  {| br_rej := rej; br_bytes := block_bytes blk; br_outs := block_prog blk bc_new prog |}.

(* ---------------------------------------------------------------- sst cases *)
(* the item hash is an input of the case: an association list key -> SipHash-2-4 value *)
Fixpoint sip_of (tbl : list (bytes * N)) (k : bytes) : N :=
  match tbl with
  | [] => 0
  | (k', h) :: r => if bytes_eqb k' k then h else sip_of r k
  end.

Section WithSip.
  Variable tbl : list (bytes * N).
  Let sip := sip_of tbl.

  Definition sst_t := sst.
  Fixpoint sst_prog (t : sst) (c : scursor) (prog : list cop) : list cout :=
    match prog with
    | [] => []
    | COp o :: p =>
        match sc_step enc_size_real t c o with
        | Ok c1 => OutKv (sc_kv c1) :: sst_prog t c1 p
        | Err e => OutErr e :: sst_prog t c p
        end
    | CGet k ts :: p =>
        (match sst_load enc_size_real sip t k ts with
         | Ok (v, tomb) => OutGet v tomb
         | Err e => OutErr e end) :: sst_prog t c p
    end.

  Record sst_case_result := {
    sr_rej : list (nat * err);
    sr_seal : result unit;
    sr_meta : result metadata;
    sr_filter : filter;
    sr_outs : list cout }.

  Definition run_sst_case (o : sopts) (es : list entry) (prog : list cop) : sst_case_result :=
    let '(sb, rej) := sb_feed enc_size_real meta_enc_real sip (sb_new o) es O in
    match sb_seal enc_size_real meta_enc_real meta_dec_real sb with
    | Err e => {| sr_rej := rej; sr_seal := Err e; sr_meta := Err e; sr_filter := []; sr_outs := [] |}
    | Ok t =>
        {| sr_rej := rej; sr_seal := Ok tt;
           sr_meta := sst_metadata enc_size_real t;
           sr_filter := t_filter t;
           sr_outs := sst_prog t (sc_new) prog |}
    end.

  (* all entries of a table, by a forward walk of its cursor *)
  Fixpoint walk (fuel : nat) (t : sst) (c : scursor) (acc : list cout) : list cout :=
    match fuel with
    | O => acc ++ [OutErr EFuel]
    | S f =>
        match sc_next enc_size_real t c with
        | Err e => acc ++ [OutErr e]
        | Ok c1 => match sc_kv c1 with
                   | None => acc
                   | Some e => walk f t c1 (acc ++ [OutKv (Some e)])
                   end
        end
    end.

  Record multi_case_result := {
    mr_rej : list (nat * err);
    mr_seal : result unit;
    mr_files : list (result metadata * list cout) }.

  Definition run_multi_case (o : sopts) (xs : list minput) : multi_case_result :=
    match mb_feed enc_size_real meta_enc_real meta_dec_real sip (mb_new o) xs O with
    | Err e => {| mr_rej := []; mr_seal := Err e; mr_files := [] |}
    | Ok (m, rej) =>
        match mb_seal enc_size_real meta_enc_real meta_dec_real m with
        | Err e => {| mr_rej := rej; mr_seal := Err e; mr_files := [] |}
        | Ok ts =>
            {| mr_rej := rej; mr_seal := Ok tt;
               mr_files := map (fun t => (sst_metadata enc_size_real t,
                                          walk (load_fuel t) t sc_new [])) ts |}
        end
    end.
End WithSip.
