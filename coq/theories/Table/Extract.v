(* Extraction of the executable Table model for the correspondence check.
   Directives in force: those of ExtrOcamlBasic only; N, positive, nat stay inductive. *)
From Coq Require Import NArith List.
From Blue Require Import Table.Model Table.ModelBloom Table.ModelSst Table.ModelWire Table.Inst Table.ModelFile Table.InstFile.
Require Import ExtrOcamlBasic.
Extraction Language OCaml.
Extraction "../ocaml/table/gen_table.ml" run_block_case run_sst_case run_multi_case run_file_case N.of_nat N.to_nat.
