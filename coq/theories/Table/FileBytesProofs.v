(* Table/FileBytesProofs.v — the file layer's encodings: an SstEntry frame (PlainBlock /
   FilterBlock) and the FinalBlock are prototk messages of the declared shapes; the sizes the
   model computes the file layout with (block_len, frame_len, final_len) are the lengths of the
   real encodings, the encodings decode to what was encoded, and the last eight bytes of the
   file are final_block_offset (which is how from_file_handle finds the final block). *)
From Coq Require Import NArith ZArith List Bool Lia.
From Blue Require Import Gen.Const_Table Table.Model Table.ModelBloom Table.ModelSst Table.ModelWire Table.ModelBytes
  Table.Ref Table.BlockBase Table.WireProofs Table.BytesProofs.
From Blue Require Wire.Model Wire.ModelMsg Wire.Spec Wire.ProofsVarint Wire.ProofsScalar Wire.Props_C15.
Import ListNotations.
Open Scope N_scope.

(* ---------------------------------------------------------------- SstEntry frames *)
(* variant index: 0 PlainBlock (field 10), 1 FilterBlock (field 13) *)
Definition frame_bytes (variant : nat) (payload : bytes) : bytes :=
  WS.ref_msg sst_entry_shape (WG.VV variant (WG.VB payload)).

Lemma sst_entry_wf : WG.msg_wf sst_entry_shape = true.
Proof. vm_compute. reflexivity. Qed.

Theorem frame_codec : forall variant payload rest, (variant < 2)%nat ->
  WM.bytes_ok payload -> frame_len (len payload) < WM.W64 -> WM.bytes_ok rest ->
  frame_bytes variant payload = [if Nat.eqb variant 0 then 82 else 106] ++ varint (len payload) ++ payload /\
  len (frame_bytes variant payload) = frame_len (len payload) /\
  WG.msg_unpack sst_entry_shape (frame_bytes variant payload ++ rest) = WM.Ok (WG.VV variant (WG.VB payload), rest).
Proof.
  intros variant payload rest Hv Hp Hl Hrest.
  assert (Hlen : len payload < WM.W64) by (unfold frame_len in Hl; lia).
  assert (Hok : WG.val_ok sst_entry_shape (WG.VV variant (WG.VB payload)) = true).
  { apply WPS.bytes_okb_iff in Hp. destruct variant as [|[|v]]; [| |lia]; cbn; rewrite Hp;
      (destruct (N.ltb_spec (WM.len payload) WM.W64); [reflexivity|unfold WM.len, len in *; lia]). }
  assert (Hsz : WG.msg_pack_sz sst_entry_shape (WG.VV variant (WG.VB payload)) = frame_len (len payload)).
  { unfold WG.msg_pack_sz. destruct variant as [|[|v]]; [| |lia];
      cbn -[WM.v64_pack_sz WM.tag_v64 N.add N.mul];
      [change (WM.v64_pack_sz (WM.tag_v64 10 WM.WLengthDelimited)) with 1
      |change (WM.v64_pack_sz (WM.tag_v64 13 WM.WLengthDelimited)) with 1];
      change (WM.len payload) with (len payload); rewrite (v64_sz_varint_size _ Hlen); unfold frame_len; lia. }
  destruct (WP.C15_message_roundtrip sst_entry_shape _ sst_entry_wf Hok ltac:(now rewrite Hsz)) as (_ & Hl2 & _).
  split; [|split].
  - unfold frame_bytes. destruct variant as [|[|v]]; [| |lia];
      match goal with |- ?l = _ =>
        let l' := eval cbn -[WS.ref_varint WS.ref_tag WS.ref_len_delimited] in l in change l with l' end;
      unfold WS.ref_len_delimited;
      [change (WS.ref_tag 10 2) with [82]|change (WS.ref_tag 13 2) with [106]];
      rewrite <- varint_ref; reflexivity.
  - unfold frame_bytes. change (len (WS.ref_msg sst_entry_shape (WG.VV variant (WG.VB payload))))
      with (WM.len (WS.ref_msg sst_entry_shape (WG.VV variant (WG.VB payload)))). now rewrite Hl2, Hsz.
  - apply WP.C15_enum_roundtrip_leaves_rest; auto. now rewrite Hsz.
Qed.

(* the payload of a PlainBlock frame is the sealed block: its length is block_len *)
Theorem block_len_is_length : forall b, recs_ok (bl_entries b) ->
  bl_boundary b = buf_len enc_size_real (bl_entries b) -> num_restarts b < WM.W32 ->
  len (block_bytes b) = block_len b.
Proof. intros b H1 H2 H3. rewrite (bytes_len b H1 H2 H3). unfold block_len. lia. Qed.

(* ---------------------------------------------------------------- the final block *)
Definition final_val (is il ic fs fl fc : N) (setsum : bytes) (smallest biggest offset : N) : WG.val :=
  WG.VL [metadata_val is il ic; metadata_val fs fl fc; WG.VB setsum;
         WG.VZ (Z.of_N smallest); WG.VZ (Z.of_N biggest); WG.VZ (Z.of_N offset)].
Definition final_bytes is il ic fs fl fc setsum smallest biggest offset : bytes :=
  WS.ref_msg final_block_shape (final_val is il ic fs fl fc setsum smallest biggest offset).

Lemma final_block_wf : WG.msg_wf final_block_shape = true.
Proof. vm_compute. reflexivity. Qed.

Lemma meta_len_le : forall s l, s < WM.W64 -> l < WM.W64 -> meta_len s l <= 27.
Proof.
  intros s l Hs Hl. unfold meta_len.
  pose proof (varint_size_le s ltac:(unfold WM.W64 in Hs; unfold U64_MAX; lia)).
  pose proof (varint_size_le l ltac:(unfold WM.W64 in Hl; unfold U64_MAX; lia)). lia.
Qed.

Theorem final_codec : forall is il ic fs fl fc setsum smallest biggest offset (fb : final_block),
  is < WM.W64 -> il < WM.W64 -> ic < WM.W32 -> fs < WM.W64 -> fl < WM.W64 -> fc < WM.W32 ->
  WM.bytes_ok setsum -> length setsum = 32%nat ->
  smallest < WM.W64 -> biggest < WM.W64 -> offset < WM.W64 ->
  fb_index fb = (is, il) -> fb_filter fb = (fs, fl) -> fb_smallest fb = smallest -> fb_biggest fb = biggest ->
  let bs := final_bytes is il ic fs fl fc setsum smallest biggest offset in
  len bs = final_len fb /\
  WG.msg_unpack final_block_shape bs = WM.Ok (final_val is il ic fs fl fc setsum smallest biggest offset, []) /\
  skipn (length bs - 8) bs = WM.le_bytes 8 offset.
Proof.
  intros is il ic fs fl fc setsum smallest biggest offset fb H1 H2 H3 H4 H5 H6 Hss Hsl Hsm Hbg Hoff E1 E2 E3 E4 bs.
  assert (Hok : WG.val_ok final_block_shape (final_val is il ic fs fl fc setsum smallest biggest offset) = true).
  { apply WPS.bytes_okb_iff in Hss. cbn.
    rewrite (in_range_u64 _ H1), (in_range_u64 _ H2), (in_range_u64 _ H4), (in_range_u64 _ H5),
            (in_range_u64 _ Hsm), (in_range_u64 _ Hbg), (in_range_u64 _ Hoff), Hss.
    rewrite (WPS.in_range_true 0 4294967295 (Z.of_N ic)) by (unfold WM.W32 in H3; lia).
    rewrite (WPS.in_range_true 0 4294967295 (Z.of_N fc)) by (unfold WM.W32 in H6; lia).
    unfold WM.len. rewrite Hsl. reflexivity. }
  assert (Hsz : WG.msg_pack_sz final_block_shape (final_val is il ic fs fl fc setsum smallest biggest offset) = final_len fb).
  { unfold WG.msg_pack_sz, final_val, metadata_val, final_len. rewrite E1, E2, E3, E4. cbn [fst snd].
    cbn -[WM.v64_pack_sz WM.tag_v64 N.add N.mul].
    change (WM.v64_pack_sz (WM.tag_v64 16 WM.WLengthDelimited)) with 2.
    change (WM.v64_pack_sz (WM.tag_v64 17 WM.WLengthDelimited)) with 2.
    change (WM.v64_pack_sz (WM.tag_v64 19 WM.WLengthDelimited)) with 2.
    change (WM.v64_pack_sz (WM.tag_v64 20 WM.WVarint)) with 2.
    change (WM.v64_pack_sz (WM.tag_v64 21 WM.WVarint)) with 2.
    change (WM.v64_pack_sz (WM.tag_v64 18 WM.WSixtyFour)) with 2.
    change (WM.v64_pack_sz (WM.tag_v64 13 WM.WVarint)) with 1.
    change (WM.v64_pack_sz (WM.tag_v64 14 WM.WVarint)) with 1.
    change (WM.v64_pack_sz (WM.tag_v64 15 WM.WThirtyTwo)) with 1.
    rewrite !N2Z.id. unfold WM.len. rewrite Hsl. change (WM.v64_pack_sz (N.of_nat 32)) with 1.
    rewrite (v64_sz_varint_size _ H1), (v64_sz_varint_size _ H2), (v64_sz_varint_size _ H4), (v64_sz_varint_size _ H5),
            (v64_sz_varint_size _ Hsm), (v64_sz_varint_size _ Hbg).
    pose proof (meta_len_le is il H1 H2) as M1. pose proof (meta_len_le fs fl H4 H5) as M2. unfold meta_len in *.
    match goal with |- context [WM.v64_pack_sz ?B + ?B] => idtac end.
    repeat match goal with |- context [WM.v64_pack_sz ?B] =>
      let Hb := fresh "Hb" in assert (Hb : B < WM.W64) by (unfold WM.W64; lia);
      rewrite (v64_sz_varint_size B Hb); clear Hb end.
    change (N.of_nat 32) with 32. rewrite !N.add_0_l, !N.add_assoc. lia. }
  assert (Hlt : final_len fb < WM.W64).
  { unfold final_len. rewrite E1, E2, E3, E4. cbn [fst snd].
    pose proof (meta_len_le is il H1 H2). pose proof (meta_len_le fs fl H4 H5).
    pose proof (varint_size_le smallest ltac:(unfold WM.W64 in Hsm; unfold U64_MAX; lia)).
    pose proof (varint_size_le biggest ltac:(unfold WM.W64 in Hbg; unfold U64_MAX; lia)).
    pose proof (varint_size_le (meta_len is il) ltac:(unfold U64_MAX; lia)).
    pose proof (varint_size_le (meta_len fs fl) ltac:(unfold U64_MAX; lia)). unfold WM.W64. lia. }
  destruct (WP.C15_message_roundtrip final_block_shape _ final_block_wf Hok ltac:(now rewrite Hsz)) as (_ & Hl2 & Hun).
  split; [|split].
  - unfold bs, final_bytes. change (len ?x) with (WM.len x). now rewrite Hl2, Hsz.
  - exact Hun.
  - (* the last field is the fixed64 final_block_offset *)
    unfold bs, final_bytes, final_val.
    cbn -[WS.ref_varint WS.ref_tag WS.ref_len_delimited WM.le_bytes metadata_val block_metadata_shape].
    rewrite app_nil_r, !N2Z.id. rewrite !app_assoc.
    match goal with |- skipn (length (?pre ++ ?suf) - 8) (?pre ++ ?suf) = _ =>
      rewrite app_length, WPS.le_bytes_len; replace (length pre + 8 - 8)%nat with (length pre) by lia;
      exact (skipn_exact pre suf (length pre) eq_refl) end.
Qed.
