(* Table/BytesCursorProofs.v — lockstep: wherever the logical cursor of Table/Model.v succeeds,
   the cursor over raw bytes (Table/ModelBytes.v) returns the same state, provided the two
   byte-level primitives agree with the logical ones where the cursor uses them: restart_point
   everywhere, extract_key at offsets that are record boundaries (or at/after restarts_boundary).
   The invariant carried along: every next_offset held by the cursor (current position, cached
   positions) is such an offset.  BytesProofs.v discharges the agreement for the bytes a builder
   writes. *)
From Coq Require Import NArith ZArith List Bool Lia.
From Blue Require Import Gen.Const_Table Table.Model Table.ModelSst Table.ModelWire Table.ModelBytes
  Table.Ref Table.OrderProofs Table.BlockBase.
Import ListNotations.
Open Scope N_scope.

Section Lock.
  Variable enc_size : bentry -> N.
  Variable b : block.
  Variable k : bblock.
  Variable fuel : nat.

  Variable valid_off : N -> Prop.

  Hypothesis Hbd : bk_boundary k = bl_boundary b.
  Hypothesis Hnr : bk_nr k = num_restarts b.
  Hypothesis RP : forall i, bk_restart_point k i = restart_point b i.
  Hypothesis EX : forall ri o key, valid_off o -> bk_extract_key k ri o key = extract_key enc_size b ri o key.
  (* restart points and the next_offset of every record read at a valid offset are valid *)
  Hypothesis RV : forall i x, nth_error (bl_restarts b) i = Some x -> valid_off x.
  Hypothesis EA : forall ri o key ri' o' no kk t v, valid_off o ->
    extract_key enc_size b ri o key = Ok (PAt ri' o' no kk t v) -> valid_off no.
  Hypothesis Hfe : (length (bl_entries b) <= fuel)%nat.
  Hypothesis Hfr : (length (bl_restarts b) <= fuel)%nat.

  Definition pos_valid (p : pos) : Prop :=
    match p with PAt _ _ noff _ _ _ => valid_off noff | _ => True end.
  Definition V (c : bcursor) : Prop :=
    pos_valid (bc_pos c) /\
    match bc_cache c with Some (_, ps) => Forall pos_valid ps | None => True end.

  Lemma V_new : V bc_new.
  Proof. split; exact I. Qed.

  Lemma V_set_pos : forall c p, V c -> pos_valid p -> V (set_pos c p).
  Proof. intros c p (_ & C) Hp. split; [exact Hp|exact C]. Qed.

  Lemma extract_lock : forall ri o key p, valid_off o -> extract_key enc_size b ri o key = Ok p ->
    bk_extract_key k ri o key = Ok p /\ pos_valid p.
  Proof.
    intros ri o key p Ho H. split; [now rewrite EX|].
    destruct p as [| |ri' o' no kk t v]; cbn; auto. eapply EA; eauto.
  Qed.

  Lemma rp_valid : forall i x, restart_point b i = Ok x -> valid_off x.
  Proof.
    intros i x H. unfold restart_point in H.
    destruct (nth_error (bl_restarts b) (N.to_nat i)) eqn:E; [|discriminate]. injection H as <-. eauto.
  Qed.

  Lemma seek_restart_lock : forall c ri c1, V c -> seek_restart enc_size b c ri = Ok c1 ->
    bk_seek_restart k c ri = Ok c1 /\ V c1.
  Proof.
    intros c ri c1 HV H. unfold seek_restart in H. unfold bk_seek_restart. rewrite Hnr, RP, Hbd.
    destruct (num_restarts b <=? ri); [discriminate|].
    destruct (restart_point b ri) as [x|] eqn:Ex; cbn [bind] in *; [|discriminate].
    destruct (bl_boundary b <=? x); [discriminate|].
    destruct (extract_key enc_size b ri x (pos_key (bc_pos c))) as [p|] eqn:Ep; cbn [bind] in H; [|discriminate].
    injection H as <-. destruct (extract_lock _ _ _ _ (rp_valid _ _ Ex) Ep) as (-> & Hp). cbn [bind].
    split; [reflexivity|now apply V_set_pos].
  Qed.

  Lemma next_lock : forall c c1, V c -> bc_next enc_size b c = Ok c1 -> bk_next k c = Ok c1 /\ V c1.
  Proof.
    intros c c1 HV H. unfold bc_next in H. unfold bk_next. rewrite Hbd, Hnr.
    destruct (bc_pos c) as [| |ri o no kk t v] eqn:EP.
    - destruct (bl_boundary b =? 0).
      + injection H as <-. split; [reflexivity|now apply V_set_pos].
      + now apply seek_restart_lock.
    - injection H as <-. auto.
    - destruct (bl_boundary b <=? no).
      + injection H as <-. split; [reflexivity|now apply V_set_pos].
      + rewrite RP.
        destruct (if ri + 1 <? num_restarts b then rp <- restart_point b (ri + 1);; Ok (rp <=? no) else Ok false)
          as [[|]|] eqn:EJ; cbn [bind] in *; [| |discriminate].
        * now apply seek_restart_lock.
        * destruct (extract_key enc_size b ri no kk) as [p|] eqn:Ep; cbn [bind] in H; [|discriminate].
          injection H as <-. pose proof HV as (Hp & _). rewrite EP in Hp. cbn in Hp.
          destruct (extract_lock _ _ _ _ Hp Ep) as (-> & Hp1). cbn [bind].
          split; [reflexivity|]. now apply V_set_pos.
  Qed.

  Lemma cache_loop_lock : forall f ri o limit key acc ps, valid_off o -> Forall pos_valid acc ->
    cache_loop enc_size f b ri o limit key acc = Ok ps ->
    forall f', (f <= f')%nat -> bk_cache_loop f' k ri o limit key acc = Ok ps /\ Forall pos_valid ps.
  Proof.
    induction f as [|f IH]; intros ri o limit key acc ps Ho Ha H f' Hf; cbn [cache_loop] in H; [discriminate|].
    destruct f' as [|f']; [lia|]. cbn [bk_cache_loop].
    destruct (o <? limit).
    - destruct (extract_key enc_size b ri o key) as [p|] eqn:Ep; cbn [bind] in H; [|discriminate].
      destruct (extract_lock _ _ _ _ Ho Ep) as (-> & Hp). cbn [bind].
      destruct p as [| |ri' o' no kk t v].
      + injection H as <-. auto.
      + injection H as <-. auto.
      + apply (IH _ _ _ _ _ _ Hp (proj2 (Forall_app _ _ _) (conj Ha (Forall_cons _ Hp (Forall_nil _)))) H). lia.
    - injection H as <-. auto.
  Qed.

  Lemma cache_restart_lock : forall c ri c1, V c -> cache_restart enc_size b c ri = Ok c1 ->
    bk_cache_restart fuel k c ri = Ok c1 /\ V c1.
  Proof.
    intros c ri c1 HV H. unfold cache_restart in H. unfold bk_cache_restart. rewrite Hnr, Hbd, !RP.
    destruct (match bc_cache c with Some (r, _) => r =? ri | None => false end).
    - injection H as <-. auto.
    - destruct (restart_point b ri) as [x|] eqn:Ex; cbn [bind] in *; [|discriminate].
      destruct (if ri + 1 <? num_restarts b then restart_point b (ri + 1) else Ok (bl_boundary b)) as [lim|];
        cbn [bind] in *; [|discriminate].
      destruct (cache_loop enc_size (S (length (bl_entries b))) b ri x lim [] []) as [ps|] eqn:El;
        cbn [bind] in H; [|discriminate].
      injection H as <-.
      destruct (cache_loop_lock _ _ _ _ _ _ _ (rp_valid _ _ Ex) (Forall_nil _) El (S fuel) ltac:(lia)) as (-> & Hps).
      cbn [bind]. split; [reflexivity|]. split; [apply HV|exact Hps].
  Qed.

  Lemma next_offset_eq : forall c, bk_next_offset k c = next_offset b c.
  Proof. intros c. unfold bk_next_offset, next_offset. now rewrite Hbd. Qed.

  Lemma prev_scan_lock : forall f c target c1, V c -> prev_scan enc_size f b c target = Ok c1 ->
    forall f', (f <= f')%nat -> bk_prev_scan f' k c target = Ok c1 /\ V c1.
  Proof.
    induction f as [|f IH]; intros c target c1 HV H f' Hf; cbn [prev_scan] in H; [discriminate|].
    destruct f' as [|f']; [lia|]. cbn [bk_prev_scan]. rewrite next_offset_eq.
    destruct (next_offset b c <? target).
    - destruct (bc_next enc_size b c) as [c2|] eqn:En; cbn [bind] in H; [|discriminate].
      destruct (next_lock _ _ HV En) as (-> & V2). cbn [bind]. apply (IH _ _ _ V2 H). lia.
    - injection H as <-. auto.
  Qed.

  Lemma find_valid : forall p ps q, Forall pos_valid ps -> find p (rev ps) = Some q -> pos_valid q.
  Proof.
    intros p ps q Hps Hf. apply find_some in Hf as (Hin & _). apply in_rev in Hin.
    rewrite Forall_forall in Hps. now apply Hps.
  Qed.

  Lemma prev_lock : forall c c1, V c -> bc_prev enc_size b c = Ok c1 -> bk_prev fuel k c = Ok c1 /\ V c1.
  Proof.
    intros c c1 HV H. unfold bc_prev in H. unfold bk_prev. rewrite Hbd, Hnr.
    destruct (bc_pos c) as [| |ri o no kk t v] eqn:EP.
    - injection H as <-. auto.
    - (* Last *)
      destruct (bl_boundary b =? 0).
      + injection H as <-. split; [reflexivity|now apply V_set_pos].
      + rewrite N.leb_refl in *. cbn [bind] in *.
        destruct (num_restarts b =? 0); cbn [bind] in *; [discriminate|].
        destruct (cache_restart enc_size b c (num_restarts b - 1)) as [c2|] eqn:Ec; cbn [bind] in H; [|discriminate].
        destruct (cache_restart_lock _ _ _ HV Ec) as (-> & V2). cbn [bind].
        destruct (match bc_cache c2 with Some (_, ps) => find (pos_noff_is (bl_boundary b)) (rev ps) | None => None end)
          as [q|] eqn:Ef.
        * injection H as <-. split; [reflexivity|]. apply V_set_pos; [exact V2|].
          destruct (bc_cache c2) as [[r ps]|] eqn:Ecc; [|discriminate]. destruct V2 as (_ & V2). rewrite Ecc in V2.
          eapply find_valid; eauto.
        * destruct (seek_restart enc_size b c2 (num_restarts b - 1)) as [c3|] eqn:Es; cbn [bind] in H; [|discriminate].
          destruct (seek_restart_lock _ _ _ V2 Es) as (-> & V3). cbn [bind].
          apply (prev_scan_lock _ _ _ _ V3 H). lia.
    - rewrite RP.
      destruct (o =? 0).
      + injection H as <-. split; [reflexivity|now apply V_set_pos].
      + destruct (if num_restarts b <=? ri then Ok true else rp <- restart_point b ri;; Ok (o <=? rp)) as [back|];
          cbn [bind] in *; [|discriminate].
        destruct (if back then if ri =? 0 then Err ELogicNegRestart else Ok (ri - 1) else Ok ri) as [ri'|];
          cbn [bind] in *; [|discriminate].
        destruct (cache_restart enc_size b c ri') as [c2|] eqn:Ec; cbn [bind] in H; [|discriminate].
        destruct (cache_restart_lock _ _ _ HV Ec) as (-> & V2). cbn [bind].
        destruct (match bc_cache c2 with Some (_, ps) => find (pos_noff_is o) (rev ps) | None => None end)
          as [q|] eqn:Ef.
        * injection H as <-. split; [reflexivity|]. apply V_set_pos; [exact V2|].
          destruct (bc_cache c2) as [[r ps]|] eqn:Ecc; [|discriminate]. destruct V2 as (_ & V2). rewrite Ecc in V2.
          eapply find_valid; eauto.
        * destruct (seek_restart enc_size b c2 ri') as [c3|] eqn:Es; cbn [bind] in H; [|discriminate].
          destruct (seek_restart_lock _ _ _ V2 Es) as (-> & V3). cbn [bind].
          apply (prev_scan_lock _ _ _ _ V3 H). lia.
  Qed.

  Lemma bsearch_lock : forall f c key lo hi r, V c -> bsearch enc_size f b c key lo hi = Ok r ->
    forall f', (f <= f')%nat -> bk_bsearch f' k c key lo hi = Ok r /\ V (fst (fst r)).
  Proof.
    induction f as [|f IH]; intros c key lo hi r HV H f' Hf; cbn [bsearch] in H; [discriminate|].
    destruct f' as [|f']; [lia|]. cbn [bk_bsearch].
    destruct (lo <? hi).
    - destruct (seek_restart enc_size b c (lo + (hi - lo + 1) / 2)) as [c2|] eqn:Es; cbn [bind] in H; [|discriminate].
      destruct (seek_restart_lock _ _ _ HV Es) as (-> & V2). cbn [bind].
      destruct (bc_pos c2) as [| |ri o no kk t v]; try discriminate.
      destruct (lex_cmp key kk); apply (IH _ _ _ _ _ V2 H); lia.
    - injection H as <-. auto.
  Qed.

  Lemma seek_scan_lock : forall f c key c1, V c -> seek_scan enc_size f b c key = Ok c1 ->
    forall f', (f <= f')%nat -> bk_seek_scan f' k c key = Ok c1 /\ V c1.
  Proof.
    induction f as [|f IH]; intros c key c1 HV H f' Hf; cbn [seek_scan] in H; [discriminate|].
    destruct f' as [|f']; [lia|]. cbn [bk_seek_scan].
    destruct (bc_pos c) as [| |ri o no kk t v]; try (injection H as <-; auto; fail).
    destruct (lex_cmp key kk); try (injection H as <-; auto; fail).
    destruct (bc_next enc_size b c) as [c2|] eqn:En; cbn [bind] in H; [|discriminate].
    destruct (next_lock _ _ HV En) as (-> & V2). cbn [bind]. apply (IH _ _ _ V2 H). lia.
  Qed.

  Lemma seek_lock : forall c key c1, V c -> bc_seek enc_size b c key = Ok c1 ->
    bk_seek fuel k c key = Ok c1 /\ V c1.
  Proof.
    intros c key c1 HV H. unfold bc_seek in H. unfold bk_seek. rewrite Hnr, Hbd.
    destruct (num_restarts b =? 0); [discriminate|].
    destruct (bl_boundary b =? 0).
    - injection H as <-. split; [reflexivity|now apply V_set_pos].
    - destruct (bsearch enc_size (S (length (bl_restarts b))) b c key 0 (num_restarts b - 1)) as [r|] eqn:Eb;
        cbn [bind] in H; [|discriminate].
      destruct (bsearch_lock _ _ _ _ _ _ HV Eb (S fuel) ltac:(lia)) as (-> & V1). cbn [bind].
      destruct r as [[c2 lo] hi]. cbn [fst] in V1.
      destruct (negb (lo =? hi)); [discriminate|].
      destruct (seek_restart enc_size b c2 lo) as [c3|] eqn:Es; cbn [bind] in H; [|discriminate].
      destruct (seek_restart_lock _ _ _ V1 Es) as (-> & V3). cbn [bind].
      destruct (bc_pos c3) as [| |ri o no kk t v]; try discriminate.
      apply (seek_scan_lock _ _ _ _ V3 H). lia.
  Qed.

  Lemma step_lock : forall c o c1, V c -> bc_step enc_size b c o = Ok c1 -> bk_step fuel k c o = Ok c1 /\ V c1.
  Proof.
    intros c o c1 HV H. destruct o as [| |key| |]; cbn [bc_step bk_step] in *.
    - injection H as <-. split; [reflexivity|]. now apply V_set_pos.
    - injection H as <-. split; [reflexivity|]. now apply V_set_pos.
    - now apply seek_lock.
    - now apply next_lock.
    - now apply prev_lock.
  Qed.

  (* whole programs: if the logical run never errs, the run over raw bytes is the same run *)
  Theorem run_lock : forall prog c l, V c -> bc_run enc_size b c prog = map (fun x => Ok x) l ->
    bk_run fuel k c prog = map (fun x => Ok x) l.
  Proof.
    induction prog as [|o prog IH]; intros c l HV H; cbn [bc_run bk_run] in *; [exact H|].
    destruct (bc_step enc_size b c o) as [c1|e] eqn:Es.
    - destruct (step_lock _ _ _ HV Es) as (-> & V1).
      destruct l as [|x l]; cbn [map] in H; [discriminate|]. injection H as Hx Hl.
      cbn [map]. rewrite Hx. f_equal. now apply IH.
    - destruct l as [|x l]; cbn [map] in H; discriminate.
  Qed.

  Lemma load_scan_lock : forall f c key ts c1, V c -> load_scan enc_size f b c key ts = Ok c1 ->
    forall f', (f <= f')%nat -> bk_load_scan f' k c key ts = Ok c1 /\ V c1.
  Proof.
    induction f as [|f IH]; intros c key ts c1 HV H f' Hf; cbn [load_scan] in H; [discriminate|].
    destruct f' as [|f']; [lia|]. cbn [bk_load_scan].
    destruct (bc_kv c) as [e|]; [|injection H as <-; auto].
    destruct (kref_lt_target e key ts); [|injection H as <-; auto].
    destruct (bc_next enc_size b c) as [c2|] eqn:En; cbn [bind] in H; [|discriminate].
    destruct (next_lock _ _ HV En) as (-> & V2). cbn [bind]. apply (IH _ _ _ _ V2 H). lia.
  Qed.

  Theorem load_lock : forall key ts r, bl_load enc_size b key ts = Ok r -> bk_load fuel k key ts = Ok r.
  Proof.
    intros key ts r H. unfold bl_load in H. unfold bk_load.
    destruct (bc_seek enc_size b bc_new key) as [c|] eqn:Es; cbn [bind] in H; [|discriminate].
    destruct (seek_lock _ _ _ V_new Es) as (-> & V1). cbn [bind].
    destruct (load_scan enc_size (S (S (length (bl_entries b)))) b c key ts) as [c1|] eqn:El; cbn [bind] in H; [|discriminate].
    destruct (load_scan_lock _ _ _ _ _ V1 El (S (S fuel)) ltac:(lia)) as (-> & _). cbn [bind]. exact H.
  Qed.
End Lock.
