(* Table/FilterBytesProofs.v — the bloom filter block on disk: Filter::to_bytes followed by
   Filter::try_from returns the filter, for every filter SstBuilder::seal can build (blocks of
   eight u32 words). *)
From Coq Require Import NArith ZArith List Bool Lia.
From Blue Require Import Gen.Const_Table Table.Model Table.ModelBloom Table.ModelSst Table.ModelWire
  Table.ModelBytes Table.ModelFile Table.BloomProofs Table.BytesProofs.
From Blue Require Wire.Model Wire.ProofsScalar Wire.ProofsVarint.
Import ListNotations.
Open Scope N_scope.

Definition fblock_ok (b : fblock) : Prop := length b = 8%nat /\ Forall (fun w => w < WM.W32) b.
Definition filter_ok (f : filter) : Prop := Forall fblock_ok f.

Lemma lor_lt_pow2 : forall a b n, a < 2 ^ n -> b < 2 ^ n -> N.lor a b < 2 ^ n.
Proof.
  intros a b n Ha Hb. destruct (N.eq_dec (N.lor a b) 0) as [E|NE]; [rewrite E; apply N.neq_0_lt_0; apply N.pow_nonzero; discriminate|].
  apply N.log2_lt_pow2; [lia|]. rewrite N.log2_lor.
  destruct (N.eq_dec a 0) as [->|Na]; destruct (N.eq_dec b 0) as [->|Nb]; cbn [N.log2 N.max] in *.
  - exfalso. now apply NE.
  - rewrite N.max_r by apply N.le_0_l. apply N.log2_lt_pow2; lia.
  - rewrite N.max_l by apply N.le_0_l. apply N.log2_lt_pow2; lia.
  - apply N.max_lub_lt; apply N.log2_lt_pow2; lia.
Qed.

Lemma mask_word_lt : forall x salt, mask_word x salt < WM.W32.
Proof.
  intros x salt. unfold mask_word. rewrite N.shiftl_1_l.
  assert (H : (x * salt) mod ModelBloom.W32 / 134217728 < 32).
  { apply N.div_lt_upper_bound; [discriminate|]. apply N.mod_lt. discriminate. }
  change WM.W32 with (2 ^ 32). apply N.pow_lt_mono_r; lia.
Qed.

Lemma mask_ok : forall x, length (mask x) = 8%nat /\ Forall (fun w => w < WM.W32) (mask x).
Proof.
  intros x. unfold mask. split; [now rewrite map_length|].
  apply Forall_forall. intros w Hw. apply in_map_iff in Hw as (s & <- & _). apply mask_word_lt.
Qed.

Lemma map2_lor_ok : forall (b m : list N), length b = length m ->
  Forall (fun w => w < WM.W32) b -> Forall (fun w => w < WM.W32) m ->
  length (map2 N.lor b m) = length b /\ Forall (fun w => w < WM.W32) (map2 N.lor b m).
Proof.
  induction b as [|x b IH]; intros [|y m] Hl Hb Hm; cbn [map2 length] in *; try discriminate; [auto|].
  inversion Hb; inversion Hm; subst. destruct (IH m ltac:(lia) H2 H6) as (L & F).
  split; [lia|]. constructor; [|exact F]. change WM.W32 with (2 ^ 32) in *. now apply lor_lt_pow2.
Qed.

Lemma fb_insert_ok : forall b x, fblock_ok b -> fblock_ok (fb_insert b x).
Proof.
  intros b x (L & F). destruct (mask_ok x) as (Lm & Fm). unfold fb_insert.
  destruct (map2_lor_ok b (mask x) ltac:(lia) F Fm) as (L2 & F2). split; [lia|exact F2].
Qed.

Lemma update_nth_Forall : forall {A} (P : A -> Prop) (l : list A) i g,
  Forall P l -> (forall a, P a -> P (g a)) -> Forall P (update_nth l i g).
Proof.
  intros A P. induction l as [|a l IH]; intros i g H Hg; [destruct i; constructor|].
  inversion H; subst. destruct i; cbn [update_nth]; constructor; auto.
Qed.

Lemma filter_insert_ok : forall f x f', filter_ok f -> filter_insert f x = Some f' -> filter_ok f'.
Proof.
  intros f x f' H E. unfold filter_insert, do_hashing in E.
  destruct (_ <? _); [|discriminate]. injection E as <-.
  apply update_nth_Forall; [exact H|]. intros b Hb. now apply fb_insert_ok.
Qed.

Lemma filter_insert_all_ok : forall xs f f', filter_ok f -> filter_insert_all f xs = Some f' -> filter_ok f'.
Proof.
  induction xs as [|x xs IH]; intros f f' H E; cbn [filter_insert_all] in E.
  - now injection E as <-.
  - destruct (filter_insert f x) as [f1|] eqn:E1; [|discriminate]. exact (IH f1 f' (filter_insert_ok f x f1 H E1) E).
Qed.

Lemma filter_build_ok : forall hashes bits f, filter_build hashes bits = Some f -> filter_ok f /\ f <> [].
Proof.
  intros hashes bits f E. unfold filter_build in E. split.
  - eapply filter_insert_all_ok; [|exact E]. unfold filter_new. apply Forall_forall.
    intros b Hb. apply repeat_spec in Hb. subst b. split; [reflexivity|].
    apply Forall_forall. intros w Hw. unfold fblock_zero in Hw. apply in_map_iff in Hw as (s & <- & _). reflexivity.
  - destruct (insert_all_props _ _ _ E) as (L & _).
    pose proof (filter_new_nonempty (sat_mul32 (N.of_nat (length hashes) mod ModelBloom.W32) bits)) as Hn.
    intros ->. destruct (filter_new _); [congruence|discriminate].
Qed.

(* ---------------------------------------------------------------- bytes *)
Lemma words_of_le32s : forall ws rest, Forall (fun w => w < WM.W32) ws ->
  words_of_bytes (concat (map le32 ws) ++ rest) = ws ++ words_of_bytes rest.
Proof.
  induction ws as [|w ws IH]; intros rest H; [reflexivity|]. inversion H; subst.
  cbn [map concat]. unfold le32 at 1. cbn [app words_of_bytes]. f_equal; [|now apply IH].
  change [w mod 256; w / 256 mod 256; w / 65536 mod 256; w / 16777216 mod 256] with (le32 w).
  rewrite le32_le_bytes. now apply Wire.ProofsScalar.of_le_le_bytes.
Qed.

Lemma filter_words : forall f, filter_ok f -> words_of_bytes (filter_to_bytes f) = concat f.
Proof.
  induction f as [|b f IH]; intros H; [reflexivity|]. inversion H as [|? ? (Lb & Fb) Hf]; subst.
  unfold filter_to_bytes in *. cbn [map concat]. unfold fblock_bytes at 1.
  rewrite (words_of_le32s b _ Fb). f_equal. now apply IH.
Qed.

Lemma blocks_of_concat : forall f, filter_ok f -> blocks_of_words (concat f) = f.
Proof.
  induction f as [|b f IH]; intros H; [reflexivity|]. inversion H as [|? ? (Lb & Fb) Hf]; subst.
  destruct b as [|a0 [|a1 [|a2 [|a3 [|a4 [|a5 [|a6 [|a7 [|a8 b]]]]]]]]]; cbn [length] in Lb; try lia.
  cbn [concat app blocks_of_words]. f_equal. now apply IH.
Qed.

Lemma filter_bytes_length : forall f, filter_ok f -> len (filter_to_bytes f) = filter_bytes_len f.
Proof.
  induction f as [|b f IH]; intros H; [reflexivity|]. inversion H as [|? ? (Lb & Fb) Hf]; subst.
  unfold filter_to_bytes, filter_bytes_len in *. cbn [map concat length]. unfold len in *.
  rewrite app_length. unfold fblock_bytes at 1. rewrite concat_le32_len, Lb. specialize (IH Hf). lia.
Qed.

Lemma filter_bytes_ok : forall f, WM.bytes_ok (filter_to_bytes f).
Proof.
  intros f. unfold filter_to_bytes. induction f as [|b f IH]; [constructor|]. cbn [map concat].
  apply Wire.ProofsVarint.bytes_ok_app. split; [|exact IH]. unfold fblock_bytes.
  induction b as [|w b IHb]; [constructor|]. cbn [map concat]. apply Wire.ProofsVarint.bytes_ok_app. split; [|exact IHb].
  rewrite le32_le_bytes. apply Wire.ProofsScalar.le_bytes_ok.
Qed.

Theorem filter_roundtrip : forall f, filter_ok f -> f <> [] ->
  filter_of_bytes (filter_to_bytes f) = FOk f.
Proof.
  intros f H Hne. unfold filter_of_bytes.
  pose proof (filter_bytes_length f H) as HL.
  pose proof (filter_words f H) as HW.
  destruct (filter_to_bytes f) as [|x r] eqn:E.
  - exfalso. unfold filter_bytes_len, len in HL. cbn in HL. destruct f; [congruence|cbn in HL; lia].
  - rewrite HL. unfold filter_bytes_len.
    replace (32 * N.of_nat (length f)) with (N.of_nat (length f) * 32) by lia.
    rewrite N.mod_mul by discriminate. cbn [N.eqb]. rewrite HW, (blocks_of_concat f H). reflexivity.
Qed.
