(* Table/ModelSst.v — executable model of the SST layer of sst/src/lib.rs: SstBuilder
   (get_block / flush_block / start_new_block, divide_keys, minimal_successor_key, index block,
   timestamps, setsum and filter accumulation, seal), Sst::from_file_handle / load_block /
   load_index_entries, SstCursor, Sst::load, Sst::metadata, SstMultiBuilder.  Definitions only.

   Logical layer.  The file is the list of the SstEntry frames written, each with the byte range
   [start, limit) it occupies; frame lengths are computed with the real prototk arithmetic
   (`varint_size`), so bytes_written, approximate_size, the block/file cut decisions and file_size
   are the numbers of the Rust.  What is abstract (Section variables):
     enc_size  — byte length of one KeyValueEntry record (real one: ModelWire.v);
     meta_enc / meta_dec — stack_pack / unpack of BlockMetadata{start, limit, crc32c};
     sip       — Filter::defer_insert (SipHash-2-4).
   CRC32C is not modelled: load_block finds the frame by its byte range and never fails the
   checksum (damage is C09's subject).  The setsum is modelled as the list of items inserted. *)
From Coq Require Import NArith List Bool.
From Blue Require Import Gen.Const_Table Table.Model Table.ModelBloom.
Import ListNotations.
Open Scope N_scope.

(* v64::pack_sz *)
Definition varint_size (n : N) : N := N.log2 n / 7 + 1.

(* MAX_KEY: eleven 0xff bytes (`&[0xffu8; 11]`, a literal the constants translator cannot read) *)
Definition MAX_KEY : bytes := repeat 255 11.

(* FINAL_BLOCK_MAX_SZ = 2+10+27 + 2+10+27 + 2+1+32 + 2+10 + 2+10 + 2+8 (the expression refers to
   setsum::SETSUM_BYTES of another crate, which the constants translator does not follow) *)
Definition FINAL_BLOCK_MAX_SZ : N := 2 + 10 + BLOCK_METADATA_MAX_SZ + 2 + 10 + BLOCK_METADATA_MAX_SZ + 2 + 1 + 32 + 2 + 10 + 2 + 10 + 2 + 8.

(* ---------------------------------------------------------------- divide_keys *)
(* Returns a key >= lhs and < rhs.  The asserts and the u8 `+ 1` are explicit EPanic results. *)
Definition divide_keys (kl : bytes) (tl : N) (kr : bytes) (tr : N) : result (bytes * N) :=
  match kref_cmp kl tl kr tr with
  | Lt =>
      let shared := common_prefix kl kr in
      let max_shared := Nat.min (length kl) (length kr) in
      let bump :=
        if Nat.ltb shared max_shared then
          match nth_error kl shared, nth_error kr shared with
          | Some a, Some b => if 255 <? a + 1 then None (* u8 overflow *) else Some (a + 1 <? b, a)
          | _, _ => None
          end
        else Some (false, 0) in
      match bump with
      | None => Err EPanic
      | Some (true, a) =>
          (* the four asserts of this branch *)
          if (a <? 255) then
            let d := firstn shared kl ++ [a + 1] in
            match kref_cmp kl tl d 0, kref_cmp d 0 kr tr with
            | (Lt | Eq), Lt => Ok (d, 0)
            | _, _ => Err EPanic
            end
          else Err EPanic
      | Some (false, _) =>
          match kref_cmp kl tl kl tl, kref_cmp kl tl kr tr with
          | (Lt | Eq), Lt => Ok (kl, tl)
          | _, _ => Err EPanic
          end
      end
  | _ => Err EPanic
  end.

Definition minimal_successor_key (k : bytes) (t : N) : bytes * N :=
  if t =? 0 then (k ++ [0], 0) else (k, t - 1).

(* ---------------------------------------------------------------- options, frames *)
Record sopts := {
  so_block : bopts;
  so_tbs : N;            (* target_block_size *)
  so_tfs : N;            (* target_file_size *)
  so_mfs : N;            (* minimum_file_size *)
  so_bits : N }.         (* bloom_filter_bits (u8) *)

Inductive frame := FPlain (b : block) | FFilter (f : filter).
Definition frames := list (N * N * frame).          (* (start, limit, content) *)

(* byte length of a sealed block: records, tag 10, v64 length, 4 bytes per restart, tag 11, fixed32 *)
Definition block_len (b : block) : N :=
  let body := 4 * num_restarts b in bl_boundary b + 1 + varint_size body + body + 1 + 4.
(* stack_pack(SstEntry::X(bytes)): tag, v64 length, bytes *)
Definition frame_len (n : N) : N := 1 + varint_size n + n.

(* stack_pack(BlockMetadata).pack_sz(): tag13 v64(start) tag14 v64(limit) tag15 fixed32 *)
Definition meta_len (s l : N) : N := 1 + varint_size s + 1 + varint_size l + 1 + 4.

Record final_block := {
  fb_index : N * N; fb_filter : N * N;
  fb_setsum : list entry;          (* the items summed into the setsum *)
  fb_smallest : N; fb_biggest : N;
  fb_offset : N }.

(* stack_pack(FinalBlock).pack_sz(): fields 16, 17 (messages), 19 (bytes32), 20, 21 (uint64),
   18 (fixed64); every tag here takes two bytes *)
Definition final_len (fb : final_block) : N :=
  let mi := meta_len (fst (fb_index fb)) (snd (fb_index fb)) in
  let mf := meta_len (fst (fb_filter fb)) (snd (fb_filter fb)) in
  (2 + varint_size mi + mi) + (2 + varint_size mf + mf) + (2 + 1 + 32)
  + (2 + varint_size (fb_smallest fb)) + (2 + varint_size (fb_biggest fb)) + (2 + 8).

Section Sst.
  Variable enc_size : bentry -> N.
  Variable meta_enc : N -> N -> bytes.
  Variable meta_dec : bytes -> option (N * N).
  Variable sip : bytes -> N.

  Definition defer_insert (k : bytes) : N := sip k mod W64.

  (* ------------------------------------------------------------ the sealed table *)
  Record sst := {
    t_frames : frames;
    t_final : final_block;
    t_index_block : block;
    t_index : list (bytes * (N * N));      (* index_entries: dividing key, (start, limit) *)
    t_filter : filter;
    t_file_size : N }.

  Definition meta_sanity (m : N * N) : result unit :=
    if snd m <=? fst m then Err ECorruptMetaStartLimit else Ok tt.

  Definition find_frame (fs : frames) (m : N * N) : option frame :=
    match find (fun x => (fst (fst x) =? fst m) && (snd (fst x) =? snd m)) fs with
    | Some x => Some (snd x) | None => None end.

  Definition load_block (fs : frames) (m : N * N) : result block :=
    _ <- meta_sanity m ;;
    match find_frame fs m with
    | Some (FPlain b) => Ok b
    | Some (FFilter _) => Err ECorruptNotPlain
    | None => Err EUnpack
    end.

  Definition load_filter_block (fs : frames) (m : N * N) : result filter :=
    _ <- meta_sanity m ;;
    match find_frame fs m with
    | Some (FFilter f) => match f with [] => Err ECorruptBadFilter | _ => Ok f end
    | Some (FPlain _) => Err ECorruptNotFilter
    | None => Err EUnpack
    end.

  Definition metadata_from_kv (e : entry) : result (N * N) :=
    match e_val e with
    | None => Err ECorruptMetaNull
    | Some v => match meta_dec v with Some m => Ok m | None => Err EUnpack end
    end.

  Fixpoint index_loop (fuel : nat) (b : block) (c : bcursor) (acc : list (bytes * (N * N)))
    : result (list (bytes * (N * N))) :=
    match fuel with
    | O => Err EFuel
    | S f =>
        match bc_kv c with
        | None => Ok acc
        | Some e =>
            m <- metadata_from_kv e ;;
            c1 <- bc_next enc_size b c ;;
            index_loop f b c1 (acc ++ [(e_key e, m)])
        end
    end.

  Definition load_index_entries (b : block) : result (list (bytes * (N * N))) :=
    c <- bc_next enc_size b (bc_first bc_new) ;;
    index_loop (S (length (bl_entries b))) b c [].

  (* Sst::from_file_handle, given the frames and the final block of the file *)
  Definition sst_open (fs : frames) (fb : final_block) : result sst :=
    _ <- meta_sanity (fb_index fb) ;;
    _ <- meta_sanity (fb_filter fb) ;;
    if fst (fb_filter fb) <? snd (fb_index fb) then Err ECorruptIndexPastFilter
    else if fb_offset fb <? snd (fb_filter fb) then Err ECorruptFilterPastFinal
    else
      ib <- load_block fs (fb_index fb) ;;
      ies <- load_index_entries ib ;;
      flt <- load_filter_block fs (fb_filter fb) ;;
      Ok {| t_frames := fs; t_final := fb; t_index_block := ib; t_index := ies; t_filter := flt;
            t_file_size := fb_offset fb + final_len fb |}.

  (* ------------------------------------------------------------ SstBuilder *)
  Record sbuilder := {
    sb_opts : sopts;
    sb_last_key : bytes; sb_last_ts : N;
    sb_block : option bbuilder;
    sb_block_start : N;
    sb_written : N;                 (* bytes_written *)
    sb_index : bbuilder;
    sb_filter : list N;             (* deferred hashes, in push order *)
    sb_setsum : list entry;         (* items put into the setsum, in order *)
    sb_smallest : N; sb_biggest : N;
    sb_frames : frames }.           (* what has been written to the file *)

  Definition sb_new (o : sopts) : sbuilder :=
    {| sb_opts := o; sb_last_key := []; sb_last_ts := U64_MAX; sb_block := None; sb_block_start := 0;
       sb_written := 0; sb_index := bb_new (so_block o); sb_filter := []; sb_setsum := [];
       sb_smallest := U64_MAX; sb_biggest := 0; sb_frames := [] |}.

  Definition sb_enforce_sort_order (b : sbuilder) (key : bytes) (ts : N) : result unit :=
    match kref_cmp (sb_last_key b) (sb_last_ts b) key ts with Lt => Ok tt | _ => Err ESortOrder end.

  Definition sb_approx_size (b : sbuilder) : N :=
    sb_written b
    + (match sb_block b with Some bb => bb_approx_size enc_size bb | None => 0 end)
    + 1 + bb_approx_size enc_size (sb_index b) + FINAL_BLOCK_MAX_SZ.

  Definition sb_start_new_block (b : sbuilder) : result sbuilder :=
    match sb_block b with
    | Some _ => Err ELogicStartSome
    | None =>
        Ok {| sb_opts := sb_opts b; sb_last_key := sb_last_key b; sb_last_ts := sb_last_ts b;
              sb_block := Some (bb_new (so_block (sb_opts b))); sb_block_start := sb_written b;
              sb_written := sb_written b; sb_index := sb_index b; sb_filter := sb_filter b;
              sb_setsum := sb_setsum b; sb_smallest := sb_smallest b; sb_biggest := sb_biggest b;
              sb_frames := sb_frames b |}
    end.

  (* flush_block(key, timestamp): seal the data block, write its frame, add the index entry under
     a dividing key in [last key, (key, timestamp)) *)
  Definition sb_flush_block (b : sbuilder) (key : bytes) (ts : N) : result sbuilder :=
    match sb_block b with
    | None => Err ELogicFlushNone
    | Some bb =>
        let start := sb_written b in
        let blk := bb_seal enc_size bb in
        let limit := start + frame_len (block_len blk) in
        _ <- meta_sanity (start, limit) ;;
        d <- divide_keys (sb_last_key b) (sb_last_ts b) key ts ;;
        idx <- bb_add enc_size (sb_index b) (fst d, snd d, Some (meta_enc start limit)) ;;
        Ok {| sb_opts := sb_opts b; sb_last_key := sb_last_key b; sb_last_ts := sb_last_ts b;
              sb_block := None; sb_block_start := sb_block_start b;
              sb_written := limit; sb_index := idx; sb_filter := sb_filter b;
              sb_setsum := sb_setsum b; sb_smallest := sb_smallest b; sb_biggest := sb_biggest b;
              sb_frames := sb_frames b ++ [(start, limit, FPlain blk)] |}
    end.

  Definition sb_get_block (b : sbuilder) (key : bytes) (ts : N) : result sbuilder :=
    match sb_block b with
    | None => sb_start_new_block b
    | Some bb =>
        if so_tbs (sb_opts b) <? bb_approx_size enc_size bb
        then b1 <- sb_flush_block b key ts ;; sb_start_new_block b1
        else Ok b
    end.

  (* the checks that precede every mutation in put / del *)
  Definition sb_precheck (b : sbuilder) (e : entry) : result unit :=
    _ <- check_key_len (e_key e) ;;
    _ <- match e_val e with Some v => check_value_len v | None => Ok tt end ;;
    _ <- check_table_size (sb_approx_size b) ;;
    sb_enforce_sort_order b (e_key e) (e_ts e).

  (* Builder::put / del (value None = del) *)
  Definition sb_add (b : sbuilder) (e : entry) : result sbuilder :=
    _ <- sb_precheck b e ;;
    b1 <- sb_get_block b (e_key e) (e_ts e) ;;
    match sb_block b1 with
    | None => Err EPanic                      (* self.block_builder.as_mut().unwrap() *)
    | Some bb =>
        bb1 <- bb_add enc_size bb e ;;
        Ok {| sb_opts := sb_opts b1; sb_last_key := e_key e; sb_last_ts := e_ts e;
              sb_block := Some bb1; sb_block_start := sb_block_start b1;
              sb_written := sb_written b1; sb_index := sb_index b1;
              sb_filter := sb_filter b1 ++ [defer_insert (e_key e)];
              sb_setsum := sb_setsum b1 ++ [e];
              sb_smallest := (if e_ts e <? sb_smallest b1 then e_ts e else sb_smallest b1);
              sb_biggest := (if sb_biggest b1 <? e_ts e then e_ts e else sb_biggest b1);
              sb_frames := sb_frames b1 |}
    end.

  Definition sb_seal (b : sbuilder) : result sst :=
    b1 <- (match sb_block b with
           | Some _ => let '(k, t) := minimal_successor_key (sb_last_key b) (sb_last_ts b) in
                       sb_flush_block b k t
           | None => Ok b end) ;;
    let iblk := bb_seal enc_size (sb_index b1) in
    let istart := sb_written b1 in
    let ilimit := istart + frame_len (block_len iblk) in
    match filter_build (sb_filter b1) (so_bits (sb_opts b1)) with
    | None => Err EPanic
    | Some flt =>
        let flimit := ilimit + frame_len (filter_bytes_len flt) in
        let '(sm, bg) := if sb_biggest b1 <? sb_smallest b1 then (0, 0) else (sb_smallest b1, sb_biggest b1) in
        let fb := {| fb_index := (istart, ilimit); fb_filter := (ilimit, flimit);
                     fb_setsum := sb_setsum b1; fb_smallest := sm; fb_biggest := bg;
                     fb_offset := flimit |} in
        sst_open (sb_frames b1 ++ [(istart, ilimit, FPlain iblk); (ilimit, flimit, FFilter flt)]) fb
    end.

  Fixpoint sb_add_all (b : sbuilder) (es : list entry) : result sbuilder :=
    match es with [] => Ok b | e :: r => b1 <- sb_add b e ;; sb_add_all b1 r end.

  Definition build_sst (o : sopts) (es : list entry) : result sst :=
    b <- sb_add_all (sb_new o) es ;; sb_seal b.

  Fixpoint sb_feed (b : sbuilder) (es : list entry) (i : nat) : sbuilder * list (nat * err) :=
    match es with
    | [] => (b, [])
    | e :: r =>
        match sb_add b e with
        | Ok b1 => sb_feed b1 r (S i)
        | Err x => let '(b2, rej) := sb_feed b r (S i) in (b2, (i, x) :: rej)
        end
    end.

  (* ------------------------------------------------------------ SstCursor *)
  Record scursor := {
    sc_idx : N;                                  (* meta_idx *)
    sc_bc : option (block * bcursor) }.          (* block_cursor (with the block it is over) *)

  Definition sc_new : scursor := {| sc_idx := 0; sc_bc := None |}.
  Definition sc_first (t : sst) : scursor := {| sc_idx := 0; sc_bc := None |}.
  Definition sc_last (t : sst) : scursor := {| sc_idx := N.of_nat (length (t_index t)); sc_bc := None |}.
  Definition nindex (t : sst) : N := N.of_nat (length (t_index t)).

  Definition sc_kv (c : scursor) : option entry :=
    match sc_bc c with Some (_, bc) => bc_kv bc | None => None end.

  (* index_entries.partition_point(|entry| entry.key < key): the number of leading entries whose
     key is below `key`.  (The Rust binary-searches, which returns this number whenever the
     entries are partitioned by the predicate; index entries are, being accepted by a
     BlockBuilder in strictly increasing order.) *)
  Fixpoint partition_point (l : list (bytes * (N * N))) (key : bytes) : N :=
    match l with
    | [] => 0
    | (k, _) :: r => match lex_cmp k key with Lt => 1 + partition_point r key | _ => 0 end
    end.

  Definition load_block_cursor (t : sst) (idx : N) : result (block * bcursor) :=
    match nth_error (t_index t) (N.to_nat idx) with
    | None => Err EPanic                          (* index_entries[idx] *)
    | Some (_, m) => b <- load_block (t_frames t) m ;; Ok (b, bc_new)
    end.

  Definition sc_seek (t : sst) (c : scursor) (key : bytes) : result scursor :=
    let idx := partition_point (t_index t) key in
    if nindex t <=? idx then Ok (sc_last t)
    else
      bb <- load_block_cursor t idx ;;
      bc <- bc_seek enc_size (fst bb) (snd bb) key ;;
      match bc_kv bc with
      | Some _ => Ok {| sc_idx := idx; sc_bc := Some (fst bb, bc) |}
      | None =>
          let idx := idx + 1 in
          if nindex t <=? idx then Ok (sc_last t)
          else bb <- load_block_cursor t idx ;;
               bc <- bc_seek enc_size (fst bb) (snd bb) key ;;
               Ok {| sc_idx := idx; sc_bc := Some (fst bb, bc) |}
      end.

  Fixpoint sc_next_loop (fuel : nat) (t : sst) (c : scursor) : result scursor :=
    match fuel with
    | O => Err EFuel
    | S f =>
        r <- (match sc_bc c with
              | Some bb => Ok (Some bb)
              | None =>
                  if nindex t <=? sc_idx c then Ok None
                  else bb <- load_block_cursor t (sc_idx c) ;; Ok (Some (fst bb, bc_first (snd bb)))
              end) ;;
        match r with
        | None => Ok (sc_last t)
        | Some (blk, bc) =>
            bc1 <- bc_next enc_size blk bc ;;
            match bc_kv bc1 with
            | Some _ => Ok {| sc_idx := sc_idx c; sc_bc := Some (blk, bc1) |}
            | None => sc_next_loop f t {| sc_idx := sc_idx c + 1; sc_bc := None |}
            end
        end
    end.

  Fixpoint sc_prev_loop (fuel : nat) (t : sst) (c : scursor) : result scursor :=
    match fuel with
    | O => Err EFuel
    | S f =>
        r <- (match sc_bc c with
              | Some bb => Ok (Some (sc_idx c, bb))
              | None =>
                  if sc_idx c =? 0 then Ok None
                  else bb <- load_block_cursor t (sc_idx c - 1) ;;
                       Ok (Some (sc_idx c - 1, (fst bb, bc_last (snd bb))))
              end) ;;
        match r with
        | None => Ok (sc_first t)
        | Some (idx, (blk, bc)) =>
            bc1 <- bc_prev enc_size blk bc ;;
            match bc_kv bc1 with
            | Some _ => Ok {| sc_idx := idx; sc_bc := Some (blk, bc1) |}
            | None => sc_prev_loop f t {| sc_idx := idx; sc_bc := None |}
            end
        end
    end.

  Definition sc_fuel (t : sst) : nat := S (S (length (t_index t))).
  Definition sc_next (t : sst) (c : scursor) : result scursor := sc_next_loop (sc_fuel t) t c.
  Definition sc_prev (t : sst) (c : scursor) : result scursor := sc_prev_loop (sc_fuel t) t c.

  Definition sc_step (t : sst) (c : scursor) (o : op) : result scursor :=
    match o with
    | OFirst => Ok (sc_first t)
    | OLast => Ok (sc_last t)
    | OSeek k => sc_seek t c k
    | ONext => sc_next t c
    | OPrev => sc_prev t c
    end.

  Fixpoint sc_run (t : sst) (c : scursor) (prog : list op) : list obs :=
    match prog with
    | [] => []
    | o :: p =>
        match sc_step t c o with
        | Ok c1 => Ok (sc_kv c1) :: sc_run t c1 p
        | Err e => Err e :: sc_run t c p
        end
    end.

  (* ------------------------------------------------------------ Sst::load, Sst::metadata *)
  Fixpoint sst_load_scan (fuel : nat) (t : sst) (c : scursor) (key : bytes) (ts : N) : result scursor :=
    match fuel with
    | O => Err EFuel
    | S f =>
        match sc_kv c with
        | Some e => if kref_lt_target e key ts then c1 <- sc_next t c ;; sst_load_scan f t c1 key ts else Ok c
        | None => Ok c
        end
    end.

  (* fuel for the scan of load: more than the number of records in the file *)
  Definition load_fuel (t : sst) : nat :=
    S (S (fold_right (fun x acc => match snd x with FPlain b => (length (bl_entries b) + acc)%nat | _ => acc end)
                     O (t_frames t))).

  Definition sst_load (t : sst) (key : bytes) (ts : N) : result (option bytes * bool) :=
    match filter_check (t_filter t) (defer_insert key) with
    | None => Err EPanic
    | Some false => Ok (None, false)
    | Some true =>
        c <- sc_seek t sc_new key ;;
        c1 <- sst_load_scan (load_fuel t) t c key ts ;;
        Ok (load_result (sc_kv c1) key)
    end.

  Record metadata := {
    md_first : bytes; md_last : bytes; md_smallest : N; md_biggest : N;
    md_setsum : list entry; md_file_size : N }.

  Definition sst_metadata (t : sst) : result metadata :=
    c1 <- sc_next t (sc_first t) ;;
    let first_key := match sc_kv c1 with Some e => e_key e | None => [] end in
    c2 <- sc_prev t (sc_last t) ;;
    let last_key := match sc_kv c2 with Some e => e_key e | None => MAX_KEY end in
    Ok {| md_first := first_key; md_last := last_key;
          md_smallest := fb_smallest (t_final t); md_biggest := fb_biggest (t_final t);
          md_setsum := fb_setsum (t_final t); md_file_size := t_file_size t |}.

  (* ------------------------------------------------------------ SstMultiBuilder *)
  (* [fix] de09506: the multi-builder remembers the last key of the table it sealed and
     starts the next SstBuilder from it, so that sort order is enforced across tables *)
  Inductive minput := MEntry (e : entry) | MHint.

  Record mbuilder := {
    mb_opts : sopts;
    mb_cur : option sbuilder;
    mb_done : list sst;              (* the tables sealed so far, in path order *)
    mb_last_key : bytes; mb_last_ts : N }.

  Definition mb_new (o : sopts) : mbuilder :=
    {| mb_opts := o; mb_cur := None; mb_done := []; mb_last_key := []; mb_last_ts := U64_MAX |}.

  (* SstBuilder::new followed by the assignment of last_key / last_timestamp *)
  Definition sb_new_from (o : sopts) (k : bytes) (t : N) : sbuilder :=
    {| sb_opts := o; sb_last_key := k; sb_last_ts := t; sb_block := None; sb_block_start := 0;
       sb_written := 0; sb_index := bb_new (so_block o); sb_filter := []; sb_setsum := [];
       sb_smallest := U64_MAX; sb_biggest := 0; sb_frames := [] |}.

  Definition mb_seal_builder (m : mbuilder) : result mbuilder :=
    match mb_cur m with
    | Some b =>
        t <- sb_seal b ;;
        Ok {| mb_opts := mb_opts m; mb_cur := None; mb_done := mb_done m ++ [t];
              mb_last_key := sb_last_key b; mb_last_ts := sb_last_ts b |}
    | None => Ok m
    end.

  Definition mb_split_hint (m : mbuilder) : result mbuilder :=
    match mb_cur m with
    | Some b =>
        let size := sb_approx_size b in
        if (TABLE_FULL_SIZE <=? size) || (so_mfs (mb_opts m) <=? size) then mb_seal_builder m else Ok m
    | None => Ok m
    end.

  (* get_builder: (multi-builder', the builder to write to) *)
  Definition mb_get_builder (m : mbuilder) : result (mbuilder * sbuilder) :=
    match mb_cur m with
    | Some b =>
        let size := sb_approx_size b in
        if (TABLE_FULL_SIZE <=? size) || (so_tfs (mb_opts m) <=? size)
        then m1 <- mb_seal_builder m ;;
             Ok (m1, sb_new_from (mb_opts m1) (mb_last_key m1) (mb_last_ts m1))
        else Ok (m, b)
    | None => Ok (m, sb_new_from (mb_opts m) (mb_last_key m) (mb_last_ts m))
    end.

  Definition mb_with_cur (m : mbuilder) (b : sbuilder) : mbuilder :=
    {| mb_opts := mb_opts m; mb_cur := Some b; mb_done := mb_done m;
       mb_last_key := mb_last_key m; mb_last_ts := mb_last_ts m |}.

  Definition mb_seal (m : mbuilder) : result (list sst) :=
    match mb_cur m with
    | Some b => t <- sb_seal b ;; Ok (mb_done m ++ [t])
    | None => Ok (mb_done m)
    end.

  (* all inputs accepted *)
  Fixpoint mb_run (m : mbuilder) (xs : list minput) : result mbuilder :=
    match xs with
    | [] => Ok m
    | MHint :: r => m1 <- mb_split_hint m ;; mb_run m1 r
    | MEntry e :: r =>
        g <- mb_get_builder m ;;
        b1 <- sb_add (snd g) e ;;
        mb_run (mb_with_cur (fst g) b1) r
    end.

  (* feed inputs; a rejected entry is reported and the multi-builder is used further (after a
     rejected put the builder that get_builder selected or created stays current) *)
  Fixpoint mb_feed (m : mbuilder) (xs : list minput) (i : nat) : result (mbuilder * list (nat * err)) :=
    match xs with
    | [] => Ok (m, [])
    | MHint :: r => m1 <- mb_split_hint m ;; mb_feed m1 r i
    | MEntry e :: r =>
        g <- mb_get_builder m ;;
        match sb_add (snd g) e with
        | Ok b1 => mb_feed (mb_with_cur (fst g) b1) r (S i)
        | Err x =>
            r1 <- mb_feed (mb_with_cur (fst g) (snd g)) r (S i) ;;
            Ok (fst r1, (i, x) :: snd r1)
        end
    end.
End Sst.
