(* Table/SstProofs.v — assembly: what build_sst yields (cursor, lookup, metadata), the
   multi-builder, rejections; the byte-layer instance. *)
From Coq Require Import NArith ZArith List Bool Lia.
From Blue Require Import Gen.Const_Table Table.Model Table.ModelBloom Table.ModelSst Table.ModelWire Table.Ref
  Table.OrderProofs Table.BlockBase Table.BuildProofs Table.CursorProofs Table.DivideProofs
  Table.BloomProofs Table.SstCursorProofs Table.BuildSstProofs.
Import ListNotations.
Open Scope N_scope.

(* ---------------------------------------------------------------- timestamps seen *)
Lemma fold_min_eq : forall r a, fold_left (fun a e => if e_ts e <? a then e_ts e else a) r a = fold_left N.min (map e_ts r) a.
Proof.
  induction r as [|e r IH]; intros a; cbn [fold_left map]; [reflexivity|]. rewrite IH. f_equal.
  destruct (N.ltb_spec (e_ts e) a); lia.
Qed.
Lemma fold_max_eq : forall r a, fold_left (fun a e => if a <? e_ts e then e_ts e else a) r a = fold_left N.max (map e_ts r) a.
Proof.
  induction r as [|e r IH]; intros a; cbn [fold_left map]; [reflexivity|]. rewrite IH. f_equal.
  destruct (N.ltb_spec a (e_ts e)); lia.
Qed.
Lemma fold_min_le : forall l a, fold_left N.min l a <= a.
Proof. induction l as [|x l IH]; intros a; cbn [fold_left]; [lia|]. specialize (IH (N.min a x)). lia. Qed.
Lemma fold_max_ge : forall l a, a <= fold_left N.max l a.
Proof. induction l as [|x l IH]; intros a; cbn [fold_left]; [lia|]. specialize (IH (N.max a x)). lia. Qed.

Lemma ts_spec : forall l, ts_ok l ->
  (if ts_max l <? ts_min l then 0 else ts_min l) = spec_smallest l /\
  (if ts_max l <? ts_min l then 0 else ts_max l) = spec_biggest l.
Proof.
  intros [|e r] H; [split; reflexivity|]. inversion H as [|? ? He Hr]; subst.
  unfold ts_min, ts_max, spec_smallest, spec_biggest. cbn [fold_left].
  assert (E1 : (if e_ts e <? U64_MAX then e_ts e else U64_MAX) = e_ts e) by (destruct (N.ltb_spec (e_ts e) U64_MAX); lia).
  assert (E2 : (if 0 <? e_ts e then e_ts e else 0) = e_ts e) by (destruct (N.ltb_spec 0 (e_ts e)); lia).
  rewrite E1, E2, fold_min_eq, fold_max_eq.
  pose proof (fold_min_le (map e_ts r) (e_ts e)). pose proof (fold_max_ge (map e_ts r) (e_ts e)).
  destruct (N.ltb_spec (fold_left N.max (map e_ts r) (e_ts e)) (fold_left N.min (map e_ts r) (e_ts e))); [lia|].
  split; reflexivity.
Qed.

Section Final.
  Variable enc_size : bentry -> N.
  Hypothesis enc_pos : forall e, 0 < enc_size e.
  Variable meta_enc : N -> N -> bytes.
  Variable meta_dec : bytes -> option (N * N).
  Hypothesis meta_rt : forall s l, meta_dec (meta_enc s l) = Some (s, l).
  Variable sip : bytes -> N.

  Notation sinv0 := (sinv enc_size meta_enc sip ([], U64_MAX)).

  (* what seal yields for a builder that accepted es *)
  Theorem build_sst_wf : forall o es t, keys_ok es ->
    build_sst enc_size meta_enc meta_dec sip o es = Ok t ->
    sorted es /\ exists chunks, table_wf enc_size t chunks /\ concat chunks = es /\ sealed_facts sip t es.
  Proof.
    intros o es t Hk H. unfold build_sst in H.
    destruct (sb_add_all enc_size meta_enc sip (sb_new o) es) as [b|] eqn:A; cbn [bind] in H; [|discriminate].
    assert (I0 : sinv0 (sb_new o) [] []) by (exact (sinv_new enc_size meta_enc sip ([], U64_MAX) o [] U64_MAX eq_refl)).
    destruct (sb_add_all_inv enc_size enc_pos meta_enc sip _ es _ _ _ _ I0 Hk A) as (recs & cur & I & E & _).
    cbn [all_of chunks_of map concat app] in E.
    destruct (sb_seal_wf enc_size enc_pos meta_enc meta_dec meta_rt sip _ b recs cur t I H) as (recs1 & W & C & F).
    rewrite E in *. split.
    - destruct I as (P & _). pose proof (sp_sorted _ _ _ _ _ _ _ P) as S. now rewrite E in S.
    - exists (chunks_of recs1). auto.
  Qed.

  Theorem sst_cursor_refines : forall o es t prog, keys_ok es ->
    build_sst enc_size meta_enc meta_dec sip o es = Ok t ->
    sc_run enc_size t sc_new prog = map (fun x => Ok x) (ref_run es (-1) prog).
  Proof.
    intros o es t prog Hk H. destruct (build_sst_wf o es t Hk H) as (_ & chunks & W & <- & _).
    eapply run_simS; eauto. apply RS_new.
  Qed.

  Theorem sst_load_ok : forall o es t key ts, keys_ok es ->
    build_sst enc_size meta_enc meta_dec sip o es = Ok t ->
    sst_load enc_size sip t key ts = Ok (load_spec es key ts).
  Proof.
    intros o es t key ts Hk H. destruct (build_sst_wf o es t Hk H) as (_ & chunks & W & <- & F).
    eapply sst_load_correct; eauto.
    - exact (sf_filter _ _ _ F).
    - exact (sf_filter_ne _ _ _ F).
    - exact (sf_fuel _ _ _ F).
  Qed.

  Lemma nth0_spec_first : forall (l : list entry), match nth_error l 0 with Some e => e_key e | None => [] end = spec_first l.
  Proof. intros [|e r]; reflexivity. Qed.

  Lemma last_default_irrel : forall (l : list entry) d1 d2, l <> [] -> last l d1 = last l d2.
  Proof.
    induction l as [|a l IH]; intros d1 d2 H; [congruence|]. destruct l as [|b l]; [reflexivity|].
    change (last (a :: b :: l) d1) with (last (b :: l) d1). change (last (a :: b :: l) d2) with (last (b :: l) d2).
    apply IH. discriminate.
  Qed.

  Lemma nth_last_spec : forall (l : list entry) d,
    match nth_error l (length l - 1) with Some e => e_key e | None => d end = spec_last l d.
  Proof.
    intros [|e r] d; [reflexivity|]. cbn [length spec_last]. replace (S (length r) - 1)%nat with (length r) by lia.
    revert e. induction r as [|x r IH]; intros e; [reflexivity|].
    cbn [length nth_error]. rewrite (IH x). destruct r as [|y r]; [reflexivity|].
    change (last (x :: y :: r) e) with (last (y :: r) e). f_equal. apply last_default_irrel. discriminate.
  Qed.

  Theorem sst_metadata_exact : forall o es t, keys_ok es -> ts_ok es ->
    build_sst enc_size meta_enc meta_dec sip o es = Ok t ->
    exists md, sst_metadata enc_size t = Ok md /\
      md_first md = spec_first es /\ md_last md = spec_last es MAX_KEY /\
      md_smallest md = spec_smallest es /\ md_biggest md = spec_biggest es /\
      md_setsum md = es /\ md_file_size md = t_file_size t.
  Proof.
    intros o es t Hk Ht H. destruct (build_sst_wf o es t Hk H) as (_ & chunks & W & <- & F).
    destruct (sst_metadata_ok enc_size enc_pos t chunks W) as (md & E & M1 & M2 & M3 & M4 & M5 & M6).
    exists md. split; [exact E|]. destruct (ts_spec _ Ht) as (T1 & T2).
    rewrite M1, M2, M3, M4, M5, M6, (sf_small _ _ _ F), (sf_big _ _ _ F), (sf_setsum _ _ _ F), T1, T2.
    rewrite nth0_spec_first, nth_last_spec. repeat split.
  Qed.

  (* ------------------------------------------------------------ rejections *)
  (* an entry that is oversize, out of order, or arrives when the table is full fails the checks
     that precede every mutation of the builder, with the matching error *)
  Theorem sb_add_rejects : forall b e,
    ~ put_ok (sb_last_key b) (sb_last_ts b) (sb_approx_size enc_size b) e ->
    exists x, sb_precheck enc_size b e = Err x /\ sb_add enc_size meta_enc sip b e = Err x /\
              (x = EKeyTooLarge \/ x = EValueTooLarge \/ x = ETableFull \/ x = ESortOrder).
  Proof.
    intros b e Hn. unfold sb_add.
    assert (Hp : exists x, sb_precheck enc_size b e = Err x /\
                 (x = EKeyTooLarge \/ x = EValueTooLarge \/ x = ETableFull \/ x = ESortOrder)).
    { unfold sb_precheck, check_key_len.
      destruct (N.ltb_spec MAX_KEY_LEN (len (e_key e))) as [L1|L1]; cbn [bind]; [eauto 10|].
      assert (Hv : (exists v, e_val e = Some v /\ MAX_VALUE_LEN < len v) \/
                   (forall v, e_val e = Some v -> len v <= MAX_VALUE_LEN)).
      { destruct (e_val e) as [v|]; [|right; intros; discriminate].
        destruct (N.ltb_spec MAX_VALUE_LEN (len v)); [left; eauto|right; intros v' E; injection E as <-; assumption]. }
      destruct Hv as [(v & Ev & Lv)|Hv].
      - rewrite Ev. unfold check_value_len. destruct (N.ltb_spec MAX_VALUE_LEN (len v)); [|lia]. cbn [bind]. eauto 10.
      - assert ((match e_val e with Some v => check_value_len v | None => Ok tt end) = Ok tt) as ->.
        { destruct (e_val e) as [v|]; [|reflexivity]. unfold check_value_len.
          specialize (Hv v eq_refl). destruct (N.ltb_spec MAX_VALUE_LEN (len v)); [lia|reflexivity]. }
        cbn [bind]. unfold check_table_size.
        destruct (N.leb_spec TABLE_FULL_SIZE (sb_approx_size enc_size b)) as [L3|L3]; cbn [bind]; [eauto 10|].
        unfold sb_enforce_sort_order.
        destruct (kref_cmp (sb_last_key b) (sb_last_ts b) (e_key e) (e_ts e)) eqn:C; eauto 10.
        exfalso. apply Hn. repeat split; auto. }
    destruct Hp as (x & Hp & Hx). exists x. rewrite Hp. cbn [bind]. auto.
  Qed.

  Theorem bb_add_rejects : forall b e,
    ~ put_ok (bb_last_key b) (bb_last_ts b) (bb_approx_size enc_size b) e ->
    exists x, bb_add enc_size b e = Err x /\
              (x = EKeyTooLarge \/ x = EValueTooLarge \/ x = ETableFull \/ x = ESortOrder).
  Proof.
    intros b e Hn. destruct (bb_add enc_size b e) as [b1|x] eqn:A.
    - exfalso. apply Hn. exact (bb_add_ok enc_size b e b1 A).
    - exists x. split; [reflexivity|].
      destruct (bb_add_err enc_size b e x A) as [(->&_)|[(->&_)|[(->&_)|[(->&_)|(->&Hp)]]]]; auto.
      contradiction.
  Qed.
End Final.
