(* Table/FileBuildProofs.v — what SstBuilder leaves behind, in the detail the byte layer needs:
   every frame written starts where the previous one ended and holds a block whose bytes read back
   (record-bounds invariant per data block), the index block's entries are the BlockMetadata of
   those frames in order, all offsets stay far below 2^64; and the shape of the sealed table.
   Also: a BlockMetadata codec that round-trips on ALL numbers and coincides with the prototk one
   below 2^64 (`meta_enc_T`), so that the logical theorems (which ask for a total round trip) apply
   to tables built with the prototk codec. *)
From Coq Require Import NArith ZArith List Bool Lia.
From Blue Require Import Gen.Const_Table Table.Model Table.ModelBloom Table.ModelSst Table.ModelWire
  Table.ModelBytes Table.ModelFile Table.Ref Table.OrderProofs Table.BlockBase Table.BuildProofs
  Table.CursorProofs Table.DivideProofs Table.BloomProofs Table.WireProofs Table.BuildSstProofs
  Table.BytesProofs Table.BlockBytesProofs Table.BlockOk Table.FilterBytesProofs.
Import ListNotations.
Open Scope N_scope.

(* ---------------------------------------------------------------- a total codec *)
Definition meta_enc_T (s l : N) : bytes :=
  if (s <? WM.W64) && (l <? WM.W64) then meta_enc_real s l else [0; s; l].
Definition meta_dec_T (bs : bytes) : option (N * N) :=
  match meta_dec_real bs with
  | Some m => Some m
  | None => match bs with [0; s; l] => Some (s, l) | _ => None end
  end.

Lemma codec_T_ok : forall s l, meta_dec_T (meta_enc_T s l) = Some (s, l).
Proof.
  intros s l. unfold meta_enc_T, meta_dec_T.
  destruct (N.ltb_spec s WM.W64) as [Hs|Hs]; destruct (N.ltb_spec l WM.W64) as [Hl|Hl]; cbn [andb];
    try reflexivity.
  now rewrite (meta_real_roundtrip s l Hs Hl).
Qed.

Lemma meta_T_real : forall s l, s < WM.W64 -> l < WM.W64 -> meta_enc_T s l = meta_enc_real s l.
Proof.
  intros s l Hs Hl. unfold meta_enc_T.
  destruct (N.ltb_spec s WM.W64); [|lia]. destruct (N.ltb_spec l WM.W64); [|lia]. reflexivity.
Qed.

Lemma meta_dec_T_real : forall bs m, meta_dec_real bs = Some m -> meta_dec_T bs = Some m.
Proof. intros bs m H. unfold meta_dec_T. now rewrite H. Qed.

(* ---------------------------------------------------------------- block builders *)
Definition bk2 (bb : bbuilder) : Prop := (exists es, binv enc_size_real bb es) /\ binv2 bb.

Lemma bk2_new : forall o, bk2 (bb_new o).
Proof. intros o. split; [exists []; apply binv_new|apply binv2_new]. Qed.

Lemma bk2_add : forall bb e bb1, bk2 bb -> entry_wire_ok e -> bb_add enc_size_real bb e = Ok bb1 -> bk2 bb1.
Proof.
  intros bb e bb1 ((es & I) & I2) He H. split.
  - exists (es ++ [e]). exact (proj1 (bb_add_inv enc_size_real enc_size_real_pos _ _ _ _ I H)).
  - exact (binv2_add _ _ _ I2 He H).
Qed.

Definition P36 : N := 2 ^ 36.
Definition P41 : N := 2 ^ 41.
Definition P42 : N := 2 ^ 42.

Lemma block_len_small : forall blk, bl_boundary blk <= U32_MAX -> num_restarts blk < WM.W32 -> block_len blk + 11 < P36.
Proof.
  intros blk Hb Hn. unfold block_len.
  pose proof (varint_size_le (4 * num_restarts blk) ltac:(unfold WM.W32, U64_MAX in *; lia)).
  unfold P36, U32_MAX, WM.W32 in *. lia.
Qed.

Lemma frame_len_le : forall n, n < WM.W64 -> frame_len n <= n + 11.
Proof.
  intros n H. unfold frame_len. pose proof (varint_size_le n ltac:(unfold WM.W64, U64_MAX in *; lia)). lia.
Qed.

Lemma seal_ok : forall bb es, binv enc_size_real bb es -> binv2 bb ->
  block_ok (bb_seal enc_size_real bb) es /\ frame_len (block_len (bb_seal enc_size_real bb)) < P36.
Proof.
  intros bb es I [Ir Il Irs].
  assert (OK : block_ok (bb_seal enc_size_real bb) es).
  { apply block_ok_of_bounds; cbn [bb_seal bl_entries bl_restarts bl_boundary]; auto. now apply binv_seal. }
  split; [exact OK|]. destruct OK as (_ & _ & Hbd & _ & Hnr).
  pose proof (block_len_small (bb_seal enc_size_real bb) ltac:(rewrite Hbd; exact Il) Hnr) as Hs.
  pose proof (frame_len_le (block_len (bb_seal enc_size_real bb)) ltac:(unfold P36, WM.W64 in *; lia)). lia.
Qed.

Lemma bk2_seal : forall bb, bk2 bb ->
  exists es, binv enc_size_real bb es /\ block_ok (bb_seal enc_size_real bb) es /\
             frame_len (block_len (bb_seal enc_size_real bb)) < P36.
Proof.
  intros bb ((es & I) & I2). exists es. split; [exact I|]. now apply seal_ok.
Qed.

(* ---------------------------------------------------------------- the frames written so far *)
Fixpoint frames_ok (fs : frames) (lo hi : N) : Prop :=
  match fs with
  | [] => lo = hi
  | x :: r =>
      fst (fst x) = lo /\
      (exists blk es, snd x = FPlain blk /\ block_ok blk es /\
                      snd (fst x) = lo + frame_len (block_len blk) /\ frame_len (block_len blk) < P36) /\
      frames_ok r (snd (fst x)) hi
  end.

Lemma frames_ok_snoc : forall fs lo hi blk es, frames_ok fs lo hi -> block_ok blk es ->
  frame_len (block_len blk) < P36 ->
  frames_ok (fs ++ [(hi, hi + frame_len (block_len blk), FPlain blk)]) lo (hi + frame_len (block_len blk)).
Proof.
  induction fs as [|x fs IH]; intros lo hi blk es H OK Hs; cbn [frames_ok app] in *.
  - subst hi. cbn [fst snd]. split; [reflexivity|]. split; [exists blk, es; auto|reflexivity].
  - destruct H as (H1 & H2 & H3). split; [exact H1|]. split; [exact H2|]. now apply (IH _ _ _ es).
Qed.

Lemma frame_len_pos : forall n, 0 < frame_len n.
Proof. intros n. unfold frame_len. lia. Qed.

Lemma frames_ok_le : forall fs lo hi, frames_ok fs lo hi -> lo <= hi.
Proof.
  induction fs as [|x fs IH]; intros lo hi H; cbn [frames_ok] in H; [lia|].
  destruct H as (H1 & (blk & es & _ & _ & H2 & _) & H3). specialize (IH _ _ H3).
  pose proof (frame_len_pos (block_len blk)). lia.
Qed.

Lemma frames_ok_in : forall fs lo hi x, frames_ok fs lo hi -> In x fs ->
  lo <= fst (fst x) /\ snd (fst x) <= hi /\
  exists blk es, snd x = FPlain blk /\ block_ok blk es /\
                 snd (fst x) = fst (fst x) + frame_len (block_len blk) /\ frame_len (block_len blk) < P36.
Proof.
  induction fs as [|y fs IH]; intros lo hi x H Hin; [destruct Hin|]. cbn [frames_ok] in H.
  destruct H as (H1 & (blk & es & E & OK & H2 & Hs) & H3). pose proof (frames_ok_le _ _ _ H3).
  pose proof (frame_len_pos (block_len blk)).
  destruct Hin as [<-|Hin].
  - split; [lia|]. split; [lia|]. exists blk, es. rewrite H1. auto.
  - destruct (IH _ _ _ H3 Hin) as (A & B & C). split; [lia|]. split; [exact B|exact C].
Qed.

(* an index entry and the frame it describes *)
Definition idx_rel (e : entry) (x : N * N * frame) : Prop :=
  e_val e = Some (meta_enc_real (fst (fst x)) (snd (fst x))).

Record fin2 (b : sbuilder) : Prop := {
  f2_frames : frames_ok (sb_frames b) 0 (sb_written b);
  f2_block : match sb_block b with Some bb => bk2 bb | None => True end;
  f2_index : exists ies, binv enc_size_real (sb_index b) ies /\ binv2 (sb_index b) /\
                         Forall2 idx_rel ies (sb_frames b);
  f2_key : bytes_ok (sb_last_key b) /\ sb_last_ts b < WM.W64 }.

Lemma fin2_new : forall o, fin2 (sb_new o).
Proof.
  intros. constructor; cbn; auto.
  - exists []. split; [apply binv_new|]. split; [apply binv2_new|constructor].
  - split; [constructor|unfold WM.W64, U64_MAX; lia].
Qed.

(* divide_keys hands back bytes, and a u64 timestamp *)
Lemma divide_keys_wire : forall kl tl kr tr d dt, bytes_ok kl -> tl < WM.W64 ->
  divide_keys kl tl kr tr = Ok (d, dt) -> bytes_ok d /\ dt < WM.W64.
Proof.
  intros kl tl kr tr d dt Hk Ht H. unfold divide_keys in H.
  destruct (kref_cmp kl tl kr tr); try discriminate.
  destruct (if (common_prefix kl kr <? Nat.min (length kl) (length kr))%nat
            then match nth_error kl (common_prefix kl kr), nth_error kr (common_prefix kl kr) with
                 | Some a, Some b => if 255 <? a + 1 then None else Some (a + 1 <? b, a)
                 | _, _ => None end
            else Some (false, 0)) as [[[|] a]|] eqn:EB; try discriminate.
  - destruct (a <? 255) eqn:Ea; [|discriminate].
    destruct (kref_cmp kl tl (firstn (common_prefix kl kr) kl ++ [a + 1]) 0); try discriminate;
      destruct (kref_cmp (firstn (common_prefix kl kr) kl ++ [a + 1]) 0 kr tr); try discriminate;
      injection H as <- <-; (split; [|unfold WM.W64; lia]);
      apply Forall_app; (split; [now apply Forall_firstn|]);
      (constructor; [apply N.ltb_lt in Ea; lia|constructor]).
  - destruct (kref_cmp kl tl kl tl); try discriminate; destruct (kref_cmp kl tl kr tr); try discriminate;
      injection H as <- <-; auto.
Qed.

Lemma meta_enc_real_bytes_ok : forall s l, bytes_ok (meta_enc_real s l).
Proof.
  intros s l. unfold meta_enc_real. repeat (apply Forall_app; split); try apply varint_bytes_ok;
    repeat (constructor; try lia).
Qed.

(* flush_block: the sealed block becomes the next frame, its BlockMetadata the next index entry *)
Lemma flush_fin2 : forall b key ts b2 bb, fin2 b -> sb_block b = Some bb -> sb_written b < P41 ->
  sb_flush_block enc_size_real meta_enc_real b key ts = Ok b2 ->
  fin2 b2 /\ sb_block b2 = None /\ sb_written b2 < sb_written b + P36 /\
  sb_last_key b2 = sb_last_key b /\ sb_last_ts b2 = sb_last_ts b /\ sb_opts b2 = sb_opts b /\
  sb_filter b2 = sb_filter b /\ sb_setsum b2 = sb_setsum b /\
  sb_flush_block enc_size_real meta_enc_T b key ts = Ok b2.
Proof.
  intros b key ts b2 bb [Ffr Fbl (ies & Ii & Ii2 & Irel) (Fk & Ft)] Hb Hw H.
  unfold sb_flush_block in *. rewrite Hb in *.
  destruct (bk2_seal bb Fbl) as (es & I & OK & Hs).
  set (blk := bb_seal enc_size_real bb) in *. set (start := sb_written b) in *.
  set (limit := start + frame_len (block_len blk)) in *.
  destruct (meta_sanity (start, limit)) as [[]|]; cbn [bind] in *; [|discriminate].
  destruct (divide_keys (sb_last_key b) (sb_last_ts b) key ts) as [[d dt]|] eqn:Ed; cbn [bind fst snd] in *; [|discriminate].
  assert (HT : meta_enc_T start limit = meta_enc_real start limit).
  { apply meta_T_real; unfold P41, P36, WM.W64 in *; unfold limit; lia. }
  rewrite HT.
  destruct (bb_add enc_size_real (sb_index b) (d, dt, Some (meta_enc_real start limit))) as [idx|] eqn:EA;
    cbn [bind] in *; [|discriminate].
  injection H as <-. cbn [sb_block sb_written sb_last_key sb_last_ts sb_opts sb_filter sb_setsum].
  destruct (divide_keys_wire _ _ _ _ _ _ Fk Ft Ed) as (Hd & Hdt).
  assert (Hie : entry_wire_ok (d, dt, Some (meta_enc_real start limit))).
  { split; [exact Hd|]. split; [exact Hdt|]. apply meta_enc_real_bytes_ok. }
  split; [|repeat split; auto; unfold limit; lia].
  constructor; cbn [sb_frames sb_written sb_block sb_index sb_last_key sb_last_ts]; auto.
  - unfold limit. now apply (frames_ok_snoc _ _ _ _ es).
  - exists (ies ++ [(d, dt, Some (meta_enc_real start limit))]).
    split; [exact (proj1 (bb_add_inv enc_size_real enc_size_real_pos _ _ _ _ Ii EA))|].
    split; [exact (binv2_add _ _ _ Ii2 Hie EA)|].
    apply Forall2_app; [exact Irel|]. constructor; [reflexivity|constructor].
Qed.


(* ---------------------------------------------------------------- put / del *)
Lemma precheck_written : forall b e, sb_precheck enc_size_real b e = Ok tt -> sb_written b < TABLE_FULL_SIZE.
Proof.
  intros b e H. unfold sb_precheck in H.
  destruct (check_key_len (e_key e)) as [[]|]; cbn [bind] in H; [|discriminate].
  destruct (match e_val e with Some v => check_value_len v | None => Ok tt end) as [[]|]; cbn [bind] in H; [|discriminate].
  destruct (check_table_size (sb_approx_size enc_size_real b)) as [[]|] eqn:E; cbn [bind] in H; [|discriminate].
  unfold check_table_size in E.
  destruct (N.leb_spec TABLE_FULL_SIZE (sb_approx_size enc_size_real b)); [discriminate|].
  unfold sb_approx_size in *. lia.
Qed.

Lemma get_block_fin2 : forall b k ts b1, fin2 b -> sb_written b < TABLE_FULL_SIZE ->
  sb_get_block enc_size_real meta_enc_real b k ts = Ok b1 ->
  fin2 b1 /\ sb_written b1 < P41 /\ sb_get_block enc_size_real meta_enc_T b k ts = Ok b1.
Proof.
  intros b k ts b1 F Hw H. unfold sb_get_block in *.
  destruct (sb_block b) as [bb|] eqn:Hb.
  - destruct (so_tbs (sb_opts b) <? bb_approx_size enc_size_real bb).
    + destruct (sb_flush_block enc_size_real meta_enc_real b k ts) as [b2|] eqn:Ef; cbn [bind] in H; [|discriminate].
      destruct (flush_fin2 b k ts b2 bb F Hb ltac:(unfold TABLE_FULL_SIZE, P41 in *; lia) Ef)
        as (F2 & Hn & Hw2 & Hk & Ht & _ & _ & _ & ET).
      rewrite ET. cbn [bind]. unfold sb_start_new_block in *. rewrite Hn in *. injection H as <-.
      split; [|split; [cbn [sb_written]; unfold TABLE_FULL_SIZE, P41, P36 in *; lia|reflexivity]].
      destruct F2 as [A B C D]. constructor; cbn [sb_frames sb_written sb_block sb_index sb_last_key sb_last_ts]; auto.
      apply bk2_new.
    + injection H as <-. split; [exact F|]. split; [unfold TABLE_FULL_SIZE, P41 in *; lia|reflexivity].
  - unfold sb_start_new_block in *. rewrite Hb in *. injection H as <-.
    split; [|split; [cbn [sb_written]; unfold TABLE_FULL_SIZE, P41 in *; lia|reflexivity]].
    destruct F as [A B C D]. constructor; cbn [sb_frames sb_written sb_block sb_index sb_last_key sb_last_ts]; auto.
    apply bk2_new.
Qed.

Lemma sb_add_fin2 : forall sip b e b1, fin2 b -> entry_wire_ok e ->
  sb_add enc_size_real meta_enc_real sip b e = Ok b1 ->
  fin2 b1 /\ sb_written b1 < P41 /\ sb_add enc_size_real meta_enc_T sip b e = Ok b1.
Proof.
  intros sip b e b1 F He H. unfold sb_add in *.
  destruct (sb_precheck enc_size_real b e) as [[]|] eqn:Ep; cbn [bind] in *; [|discriminate].
  pose proof (precheck_written _ _ Ep) as Hw.
  destruct (sb_get_block enc_size_real meta_enc_real b (e_key e) (e_ts e)) as [b2|] eqn:Eg; cbn [bind] in H; [|discriminate].
  destruct (get_block_fin2 _ _ _ _ F Hw Eg) as (F2 & Hw2 & ET). rewrite ET. cbn [bind].
  destruct (sb_block b2) as [bb|] eqn:Hb; [|discriminate].
  destruct (bb_add enc_size_real bb e) as [bb1|] eqn:Ea; cbn [bind] in *; [|discriminate].
  injection H as <-. split; [|split; [exact Hw2|reflexivity]].
  destruct F2 as [A B C D]. rewrite Hb in B.
  constructor; cbn [sb_frames sb_written sb_block sb_index sb_last_key sb_last_ts]; auto.
  - eapply bk2_add; eauto.
  - destruct He as (K & T & _). auto.
Qed.

Lemma sb_add_all_fin2 : forall sip es b b1, fin2 b -> sb_written b < P41 -> entries_wire_ok es ->
  sb_add_all enc_size_real meta_enc_real sip b es = Ok b1 ->
  fin2 b1 /\ sb_written b1 < P41 /\ sb_add_all enc_size_real meta_enc_T sip b es = Ok b1.
Proof.
  induction es as [|e es IH]; intros b b1 F Hw Hes H; cbn [sb_add_all] in *.
  - injection H as <-. auto.
  - destruct (sb_add enc_size_real meta_enc_real sip b e) as [b2|] eqn:Ea; cbn [bind] in H; [|discriminate].
    inversion Hes as [|? ? He Hes']; subst.
    destruct (sb_add_fin2 _ _ _ _ F He Ea) as (F2 & Hw2 & ET). rewrite ET. cbn [bind]. now apply IH.
Qed.

(* ---------------------------------------------------------------- seal *)
Lemma find_frame_skip : forall (D r : frames) s l, (forall x, In x D -> snd (fst x) <= s) -> s < l ->
  find_frame (D ++ r) (s, l) = find_frame r (s, l).
Proof.
  intros D r s l H Hsl. unfold find_frame. induction D as [|x D IH]; [reflexivity|].
  cbn [app find fst snd]. destruct (N.eqb_spec (snd (fst x)) l) as [E|E].
  - pose proof (H x (or_introl eq_refl)). lia.
  - rewrite andb_false_r. apply IH. intros y Hy. apply H. now right.
Qed.

Lemma index_loop_T : forall fuel blk c acc l,
  index_loop enc_size_real meta_dec_real fuel blk c acc = Ok l ->
  index_loop enc_size_real meta_dec_T fuel blk c acc = Ok l.
Proof.
  induction fuel as [|fuel IH]; intros blk c acc l H; cbn [index_loop] in *; [discriminate|].
  destruct (bc_kv c) as [e|]; [|exact H].
  unfold metadata_from_kv in *. destruct (e_val e) as [v|]; [|discriminate].
  destruct (meta_dec_real v) as [m|] eqn:E; [|discriminate]. rewrite (meta_dec_T_real _ _ E). cbn [bind] in *.
  destruct (bc_next enc_size_real blk c) as [c1|]; cbn [bind] in *; [|discriminate]. now apply IH.
Qed.

Lemma load_index_T : forall blk l, load_index_entries enc_size_real meta_dec_real blk = Ok l ->
  load_index_entries enc_size_real meta_dec_T blk = Ok l.
Proof.
  intros blk l H. unfold load_index_entries in *.
  destruct (bc_next enc_size_real blk (bc_first bc_new)) as [c|]; cbn [bind] in *; [|discriminate].
  now apply index_loop_T.
Qed.

Lemma filter_build_small : forall hashes bits f, filter_build hashes bits = Some f ->
  frame_len (filter_bytes_len f) < P36.
Proof.
  intros hashes bits f H. unfold filter_build in H.
  destruct (insert_all_props _ _ _ H) as (L & _). unfold filter_new in L. rewrite repeat_length in L.
  set (size := sat_mul32 (N.of_nat (length hashes) mod W32) bits) in *.
  assert (Hn : filter_nblocks size <= 16777216).
  { unfold filter_nblocks, sat_add32.
    assert (N.min (size + 7) (W32 - 1) / 8 / 32 <= (W32 - 1) / 8 / 32).
    { apply N.div_le_mono; [discriminate|]. apply N.div_le_mono; [discriminate|]. apply N.le_min_r. }
    change ((W32 - 1) / 8 / 32) with 16777215 in *. lia. }
  assert (Hb : filter_bytes_len f <= 536870912).
  { unfold filter_bytes_len. rewrite L, N2Nat.id. lia. }
  pose proof (frame_len_le (filter_bytes_len f) ltac:(unfold WM.W64; lia)). unfold P36. lia.
Qed.

(* the index entries the reader gets back: the dividing keys with the byte ranges of the frames *)
Definition idx_of (ies : list entry) (D : frames) : list (bytes * (N * N)) :=
  map (fun p => (e_key (fst p), (fst (fst (snd p)), snd (fst (snd p))))) (combine ies D).

Definition rec_of (p : entry * (N * N * frame)) : brec :=
  {| r_key := e_key (fst p); r_ts := e_ts (fst p); r_start := fst (fst (snd p)); r_limit := snd (fst (snd p));
     r_blk := {| bl_entries := []; bl_restarts := []; bl_boundary := 0 |}; r_chunk := [] |}.

Lemma idx_recs : forall ies (D : frames), Forall2 idx_rel ies D ->
  (forall x, In x D -> fst (fst x) < WM.W64 /\ snd (fst x) < WM.W64) ->
  map (r_entry meta_enc_T) (map rec_of (combine ies D)) = ies /\
  map r_index (map rec_of (combine ies D)) = idx_of ies D /\
  length (map rec_of (combine ies D)) = length ies.
Proof.
  intros ies D H. induction H as [|e x ies D R H IH]; intros Hb; cbn [combine map length]; [auto|].
  destruct IH as (A & B & C); [intros y Hy; apply Hb; now right|].
  destruct (Hb x (or_introl eq_refl)) as (Hs & Hl).
  split; [|split; [|now rewrite C]].
  - rewrite A. f_equal. unfold r_entry, rec_of. cbn [r_key r_ts r_start r_limit fst snd].
    rewrite (meta_T_real _ _ Hs Hl). unfold idx_rel in R. rewrite <- R. now destruct e as [[k t] v].
  - unfold idx_of in *. cbn [combine map]. rewrite B. reflexivity.
Qed.

Theorem sb_seal_shape : forall b t, fin2 b -> sb_written b < P41 ->
  sb_seal enc_size_real meta_enc_real meta_dec_real b = Ok t ->
  sb_seal enc_size_real meta_enc_T meta_dec_T b = Ok t /\
  exists D ies iblk flt is_ il fl,
    t_frames t = D ++ [(is_, il, FPlain iblk); (il, fl, FFilter flt)] /\
    frames_ok D 0 is_ /\ block_ok iblk ies /\ Forall2 idx_rel ies D /\
    il = is_ + frame_len (block_len iblk) /\ fl = il + frame_len (filter_bytes_len flt) /\
    is_ < P42 /\ frame_len (block_len iblk) < P36 /\ frame_len (filter_bytes_len flt) < P36 /\
    fb_index (t_final t) = (is_, il) /\ fb_filter (t_final t) = (il, fl) /\ fb_offset (t_final t) = fl /\
    t_index_block t = iblk /\ t_filter t = flt /\ filter_ok flt /\ flt <> [] /\
    t_index t = idx_of ies D /\ t_file_size t = fl + final_len (t_final t).
Proof.
  intros b t F Hw H. unfold sb_seal in *.
  (* the final flush *)
  assert (HF : exists b1,
    (match sb_block b with
     | Some _ => let '(k, t) := minimal_successor_key (sb_last_key b) (sb_last_ts b) in
                 sb_flush_block enc_size_real meta_enc_real b k t
     | None => Ok b end) = Ok b1 /\
    (match sb_block b with
     | Some _ => let '(k, t) := minimal_successor_key (sb_last_key b) (sb_last_ts b) in
                 sb_flush_block enc_size_real meta_enc_T b k t
     | None => Ok b end) = Ok b1 /\ fin2 b1 /\ sb_written b1 < P42).
  { destruct (sb_block b) as [bb|] eqn:Hb.
    - destruct (minimal_successor_key (sb_last_key b) (sb_last_ts b)) as [k ts].
      destruct (sb_flush_block enc_size_real meta_enc_real b k ts) as [b1|] eqn:Ef; cbn [bind] in H; [|discriminate].
      destruct (flush_fin2 b k ts b1 bb F Hb Hw Ef) as (F2 & _ & Hw2 & _ & _ & _ & _ & _ & ET).
      exists b1. split; [reflexivity|]. split; [exact ET|]. split; [exact F2|]. unfold P41, P42, P36 in *. lia.
    - exists b. split; [reflexivity|]. split; [reflexivity|]. split; [exact F|]. unfold P41, P42 in *. lia. }
  destruct HF as (b1 & E1 & E1T & F1 & Hw1). rewrite E1 in H. rewrite E1T. cbn [bind] in *.
  destruct F1 as [Ffr _ (ies & Ii & Ii2 & Irel) _].
  destruct (seal_ok _ _ Ii Ii2) as (OKi & Hsi).
  set (iblk := bb_seal enc_size_real (sb_index b1)) in *.
  destruct (filter_build (sb_filter b1) (so_bits (sb_opts b1))) as [flt|] eqn:Efl; [|discriminate].
  destruct (filter_build_ok _ _ _ Efl) as (Hfo & Hfn). pose proof (filter_build_small _ _ _ Efl) as Hsf.
  set (is_ := sb_written b1) in *. set (il := is_ + frame_len (block_len iblk)) in *.
  set (fl := il + frame_len (filter_bytes_len flt)) in *.
  destruct (if sb_biggest b1 <? sb_smallest b1 then (0, 0) else (sb_smallest b1, sb_biggest b1)) as [sm bg].
  set (fb := {| fb_index := (is_, il); fb_filter := (il, fl); fb_setsum := sb_setsum b1;
                fb_smallest := sm; fb_biggest := bg; fb_offset := fl |}) in *.
  set (D := sb_frames b1) in *.
  pose proof (frame_len_pos (block_len iblk)) as Hp1. pose proof (frame_len_pos (filter_bytes_len flt)) as Hp2.
  assert (HD : forall x, In x D -> snd (fst x) <= is_).
  { intros x Hx. exact (proj1 (proj2 (frames_ok_in _ _ _ _ Ffr Hx))). }
  assert (Hfi : find_frame (D ++ [(is_, il, FPlain iblk); (il, fl, FFilter flt)]) (is_, il) = Some (FPlain iblk)).
  { rewrite find_frame_skip by (auto; unfold il; lia). unfold find_frame. cbn [find fst snd].
    now rewrite !N.eqb_refl. }
  assert (Hff : find_frame (D ++ [(is_, il, FPlain iblk); (il, fl, FFilter flt)]) (il, fl) = Some (FFilter flt)).
  { rewrite find_frame_skip by (first [intros x Hx; specialize (HD x Hx); unfold fl, il; lia|unfold fl, il; lia]).
    unfold find_frame. cbn [find fst snd].
    destruct (N.eqb_spec is_ il) as [E|_]; [unfold il in E; lia|]. cbn [andb]. now rewrite !N.eqb_refl. }
  unfold sst_open in *. cbn [fb_index fb_filter fb_offset fb] in *.
  destruct (meta_sanity (is_, il)) as [[]|]; cbn [bind] in *; [|discriminate].
  destruct (meta_sanity (il, fl)) as [[]|] eqn:Es2; cbn [bind] in *; [|discriminate].
  cbn [fst snd] in *.
  destruct (il <? il); [discriminate|]. destruct (fl <? fl); [discriminate|].
  unfold load_block, load_filter_block in *. rewrite Hfi, Hff in *. rewrite Es2 in *.
  destruct (meta_sanity (is_, il)) as [[]|]; cbn [bind] in *; [|discriminate].
  destruct (load_index_entries enc_size_real meta_dec_real iblk) as [l|] eqn:El; cbn [bind] in *; [|discriminate].
  rewrite (load_index_T _ _ El). cbn [bind].
  assert (Hm : forall (A : Type) (x y : A), match flt with [] => x | _ :: _ => y end = y)
    by (intros; destruct flt; [congruence|reflexivity]).
  rewrite Hm in *.
  split; [exact H|]. injection H as <-.
  cbn [t_frames t_final t_index_block t_index t_filter t_file_size fb_index fb_filter fb_offset].
  exists D, ies, iblk, flt, is_, il, fl.
  assert (HDb : forall x, In x D -> fst (fst x) < WM.W64 /\ snd (fst x) < WM.W64).
  { intros x Hx. destruct (frames_ok_in _ _ _ _ Ffr Hx) as (A & B & blk & es & _ & _ & C & _).
    pose proof (frame_len_pos (block_len blk)). unfold P42, WM.W64 in *. fold is_ in B. lia. }
  destruct (idx_recs ies D Irel HDb) as (R1 & R2 & R3).
  assert (Hl : l = idx_of ies D).
  { pose proof (load_index_ok enc_size_real enc_size_real_pos meta_enc_T meta_dec_T codec_T_ok
                  (map rec_of (combine ies D)) iblk) as LI.
    rewrite R1, R2, R3 in LI. rewrite (load_index_T _ _ El) in LI.
    assert (Ok l = Ok (idx_of ies D)) as EE.
    { apply LI; [exact (proj1 OKi)|]. destruct OKi as ([Wd _ _ _ _ _] & _). rewrite <- Wd. now rewrite decode_length. }
    now injection EE. }
  repeat (split; [first [reflexivity|assumption]|]). reflexivity.
Qed.
