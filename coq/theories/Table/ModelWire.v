(* Table/ModelWire.v — the byte layer: the real prototk encoding of KeyValueEntry records, of the
   block footer and of BlockMetadata, and the real record size.  Definitions only.
   Tags: KeyValueEntry::Put = field 8, Del = field 9 (length delimited); KeyValuePut fields 1
   (uint64 shared) 2 (bytes key_frag) 3 (uint64 timestamp) 4 (bytes value); KeyValueDel fields 5 6
   7; block footer: field 10 (packed fixed32 restarts) and field 11 (fixed32 num_restarts);
   BlockMetadata fields 13 14 (uint64) 15 (fixed32).  prototk writes every field, also zero/empty. *)
From Coq Require Import NArith List Bool.
From Blue Require Import Table.Model Table.ModelSst.
Import ListNotations.
Open Scope N_scope.

Fixpoint varint_fuel (fuel : nat) (n : N) : bytes :=
  match fuel with
  | O => []
  | S f => if n <? 128 then [n] else (n mod 128 + 128) :: varint_fuel f (n / 128)
  end.
Definition varint (n : N) : bytes := varint_fuel 10 n.       (* v64: at most ten bytes *)

Definition le32 (n : N) : bytes := [n mod 256; (n / 256) mod 256; (n / 65536) mod 256; (n / 16777216) mod 256].

Definition entry_body (be : bentry) : bytes :=
  match be_val be with
  | Some v => [8] ++ varint (be_shared be) ++ [18] ++ varint (len (be_frag be)) ++ be_frag be
              ++ [24] ++ varint (be_ts be) ++ [34] ++ varint (len v) ++ v
  | None => [40] ++ varint (be_shared be) ++ [50] ++ varint (len (be_frag be)) ++ be_frag be
            ++ [56] ++ varint (be_ts be)
  end.

Definition encode_entry (be : bentry) : bytes :=
  let body := entry_body be in
  [match be_val be with Some _ => 66 | None => 74 end] ++ varint (len body) ++ body.

(* stack_pack(KeyValueEntry).pack_sz(), by arithmetic *)
Definition body_size (be : bentry) : N :=
  1 + varint_size (be_shared be) + 1 + varint_size (len (be_frag be)) + len (be_frag be)
  + 1 + varint_size (be_ts be)
  + match be_val be with Some v => 1 + varint_size (len v) + len v | None => 0 end.
Definition enc_size_real (be : bentry) : N := 1 + varint_size (body_size be) + body_size be.

(* the bytes of a sealed block *)
Definition block_bytes (b : block) : bytes :=
  concat (map encode_entry (bl_entries b))
  ++ [82] ++ varint (4 * num_restarts b) ++ concat (map le32 (bl_restarts b))
  ++ [93] ++ le32 (num_restarts b).

(* BlockMetadata{start, limit, crc32c}; the checksum is not modelled: four zero bytes *)
Definition meta_enc_real (s l : N) : bytes := [104] ++ varint s ++ [112] ++ varint l ++ [125; 0; 0; 0; 0].

Fixpoint varint_dec (fuel : nat) (bs : bytes) : option (N * bytes) :=
  match fuel, bs with
  | S f, b :: r =>
      if b <? 128 then Some (b, r)
      else match varint_dec f r with Some (v, r') => Some ((b - 128) + 128 * v, r') | None => None end
  | _, _ => None
  end.

Definition meta_dec_real (bs : bytes) : option (N * N) :=
  match bs with
  | 104 :: r1 =>
      match varint_dec 10 r1 with
      | Some (s, 112 :: r2) =>
          match varint_dec 10 r2 with
          | Some (l, [125; _; _; _; _]) => Some (s, l)
          | _ => None
          end
      | _ => None
      end
  | _ => None
  end.
