(* Table/CursorProofs.v — BlockCursor over a well-formed block simulates the reference cursor:
   a relation between cursor states and reference indices that every call preserves. *)
From Coq Require Import NArith ZArith List Bool Lia.
From Blue Require Import Gen.Const_Table Table.Model Table.Ref Table.OrderProofs Table.BlockBase.
Import ListNotations.
Open Scope N_scope.

Lemma find_rev_unique : forall {A} (p : A -> bool) (l : list A) (x : A),
  In x l -> p x = true -> (forall y, In y l -> p y = true -> y = x) -> find p (rev l) = Some x.
Proof.
  intros A p l x Hin Hp Hu. destruct (find p (rev l)) as [y|] eqn:F.
  - apply find_some in F as (Hy & Hpy). f_equal. apply Hu; [now apply in_rev|exact Hpy].
  - exfalso. pose proof (find_none _ _ F x ltac:(now apply -> in_rev)). congruence.
Qed.

Lemma count_prefix : forall (l : list entry) (f : entry -> bool) (p : nat),
  (forall j e, (j < p)%nat -> nth_error l j = Some e -> f e = true) ->
  (forall j e, (p <= j)%nat -> nth_error l j = Some e -> f e = false) ->
  (p <= length l)%nat -> length (filter f l) = p.
Proof.
  induction l as [|x l IH]; intros f p Ht Hf Hp; cbn [length filter] in *.
  - lia.
  - destruct p as [|p].
    + rewrite (Hf 0%nat x ltac:(lia) eq_refl). apply (IH f 0%nat); [intros; lia| |lia].
      intros j e Hj He. apply (Hf (S j) e); [lia|exact He].
    + rewrite (Ht 0%nat x ltac:(lia) eq_refl). cbn [length]. f_equal. apply IH; [| |lia].
      * intros j e Hj He. apply (Ht (S j) e); [lia|exact He].
      * intros j e Hj He. apply (Hf (S j) e); [lia|exact He].
Qed.

Lemma find_first : forall {A} (f : A -> bool) (l : list A) (p : nat) (e : A),
  (forall j x, (j < p)%nat -> nth_error l j = Some x -> f x = false) ->
  nth_error l p = Some e -> f e = true -> find f l = Some e.
Proof.
  intros A f. induction l as [|x l IH]; intros p e Hlt Hp Hf; [destruct p; discriminate|].
  destruct p as [|p]; cbn [nth_error find] in *.
  - injection Hp as ->. now rewrite Hf.
  - rewrite (Hlt 0%nat x ltac:(lia) eq_refl). apply (IH p e); auto.
    intros j y Hj Hy. apply (Hlt (S j) y); [lia|exact Hy].
Qed.

Lemma find_all_false : forall {A} (f : A -> bool) (l : list A),
  (forall j x, nth_error l j = Some x -> f x = false) -> find f l = None.
Proof.
  intros A f. induction l as [|x l IH]; intros H; cbn [find]; [reflexivity|].
  rewrite (H 0%nat x eq_refl). apply IH. intros j y Hy. apply (H (S j) y Hy).
Qed.

Lemma mid_bounds : forall lo hi, lo < hi -> lo < lo + (hi - lo + 1) / 2 /\ lo + (hi - lo + 1) / 2 <= hi.
Proof.
  intros lo hi H. assert (1 <= (hi - lo + 1) / 2) by (apply N.div_le_lower_bound; lia).
  assert ((hi - lo + 1) / 2 <= hi - lo).
  { apply N.div_le_upper_bound; lia. }
  lia.
Qed.

(* ---------------------------------------------------------------- the lookup, on lists *)
Lemma kref_lt_target_spec : forall e key ts,
  kref_lt_target e key ts = false -> bytes_eqb (e_key e) key = true -> (e_ts e <=? ts) = true.
Proof.
  intros e key ts H Hk. apply bytes_eqb_eq in Hk. unfold kref_lt_target, kref_cmp in H.
  rewrite Hk, lex_cmp_refl in H. destruct (N.leb_spec (e_ts e) ts); [reflexivity|exfalso].
  destruct (e_ts e ?= ts) eqn:C; cbn [CompOpp] in H; try discriminate.
  - apply N.compare_eq in C. lia.
  - rewrite N.compare_lt_iff in C. lia.
Qed.

Lemma kref_lt_target_not_pred : forall e key ts,
  kref_lt_target e key ts = true -> bytes_eqb (e_key e) key && (e_ts e <=? ts) = false.
Proof.
  intros e key ts H. destruct (bytes_eqb (e_key e) key) eqn:Hk; [|reflexivity]. cbn [andb].
  apply bytes_eqb_eq in Hk. unfold kref_lt_target, kref_cmp in H. rewrite Hk, lex_cmp_refl in H.
  destruct (N.leb_spec (e_ts e) ts); [exfalso|reflexivity].
  destruct (e_ts e ?= ts) eqn:C; cbn [CompOpp] in H; try discriminate.
  rewrite N.compare_gt_iff in C. lia.
Qed.

(* a cursor that stands on the first entry not below (key, ts) has found what load_spec finds *)
Lemma load_spec_at : forall es key ts p, sorted es -> (p <= length es)%nat ->
  (forall j e, (j < p)%nat -> nth_error es j = Some e -> kref_lt_target e key ts = true) ->
  (forall e, nth_error es p = Some e -> kref_lt_target e key ts = false) ->
  load_result (ref_kv es (Z.of_nat p)) key = load_spec es key ts.
Proof.
  intros es key ts p SORTED Hp K G. unfold load_result, load_spec, ref_kv, zlen.
  destruct (Z.leb_spec 0 (Z.of_nat p)); [|lia]. cbn [andb].
  assert (Hpre : forall j x, (j < p)%nat -> nth_error es j = Some x ->
                 bytes_eqb (e_key x) key && (e_ts x <=? ts) = false).
  { intros j x Hj Hx. apply kref_lt_target_not_pred. exact (K j x Hj Hx). }
  destruct (Z.ltb_spec (Z.of_nat p) (Z.of_nat (length es))) as [Hlt|Hge].
  - rewrite Nat2Z.id. destruct (nth_error es p) as [e|] eqn:Ep; [|apply nth_error_None in Ep; lia].
    pose proof (G e eq_refl) as Ge.
    destruct (bytes_eqb (e_key e) key) eqn:Hk.
    + rewrite (find_first _ es p e Hpre Ep); [reflexivity|].
      rewrite Hk. cbn [andb]. exact (kref_lt_target_spec e key ts Ge Hk).
    + rewrite find_all_false; [reflexivity|].
      intros j x Hx. destruct (Nat.lt_ge_cases j p) as [L|L]; [exact (Hpre j x L Hx)|].
      destruct (bytes_eqb (e_key x) key) eqn:Hkx; [|reflexivity]. exfalso.
      apply bytes_eqb_eq in Hkx.
      pose proof (sorted_nth_key_le es p j e x SORTED L Ep Hx) as Le.
      unfold kref_lt_target, kref_cmp in Ge.
      destruct (lex_cmp (e_key e) key) eqn:C; try discriminate.
      * apply lex_cmp_eq in C. rewrite C, (proj2 (bytes_eqb_eq key key) eq_refl) in Hk. discriminate.
      * apply lex_cmp_gt_lt in C. rewrite Hkx in Le. exact (lex_lt_not_le _ _ C Le).
  - rewrite find_all_false; [reflexivity|].
    intros j x Hx. assert (j < length es)%nat by (apply nth_error_Some; congruence).
    apply (Hpre j x); [lia|exact Hx].
Qed.

(* in a sorted list the entries below a key form a prefix *)
Lemma below_prefix : forall es k, sorted es ->
  forall j e, (j < length (List.filter (key_below k) es))%nat -> nth_error es j = Some e -> lex_cmp (e_key e) k = Lt.
Proof.
  induction es as [|a r IH]; intros k S j e Hj He; [destruct j; discriminate|].
  destruct S as (F & S). cbn [List.filter] in Hj.
  destruct (key_below k a) eqn:Ka.
  - destruct j as [|j]; cbn [nth_error length] in *.
    + injection He as <-. unfold key_below in Ka. destruct (lex_cmp (e_key a) k); congruence.
    + apply (IH k S j e); [lia|exact He].
  - exfalso. assert (List.filter (key_below k) r = []) as E.
    { clear IH Hj He. induction r as [|x r IHr]; [reflexivity|]. cbn [List.filter].
      inversion F as [|? ? Fx Fr]; subst. destruct S as (Fx' & Sr).
      assert (key_below k x = false) as ->.
      { unfold key_below in *. pose proof (kref_lt_key_le _ _ _ _ Fx) as Le.
        destruct (lex_cmp (e_key x) k) eqn:C; try reflexivity.
        rewrite (lex_le_lt_trans _ _ _ Le C) in Ka. discriminate. }
      apply IHr; auto. }
    rewrite E in Hj. cbn in Hj. lia.
Qed.

Section Cur.
  Variable enc_size : bentry -> N.
  Hypothesis enc_pos : forall e, 0 < enc_size e.
  Variable b : block.
  Variable es : list entry.
  Hypothesis WF : block_wf enc_size b es.

  Notation bes := (bl_entries b).
  Notation rs := (bl_restarts b).
  Notation off := (off enc_size (bl_entries b)).

  Lemma len_eq : length bes = length es.
  Proof. rewrite <- (wf_decode _ _ _ WF). now rewrite decode_length. Qed.

  Lemma nth_dec : forall n be, nth_error bes n = Some be ->
    nth_error es n = Some (dec_entry (key_before es [] n) be).
  Proof. intros n be H. pose proof (decode_nth _ [] _ _ H) as D. now rewrite (wf_decode _ _ _ WF) in D. Qed.

  Lemma nth_bes : forall n, (n < length es)%nat -> exists be, nth_error bes n = Some be.
  Proof.
    intros n H. destruct (nth_error bes n) as [be|] eqn:E; [eauto|].
    apply nth_error_None in E. rewrite len_eq in E. lia.
  Qed.

  Lemma boundary_off : bl_boundary b = off (length es).
  Proof. rewrite (wf_boundary _ _ _ WF), <- len_eq. symmetry. apply off_len. Qed.

  Lemma off_lt_boundary : forall n, (n < length es)%nat -> off n < bl_boundary b.
  Proof. intros. rewrite boundary_off. apply off_lt; [exact enc_pos|lia|rewrite len_eq; lia]. Qed.

  Lemma boundary_zero : bl_boundary b = 0 -> es = [].
  Proof.
    intros H. destruct (length es) eqn:E; [now apply length_zero_iff_nil|exfalso].
    pose proof (off_lt_boundary 0 ltac:(lia)). rewrite off_0 in *. lia.
  Qed.

  (* the position on entry n, under restart index ri *)
  Definition at_pos (ri : N) (n : nat) : pos :=
    match nth_error es n with
    | Some (k, t, v) => PAt ri (off n) (off (S n)) k t v
    | None => PLast
    end.

  Lemma at_pos_eq : forall ri n k t v, nth_error es n = Some (k, t, v) ->
    at_pos ri n = PAt ri (off n) (off (S n)) k t v.
  Proof. intros. unfold at_pos. now rewrite H. Qed.

  Lemma extract_at : forall ri n be key, nth_error bes n = Some be ->
    full_key key be = full_key (key_before es [] n) be ->
    extract_key enc_size b ri (off n) key = Ok (at_pos ri n).
  Proof.
    intros ri n be key Hn Hk. unfold extract_key.
    assert (Hlt : (n < length es)%nat) by (rewrite <- len_eq; apply nth_error_Some; congruence).
    pose proof (off_lt_boundary n Hlt).
    destruct (N.leb_spec (bl_boundary b) (off n)); [lia|].
    rewrite (entry_at_off enc_size enc_pos _ _ _ Hn).
    unfold at_pos. rewrite (nth_dec _ _ Hn). unfold dec_entry. fold (full_key key be). now rewrite Hk.
  Qed.

  Lemma full_key_shared0 : forall be k1 k2, be_shared be = 0 -> full_key k1 be = full_key k2 be.
  Proof. intros be k1 k2 H. unfold full_key. rewrite H. reflexivity. Qed.

  (* ------------------------------------------------------------ restart intervals *)
  (* restart r opens at entry a and holds the m entries a .. a+m-1 *)
  Definition interval (r a m : nat) : Prop :=
    exists x be, nth_error rs r = Some x /\ nth_error bes a = Some be /\ off a = x /\ be_shared be = 0 /\
      (a + m <= length es)%nat /\ (0 < m)%nat /\
      match nth_error rs (S r) with Some y => off (a + m) = y | None => (a + m = length es)%nat end.

  Lemma es_nonempty_bes : es <> [] -> bes <> [].
  Proof. intros H E. apply H. apply length_zero_iff_nil. rewrite <- len_eq, E. reflexivity. Qed.

  Lemma restart_entry : forall r x, nth_error rs r = Some x -> es <> [] ->
    exists a be, nth_error bes a = Some be /\ off a = x /\ be_shared be = 0 /\ (a < length es)%nat.
  Proof.
    intros r x Hr Hne. destruct (wf_rentry _ _ _ WF r x Hr (es_nonempty_bes Hne)) as (a & be & Ha & Ho & Hs).
    exists a, be. repeat split; auto. rewrite <- len_eq. apply nth_error_Some. congruence.
  Qed.

  Lemma interval_exists : forall r, (r < length rs)%nat -> es <> [] -> exists a m, interval r a m.
  Proof.
    intros r Hr Hne. destruct (nth_error rs r) as [x|] eqn:Ex; [|apply nth_error_None in Ex; lia].
    destruct (restart_entry r x Ex Hne) as (a & be & Ha & Ho & Hs & Hal).
    destruct (nth_error rs (S r)) as [y|] eqn:Ey.
    - destruct (restart_entry (S r) y Ey Hne) as (a' & be' & Ha' & Ho' & Hs' & Hal').
      pose proof (wf_rsorted _ _ _ WF r (S r) x y Ex Ey ltac:(lia)) as Hxy.
      assert (a < a')%nat.
      { destruct (Nat.lt_ge_cases a a') as [L|G]; [exact L|exfalso].
        pose proof (off_le enc_size bes a' a G). lia. }
      exists a, (a' - a)%nat, x, be. repeat split; auto; try lia.
      rewrite Ey. replace (a + (a' - a))%nat with a' by lia. exact Ho'.
    - exists a, (length es - a)%nat, x, be. repeat split; auto; try lia.
      rewrite Ey. lia.
  Qed.

  Lemma interval_unique : forall r a m a' m', interval r a m -> interval r a' m' -> a = a' /\ m = m'.
  Proof.
    intros r a m a' m' (x & be & Hx & Ha & Ho & Hs & Hl & Hm & Hn) (x' & be' & Hx' & Ha' & Ho' & Hs' & Hl' & Hm' & Hn').
    rewrite Hx in Hx'. injection Hx' as <-.
    assert (a = a').
    { apply (off_inj enc_size enc_pos bes); try (rewrite len_eq; lia). congruence. }
    subst a'. split; [reflexivity|].
    destruct (nth_error rs (S r)) as [y|]; [|lia].
    assert (a + m = a + m')%nat; [|lia].
    apply (off_inj enc_size enc_pos bes); try (rewrite len_eq; lia). congruence.
  Qed.

  (* ------------------------------------------------------------ the simulation relation *)
  (* ri is the index of the restart interval that holds offset o *)
  Definition ri_ok (ri : N) (o : N) : Prop :=
    exists x, nth_error rs (N.to_nat ri) = Some x /\ x <= o /\
              (forall y, nth_error rs (S (N.to_nat ri)) = Some y -> o < y).

  Definition pos_ok (p : pos) (i : Z) : Prop :=
    match p with
    | PFirst => i = (-1)%Z
    | PLast => i = zlen es
    | PAt ri o no k t v =>
        exists n : nat, i = Z.of_nat n /\ nth_error es n = Some (k, t, v) /\
                        o = off n /\ no = off (S n) /\ ri_ok ri o
    end.

  Definition cache_ok (c : option (N * list pos)) : Prop :=
    match c with
    | None => True
    | Some (r, ps) => exists a m, interval (N.to_nat r) a m /\ ps = map (at_pos r) (seq a m)
    end.

  Definition R (c : bcursor) (i : Z) : Prop := pos_ok (bc_pos c) i /\ cache_ok (bc_cache c).

  Lemma R_range : forall c i, R c i -> (-1 <= i <= zlen es)%Z.
  Proof.
    intros c i (P & _). unfold zlen. destruct (bc_pos c); cbn [pos_ok] in P.
    - lia.
    - unfold zlen in P. lia.
    - destruct P as (n & -> & Hn & _). assert (n < length es)%nat by (apply nth_error_Some; congruence). lia.
  Qed.

  Lemma R_kv : forall c i, R c i -> bc_kv c = ref_kv es i.
  Proof.
    intros c i (P & _). unfold bc_kv, ref_kv, zlen. destruct (bc_pos c); cbn [pos_ok] in P.
    - subst. reflexivity.
    - unfold zlen in P. subst. destruct (Z.ltb_spec (Z.of_nat (length es)) (Z.of_nat (length es))); [lia|].
      now rewrite andb_false_r.
    - destruct P as (n & -> & Hn & _). assert (n < length es)%nat by (apply nth_error_Some; congruence).
      destruct (Z.leb_spec 0 (Z.of_nat n)); [|lia].
      destruct (Z.ltb_spec (Z.of_nat n) (Z.of_nat (length es))); [|lia].
      cbn [andb]. now rewrite Nat2Z.id, Hn.
  Qed.

  Lemma R_new : R bc_new (-1).
  Proof. split; cbn; auto. Qed.

  Lemma R_first : forall c i, R c i -> R (bc_first c) (-1).
  Proof. intros c i (_ & C). split; cbn; auto. Qed.

  Lemma R_last : forall c i, R c i -> R (bc_last c) (zlen es).
  Proof. intros c i (_ & C). split; cbn; auto. Qed.

  (* ------------------------------------------------------------ seek_restart *)
  Lemma num_restarts_lt : forall ri x, nth_error rs (N.to_nat ri) = Some x -> ri < num_restarts b.
  Proof.
    intros ri x H. unfold num_restarts.
    assert (N.to_nat ri < length rs)%nat by (apply nth_error_Some; congruence). lia.
  Qed.

  Lemma seek_restart_ok : forall c ri x a be, nth_error rs (N.to_nat ri) = Some x ->
    nth_error bes a = Some be -> off a = x -> be_shared be = 0 ->
    seek_restart enc_size b c ri = Ok (set_pos c (at_pos ri a)).
  Proof.
    intros c ri x a be Hx Ha Ho Hs. unfold seek_restart.
    pose proof (num_restarts_lt _ _ Hx).
    destruct (N.leb_spec (num_restarts b) ri); [lia|].
    unfold restart_point. rewrite Hx. cbn [bind].
    assert (a < length es)%nat by (rewrite <- len_eq; apply nth_error_Some; congruence).
    pose proof (off_lt_boundary a H1).
    destruct (N.leb_spec (bl_boundary b) x); [lia|].
    subst x. rewrite (extract_at ri a be _ Ha (full_key_shared0 be _ _ Hs)). reflexivity.
  Qed.

  Lemma ri_ok_restart : forall ri x, nth_error rs (N.to_nat ri) = Some x -> ri_ok ri x.
  Proof.
    intros ri x Hx. exists x. repeat split; [exact Hx|lia|].
    intros y Hy. eapply (wf_rsorted _ _ _ WF); eauto.
  Qed.

  Lemma pos_ok_at : forall ri n, (n < length es)%nat -> ri_ok ri (off n) -> pos_ok (at_pos ri n) (Z.of_nat n).
  Proof.
    intros ri n Hn Hr. destruct (nth_error es n) as [[[k t] v]|] eqn:E; [|apply nth_error_None in E; lia].
    rewrite (at_pos_eq _ _ _ _ _ E). cbn. exists n. repeat split; auto.
  Qed.

  (* ------------------------------------------------------------ next *)
  Lemma rs0 : nth_error rs (N.to_nat 0) = Some 0.
  Proof. exact (wf_r0 _ _ _ WF). Qed.

  Lemma next_sim : forall c i, R c i ->
    exists c1, bc_next enc_size b c = Ok c1 /\ R c1 (Z.min (i + 1) (zlen es)).
  Proof.
    intros c i (P & C). unfold bc_next. destruct (bc_pos c) as [| |ri o no k t v] eqn:EP; cbn [pos_ok] in P.
    - (* First *)
      subst i. destruct (N.eqb_spec (bl_boundary b) 0) as [Z0|NZ].
      + exists (set_pos c PLast). split; [reflexivity|]. split; [|exact C].
        cbn. rewrite (boundary_zero Z0). reflexivity.
      + assert (Hne : es <> []).
        { intros E. apply NZ. rewrite boundary_off, E. reflexivity. }
        destruct (restart_entry 0 0 (wf_r0 _ _ _ WF) Hne) as (a & be & Ha & Ho & Hs & Hal).
        assert (a = 0)%nat.
        { apply (off_inj enc_size enc_pos bes); try (rewrite len_eq; lia). now rewrite Ho, off_0. }
        subst a. rewrite (seek_restart_ok c 0 0 0%nat be rs0 Ha Ho Hs).
        eexists. split; [reflexivity|]. split; [|exact C]. cbn [bc_pos set_pos].
        replace (Z.min (-1 + 1) (zlen es)) with (Z.of_nat 0) by (unfold zlen; lia).
        apply pos_ok_at; [lia|]. rewrite off_0. apply ri_ok_restart. exact rs0.
    - (* Last *)
      subst i. exists c. split; [reflexivity|]. split; [|exact C]. rewrite EP. cbn. lia.
    - (* positioned on entry n *)
      destruct P as (n & -> & Hn & -> & -> & (x & Hx & Hxo & Hnext)).
      assert (Hnl : (n < length es)%nat) by (apply nth_error_Some; congruence).
      destruct (N.leb_spec (bl_boundary b) (off (S n))) as [Hb|Hb].
      + (* the last entry *)
        exists (set_pos c PLast). split; [reflexivity|]. split; [|exact C]. cbn.
        assert (S n = length es).
        { destruct (Nat.eq_dec (S n) (length es)); [assumption|exfalso].
          pose proof (off_lt_boundary (S n) ltac:(lia)). lia. }
        unfold zlen. lia.
      + assert (HSn : (S n < length es)%nat).
        { destruct (Nat.lt_ge_cases (S n) (length es)); [assumption|exfalso].
          rewrite boundary_off in Hb. assert (S n = length es) by lia. rewrite H0 in Hb. lia. }
        destruct (nth_bes (S n) HSn) as (be1 & Hbe1).
        assert (Hne : es <> []) by (intros E; rewrite E in Hnl; cbn in Hnl; lia).
        replace (Z.min (Z.of_nat n + 1) (zlen es)) with (Z.of_nat (S n)) by (unfold zlen; lia).
        destruct (N.ltb_spec (ri + 1) (num_restarts b)) as [Hri|Hri].
        * (* there is a next restart point *)
          assert (Hex : exists y, nth_error rs (S (N.to_nat ri)) = Some y).
          { destruct (nth_error rs (S (N.to_nat ri))) eqn:E; [eauto|].
            apply nth_error_None in E. unfold num_restarts in Hri. lia. }
          destruct Hex as (y & Hy).
          unfold restart_point. replace (N.to_nat (ri + 1)) with (S (N.to_nat ri)) by lia.
          rewrite Hy. cbn [bind].
          destruct (N.leb_spec y (off (S n))) as [Hj|Hj].
          -- (* jump: entry n+1 opens interval ri+1 *)
             pose proof (Hnext y Hy) as Hlt.
             destruct (restart_entry _ _ Hy Hne) as (a & be & Ha & Ho & Hs & Hal).
             assert (a = S n).
             { destruct (Nat.lt_trichotomy a (S n)) as [L|[E|G]]; [exfalso|exact E|exfalso].
               - pose proof (off_le enc_size bes a n ltac:(lia)). lia.
               - pose proof (off_lt enc_size enc_pos bes (S n) a G ltac:(rewrite len_eq; lia)). lia. }
             subst a.
             assert (Hy' : nth_error rs (N.to_nat (ri + 1)) = Some y)
               by (replace (N.to_nat (ri + 1)) with (S (N.to_nat ri)) by lia; exact Hy).
             rewrite (seek_restart_ok c (ri + 1) y (S n) be Hy' Ha Ho Hs).
             eexists. split; [reflexivity|]. split; [|exact C]. cbn [bc_pos set_pos].
             apply pos_ok_at; [lia|]. rewrite Ho. now apply ri_ok_restart.
          -- (* stay in interval ri *)
             rewrite (extract_at ri (S n) be1 k Hbe1).
             2:{ f_equal. cbn [key_before]. now rewrite Hn. }
             cbn [bind]. eexists. split; [reflexivity|]. split; [|exact C]. cbn [bc_pos set_pos].
             apply pos_ok_at; [lia|]. exists x. repeat split; [exact Hx| |].
             ++ pose proof (off_le enc_size bes n (S n) ltac:(lia)). lia.
             ++ intros y' Hy'. rewrite Hy in Hy'. injection Hy' as <-. exact Hj.
        * (* ri is the last interval *)
          cbn [bind]. rewrite (extract_at ri (S n) be1 k Hbe1).
          2:{ f_equal. cbn [key_before]. now rewrite Hn. }
          cbn [bind]. eexists. split; [reflexivity|]. split; [|exact C]. cbn [bc_pos set_pos].
          apply pos_ok_at; [lia|]. exists x. repeat split; [exact Hx| |].
          -- pose proof (off_le enc_size bes n (S n) ltac:(lia)). lia.
          -- intros y' Hy'. exfalso.
             assert (S (N.to_nat ri) < length rs)%nat by (apply nth_error_Some; congruence).
             unfold num_restarts in Hri. lia.
  Qed.

  (* ------------------------------------------------------------ the reverse cache *)
  Lemma cache_loop_ok : forall m fuel ri j key acc,
    (m < fuel)%nat -> (j + m <= length es)%nat ->
    ((0 < m)%nat -> forall be, nth_error bes j = Some be ->
                    full_key key be = full_key (key_before es [] j) be) ->
    cache_loop enc_size fuel b ri (off j) (off (j + m)) key acc = Ok (acc ++ map (at_pos ri) (seq j m)).
  Proof.
    induction m as [|m IH]; intros fuel ri j key acc Hf Hl Hk; destruct fuel as [|f]; try lia; cbn [cache_loop].
    - rewrite Nat.add_0_r, N.ltb_irrefl. cbn [seq map]. now rewrite app_nil_r.
    - assert (Hlt : off j < off (j + S m)) by (apply off_lt; [exact enc_pos|lia|rewrite len_eq; lia]).
      destruct (N.ltb_spec (off j) (off (j + S m))); [|lia].
      destruct (nth_bes j ltac:(lia)) as (be & Hbe).
      rewrite (extract_at ri j be key Hbe (Hk ltac:(lia) be Hbe)). cbn [bind].
      destruct (nth_error es j) as [[[k t] v]|] eqn:E; [|apply nth_error_None in E; lia].
      rewrite (at_pos_eq _ _ _ _ _ E).
      replace (j + S m)%nat with (S j + m)%nat by lia.
      rewrite (IH f ri (S j) k (acc ++ [PAt ri (off j) (off (S j)) k t v])); try lia.
      + rewrite <- app_assoc. cbn [seq map app]. now rewrite (at_pos_eq _ _ _ _ _ E).
      + intros _ be' _. f_equal. cbn [key_before]. now rewrite E.
  Qed.

  Lemma cache_restart_ok : forall c i ri a m, R c i -> interval (N.to_nat ri) a m ->
    exists c1, cache_restart enc_size b c ri = Ok c1 /\ bc_pos c1 = bc_pos c /\
               bc_cache c1 = Some (ri, map (at_pos ri) (seq a m)).
  Proof.
    intros c i ri a m (_ & C) I. unfold cache_restart.
    assert (Hbuild :
      (off0 <- restart_point b ri ;;
       limit <- (if ri + 1 <? num_restarts b then restart_point b (ri + 1) else Ok (bl_boundary b)) ;;
       ps <- cache_loop enc_size (S (length bes)) b ri off0 limit [] [] ;;
       Ok {| bc_pos := bc_pos c; bc_cache := Some (ri, ps) |})
      = Ok {| bc_pos := bc_pos c; bc_cache := Some (ri, map (at_pos ri) (seq a m)) |}).
    { destruct I as (x & be & Hx & Ha & Ho & Hs & Hl & Hm & Hn).
      unfold restart_point at 1. rewrite Hx. cbn [bind].
      assert (Hlim : (if ri + 1 <? num_restarts b then restart_point b (ri + 1) else Ok (bl_boundary b))
                     = Ok (off (a + m))).
      { destruct (N.ltb_spec (ri + 1) (num_restarts b)) as [L|G].
        - unfold restart_point. replace (N.to_nat (ri + 1)) with (S (N.to_nat ri)) by lia.
          destruct (nth_error rs (S (N.to_nat ri))) as [y|] eqn:Ey.
          + now rewrite Hn.
          + apply nth_error_None in Ey. unfold num_restarts in L. lia.
        - destruct (nth_error rs (S (N.to_nat ri))) as [y|] eqn:Ey.
          + assert (S (N.to_nat ri) < length rs)%nat by (apply nth_error_Some; congruence).
            unfold num_restarts in G. lia.
          + rewrite Hn, boundary_off. reflexivity. }
      rewrite Hlim. cbn [bind]. subst x.
      rewrite (cache_loop_ok m (S (length bes)) ri a [] []); [reflexivity|rewrite len_eq; lia|lia|].
      intros _ be' Hbe'. rewrite Ha in Hbe'. injection Hbe' as <-. now apply full_key_shared0. }
    destruct (bc_cache c) as [[r ps]|] eqn:EC.
    - destruct (N.eqb_spec r ri) as [->|Hne].
      + exists c. split; [reflexivity|]. split; [reflexivity|].
        cbn [cache_ok] in C. destruct C as (a' & m' & I' & ->).
        destruct (interval_unique _ _ _ _ _ I I') as (<- & <-). exact EC.
      + eexists. split; [exact Hbuild|]. split; reflexivity.
    - eexists. split; [exact Hbuild|]. split; reflexivity.
  Qed.

  Lemma find_in_cache : forall r a m t, (a < t <= a + m)%nat -> (a + m <= length es)%nat ->
    find (pos_noff_is (off t)) (rev (map (at_pos r) (seq a m))) = Some (at_pos r (t - 1)).
  Proof.
    intros r a m t Ht Hl. apply find_rev_unique.
    - apply in_map. apply in_seq. lia.
    - destruct (nth_error es (t - 1)) as [[[k ts] v]|] eqn:E; [|apply nth_error_None in E; lia].
      rewrite (at_pos_eq _ _ _ _ _ E). cbn [pos_noff_is]. replace (S (t - 1)) with t by lia. apply N.eqb_refl.
    - intros y Hy Hp. apply in_map_iff in Hy as (j & <- & Hj). apply in_seq in Hj.
      destruct (nth_error es j) as [[[k ts] v]|] eqn:E; [|apply nth_error_None in E; lia].
      rewrite (at_pos_eq _ _ _ _ _ E) in Hp. cbn [pos_noff_is] in Hp. apply N.eqb_eq in Hp.
      assert (S j = t) by (apply (off_inj enc_size enc_pos bes); try (rewrite len_eq; lia); exact Hp).
      f_equal. lia.
  Qed.

  (* the common tail of prev: cache interval r', pick the entry that ends at the target *)
  Lemma prev_tail : forall c i r' a m t, R c i -> interval (N.to_nat r') a m -> (a < t <= a + m)%nat ->
    exists c1,
      (c1' <- cache_restart enc_size b c r' ;;
       match (match bc_cache c1' with
              | Some (_, ps) => find (pos_noff_is (off t)) (rev ps)
              | None => None end) with
       | Some q => Ok (set_pos c1' q)
       | None => c2 <- seek_restart enc_size b c1' r' ;; prev_scan enc_size (S (length bes)) b c2 (off t)
       end) = Ok c1 /\ R c1 (Z.of_nat (t - 1)).
  Proof.
    intros c i r' a m t HR I Ht.
    destruct (cache_restart_ok c i r' a m HR I) as (c1' & -> & Hp & Hc). cbn [bind]. rewrite Hc.
    pose proof I as (x & be & Hx & Ha & Ho & Hs & Hl & Hm & Hn).
    rewrite (find_in_cache r' a m t Ht Hl).
    eexists. split; [reflexivity|]. split.
    - cbn [bc_pos set_pos]. apply pos_ok_at; [lia|].
      exists x. split; [exact Hx|]. split.
      + rewrite <- Ho. apply off_le. lia.
      + intros y Hy. rewrite Hy in Hn. rewrite <- Hn.
        apply off_lt; [exact enc_pos|lia|rewrite len_eq; lia].
    - cbn [bc_cache set_pos]. rewrite Hc. cbn [cache_ok]. exists a, m. split; [exact I|reflexivity].
  Qed.

  Lemma prev_sim : forall c i, R c i ->
    exists c1, bc_prev enc_size b c = Ok c1 /\ R c1 (Z.max (i - 1) (-1)).
  Proof.
    intros c i HR. pose proof HR as (P & C). unfold bc_prev.
    destruct (bc_pos c) as [| |ri o no k t v] eqn:EP; cbn [pos_ok] in P.
    - subst i. exists c. split; [reflexivity|]. split; [rewrite EP; reflexivity|exact C].
    - (* Last *)
      subst i. destruct (N.eqb_spec (bl_boundary b) 0) as [Z0|NZ].
      + exists (set_pos c PFirst). split; [reflexivity|]. split; [|exact C]. cbn.
        rewrite (boundary_zero Z0). reflexivity.
      + assert (Hne : es <> []) by (intros E; apply NZ; rewrite boundary_off, E; reflexivity).
        assert (Hlen : (0 < length es)%nat) by (destruct es; [congruence|cbn; lia]).
        rewrite N.leb_refl. cbn [bind].
        assert (Hnr : (0 < length rs)%nat).
        { assert (0 < length rs)%nat; [apply nth_error_Some; rewrite (wf_r0 _ _ _ WF); discriminate|lia]. }
        destruct (N.eqb_spec (num_restarts b) 0) as [E0|_]; [unfold num_restarts in E0; lia|]. cbn [bind].
        destruct (interval_exists (N.to_nat (num_restarts b - 1)) ltac:(unfold num_restarts; lia) Hne) as (a & m & I).
        pose proof I as (x & be & Hx & Ha & Ho & Hs & Hl & Hm & Hn).
        assert (Hnone : nth_error rs (S (N.to_nat (num_restarts b - 1))) = None).
        { apply nth_error_None. unfold num_restarts. lia. }
        rewrite Hnone in Hn.
        destruct (prev_tail c _ (num_restarts b - 1) a m (length es) HR I ltac:(lia)) as (c1 & H1 & R1).
        rewrite boundary_off. exists c1. split; [exact H1|].
        replace (Z.max (zlen es - 1) (-1)) with (Z.of_nat (length es - 1)) by (unfold zlen; lia). exact R1.
    - (* positioned on entry n *)
      destruct P as (n & -> & Hn & -> & -> & (x & Hx & Hxo & Hnext)).
      assert (Hnl : (n < length es)%nat) by (apply nth_error_Some; congruence).
      assert (Hne : es <> []) by (intros E; rewrite E in Hnl; cbn in Hnl; lia).
      destruct (N.eqb_spec (off n) 0) as [Z0|NZ].
      + exists (set_pos c PFirst). split; [reflexivity|]. split; [|exact C]. cbn.
        assert (n = 0)%nat.
        { apply (off_inj enc_size enc_pos bes); try (rewrite len_eq; lia). now rewrite off_0. }
        subst n. reflexivity.
      + assert (Hn0 : (0 < n)%nat) by (destruct n; [rewrite off_0 in NZ; congruence|lia]).
        replace (Z.max (Z.of_nat n - 1) (-1)) with (Z.of_nat (n - 1)) by lia.
        pose proof (num_restarts_lt _ _ Hx) as Hri.
        destruct (N.leb_spec (num_restarts b) ri); [lia|].
        unfold restart_point at 1. rewrite Hx. cbn [bind].
        destruct (N.leb_spec (off n) x) as [Hback|Hstay]; cbn [bind].
        * (* entry n opens interval ri: go to interval ri - 1 *)
          assert (x = off n) by lia. subst x.
          destruct (N.eqb_spec ri 0) as [->|Hri0].
          { exfalso. rewrite rs0 in Hx. injection Hx as Hx. lia. }
          cbn [bind].
          destruct (interval_exists (N.to_nat (ri - 1)) ltac:(unfold num_restarts in Hri; lia) Hne) as (a & m & I).
          pose proof I as (x' & be & Hx' & Ha & Ho & Hs & Hl & Hm & Hnn).
          replace (S (N.to_nat (ri - 1))) with (N.to_nat ri) in Hnn by lia. rewrite Hx in Hnn.
          assert (a + m = n)%nat by (apply (off_inj enc_size enc_pos bes); try (rewrite len_eq; lia); exact Hnn).
          destruct (prev_tail c _ (ri - 1) a m n HR I ltac:(lia)) as (c1 & H1 & R1).
          exists c1. split; [exact H1|exact R1].
        * (* stay in interval ri *)
          destruct (interval_exists (N.to_nat ri) ltac:(unfold num_restarts in Hri; lia) Hne) as (a & m & I).
          pose proof I as (x' & be & Hx' & Ha & Ho & Hs & Hl & Hm & Hnn).
          rewrite Hx in Hx'. injection Hx' as <-.
          assert (Han : (a < n)%nat).
          { destruct (Nat.lt_ge_cases a n); [assumption|exfalso].
            pose proof (off_le enc_size bes n a ltac:(lia)). lia. }
          assert (Hnm : (n <= a + m)%nat).
          { destruct (nth_error rs (S (N.to_nat ri))) as [y|] eqn:Ey; [|lia].
            pose proof (Hnext y eq_refl).
            destruct (Nat.le_gt_cases n (a + m)); [assumption|exfalso].
            pose proof (off_le enc_size bes (a + m) n ltac:(lia)). lia. }
          destruct (prev_tail c _ ri a m n HR I ltac:(lia)) as (c1 & H1 & R1).
          exists c1. split; [exact H1|exact R1].
  Qed.

  (* ------------------------------------------------------------ seek *)
  Hypothesis SORTED : sorted es.

  (* every entry before index p has a key below k *)
  Definition below_upto (k : bytes) (p : nat) : Prop :=
    forall j e, (j < p)%nat -> nth_error es j = Some e -> lex_cmp (e_key e) k = Lt.

  Lemma below_upto_S : forall k n e, below_upto k n -> nth_error es n = Some e ->
    lex_cmp (e_key e) k = Lt -> below_upto k (S n).
  Proof.
    intros k n e B Hn Hlt j e' Hj He'. destruct (Nat.eq_dec j n) as [->|Hne].
    - rewrite Hn in He'. injection He' as <-. exact Hlt.
    - apply (B j e'); [lia|exact He'].
  Qed.

  Lemma below_upto_of_lt : forall k n e, nth_error es n = Some e -> lex_cmp (e_key e) k = Lt -> below_upto k (S n).
  Proof.
    intros k n e Hn Hlt j e' Hj He'.
    eapply lex_le_lt_trans; [|exact Hlt]. eapply (sorted_nth_key_le es j n); eauto. lia.
  Qed.

  Lemma ref_seek_char : forall k p, (p <= length es)%nat -> below_upto k p ->
    (forall e, nth_error es p = Some e -> lex_cmp (e_key e) k <> Lt) -> ref_seek es k = Z.of_nat p.
  Proof.
    intros k p Hp B Hge. unfold ref_seek. f_equal. apply count_prefix; [| |exact Hp].
    - intros j e Hj He. unfold key_below. now rewrite (B j e Hj He).
    - intros j e Hj He. unfold key_below.
      destruct (nth_error es p) as [ep|] eqn:Ep; [|apply nth_error_None in Ep; assert (j < length es)%nat by (apply nth_error_Some; congruence); lia].
      pose proof (Hge ep eq_refl) as G.
      pose proof (sorted_nth_key_le es p j ep e SORTED Hj Ep He) as L.
      destruct (lex_cmp (e_key e) k) eqn:C; try reflexivity. exfalso. apply G.
      eapply lex_le_lt_trans; eauto.
  Qed.

  Lemma interval0 : forall a m, interval (N.to_nat 0) a m -> a = 0%nat.
  Proof.
    intros a m (x & be & Hx & Ha & Ho & Hs & Hl & Hm & Hn). rewrite rs0 in Hx. injection Hx as <-.
    apply (off_inj enc_size enc_pos bes); try (rewrite len_eq; lia). now rewrite Ho, off_0.
  Qed.

  Lemma seek_restart_interval : forall c i r a m, R c i -> interval (N.to_nat r) a m ->
    exists k t v, nth_error es a = Some (k, t, v) /\
      seek_restart enc_size b c r = Ok (set_pos c (PAt r (off a) (off (S a)) k t v)) /\
      R (set_pos c (PAt r (off a) (off (S a)) k t v)) (Z.of_nat a).
  Proof.
    intros c i r a m (_ & C) (x & be & Hx & Ha & Ho & Hs & Hl & Hm & Hn).
    destruct (nth_error es a) as [[[k t] v]|] eqn:E; [|apply nth_error_None in E; lia].
    exists k, t, v. split; [reflexivity|].
    rewrite (seek_restart_ok c r x a be Hx Ha Ho Hs), (at_pos_eq _ _ _ _ _ E). split; [reflexivity|].
    split; [|exact C]. cbn [bc_pos set_pos pos_ok]. exists a. repeat split; auto.
    rewrite Ho. now apply ri_ok_restart.
  Qed.

  Lemma bsearch_ok : forall fuel c i key lo hi, R c i -> es <> [] ->
    lo <= hi -> hi < num_restarts b -> (N.to_nat (hi - lo) < fuel)%nat ->
    (forall a m, interval (N.to_nat lo) a m -> below_upto key a) ->
    exists c1 r i1, bsearch enc_size fuel b c key lo hi = Ok (c1, r, r) /\ R c1 i1 /\ r < num_restarts b /\
                    (forall a m, interval (N.to_nat r) a m -> below_upto key a).
  Proof.
    induction fuel as [|f IH]; intros c i key lo hi HR Hne Hlh Hhi Hf Hinv; [lia|]. cbn [bsearch].
    destruct (N.ltb_spec lo hi) as [Hlt|Hge].
    - destruct (mid_bounds lo hi Hlt) as (M1 & M2). set (mid := lo + (hi - lo + 1) / 2) in *.
      destruct (interval_exists (N.to_nat mid) ltac:(unfold num_restarts in Hhi; lia) Hne) as (a & m & I).
      destruct (seek_restart_interval c i mid a m HR I) as (k & t & v & Ea & -> & R1). cbn [bind bc_pos set_pos].
      destruct (lex_cmp key k) eqn:Cmp.
      + apply (IH _ _ key lo (mid - 1) R1 Hne); try lia. exact Hinv.
      + apply (IH _ _ key lo (mid - 1) R1 Hne); try lia. exact Hinv.
      + apply (IH _ _ key mid hi R1 Hne); try lia.
        intros a' m' I'. destruct (interval_unique _ _ _ _ _ I I') as (<- & <-).
        intros j e Hj He. apply lex_cmp_gt_lt in Cmp.
        eapply lex_le_lt_trans; [|exact Cmp].
        apply (sorted_nth_key_le es j a e (k, t, v) SORTED ltac:(lia) He Ea).
    - assert (lo = hi) by lia. subst hi. exists c, lo, i. split; [reflexivity|]. split; [exact HR|]. split; [exact Hhi|exact Hinv].
  Qed.

  Lemma seek_scan_ok : forall fuel c n key, R c (Z.of_nat n) -> (n <= length es)%nat ->
    (length es - n < fuel)%nat -> below_upto key n ->
    exists c1 p, seek_scan enc_size fuel b c key = Ok c1 /\ R c1 (Z.of_nat p) /\ (p <= length es)%nat /\
                 below_upto key p /\ (forall e, nth_error es p = Some e -> lex_cmp (e_key e) key <> Lt).
  Proof.
    induction fuel as [|f IH]; intros c n key HR Hn Hf B; [lia|]. cbn [seek_scan].
    pose proof HR as (P & C). destruct (bc_pos c) as [| |ri o no k t v] eqn:EP; cbn [pos_ok] in P.
    - lia.
    - exists c, n. split; [reflexivity|]. split; [exact HR|]. split; [exact Hn|]. split; [exact B|].
      intros e He. unfold zlen in P. assert (n = length es) by lia. subst n.
      assert (length es < length es)%nat by (apply nth_error_Some; congruence). lia.
    - destruct P as (n' & En & Hn' & _). assert (n' = n) by lia. subst n'.
      destruct (lex_cmp key k) eqn:Cmp.
      + exists c, n. split; [reflexivity|]. split; [exact HR|]. split; [exact Hn|]. split; [exact B|].
        intros e He. rewrite Hn' in He. injection He as <-. cbn [e_key fst].
        rewrite (lex_cmp_antisym key k), Cmp. discriminate.
      + exists c, n. split; [reflexivity|]. split; [exact HR|]. split; [exact Hn|]. split; [exact B|].
        intros e He. rewrite Hn' in He. injection He as <-. cbn [e_key fst].
        rewrite (lex_cmp_antisym key k), Cmp. discriminate.
      + destruct (next_sim c _ HR) as (c1 & -> & R1). cbn [bind].
        assert (n < length es)%nat by (apply nth_error_Some; congruence).
        replace (Z.min (Z.of_nat n + 1) (zlen es)) with (Z.of_nat (S n)) in R1 by (unfold zlen; lia).
        apply (IH c1 (S n) key R1); try lia.
        apply (below_upto_S key n (k, t, v) B Hn'). cbn [e_key fst]. now apply lex_cmp_gt_lt.
  Qed.

  Lemma seek_sim_strong : forall c i key, R c i ->
    exists c1 p, bc_seek enc_size b c key = Ok c1 /\ R c1 (Z.of_nat p) /\ (p <= length es)%nat /\
                 below_upto key p /\ ref_seek es key = Z.of_nat p.
  Proof.
    intros c i key HR. pose proof HR as (P & C). unfold bc_seek.
    assert (Hnr : (0 < length rs)%nat) by (apply nth_error_Some; rewrite (wf_r0 _ _ _ WF); discriminate).
    destruct (N.eqb_spec (num_restarts b) 0) as [E0|_]; [unfold num_restarts in E0; lia|].
    destruct (N.eqb_spec (bl_boundary b) 0) as [Z0|NZ].
    - exists (set_pos c PLast), 0%nat. split; [reflexivity|]. split.
      { split; [|exact C]. cbn [bc_pos set_pos pos_ok]. unfold zlen. now rewrite (boundary_zero Z0). }
      split; [lia|]. split; [intros j e Hj; lia|]. now rewrite (boundary_zero Z0).
    - assert (Hne : es <> []) by (intros E; apply NZ; rewrite boundary_off, E; reflexivity).
      destruct (bsearch_ok (S (length rs)) c i key 0 (num_restarts b - 1) HR Hne) as (c1 & r & i1 & -> & R1 & Hr & Hinv);
        try (unfold num_restarts; lia).
      { intros a m I. rewrite (interval0 a m I). intros j e Hj. lia. }
      cbn [bind]. rewrite N.eqb_refl. cbn [negb].
      destruct (interval_exists (N.to_nat r) ltac:(unfold num_restarts in Hr; lia) Hne) as (a & m & I).
      destruct (seek_restart_interval c1 i1 r a m R1 I) as (k & t & v & Ea & -> & R2). cbn [bind bc_pos set_pos].
      assert (a < length es)%nat by (apply nth_error_Some; congruence).
      destruct (seek_scan_ok (S (S (length bes))) _ a key R2 ltac:(lia) ltac:(rewrite len_eq; lia) (Hinv a m I))
        as (c3 & p & -> & R3 & Hp & B3 & G3).
      exists c3, p. split; [reflexivity|]. split; [exact R3|]. split; [exact Hp|]. split; [exact B3|].
      exact (ref_seek_char key p Hp B3 G3).
  Qed.

  Lemma seek_sim : forall c i key, R c i ->
    exists c1, bc_seek enc_size b c key = Ok c1 /\ R c1 (ref_seek es key).
  Proof.
    intros c i key HR. destruct (seek_sim_strong c i key HR) as (c1 & p & H1 & R1 & _ & _ & E).
    exists c1. split; [exact H1|]. now rewrite E.
  Qed.

  (* ------------------------------------------------------------ whole programs *)
  Lemma step_sim : forall c i o, R c i ->
    exists c1, bc_step enc_size b c o = Ok c1 /\ R c1 (ref_step es i o).
  Proof.
    intros c i o HR. destruct o as [| |k| |]; cbn [bc_step ref_step].
    - eexists. split; [reflexivity|]. exact (R_first c i HR).
    - eexists. split; [reflexivity|]. exact (R_last c i HR).
    - exact (seek_sim c i k HR).
    - exact (next_sim c i HR).
    - exact (prev_sim c i HR).
  Qed.

  Theorem run_sim : forall prog c i, R c i ->
    bc_run enc_size b c prog = map (fun x => Ok x) (ref_run es i prog).
  Proof.
    induction prog as [|o prog IH]; intros c i HR; cbn [bc_run ref_run map]; [reflexivity|].
    destruct (step_sim c i o HR) as (c1 & -> & R1). rewrite (R_kv c1 _ R1). f_equal. now apply IH.
  Qed.

  (* ------------------------------------------------------------ Block::load *)
  Definition kt_below (key : bytes) (ts : N) (p : nat) : Prop :=
    forall j e, (j < p)%nat -> nth_error es j = Some e -> kref_lt_target e key ts = true.

  Lemma load_scan_ok : forall fuel c n key ts, R c (Z.of_nat n) -> (n <= length es)%nat ->
    (length es - n < fuel)%nat -> kt_below key ts n ->
    exists c1 p, load_scan enc_size fuel b c key ts = Ok c1 /\ R c1 (Z.of_nat p) /\ (p <= length es)%nat /\
                 kt_below key ts p /\ (forall e, nth_error es p = Some e -> kref_lt_target e key ts = false).
  Proof.
    induction fuel as [|f IH]; intros c n key ts HR Hn Hf B; [lia|]. cbn [load_scan].
    rewrite (R_kv c _ HR). unfold ref_kv, zlen.
    destruct (Z.leb_spec 0 (Z.of_nat n)); [|lia]. cbn [andb].
    destruct (Z.ltb_spec (Z.of_nat n) (Z.of_nat (length es))) as [Hlt|Hge].
    - rewrite Nat2Z.id. destruct (nth_error es n) as [e|] eqn:En; [|apply nth_error_None in En; lia].
      destruct (kref_lt_target e key ts) eqn:K.
      + destruct (next_sim c _ HR) as (c1 & -> & R1). cbn [bind].
        replace (Z.min (Z.of_nat n + 1) (zlen es)) with (Z.of_nat (S n)) in R1 by (unfold zlen; lia).
        apply (IH c1 (S n) key ts R1); try lia.
        intros j e' Hj He'. destruct (Nat.eq_dec j n) as [->|Hne].
        * rewrite En in He'. injection He' as <-. exact K.
        * apply (B j e'); [lia|exact He'].
      + exists c, n. split; [reflexivity|]. split; [exact HR|]. split; [exact Hn|]. split; [exact B|].
        intros e' He'. rewrite En in He'. injection He' as <-. exact K.
    - exists c, n. split; [reflexivity|]. split; [exact HR|]. split; [exact Hn|]. split; [exact B|].
      intros e' He'. assert (n < length es)%nat by (apply nth_error_Some; congruence). lia.
  Qed.

  Theorem load_correct : forall key ts, bl_load enc_size b key ts = Ok (load_spec es key ts).
  Proof.
    intros key ts. unfold bl_load.
    destruct (seek_sim_strong bc_new _ key R_new) as (c1 & p0 & -> & R1 & Hp0 & B0 & _). cbn [bind].
    assert (K0 : kt_below key ts p0).
    { intros j e Hj He. unfold kref_lt_target, kref_cmp. now rewrite (B0 j e Hj He). }
    destruct (load_scan_ok (S (S (length bes))) c1 p0 key ts R1 Hp0 ltac:(rewrite len_eq; lia) K0)
      as (c2 & p & -> & R2 & Hp & K & G). cbn [bind]. f_equal.
    rewrite (R_kv c2 _ R2). exact (load_spec_at es key ts p SORTED Hp K G).
  Qed.
End Cur.
