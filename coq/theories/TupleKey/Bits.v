(* TupleKey/Bits.v — small arithmetic/bit lemma library: turns the N.lor / N.land / shifts of the
   models into div/mod arithmetic that lia decides (with the euclidean-division hook), facts about
   single bytes by exhaustive evaluation over the 256 values, big-endian digit lists. *)
From Coq Require Import NArith ZArith List Lia ZifyN ZifyBool Bool.
From Blue Require Import TupleKey.Lex.
Import ListNotations.
Open Scope N_scope.
Ltac Zify.zify_post_hook ::= Z.to_euclidean_division_equations.

(* ---- or of disjoint bit ranges is a sum *)
Lemma lor_disjoint : forall k a b, a < 2 ^ k -> N.lor (b * 2 ^ k) a = b * 2 ^ k + a.
Proof.
  intros k a b Ha.
  apply N.bits_inj. intros n.
  rewrite N.lor_spec.
  destruct (N.lt_ge_cases n k) as [Hn|Hn].
  - rewrite N.mul_pow2_bits_low by assumption. cbn [orb].
    rewrite <- (N.mod_pow2_bits_low (b * 2^k + a) k n Hn).
    replace ((b * 2 ^ k + a) mod 2 ^ k) with a; [reflexivity|].
    rewrite N.add_comm, N.mod_add by (apply N.pow_nonzero; discriminate).
    symmetry. now apply N.mod_small.
  - rewrite N.mul_pow2_bits_high by assumption.
    assert (Hz : N.testbit a n = false).
    { destruct (N.eq_dec a 0) as [->|Hne]; [apply N.bits_0|].
      apply N.bits_above_log2. apply N.log2_lt_pow2 in Ha; lia. }
    rewrite Hz, orb_false_r.
    replace n with ((n - k) + k) at 2 by lia.
    rewrite <- N.div_pow2_bits.
    replace ((b * 2 ^ k + a) / 2 ^ k) with b; [reflexivity|].
    rewrite N.div_add_l by (apply N.pow_nonzero; discriminate).
    rewrite N.div_small by assumption. lia.
Qed.

(* x = q * 2^k + r form, for use with concrete k *)
Lemma lor_split : forall k x a, a < 2 ^ k -> x mod 2 ^ k = 0 -> N.lor x a = x + a.
Proof.
  intros k x a Ha Hx.
  assert (P : 2 ^ k <> 0) by (apply N.pow_nonzero; discriminate).
  rewrite (N.div_mod x (2 ^ k) P) at 1 2. rewrite Hx, N.add_0_r, N.mul_comm.
  now apply lor_disjoint.
Qed.

Lemma land_ones_mod : forall x k, N.land x (2 ^ k - 1) = x mod 2 ^ k.
Proof. intros. rewrite <- N.land_ones. f_equal. rewrite N.ones_equiv. lia. Qed.

(* ---- facts about all 256 byte values, by evaluation *)
Definition all_bytes : list N := map N.of_nat (seq 0 256).
Lemma byte_forall : forall p : N -> bool,
  forallb p all_bytes = true -> forall c, c < 256 -> p c = true.
Proof.
  intros p H c Hc. rewrite forallb_forall in H. apply H.
  unfold all_bytes. apply in_map_iff. exists (N.to_nat c). split; [lia|].
  apply in_seq. lia.
Qed.

Ltac by_bytes :=
  match goal with
  | |- forall c, c < 256 -> _ = _ =>
      let c := fresh "c" in let H := fresh "H" in
      intros c H; apply N.eqb_eq; revert c H; apply byte_forall; vm_compute; reflexivity
  end.

Lemma lor1_byte : forall c, c < 256 -> N.lor c 1 = 2 * (c / 2) + 1.
Proof. by_bytes. Qed.

Lemma land254_byte : forall c, c < 256 -> N.land c 254 = 2 * (c / 2).
Proof. by_bytes. Qed.

Lemma land240_byte : forall c, c < 256 -> N.land c 240 = 16 * (c / 16).
Proof. by_bytes. Qed.

Lemma land128_byte : forall c, c < 256 -> N.land c 128 = 128 * (c / 128).
Proof. by_bytes. Qed.

Lemma land127_byte : forall c, c < 256 -> N.land c 127 = c mod 128.
Proof. by_bytes. Qed.

Lemma land1_byte : forall c, c < 256 -> N.land c 1 = c mod 2.
Proof. by_bytes. Qed.

Lemma lor128_byte : forall c, c < 128 -> N.lor c 128 = c + 128.
Proof. intros c H. rewrite N.lor_comm, N.add_comm. apply (lor_split 7 128 c); [exact H | reflexivity]. Qed.

(* (y | 1) as u8 *)
Lemma lor1_mod256 : forall y, N.lor y 1 mod 256 = 2 * ((y / 2) mod 128) + 1.
Proof.
  intros y.
  change 256 with (2 ^ 8). rewrite <- N.land_ones, N.land_lor_distr_l, !N.land_ones.
  change (1 mod 2 ^ 8) with 1. change (2 ^ 8) with 256.
  rewrite lor1_byte by (apply N.mod_upper_bound; discriminate). lia.
Qed.

Lemma land_small_mod : forall x m k, m = 2 ^ k - 1 -> N.land x m = x mod 2 ^ k.
Proof. intros; subst; apply land_ones_mod. Qed.

Lemma land15 : forall x, N.land x 15 = x mod 16.
Proof. intros. exact (land_small_mod x 15 4 eq_refl). Qed.
Lemma land1 : forall x, N.land x 1 = x mod 2.
Proof. intros. exact (land_small_mod x 1 1 eq_refl). Qed.
Lemma land127 : forall x, N.land x 127 = x mod 128.
Proof. intros. exact (land_small_mod x 127 7 eq_refl). Qed.

(* ---- big-endian digit lists in base B: be_digits B n v = the n low digits of v, MSB first *)
Fixpoint be_digits (B : N) (n : nat) (v : N) : list N :=
  match n with
  | O => []
  | S n' => (v / B ^ N.of_nat n') mod B :: be_digits B n' v
  end.

Lemma be_digits_length : forall B n v, length (be_digits B n v) = n.
Proof. induction n; intros; cbn [be_digits length]; auto. Qed.

Lemma be_digits_mod : forall B n v, B <> 0 -> be_digits B n (v mod B ^ N.of_nat n) = be_digits B n v.
Proof.
  intros B n. induction n as [|n IH]; intros v HB; [reflexivity|].
  assert (P : B ^ N.of_nat n <> 0) by (now apply N.pow_nonzero).
  cbn [be_digits]. f_equal.
  - rewrite Nnat.Nat2N.inj_succ, N.pow_succ_r'.
    rewrite (N.mul_comm B), N.mod_mul_r by assumption.
    rewrite (N.mul_comm (B ^ N.of_nat n)), N.div_add by assumption.
    rewrite (N.div_small (v mod _)) by (now apply N.mod_upper_bound).
    rewrite N.add_0_l. now rewrite N.mod_mod.
  - rewrite <- (IH (v mod B ^ N.of_nat (S n))), <- (IH v) by assumption. f_equal.
    rewrite Nnat.Nat2N.inj_succ, N.pow_succ_r'.
    rewrite (N.mul_comm B), N.mod_mul_r by assumption.
    rewrite (N.mul_comm (B ^ N.of_nat n)), N.mod_add by assumption.
    now rewrite N.mod_mod.
Qed.

Lemma be_digits_bound : forall B n v, B <> 0 -> Forall (fun d => d < B) (be_digits B n v).
Proof.
  intros B n v HB. induction n; cbn [be_digits]; constructor; auto.
  now apply N.mod_upper_bound.
Qed.

(* comparing digit lists = comparing the numbers, through any strictly monotone digit map g *)
Lemma be_digits_cmp : forall B (g : N -> N), 1 < B ->
  (forall a b, a < B -> b < B -> (g a ?= g b) = (a ?= b)) ->
  forall n v w, v < B ^ N.of_nat n -> w < B ^ N.of_nat n ->
  lex_cmp (map g (be_digits B n v)) (map g (be_digits B n w)) = (v ?= w).
Proof.
  intros B g HB Hg. induction n as [|n IH]; intros v w Hv Hw.
  - cbn in *. assert (v = 0) by lia. assert (w = 0) by lia. subst. reflexivity.
  - cbn [be_digits map lex_cmp].
    rewrite Nnat.Nat2N.inj_succ, N.pow_succ_r' in Hv, Hw.
    set (P := B ^ N.of_nat n) in *.
    assert (HP : P <> 0) by (apply N.pow_nonzero; lia).
    assert (Dv : v / P < B) by (apply N.div_lt_upper_bound; [assumption|lia]).
    assert (Dw : w / P < B) by (apply N.div_lt_upper_bound; [assumption|lia]).
    rewrite (N.mod_small (v / P)), (N.mod_small (w / P)) by assumption.
    rewrite Hg by assumption.
    pose proof (N.div_mod v P HP) as Ev. pose proof (N.div_mod w P HP) as Ew.
    pose proof (N.mod_upper_bound v P HP) as Rv. pose proof (N.mod_upper_bound w P HP) as Rw.
    destruct (v / P ?= w / P) eqn:E.
    + apply N.compare_eq in E.
      assert (HBz : B <> 0) by lia.
      rewrite <- (be_digits_mod B n v HBz), <- (be_digits_mod B n w HBz).
      fold P. rewrite IH by assumption.
      set (q := v / P) in *. set (q' := w / P) in *. set (rv := v mod P) in *. set (rw := w mod P) in *.
      clearbody q q' rv rw. subst q'.
      destruct (N.compare_spec rv rw); symmetry;
        [apply N.compare_eq_iff | apply N.compare_lt_iff | apply N.compare_gt_iff]; lia.
    + symmetry. apply N.compare_lt_iff.
      set (q := v / P) in *. set (q' := w / P) in *. set (rv := v mod P) in *. set (rw := w mod P) in *.
      clearbody q q' rv rw. apply -> N.compare_lt_iff in E.
      assert (P * q + P <= P * q') by (rewrite <- N.mul_succ_r; apply N.mul_le_mono_l; lia). lia.
    + symmetry. apply N.compare_gt_iff.
      set (q := v / P) in *. set (q' := w / P) in *. set (rv := v mod P) in *. set (rw := w mod P) in *.
      clearbody q q' rv rw. apply -> N.compare_gt_iff in E.
      assert (P * q' + P <= P * q) by (rewrite <- N.mul_succ_r; apply N.mul_le_mono_l; lia). lia.
Qed.

Lemma be_digits_cmp_id : forall B, 1 < B ->
  forall n v w, v < B ^ N.of_nat n -> w < B ^ N.of_nat n ->
  lex_cmp (be_digits B n v) (be_digits B n w) = (v ?= w).
Proof.
  intros B HB n v w Hv Hw.
  rewrite <- (map_id (be_digits B n v)), <- (map_id (be_digits B n w)).
  apply be_digits_cmp; auto.
Qed.

(* the value of a digit list, and digits of it *)
Definition be_val (B : N) (l : list N) : N := fold_left (fun acc d => acc * B + d) l 0.

Lemma be_val_acc : forall B l acc,
  fold_left (fun a d => a * B + d) l acc = acc * B ^ N.of_nat (length l) + be_val B l.
Proof.
  intros B. unfold be_val. induction l as [|d l IH]; intros acc.
  - cbn. lia.
  - cbn [fold_left length]. rewrite IH, (IH (0 * B + d)).
    rewrite Nnat.Nat2N.inj_succ, N.pow_succ_r'. lia.
Qed.

Lemma be_val_cons : forall B d l, be_val B (d :: l) = d * B ^ N.of_nat (length l) + be_val B l.
Proof. intros. unfold be_val at 1. cbn [fold_left]. rewrite be_val_acc. lia. Qed.

Lemma be_val_bound : forall B l, Forall (fun d => d < B) l -> be_val B l < B ^ N.of_nat (length l).
Proof.
  intros B. induction l as [|d l IH]; intros H.
  - cbn. lia.
  - inversion H; subst. rewrite be_val_cons. cbn [length].
    rewrite Nnat.Nat2N.inj_succ, N.pow_succ_r'. specialize (IH H3). nia.
Qed.

Lemma be_val_digits : forall B n v, 1 < B -> be_val B (be_digits B n v) = v mod B ^ N.of_nat n.
Proof.
  intros B n v HB. induction n as [|n IH].
  - cbn. now rewrite N.mod_1_r.
  - cbn [be_digits]. rewrite be_val_cons, be_digits_length, IH.
    rewrite Nnat.Nat2N.inj_succ, N.pow_succ_r'.
    assert (P : B ^ N.of_nat n <> 0) by (apply N.pow_nonzero; lia).
    rewrite (N.mul_comm B), N.mod_mul_r by (assumption || lia). lia.
Qed.

Lemma be_digits_val : forall B l, 1 < B -> Forall (fun d => d < B) l ->
  be_digits B (length l) (be_val B l) = l.
Proof.
  intros B l HB. induction l as [|d l IH]; intros H; [reflexivity|].
  inversion H; subst. cbn [length be_digits]. rewrite be_val_cons.
  pose proof (be_val_bound B l H3) as Bd.
  assert (P : B ^ N.of_nat (length l) <> 0) by (apply N.pow_nonzero; lia).
  f_equal.
  - rewrite N.div_add_l by assumption. rewrite N.div_small by assumption.
    rewrite N.add_0_r. apply N.mod_small; assumption.
  - rewrite <- be_digits_mod by lia. rewrite N.add_comm, N.mod_add by assumption.
    rewrite N.mod_small by assumption. now apply IH.
Qed.

(* which of 0..7 *)
Lemma lt8_cases : forall r, r < 8 -> r = 0 \/ r = 1 \/ r = 2 \/ r = 3 \/ r = 4 \/ r = 5 \/ r = 6 \/ r = 7.
Proof. intros. lia. Qed.
