(* Extraction of the executable tuple-key models (both formats) and of the specification functions
   (tuple comparison, the F12 class predicate) for the correspondence check.
   Directives in force: those of ExtrOcamlBasic only; N, Z, positive, nat stay inductive. *)
From Coq Require Import NArith ZArith List.
From Blue Require Import TupleKey.Lex TupleKey.ModelV2 TupleKey.ModelV1 TupleKey.Spec.
Require Import ExtrOcamlBasic.
Extraction Language OCaml.
Extraction "../ocaml/tuplekey/gen_tuplekey.ml"
  lex_cmp encode2 decode2 tuple_cmp2 encode1 decode1 tuple_cmp1 known_F12 tki_next peek_next
  field_number unfield_number.
