(* Props_C16.v — the property theorems for C16 and nothing else.
   C16: "Tuple-key encodings sort byte-wise exactly as their tuples, and decode back".

   Compact format (tuple_key2): encode2 / decode2 of ModelV2.v; tuples are lists of el2 over
   unit, bytes, string, u8..u64, i8..i64 (the crate has no descending elements).
   Field-numbered format (tuple_key + tuple_key_derive): encode1 / decode1 of ModelV1.v; tuples are
   lists of fields (field number, Forward/Reverse, value) over unit, u32, u64, i32, i64, String.
   lex_cmp is the byte-wise order (Ord of [u8]); tuple_cmp* / same_shape* / wf* / known_F12 are in
   Spec.v.  encode1 returns an option only because the model keeps the assert and the fuel of the
   chunk iterator explicit; C16_v1_encode_total shows the result is always Some. *)
From Coq Require Import NArith ZArith List.
From Blue Require Import Gen.Const_TupleKey TupleKey.Lex TupleKey.ModelV2 TupleKey.ModelV1 TupleKey.Spec TupleKey.ProofsV2 TupleKey.ProofsV2b TupleKey.ProofsV1c TupleKey.ProofsTop.
Import ListNotations.
Open Scope N_scope.

(* ================================================================ compact format (tuple_key2) *)

(* byte-wise order of the encodings = element-wise order of the tuples, for tuples of any length *)
Theorem C16_v2_order : forall t u, wf2 t -> wf2 u -> same_shape2 t u ->
  lex_cmp (encode2 t) (encode2 u) = tuple_cmp2 t u.
Proof. exact v2_order. Qed.

(* different tuples of one shape give encodings that differ at a position present in both:
   no encoding is a prefix of another (and equal tuples give equal encodings) *)
Theorem C16_v2_prefix_free : forall t u, wf2 t -> wf2 u -> same_shape2 t u ->
  (tuple_cmp2 t u <> Eq -> diverge (encode2 t) (encode2 u)) /\
  (tuple_cmp2 t u = Eq -> encode2 t = encode2 u).
Proof. intros t u Wt Wu S. exact (conj (v2_prefix_free t u Wt Wu S) (v2_equal t u Wt Wu S)). Qed.

(* extending a tuple (by any further elements e) sorts after the shorter tuple and stays on the
   same side of every tuple u (and of every extension of u) that the shorter tuple is on *)
Theorem C16_v2_extension : forall t u e e', wf2 t -> wf2 u -> same_shape2 t u ->
  (e <> [] -> lex_cmp (encode2 t) (encode2 (t ++ e)) = Lt) /\
  (tuple_cmp2 t u = Lt -> lex_cmp (encode2 (t ++ e)) (encode2 (u ++ e')) = Lt) /\
  (tuple_cmp2 t u = Gt -> lex_cmp (encode2 (t ++ e)) (encode2 (u ++ e')) = Gt).
Proof. exact v2_extension. Qed.

(* decoding with the same type sequence returns the original tuple *)
Theorem C16_v2_decode_encode : forall t, wf2 t -> decode2 (map ty_of2 t) (encode2 t) = Ok t.
Proof. exact decode2_encode. Qed.

(* decoding arbitrary bytes with any type sequence never panics *)
Theorem C16_v2_decode_no_panic : forall tys bytes, decode2 tys bytes <> Panic.
Proof. exact decode2_no_panic. Qed.

(* the parser accepts exactly the builder's output: whatever it returns re-encodes to the bytes
   it was given (canonical integers, exact escapes), has the requested types and is in range *)
Theorem C16_v2_decode_canonical : forall tys bytes t, bytes_ok bytes -> decode2 tys bytes = Ok t ->
  encode2 t = bytes /\ map ty_of2 t = tys /\ (Forall ty_ok tys -> wf2 t).
Proof. exact decode2_inv. Qed.

(* ====================================================== field-numbered format (tuple_key) *)

(* encoding never trips the iterator's assert and never runs out of fuel *)
Theorem C16_v1_encode_total : forall t, wf1 t -> exists bytes, encode1 t = Some bytes.
Proof. exact v1_encode_total. Qed.

(* order preservation, descending elements reversed — for every pair outside the class F12 *)
Theorem C16_v1_order_outside_known : forall t u a b, wf1 t -> wf1 u -> same_shape1 t u ->
  encode1 t = Some a -> encode1 u = Some b -> known_F12 t u = false ->
  lex_cmp a b = tuple_cmp1 t u.
Proof. exact v1_order_outside_known. Qed.

(* the class is exact: every pair inside it sorts the wrong way round *)
Theorem C16_v1_order_inside_known : forall t u a b, wf1 t -> wf1 u -> same_shape1 t u ->
  encode1 t = Some a -> encode1 u = Some b -> known_F12 t u = true ->
  lex_cmp a b = CompOpp (tuple_cmp1 t u) /\ tuple_cmp1 t u <> Eq.
Proof. exact v1_order_inside_known. Qed.

(* F12: the unrestricted order statement is false of the code ("a" vs "a\0", descending) *)
Theorem C16_v1_order_refuted : exists t u a b,
  wf1 t /\ wf1 u /\ same_shape1 t u /\ encode1 t = Some a /\ encode1 u = Some b /\
  lex_cmp a b <> tuple_cmp1 t u.
Proof.
  exists [mkField 1 Reverse (V1String [97])], [mkField 1 Reverse (V1String [97; 0])],
         [60; 159; 126], [60; 159; 127; 254].
  split; [|split; [|split; [|split; [|split]]]].
  - repeat constructor.
  - repeat constructor.
  - reflexivity.
  - vm_compute. reflexivity.
  - vm_compute. reflexivity.
  - vm_compute. discriminate.
Qed.

(* prefix-freeness holds everywhere, the class included *)
Theorem C16_v1_prefix_free : forall t u a b, wf1 t -> wf1 u -> same_shape1 t u ->
  encode1 t = Some a -> encode1 u = Some b ->
  (tuple_cmp1 t u <> Eq -> diverge a b) /\ (tuple_cmp1 t u = Eq -> a = b).
Proof.
  intros t u a b Wt Wu S Ea Eb.
  exact (conj (v1_prefix_free t u a b Wt Wu S Ea Eb) (v1_equal t u a b Wt Wu S Ea Eb)).
Qed.

(* extension contiguity (the second and third parts outside the class) *)
Theorem C16_v1_extension : forall t u e e' a b ae be, wf1 (t ++ e) -> wf1 (u ++ e') -> same_shape1 t u ->
  encode1 t = Some a -> encode1 u = Some b ->
  encode1 (t ++ e) = Some ae -> encode1 (u ++ e') = Some be ->
  (e <> [] -> lex_cmp a ae = Lt) /\
  (known_F12 t u = false -> tuple_cmp1 t u = Lt -> lex_cmp ae be = Lt) /\
  (known_F12 t u = false -> tuple_cmp1 t u = Gt -> lex_cmp ae be = Gt).
Proof. exact v1_extension. Qed.

(* the typed parser (either entry point for unit fields; trailing bytes are not looked at)
   returns the original values *)
Theorem C16_v1_decode_encode : forall via t a rest, wf1 t -> Forall (fun fl => utf8_el1 (f_val fl)) t ->
  encode1 t = Some a -> decode1 via (map shape_of t) (a ++ rest) = Ok1 (map f_val t).
Proof. exact v1_decode_encode. Qed.

(* decoding arbitrary bytes against any shape never panics *)
Theorem C16_v1_decode_no_panic : forall via shape bytes, decode1 via shape bytes <> Panic1.
Proof. exact decode1_no_panic. Qed.

(* TupleKeyParser::peek_next (the untyped path used by Schema) reads back the first field's number,
   type and direction from an encoded key: unfield_number inverts field_number *)
Theorem C16_v1_peek_next : forall fl t a rest, wf1 (fl :: t) -> encode1 (fl :: t) = Some a ->
  peek_next (a ++ rest) = Some (Some (f_num fl, kty_of (f_val fl), f_dir fl)).
Proof. exact v1_peek_next. Qed.

(* ---- non-vacuity: the hypotheses are met by concrete, non-trivial tuples ---- *)
Ltac wf_solve :=
  repeat match goal with
  | |- Forall _ [] => apply Forall_nil
  | |- Forall _ (_ :: _) => apply Forall_cons
  | |- _ /\ _ => split
  | |- True => exact I
  | |- _ \/ _ => first [left; reflexivity | right]
  | |- _ = _ => vm_compute; reflexivity
  | |- N.lt _ _ => vm_compute; reflexivity
  | |- Z.lt _ _ => vm_compute; reflexivity
  | |- Z.le _ _ => vm_compute; discriminate
  end.
Definition ex2_t : list el2 := [V2String [97; 0; 127]; V2U 32 255; V2I 64 (-257); V2Bytes [0; 255]; V2Unit].
Definition ex2_u : list el2 := [V2String [97; 0; 127]; V2U 32 256; V2I 64 (-257); V2Bytes []; V2Unit].

Example ex2_wf : wf2 ex2_t /\ wf2 ex2_u /\ same_shape2 ex2_t ex2_u /\ tuple_cmp2 ex2_t ex2_u = Lt /\
  encode2 ex2_t = [97; 0; 255; 127; 0; 0; 35; 255; 22; 254; 255; 0; 255; 255; 0; 0; 43].
Proof.
  split; [|split; [|split; [|split]]].
  - unfold wf2, ex2_t. wf_solve; cbv [wf_el2 width_ok bytes_ok]; wf_solve.
  - unfold wf2, ex2_u. wf_solve; cbv [wf_el2 width_ok bytes_ok]; wf_solve.
  - reflexivity.
  - vm_compute. reflexivity.
  - vm_compute. reflexivity.
Qed.

Definition ex1_t : list field1 :=
  [mkField 1 Reverse (V1String [97; 98]); mkField 300 Forward (V1I64 (-1)); mkField 7 Reverse V1Unit].
Definition ex1_u : list field1 :=
  [mkField 1 Reverse (V1String [97; 99]); mkField 300 Forward (V1I64 5); mkField 7 Reverse V1Unit].

Example ex1_wf : wf1 ex1_t /\ wf1 ex1_u /\ same_shape1 ex1_t ex1_u /\ known_F12 ex1_t ex1_u = false /\
  tuple_cmp1 ex1_t ex1_u = Gt /\ Forall (fun fl => utf8_el1 (f_val fl)) ex1_t.
Proof.
  split; [|split; [|split; [|split; [|split]]]].
  - unfold wf1, ex1_t. wf_solve; cbv [wf_field1 wf_el1 bytes_ok f_val f_num]; wf_solve.
  - unfold wf1, ex1_u. wf_solve; cbv [wf_field1 wf_el1 bytes_ok f_val f_num]; wf_solve.
  - reflexivity.
  - vm_compute. reflexivity.
  - vm_compute. reflexivity.
  - unfold ex1_t. wf_solve; cbv [utf8_el1 f_val]; wf_solve.
Qed.
